From Coq Require Import List NArith String.
From V Require Import Base.Util Corr.RunC15.
Import ListNotations. Open Scope string_scope.
Definition c0 : case := ("{)", " {
    )").
Definition c1 : case := ("(}", "(
    
}").
Definition c2 : case := (") ", ") ").
Definition c3 : case := (">,", ">,
").
Definition c4 : case := ("a<", "a<
    ").
Definition c5 : case := ("{{(", " {
     {
        (
            ").
Definition c6 : case := ("{({", " {
    (
         {
            ").
Definition c7 : case := ("{)a", " {
    )a").
Definition c8 : case := ("{>>", " {
    >>").
Definition c9 : case := ("{a)", " {
    a)").
Definition c10 : case := ("}{}", "
} {

}").
Definition c11 : case := ("}} ", "
}
} ").
Definition c12 : case := ("}),", "
}),
").
Definition c13 : case := ("}><", "
}><
").
Definition c14 : case := ("}a(", "
}a(
").
Definition c15 : case := ("({{", "(
     {
         {
            ").
Definition c16 : case := ("(}a", "(
    
}a").
Definition c17 : case := ("()>", "()>").
Definition c18 : case := ("(>)", "(>)").
Definition c19 : case := ("(a}", "(
    a
}").
Definition c20 : case := ("(  ", "(
      ").
Definition c21 : case := (")},", ")
},
").
Definition c22 : case := ("))<", "))<
    ").
Definition c23 : case := (")>(", ")>(
    ").
Definition c24 : case := (")a{", ")a {
    ").
Definition c25 : case := (") a", ") a").
Definition c26 : case := ("<}>", "<
}>").
Definition c27 : case := ("<))", "<
    ))").
Definition c28 : case := ("<>}", "<>
}").
Definition c29 : case := ("<, ", "<
    ,
     ").
Definition c30 : case := ("< ,", "<
     ,
    ").
Definition c31 : case := (">}<", ">
}<
").
Definition c32 : case := (">)(", ">)(
    ").
Definition c33 : case := (">>{", ">> {
    ").
Definition c34 : case := (">,a", ">,
a").
Definition c35 : case := ("> >", "> >").
Definition c36 : case := (",})", ",

})").
Definition c37 : case := (",)}", ",
)
}").
Definition c38 : case := (",< ", ",
<
     ").
Definition c39 : case := (",,,", ",
,
,
").
Definition c40 : case := (", <", ",
 <
    ").
Definition c41 : case := ("a}(", "a
}(
").
Definition c42 : case := ("a){", "a) {
    ").
Definition c43 : case := ("a<a", "a<
    a").
Definition c44 : case := ("a,>", "a,
>").
Definition c45 : case := ("a )", "a )").
Definition c46 : case := (" }}", " 
}
}").
Definition c47 : case := (" ( ", " (
     ").
Definition c48 : case := (" <,", " <
    ,
    ").
Definition c49 : case := (" ,<", " ,
<
    ").
Definition c50 : case := ("  (", "  (
    ").
Definition c51 : case := ("{{}{", " {
     {
        
    } {
        ").
Definition c52 : case := ("{{(a", " {
     {
        (
            a").
Definition c53 : case := ("{{<>", " {
     {
        <>").
Definition c54 : case := ("{{,)", " {
     {
        ,
        )").
Definition c55 : case := ("{{ }", " {
     {
         
    }").
Definition c56 : case := ("{}{ ", " {
    
} {
     ").
Definition c57 : case := ("{}(,", " {
    
}(
    ,
    ").
Definition c58 : case := ("{}<<", " {
    
}<
    <
        ").
Definition c59 : case := ("{},(", " {
    
},
(
    ").
Definition c60 : case := ("{} {", " {
    
}  {
    ").
Definition c61 : case := ("{({a", " {
    (
         {
            a").
Definition c62 : case := ("{((>", " {
    (
        (
            >").
Definition c63 : case := ("{(<)", " {
    (<
        )").
Definition c64 : case := ("{(,}", " {
    (
        ,
        
    }").
Definition c65 : case := ("{(a ", " {
    (
        a ").
Definition c66 : case := ("{){,", " {
    ) {
        ,
        ").
Definition c67 : case := ("{)(<", " {
    )(
        <
            ").
Definition c68 : case := ("{)<(", " {
    )<
        (
            ").
Definition c69 : case := ("{),{", " {
    ),
     {
        ").
Definition c70 : case := ("{)aa", " {
    )aa").
Definition c71 : case := ("{<{>", " {
    <
         {
            
        >").
Definition c72 : case := ("{<()", " {
    <
        ()").
Definition c73 : case := ("{<<}", " {
    <
        <
            
        }").
Definition c74 : case := ("{<> ", " {
    <> ").
Definition c75 : case := ("{<a,", " {
    <
        a,
        ").
Definition c76 : case := ("{>{<", " {
    > {
        <
            ").
Definition c77 : case := ("{>((", " {
    >(
        (
            ").
Definition c78 : case := ("{><{", " {
    ><
         {
            ").
Definition c79 : case := ("{>>a", " {
    >>a").
Definition c80 : case := ("{>a>", " {
    >a>").
Definition c81 : case := ("{,{)", " {
    ,
     {
        )").
Definition c82 : case := ("{,(}", " {
    ,
    (
        
    }").
Definition c83 : case := ("{,) ", " {
    ,
    ) ").
Definition c84 : case := ("{,>,", " {
    ,
    >,
    ").
Definition c85 : case := ("{,a<", " {
    ,
    a<
        ").
Definition c86 : case := ("{a{(", " {
    a {
        (
            ").
Definition c87 : case := ("{a({", " {
    a(
         {
            ").
Definition c88 : case := ("{a)a", " {
    a)a").
Definition c89 : case := ("{a>>", " {
    a>>").
Definition c90 : case := ("{aa)", " {
    aa)").
Definition c91 : case := ("{ {}", " {
      {
        
    }").
Definition c92 : case := ("{ } ", " {
     
} ").
Definition c93 : case := ("{ ),", " {
     ),
    ").
Definition c94 : case := ("{ ><", " {
     ><
        ").
Definition c95 : case := ("{ a(", " {
     a(
        ").
Definition c96 : case := ("}{{{", "
} {
 {
     {
        ").
Definition c97 : case := ("}{}a", "
} {

}a").
Definition c98 : case := ("}{)>", "
} {
)>").
Definition c99 : case := ("}{>)", "
} {
>)").
Definition c100 : case := ("}{a}", "
} {
a
}").
Definition c101 : case := ("}{  ", "
} {
  ").
Definition c102 : case := ("}}},", "
}
}
},
").
Definition c103 : case := ("}})<", "
}
})<
").
Definition c104 : case := ("}}>(", "
}
}>(
").
Definition c105 : case := ("}}a{", "
}
}a {
").
Definition c106 : case := ("}} a", "
}
} a").
Definition c107 : case := ("}(}>", "
}(

}>").
Definition c108 : case := ("}())", "
}())").
Definition c109 : case := ("}(>}", "
}(
>
}").
Definition c110 : case := ("}(, ", "
}(
,
 ").
Definition c111 : case := ("}( ,", "
}(
 ,
").
Definition c112 : case := ("})}<", "
})
}<
").
Definition c113 : case := ("}))(", "
}))(
").
Definition c114 : case := ("})>{", "
})> {
").
Definition c115 : case := ("}),a", "
}),
a").
Definition c116 : case := ("}) >", "
}) >").
Definition c117 : case := ("}<})", "
}<

})").
Definition c118 : case := ("}<)}", "
}<
)
}").
Definition c119 : case := ("}<< ", "
}<
<
     ").
Definition c120 : case := ("}<,,", "
}<
,
,
").
Definition c121 : case := ("}< <", "
}<
 <
    ").
Definition c122 : case := ("}>}(", "
}>
}(
").
Definition c123 : case := ("}>){", "
}>) {
").
Definition c124 : case := ("}><a", "
}><
a").
Definition c125 : case := ("}>,>", "
}>,
>").
Definition c126 : case := ("}> )", "
}> )").
Definition c127 : case := ("},}}", "
},

}
}").
Definition c128 : case := ("},( ", "
},
(
 ").
Definition c129 : case := ("},<,", "
},
<
,
").
Definition c130 : case := ("},,<", "
},
,
<
").
Definition c131 : case := ("}, (", "
},
 (
").
Definition c132 : case := ("}a}{", "
}a
} {
").
Definition c133 : case := ("}a(a", "
}a(
a").
Definition c134 : case := ("}a<>", "
}a<>").
Definition c135 : case := ("}a,)", "
}a,
)").
Definition c136 : case := ("}a }", "
}a 
}").
Definition c137 : case := ("} { ", "
}  {
 ").
Definition c138 : case := ("} (,", "
} (
,
").
Definition c139 : case := ("} <<", "
} <
<
    ").
Definition c140 : case := ("} ,(", "
} ,
(
").
Definition c141 : case := ("}  {", "
}   {
").
Definition c142 : case := ("({{a", "(
     {
         {
            a").
Definition c143 : case := ("({(>", "(
     {
        (
            >").
Definition c144 : case := ("({<)", "(
     {
        <
            
        )").
Definition c145 : case := ("({,}", "(
     {
        ,
        
    }").
Definition c146 : case := ("({a ", "(
     {
        a ").
Definition c147 : case := ("(}{,", "(
    
} {
    ,
    ").
Definition c148 : case := ("(}(<", "(
    
}(
    <
        ").
Definition c149 : case := ("(}<(", "(
    
}<
    (
        ").
Definition c150 : case := ("(},{", "(
    
},
 {
    ").
Definition c151 : case := ("(}aa", "(
    
}aa").
Definition c152 : case := ("(({>", "(
    (
         {
            >").
Definition c153 : case := ("((()", "(
    (
        ()").
Definition c154 : case := ("((<}", "(
    (
        <
            
        }").
Definition c155 : case := ("((> ", "(
    (
        > ").
Definition c156 : case := ("((a,", "(
    (
        a,
        ").
Definition c157 : case := ("(){<", "() {
    <
        ").
Definition c158 : case := ("()((", "()(
    (
        ").
Definition c159 : case := ("()<{", "()<
     {
        ").
Definition c160 : case := ("()>a", "()>a").
Definition c161 : case := ("()a>", "()a>").
Definition c162 : case := ("(<{)", "(
    <
         {
            
        )").
Definition c163 : case := ("(<(}", "(
    <
        (
            
        }").
Definition c164 : case := ("(<) ", "(<
    ) ").
Definition c165 : case := ("(<>,", "(
    <>,
    ").
Definition c166 : case := ("(<a<", "(
    <
        a<
            ").
Definition c167 : case := ("(>{(", "(
    > {
        (
            ").
Definition c168 : case := ("(>({", "(
    >(
         {
            ").
Definition c169 : case := ("(>)a", "(>)a").
Definition c170 : case := ("(>>>", "(
    >>>").
Definition c171 : case := ("(>a)", "(>a)").
Definition c172 : case := ("(,{}", "(
    ,
     {
        
    }").
Definition c173 : case := ("(,} ", "(
    ,
    
} ").
Definition c174 : case := ("(,),", "(, ),
").
Definition c175 : case := ("(,><", "(
    ,
    ><
        ").
Definition c176 : case := ("(,a(", "(
    ,
    a(
        ").
Definition c177 : case := ("(a{{", "(
    a {
         {
            ").
Definition c178 : case := ("(a}a", "(
    a
}a").
Definition c179 : case := ("(a)>", "(a)>").
Definition c180 : case := ("(a>)", "(a>)").
Definition c181 : case := ("(aa}", "(
    aa
}").
Definition c182 : case := ("(a  ", "(
    a  ").
Definition c183 : case := ("( },", "(
     
},
").
Definition c184 : case := ("( )<", "( )<
    ").
Definition c185 : case := ("( >(", "(
     >(
        ").
Definition c186 : case := ("( a{", "(
     a {
        ").
Definition c187 : case := ("(  a", "(
      a").
Definition c188 : case := ("){}>", ") {
    
}>").
Definition c189 : case := ("){))", ") {
    ))").
Definition c190 : case := ("){>}", ") {
    >
}").
Definition c191 : case := ("){, ", ") {
    ,
     ").
Definition c192 : case := ("){ ,", ") {
     ,
    ").
Definition c193 : case := (")}}<", ")
}
}<
").
Definition c194 : case := (")})(", ")
})(
").
Definition c195 : case := (")}>{", ")
}> {
").
Definition c196 : case := (")},a", ")
},
a").
Definition c197 : case := (")} >", ")
} >").
Definition c198 : case := (")(})", ")(
})").
Definition c199 : case := (")()}", ")()
}").
Definition c200 : case := (")(< ", ")(
    <
         ").
Definition c201 : case := (")(,,", ")(
    ,
    ,
    ").
Definition c202 : case := (")( <", ")(
     <
        ").
Definition c203 : case := ("))}(", "))
}(
").
Definition c204 : case := ("))){", "))) {
    ").
Definition c205 : case := ("))<a", "))<
    a").
Definition c206 : case := (")),>", ")),
>").
Definition c207 : case := (")) )", ")) )").
Definition c208 : case := (")<}}", ")<
    
}
}").
Definition c209 : case := (")<( ", ")<
    (
         ").
Definition c210 : case := (")<<,", ")<
    <
        ,
        ").
Definition c211 : case := (")<,<", ")<
    ,
    <
        ").
Definition c212 : case := (")< (", ")<
     (
        ").
Definition c213 : case := (")>}{", ")>
} {
").
Definition c214 : case := (")>(a", ")>(
    a").
Definition c215 : case := (")><>", ")><>").
Definition c216 : case := (")>,)", ")>,
)").
Definition c217 : case := (")> }", ")> 
}").
Definition c218 : case := ("),{ ", "),
 {
     ").
Definition c219 : case := ("),(,", "),
(
    ,
    ").
Definition c220 : case := ("),<<", "),
<
    <
        ").
Definition c221 : case := ("),,(", "),
,
(
    ").
Definition c222 : case := ("), {", "),
  {
    ").
Definition c223 : case := (")a{a", ")a {
    a").
Definition c224 : case := (")a(>", ")a(
    >").
Definition c225 : case := (")a<)", ")a<
    )").
Definition c226 : case := (")a,}", ")a,

}").
Definition c227 : case := (")aa ", ")aa ").
Definition c228 : case := (") {,", ")  {
    ,
    ").
Definition c229 : case := (") (<", ") (
    <
        ").
Definition c230 : case := (") <(", ") <
    (
        ").
Definition c231 : case := (") ,{", ") ,
 {
    ").
Definition c232 : case := (") aa", ") aa").
Definition c233 : case := ("<{{>", "<
     {
         {
            
        >").
Definition c234 : case := ("<{()", "<
     {
        ()").
Definition c235 : case := ("<{<}", "<
     {
        <
            
        }").
Definition c236 : case := ("<{> ", "<
     {
        
    > ").
Definition c237 : case := ("<{a,", "<
     {
        a,
        ").
Definition c238 : case := ("<}{<", "<
    
} {
    <
        ").
Definition c239 : case := ("<}((", "<
    
}(
    (
        ").
Definition c240 : case := ("<}<{", "<
    
}<
     {
        ").
Definition c241 : case := ("<}>a", "<
}>a").
Definition c242 : case := ("<}a>", "<
}a>").
Definition c243 : case := ("<({)", "<
    (
         {
            
        )").
Definition c244 : case := ("<((}", "<
    (
        (
            
        }").
Definition c245 : case := ("<() ", "<
    () ").
Definition c246 : case := ("<(>,", "<(
    >,
    ").
Definition c247 : case := ("<(a<", "<
    (
        a<
            ").
Definition c248 : case := ("<){(", "<
    ) {
        (
            ").
Definition c249 : case := ("<)({", "<
    )(
         {
            ").
Definition c250 : case := ("<))a", "<
    ))a").
Definition c251 : case := ("<)>>", "<)>>").
Definition c252 : case := ("<)a)", "<
    )a)").
Definition c253 : case := ("<<{}", "<
    <
         {
            
        }").
Definition c254 : case := ("<<} ", "<
    <
        
    } ").
Definition c255 : case := ("<<),", "<
    <
        ),
        ").
Definition c256 : case := ("<<><", "<
    <><
        ").
Definition c257 : case := ("<<a(", "<
    <
        a(
            ").
Definition c258 : case := ("<>{{", "<> {
     {
        ").
Definition c259 : case := ("<>}a", "<>
}a").
Definition c260 : case := ("<>)>", "<>)>").
Definition c261 : case := ("<>>)", "<>>)").
Definition c262 : case := ("<>a}", "<>a
}").
Definition c263 : case := ("<>  ", "<>  ").
Definition c264 : case := ("<,},", "<
    ,
    
},
").
Definition c265 : case := ("<,)<", "<
    ,
    )<
        ").
Definition c266 : case := ("<,>(", "<,
>(
    ").
Definition c267 : case := ("<,a{", "<
    ,
    a {
        ").
Definition c268 : case := ("<, a", "<
    ,
     a").
Definition c269 : case := ("<a}>", "<a
}>").
Definition c270 : case := ("<a))", "<
    a))").
Definition c271 : case := ("<a>}", "<a>
}").
Definition c272 : case := ("<a, ", "<
    a,
     ").
Definition c273 : case := ("<a ,", "<
    a ,
    ").
Definition c274 : case := ("< }<", "<
     
}<
    ").
Definition c275 : case := ("< )(", "<
     )(
        ").
Definition c276 : case := ("< >{", "< > {
    ").
Definition c277 : case := ("< ,a", "<
     ,
    a").
Definition c278 : case := ("<  >", "<  >").
Definition c279 : case := (">{})", "> {
    
})").
Definition c280 : case := (">{)}", "> {
    )
}").
Definition c281 : case := (">{< ", "> {
    <
         ").
Definition c282 : case := (">{,,", "> {
    ,
    ,
    ").
Definition c283 : case := (">{ <", "> {
     <
        ").
Definition c284 : case := (">}}(", ">
}
}(
").
Definition c285 : case := (">}){", ">
}) {
").
Definition c286 : case := (">}<a", ">
}<
a").
Definition c287 : case := (">},>", ">
},
>").
Definition c288 : case := (">} )", ">
} )").
Definition c289 : case := (">(}}", ">(
    
}
}").
Definition c290 : case := (">(( ", ">(
    (
         ").
Definition c291 : case := (">(<,", ">(
    <
        ,
        ").
Definition c292 : case := (">(,<", ">(
    ,
    <
        ").
Definition c293 : case := (">( (", ">(
     (
        ").
Definition c294 : case := (">)}{", ">)
} {
").
Definition c295 : case := (">)(a", ">)(
    a").
Definition c296 : case := (">)<>", ">)<>").
Definition c297 : case := (">),)", ">),
)").
Definition c298 : case := (">) }", ">) 
}").
Definition c299 : case := ("><{ ", "><
     {
         ").
Definition c300 : case := ("><(,", "><
    (
        ,
        ").
Definition c301 : case := ("><<<", "><
    <
        <
            ").
Definition c302 : case := ("><,(", "><
    ,
    (
        ").
Definition c303 : case := (">< {", "><
      {
        ").
Definition c304 : case := (">>{a", ">> {
    a").
Definition c305 : case := (">>(>", ">>(
    >").
Definition c306 : case := (">><)", ">><
    )").
Definition c307 : case := (">>,}", ">>,

}").
Definition c308 : case := (">>a ", ">>a ").
Definition c309 : case := (">,{,", ">,
 {
    ,
    ").
Definition c310 : case := (">,(<", ">,
(
    <
        ").
Definition c311 : case := (">,<(", ">,
<
    (
        ").
Definition c312 : case := (">,,{", ">,
,
 {
    ").
Definition c313 : case := (">,aa", ">,
aa").
Definition c314 : case := (">a{>", ">a {
    >").
Definition c315 : case := (">a()", ">a()").
Definition c316 : case := (">a<}", ">a<
    
}").
Definition c317 : case := (">a> ", ">a> ").
Definition c318 : case := (">aa,", ">aa,
").
Definition c319 : case := ("> {<", ">  {
    <
        ").
Definition c320 : case := ("> ((", "> (
    (
        ").
Definition c321 : case := ("> <{", "> <
     {
        ").
Definition c322 : case := ("> >a", "> >a").
Definition c323 : case := ("> a>", "> a>").
Definition c324 : case := (",{{)", ",
 {
     {
        )").
Definition c325 : case := (",{(}", ",
 {
    (
        
    }").
Definition c326 : case := (",{) ", ",
 {
    ) ").
Definition c327 : case := (",{>,", ",
 {
    >,
    ").
Definition c328 : case := (",{a<", ",
 {
    a<
        ").
Definition c329 : case := (",}{(", ",

} {
(
    ").
Definition c330 : case := (",}({", ",

}(
 {
    ").
Definition c331 : case := (",})a", ",

})a").
Definition c332 : case := (",}>>", ",

}>>").
Definition c333 : case := (",}a)", ",

}a)").
Definition c334 : case := (",({}", ",
(
     {
        
    }").
Definition c335 : case := (",(} ", ",
(
    
} ").
Definition c336 : case := (",(),", ",
(),
").
Definition c337 : case := (",(><", ",
(
    ><
        ").
Definition c338 : case := (",(a(", ",
(
    a(
        ").
Definition c339 : case := (",){{", ",
) {
     {
        ").
Definition c340 : case := (",)}a", ",
)
}a").
Definition c341 : case := (",))>", ",
))>").
Definition c342 : case := (",)>)", ",
)>)").
Definition c343 : case := (",)a}", ",
)a
}").
Definition c344 : case := (",)  ", ",
)  ").
Definition c345 : case := (",<},", ",
<
    
},
").
Definition c346 : case := (",<)<", ",
<
    )<
        ").
Definition c347 : case := (",<>(", ",
<>(
    ").
Definition c348 : case := (",<a{", ",
<
    a {
        ").
Definition c349 : case := (",< a", ",
<
     a").
Definition c350 : case := (",>}>", ",
>
}>").
Definition c351 : case := (",>))", ",
>))").
Definition c352 : case := (",>>}", ",
>>
}").
Definition c353 : case := (",>, ", ",
>,
 ").
Definition c354 : case := (",> ,", ",
> ,
").
Definition c355 : case := (",,}<", ",
,

}<
").
Definition c356 : case := (",,)(", ",
,
)(
    ").
Definition c357 : case := (",,>{", ",
,
> {
    ").
Definition c358 : case := (",,,a", ",
,
,
a").
Definition c359 : case := (",, >", ",
,
 >").
Definition c360 : case := (",a})", ",
a
})").
Definition c361 : case := (",a)}", ",
a)
}").
Definition c362 : case := (",a< ", ",
a<
     ").
Definition c363 : case := (",a,,", ",
a,
,
").
Definition c364 : case := (",a <", ",
a <
    ").
Definition c365 : case := (", }(", ",
 
}(
").
Definition c366 : case := (", ){", ",
 ) {
    ").
Definition c367 : case := (", <a", ",
 <
    a").
Definition c368 : case := (", ,>", ",
 ,
>").
Definition c369 : case := (",  )", ",
  )").
Definition c370 : case := ("a{}}", "a {
    
}
}").
Definition c371 : case := ("a{( ", "a {
    (
         ").
Definition c372 : case := ("a{<,", "a {
    <
        ,
        ").
Definition c373 : case := ("a{,<", "a {
    ,
    <
        ").
Definition c374 : case := ("a{ (", "a {
     (
        ").
Definition c375 : case := ("a}}{", "a
}
} {
").
Definition c376 : case := ("a}(a", "a
}(
a").
Definition c377 : case := ("a}<>", "a
}<>").
Definition c378 : case := ("a},)", "a
},
)").
Definition c379 : case := ("a} }", "a
} 
}").
Definition c380 : case := ("a({ ", "a(
     {
         ").
Definition c381 : case := ("a((,", "a(
    (
        ,
        ").
Definition c382 : case := ("a(<<", "a(
    <
        <
            ").
Definition c383 : case := ("a(,(", "a(
    ,
    (
        ").
Definition c384 : case := ("a( {", "a(
      {
        ").
Definition c385 : case := ("a){a", "a) {
    a").
Definition c386 : case := ("a)(>", "a)(
    >").
Definition c387 : case := ("a)<)", "a)<
    )").
Definition c388 : case := ("a),}", "a),

}").
Definition c389 : case := ("a)a ", "a)a ").
Definition c390 : case := ("a<{,", "a<
     {
        ,
        ").
Definition c391 : case := ("a<(<", "a<
    (
        <
            ").
Definition c392 : case := ("a<<(", "a<
    <
        (
            ").
Definition c393 : case := ("a<,{", "a<
    ,
     {
        ").
Definition c394 : case := ("a<aa", "a<
    aa").
Definition c395 : case := ("a>{>", "a> {
    >").
Definition c396 : case := ("a>()", "a>()").
Definition c397 : case := ("a><}", "a><
    
}").
Definition c398 : case := ("a>> ", "a>> ").
Definition c399 : case := ("a>a,", "a>a,
").
Definition c400 : case := ("a,{<", "a,
 {
    <
        ").
Definition c401 : case := ("a,((", "a,
(
    (
        ").
Definition c402 : case := ("a,<{", "a,
<
     {
        ").
Definition c403 : case := ("a,>a", "a,
>a").
Definition c404 : case := ("a,a>", "a,
a>").
Definition c405 : case := ("aa{)", "aa {
    )").
Definition c406 : case := ("aa(}", "aa(
    
}").
Definition c407 : case := ("aa) ", "aa) ").
Definition c408 : case := ("aa>,", "aa>,
").
Definition c409 : case := ("aaa<", "aaa<
    ").
Definition c410 : case := ("a {(", "a  {
    (
        ").
Definition c411 : case := ("a ({", "a (
     {
        ").
Definition c412 : case := ("a )a", "a )a").
Definition c413 : case := ("a >>", "a >>").
Definition c414 : case := ("a a)", "a a)").
Definition c415 : case := (" {{}", "  {
     {
        
    }").
Definition c416 : case := (" {} ", "  {
    
} ").
Definition c417 : case := (" {),", "  {
    ),
    ").
Definition c418 : case := (" {><", "  {
    ><
        ").
Definition c419 : case := (" {a(", "  {
    a(
        ").
Definition c420 : case := (" }{{", " 
} {
 {
    ").
Definition c421 : case := (" }}a", " 
}
}a").
Definition c422 : case := (" })>", " 
})>").
Definition c423 : case := (" }>)", " 
}>)").
Definition c424 : case := (" }a}", " 
}a
}").
Definition c425 : case := (" }  ", " 
}  ").
Definition c426 : case := (" (},", " (
    
},
").
Definition c427 : case := (" ()<", " ()<
    ").
Definition c428 : case := (" (>(", " (
    >(
        ").
Definition c429 : case := (" (a{", " (
    a {
        ").
Definition c430 : case := (" ( a", " (
     a").
Definition c431 : case := (" )}>", " )
}>").
Definition c432 : case := (" )))", " )))").
Definition c433 : case := (" )>}", " )>
}").
Definition c434 : case := (" ), ", " ),
 ").
Definition c435 : case := (" ) ,", " ) ,
").
Definition c436 : case := (" <}<", " <
    
}<
    ").
Definition c437 : case := (" <)(", " <
    )(
        ").
Definition c438 : case := (" <>{", " <> {
    ").
Definition c439 : case := (" <,a", " <
    ,
    a").
Definition c440 : case := (" < >", " < >").
Definition c441 : case := (" >})", " >
})").
Definition c442 : case := (" >)}", " >)
}").
Definition c443 : case := (" >< ", " ><
     ").
Definition c444 : case := (" >,,", " >,
,
").
Definition c445 : case := (" > <", " > <
    ").
Definition c446 : case := (" ,}(", " ,

}(
").
Definition c447 : case := (" ,){", " ,
) {
    ").
Definition c448 : case := (" ,<a", " ,
<
    a").
Definition c449 : case := (" ,,>", " ,
,
>").
Definition c450 : case := (" , )", " ,
 )").
Definition c451 : case := (" a}}", " a
}
}").
Definition c452 : case := (" a( ", " a(
     ").
Definition c453 : case := (" a<,", " a<
    ,
    ").
Definition c454 : case := (" a,<", " a,
<
    ").
Definition c455 : case := (" a (", " a (
    ").
Definition c456 : case := ("  }{", "  
} {
").
Definition c457 : case := ("  (a", "  (
    a").
Definition c458 : case := ("  <>", "  <>").
Definition c459 : case := ("  ,)", "  ,
)").
Definition c460 : case := ("   }", "   
}").
Definition c461 : case := ("<<aaé,aa,,éaébbé,bb,,b,aé,aa,>>", "<<aaé,
aa,
,
éaébbé,
bb,
,
b,
aé,
aa,
>>").
Definition c462 : case := ("a<<a>é,,bb,baaa,baa,,é,bba,baéaéab,aé,,a,aaba>", "a<
    <a>é,
    ,
    bb,
    baaa,
    baa,
    ,
    é,
    bba,
    baéaéab,
    aé,
    ,
    a,
    aaba
>").
Definition c463 : case := ("((béaaa,bébba,éaababbbb,éb,ébé{é,,a)>", "(
    (
        béaaa,
        bébba,
        éaababbbb,
        éb,
        ébé {
            é,
            ,
            a
        )>").
Definition c464 : case := ("x{(b,,aba,bééééabé,,aé,abé)>", "x {
    (b, , aba, bééééabé, , aé, abé)>").
Definition c465 : case := ("<ébb,,éa,aéa,,ééb,,ééaa,ab,éaéb,bb,béa,a>,a", "<
    ébb,
    ,
    éa,
    aéa,
    ,
    ééb,
    ,
    ééaa,
    ab,
    éaéb,
    bb,
    béa,
    a
>,
a").
Definition c466 : case := ("{[bb::bx8,(];]][a][;:a[,{<:8]xa:]xa8>,;8]8x,:8[ax[,bxb]a]a:;[x:,<[a:xab:a,(<>,{[bbb:;xa::a,;::x:;;],[]ax[x},<u,u>),[a;b;,(xaa;,[bbb[;]a,{u})>},xx[8b[[:[;aa,8;x[),<>,{<[xba;[ab[]:,<<]][>,<<u,u,u,u>,{u,[]xxb88},{u,u,u},()>>>}}", " {
    [bb::bx8,
    (
        ];]][a][;:a[,
         {
            <:8]xa:]xa8>,
            ;8]8x,
            :8[ax[,
            bxb]a]a:;[x:,
            <
                [a:xab:a,
                (
                    <>,
                     {
                        [bbb:;xa::a,
                        ;::x:;;],
                        []ax[x
                    },
                    <u,
                    u>
                ),
                [a;b;,
                (
                    xaa;,
                    [bbb[;]a,
                     {
                        u
                    }
                )
            >
        },
        xx[8b[[:[;aa,
        8;x[
    ),
    <>,
     {
        <
            [xba;[ab[]:,
            <
                <]][>,
                <
                    <u,
                    u,
                    u,
                    u>,
                     {
                        u,
                        []xxb88
                    },
                     {
                        u,
                        u,
                        u
                    },
                    ()
                >
            >
        >
    }
}").
Definition c467 : case := ("xaxx[,x:;:b];],{[[x,<>,::;,];a]8,{<<<>,<{u},{8x}>>>}}", "xaxx[,
x:;:b];],
 {
    [[x,
    <>,
    ::;,
    ];a]8,
     {
        <
            <
                <>,
                <
                     {
                        u
                    },
                     {
                        8x
                    }
                >
            >
        >
    }
}").
Definition c468 : case := ("{<;8xb;xx:x,x,:;b[bb]>,{{]8:;b8:[,<{]ab,;a:8b8[ax8[b,<u,u,]x[[:[x:b8a[>},<(u,[8,u),(];;88b,bbbxb;];[[;;),{bx;]8]8[8:xb,][;x;[]x:;8}>>,({{8[]a;b;xbxba}})}}}", " {
    <;8xb;xx:x,
    x,
    :;b[bb]>,
     {
         {
            ]8:;b8:[,
            <
                 {
                    ]ab,
                    ;a:8b8[ax8[b,
                    <u,
                    u,
                    ]x[[:[x:b8a[>
                },
                <
                    (u, [8, u),
                    (];;88b, bbbxb;];[[;;),
                     {
                        bx;]8]8[8:xb,
                        ][;x;[]x:;8
                    }
                >
            >,
            (
                 {
                     {
                        8[]a;b;xbxba
                    }
                }
            )
        }
    }
}").
Definition c469 : case := ("<{}>,{{},b,{<{88x8a]8[}>}}", "<
     {
        
    }
>,
 {
     {
        
    },
    b,
     {
        <
             {
                88x8a]8[
            }
        >
    }
}").
Definition c470 : case := ("a]a[[b]b8,]][]][,{(bba;,:]b,][)},{[,<>,a:a;;8,{<<bb,({},{u},xxx8:,{u,u,ba8;x;8b;b;;,]b;a:b]}),<a:;a8;:x[8aa,[bx:8aa]a>,<b[bbx::;x8,(u,u,u,;x][:[b)>,<;a[:x:a;,[a;;:,(u,;b;],8abb]]:;ax]b,u,u),{u,a;8x8ab:,u},{ab;]:],x:x8]b}>>>,[[:],][8bxx[[[b}}", "a]a[[b]b8,
]][]][,
 {
    (bba;, :]b, ][)
},
 {
    [,
    <>,
    a:a;;8,
     {
        <
            <
                bb,
                (
                     {
                        
                    },
                     {
                        u
                    },
                    xxx8:,
                     {
                        u,
                        u,
                        ba8;x;8b;b;;,
                        ]b;a:b]
                    }
                ),
                <a:;a8;:x[8aa,
                [bx:8aa]a>,
                <b[bbx::;x8,
                (u, u, u, ;x][:[b)>,
                <
                    ;a[:x:a;,
                    [a;;:,
                    (u, ;b;], 8abb]]:;ax]b, u, u),
                     {
                        u,
                        a;8x8ab:,
                        u
                    },
                     {
                        ab;]:],
                        x:x8]b
                    }
                >
            >
        >,
        [[:],
        ][8bxx[[[b
    }
}").
Definition c471 : case := ("<[]a]x[>", "<[]a]x[>").
Definition c472 : case := ("{{{<>,<(),b,{[,{8]:a8][}},()>,<;8bb8,<(u,u)>,[;:x[b:8:]a,(),xb8[:]:aa8[]>}}}", " {
     {
         {
            <>,
            <
                (),
                b,
                 {
                    [,
                     {
                        8]:a8][
                    }
                },
                ()
            >,
            <
                ;8bb8,
                <(u, u)>,
                [;:x[b:8:]a,
                (),
                xb8[:]:aa8[]
            >
        }
    }
}").
Definition c473 : case := ("<ax>,<<{<;]][a,((u,u,:b];,u),;::]b:;;[8x,bbxaa,<u,u,u,u>,x;:;bax][:][),{8,;:[:x,88},{(u),<u>,(bbb:[]a:a[8,u,u,u,u)}>,({:;;]8[axa:b:,;a},:[[;a;:x,:,({;[;8;xxa},a:ab]::]8a[),(:[[b]:[:::))}>>", "<ax>,
<
    <
         {
            <
                ;]][a,
                (
                    (u, u, :b];, u),
                    ;::]b:;;[8x,
                    bbxaa,
                    <u,
                    u,
                    u,
                    u>,
                    x;:;bax][:][
                ),
                 {
                    8,
                    ;:[:x,
                    88
                },
                 {
                    (u),
                    <u>,
                    (bbb:[]a:a[8, u, u, u, u)
                }
            >,
            (
                 {
                    :;;]8[axa:b:,
                    ;a
                },
                :[[;a;:x,
                :,
                (
                     {
                        ;[;8;xxa
                    },
                    a:ab]::]8a[
                ),
                (:[[b]:[:::)
            )
        }
    >
>").
Definition c474 : case := ("{<<>>}", " {
    <<>>
}").
Definition c475 : case := ("<ax8x[[[8]],(<(<;x[,8,;a;;x88]a],{u,]bxb:;b],8a;;ab8aa8],u}>,bb8][;,{(u,u,];;]xx8,u),;,b]]8x]b,;]abbab;a;,()},x;8a[a:8;)>,((8:],];][:[x,<(u,u),xbab>)))>", "<
    ax8x[[[8]],
    (
        <
            (
                <
                    ;x[,
                    8,
                    ;a;;x88]a],
                     {
                        u,
                        ]bxb:;b],
                        8a;;ab8aa8],
                        u
                    }
                >,
                bb8][;,
                 {
                    (u, u, ];;]xx8, u),
                    ;,
                    b]]8x]b,
                    ;]abbab;a;,
                    ()
                },
                x;8a[a:8;
            )
        >,
        ((8:], ];][:[x, <(u, u), xbab>))
    )
>").
Definition c476 : case := ("<<>>,{<>,<8[[;8bbax];x,axa8;[8;ab>,(<[;b;:x:[a[8,<x;8ax[a[>,{<(),b;[>},{x[8b8:]888}>,a,(b),{{(a8],(u),bx,(baba,u)),axa[,::],(:a,{u})},{x]8[:][;bba,{(u,u)}},(a,aaa8a,(88;]8b8:;bx),{a},8:;x;)})}", "<<>>,
 {
    <>,
    <8[[;8bbax];x,
    axa8;[8;ab>,
    (
        <
            [;b;:x:[a[8,
            <x;8ax[a[>,
             {
                <(),
                b;[>
            },
             {
                x[8b8:]888
            }
        >,
        a,
        (b),
         {
             {
                (a8], (u), bx, (baba, u)),
                axa[,
                ::],
                (
                    :a,
                     {
                        u
                    }
                )
            },
             {
                x]8[:][;bba,
                 {
                    (u, u)
                }
            },
            (
                a,
                aaa8a,
                (88;]8b8:;bx),
                 {
                    a
                },
                8:;x;
            )
        }
    )
}").
Definition c477 : case := ("<{},<8:8;[a;;[88,]xb>,xx;;],[aaa8x:b]>,(),(:]),(({(][[x]x),<x;;8x][ba8],<>,;8]:xb8a:;][,{aa8b;axbb]b}>,];;[8x,(<>,:]bx]b:a,<xxx8xx:,<u>>,a[]]:]:8)},([xbb[,{a:;;b]x:},(<>))))", "<
     {
        
    },
    <8:8;[a;;[88,
    ]xb>,
    xx;;],
    [aaa8x:b]
>,
(),
(:]),
(
    (
         {
            (][[x]x),
            <
                x;;8x][ba8],
                <>,
                ;8]:xb8a:;][,
                 {
                    aa8b;axbb]b
                }
            >,
            ];;[8x,
            (
                <>,
                :]bx]b:a,
                <xxx8xx:,
                <u>>,
                a[]]:]:8
            )
        },
        (
            [xbb[,
             {
                a:;;b]x:
            },
            (<>)
        )
    )
)").
Definition c478 : case := (":]:xb]aabab,(<8:[[[ba[x8;],{(:88x;bxx[,{},{x]:x88xx},(],xa8;ab[x)),<{<8;ab,u,8[x,u>,b8x8]}>,{((]bx:,]8x:a88b),;:x8a[,:8,{u,u})}}>)", ":]:xb]aabab,
(
    <
        8:[[[ba[x8;],
         {
            (
                :88x;bxx[,
                 {
                    
                },
                 {
                    x]:x88xx
                },
                (], xa8;ab[x)
            ),
            <
                 {
                    <8;ab,
                    u,
                    8[x,
                    u>,
                    b8x8]
                }
            >,
             {
                (
                    (]bx:, ]8x:a88b),
                    ;:x8a[,
                    :8,
                     {
                        u,
                        u
                    }
                )
            }
        }
    >
)").
Definition c479 : case := ("(xa]:[xaxx[b,<<(<;8:xaxba][;b,([x]8[:]][a,[b;x[a;:;;)>)>>)", "(
    xa]:[xaxx[b,
    <
        <
            (
                <
                    ;8:xaxba][;b,
                    ([x]8[:]][a, [b;x[a;:;;)
                >
            )
        >
    >
)").
Definition c480 : case := ("]bb[b:,<<]b]a,<{<{}>}>>>", "]bb[b:,
<
    <
        ]b]a,
        <
             {
                <
                     {
                        
                    }
                >
            }
        >
    >
>").
Definition c481 : case := ("(]x8[,({;xa,<;:[a,{(u)},{{u,xab;[xx8xx,[b[[ba:[:],u,u},(u,u,u),(u,u,u,[[:];;;axbax,u)}>,(a8:)},<8:x]88[a][,{b[},{},{x[,b8x:[x:;:b8}>))", "(
    ]x8[,
    (
         {
            ;xa,
            <
                ;:[a,
                 {
                    (u)
                },
                 {
                     {
                        u,
                        xab;[xx8xx,
                        [b[[ba:[:],
                        u,
                        u
                    },
                    (u, u, u),
                    (u, u, u, [[:];;;axbax, u)
                }
            >,
            (a8:)
        },
        <
            8:x]88[a][,
             {
                b[
            },
             {
                
            },
             {
                x[,
                b8x:[x:;:b8
            }
        >
    )
)").
Definition c482 : case := ("a", "a").
Definition c483 : case := ("ba:8[;;[]]", "ba:8[;;[]]").
Definition c484 : case := ("((({<<a:b;:,a]a]x[xa]8>,<u,8;aa>,b,<u>,xaxaaa:[b[:>,{{b[[;a:x;8],:[x;;ax:,8:][8;x},(u,:]abbbx]88]),<u,]8;,u>},{a::b:,([b[a:[8),[;x8b[a,;8]x}}),({;:axaa8,{},<<u,:[[:[,8,u>,<]xxxx,b;;[];;b,u,x;b]8>,]bb[:8:bb]>,bxax8:b::a})))", "(
    (
        (
             {
                <
                    <a:b;:,
                    a]a]x[xa]8>,
                    <u,
                    8;aa>,
                    b,
                    <u>,
                    xaxaaa:[b[:
                >,
                 {
                     {
                        b[[;a:x;8],
                        :[x;;ax:,
                        8:][8;x
                    },
                    (u, :]abbbx]88]),
                    <u,
                    ]8;,
                    u>
                },
                 {
                    a::b:,
                    ([b[a:[8),
                    [;x8b[a,
                    ;8]x
                }
            }
        ),
        (
             {
                ;:axaa8,
                 {
                    
                },
                <
                    <u,
                    :[[:[,
                    8,
                    u>,
                    <]xxxx,
                    b;;[];;b,
                    u,
                    x;b]8>,
                    ]bb[:8:bb]
                >,
                bxax8:b::a
            }
        )
    )
)").
Definition c485 : case := ("({:8x:x,{<>},]x:x,a8]];,a]},(<]>),x[:]]:,<<]]]]:x:8x[[8,<{<u,b]a:[:8aa,bax8a[ab,u>,(u,x8[][bx;]x;)}>>>)", "(
     {
        :8x:x,
         {
            <>
        },
        ]x:x,
        a8]];,
        a]
    },
    (<]>),
    x[:]]:,
    <
        <
            ]]]]:x:8x[[8,
            <
                 {
                    <u,
                    b]a:[:8aa,
                    bax8a[ab,
                    u>,
                    (u, x8[][bx;]x;)
                }
            >
        >
    >
)").
Definition c486 : case := ("<ax8ba;b:,;;8]]]a]:;,<<<(<u,:[8]]x8,u>,bab[x];x[],(b[][[8,u)),;x:;][;;a8>>>>", "<
    ax8ba;b:,
    ;;8]]]a]:;,
    <
        <
            <
                (
                    <u,
                    :[8]]x8,
                    u>,
                    bab[x];x[],
                    (b[][[8, u)
                ),
                ;x:;][;;a8
            >
        >
    >
>").
Definition c487 : case := ("<>,<(<(({::8bxbb8]},(u,[:][b;a;)))>)>", "<>,
<
    (
        <
            (
                (
                     {
                        ::8bxbb8]
                    },
                    (u, [:][b;a;)
                )
            )
        >
    )
>").
Definition c488 : case := ("{[];bbbb,8,ax[a8::8b;bb,(),{{{(([,u,u,u,aa8x;x:]ab;a),[]88[xb],:[x[xb[a:;;)}}}}", " {
    [];bbbb,
    8,
    ax[a8::8b;bb,
    (),
     {
         {
             {
                (
                    ([, u, u, u, aa8x;x:]ab;a),
                    []88[xb],
                    :[x[xb[a:;;
                )
            }
        }
    }
}").
Definition c489 : case := ("{(<(xx8[8]aa:x:,;]bbx[xaba:a),]a8,b]8[bb:::>,()),8[[bb:[[b,{8x]888ba:;,{{(bxb8]b;[;8]8,{u}),{;,]]a]:b:},;:a]xxb}}}}", " {
    (
        <
            (xx8[8]aa:x:, ;]bbx[xaba:a),
            ]a8,
            b]8[bb:::
        >,
        ()
    ),
    8[[bb:[[b,
     {
        8x]888ba:;,
         {
             {
                (
                    bxb8]b;[;8]8,
                     {
                        u
                    }
                ),
                 {
                    ;,
                    ]]a]:b:
                },
                ;:a]xxb
            }
        }
    }
}").
Definition c490 : case := ("[::xb[ax][]8,{(]a,{;xb[,{<{u,]8x8,8},{u}>,b;[x}},bb[,x)},{(({}),(((a[a[]b8xxx:x,(u,:::ax:8)))))}", "[::xb[ax][]8,
 {
    (
        ]a,
         {
            ;xb[,
             {
                <
                     {
                        u,
                        ]8x8,
                        8
                    },
                     {
                        u
                    }
                >,
                b;[x
            }
        },
        bb[,
        x
    )
},
 {
    (
        (
             {
                
            }
        ),
        (((a[a[]b8xxx:x, (u, :::ax:8))))
    )
}").
Definition c491 : case := (")
€]},(<bb>	:b𝄞a]	[  ,:𝄞€)>:
]<]", ")
€]
},
(<bb>	:b𝄞a]	[  , :𝄞€)>:
]<
]").
Definition c492 : case := ("}:< €<);<{[{<	€é
𝄞	a;,€ Za𝄞b
)[[𝄞	(𝄞b }ab{:> 
;{Z][>,𝄞)
]	𝄞:{>é>€[ a

]<Z€:(€𝄞;é]]:{>Z(	,
]](	𝄞
,𝄞:b𝄞é}::bZZ𝄞]<{](	>€Z,];[Z𝄞Zé	b{é	) b)Z  >:>é :Z;€{ZZ{<(𝄞;aa:é	:)<<:([a>[)b {éa€: };(a  [	 Za𝄞:)bb(;	aa a[,Z€}>:](𝄞:),b]),:ba€", "
}:<
 €<
    );<
         {
            [ {
                <
                    	€é
𝄞	a;,
                    € Za𝄞b
)[[𝄞	(
                        𝄞b 
                    }ab {
                        :
                    > 
; {
                        Z][
                    >,
                    𝄞
                )
]	𝄞: {
                    
                >é
            >€[ a

]<
                Z€:(
                    €𝄞;é]]: {
                        
                    >Z(
                        	,
                        
]](
                            	𝄞
,
                            𝄞:b𝄞é
                        }::bZZ𝄞]<
                             {
                                ](
                                    	
                                >€Z,
                                ];[Z𝄞Zé	b {
                                    é	
                                ) b
                            )Z  >:>é :Z;€ {
                                ZZ {
                                    <
                                        (𝄞;aa:é	:)<
                                            <:([a>[)b  {
                                                éa€: 
                                            };(a  [	 Za𝄞:)bb(;	aa a[, Z€
                                        }
                                    >:](𝄞:), b]),
                                    :ba€").
Definition c493 : case := ("
}:ZZ[{éa<€𝄞
[}	}
b>		aa{)(𝄞]𝄞>b€𝄞 <,;,	>, 	
€é<a( a[)𝄞é]{€€b]€
Z	
𝄞€é<];a>>€](a[ :b({éé{]", "

}:ZZ[ {
éa<€𝄞
[
}	
}
b>		aa {
)(
𝄞]𝄞>b€𝄞 <,
;,
	>,
 	
€é<
    a( a[)𝄞é] {
        €€b]€
Z	
𝄞€é<];a>
    >€](
        a[ :b(
             {
                éé {
                    ]").
Definition c494 : case := ("{(>:;}:(bbé}<Z,ébZ[ :€Z ;>€  𝄞:", " {
    (
        >:;
    }:(
        bbé
    }<Z,
    ébZ[ :€Z ;>€  𝄞:").
Definition c495 : case := ("𝄞baéb
Z(})	[];]𝄞 	>Z€b,<[ },b ,:b,€	; 𝄞;) €{:;,>{{())}]{a]	
]	é:ZZé
	;:éZ ]b >𝄞];<{aé	(€<]b €a{é𝄞,[Z€€<}	a,𝄞,b,é[é);{)>)>Z€€{<𝄞b( a€
b)>::]:[ )(	:{
)>𝄞[Z,b
bé>a,𝄞	b Z)b)][<:}<,>é	
,<);é€b	
€,[ éabb[	)	:)>:]𝄞,)𝄞𝄞€<ééé
(}Za,a,,Z]},", "𝄞baéb
Z(
})	[];]𝄞 	>Z€b,
<
[ 
},
b ,
:b,
€	; 𝄞;) € {
:;,

> {
 {
    ())
}] {
    a]	
]	é:ZZé
	;:éZ ]b >𝄞];<
         {
            aé	(
                €<
                    ]b €a {
                        é𝄞,
                        [Z€€<
                            
                        }	a,
                        𝄞,
                        b,
                        é[é
                    ); {
                        )
                    >)
                >Z€€ {
                    <𝄞b( a€
b)>::]:[ )(
                        	: {
                            

                        )
                    >𝄞[Z,
                    b
bé>a,
                    𝄞	b Z)b)][<
                        :
                    }<,
                    >é	
,
                    <);é€b	
€,
                    [ éabb[	)	:)>:]𝄞,
                    )𝄞𝄞€<
                        ééé
(
                            
                        }Za,
                        a,
                        ,
                        Z]
                    },
                    ").
Definition c496 : case := (",}a𝄞}]𝄞é<<]
>𝄞(,Z>b(;
]
Zé:}>( :{)𝄞:	[𝄞 ){€𝄞<<b;Zb𝄞𝄞€<;>€[, :𝄞éé[ ,}
) €){Z):;é𝄞}b<b}		𝄞b[{ééé
<}]}	b Z,
>(]	b)	(:;}[){<,	(;(𝄞} Za};(>é)	)b€;Z(><[<]𝄞({a𝄞 𝄞,
>]ZZ;

éa[b]>Z	><({bé:	,{ébZ𝄞:𝄞 Z],é;€}	Z} ,	Z(	[>>	:,	 )	,)(	]Z
{;
(:	a:€ €€)a Z;Zb>}
€a)𝄞(;
{", ",

}a𝄞
}]𝄞é<<]
>𝄞(
,
Z>b(
;
]
Zé:
}>(
 : {
    
)𝄞:	[𝄞 
) {
€𝄞<
    <
        b;Zb𝄞𝄞€<;>€[,
         :𝄞éé[ ,
        
    }

) €) {
    Z):;é𝄞
}b<
    b
}		𝄞b[ {
    ééé
<
}]
}	b Z,

>(]	b)	(:;
}[) {
<,
	(
;(𝄞
} Za
};(>é)	)b€;Z(

><
[<
]𝄞(
     {
        a𝄞 𝄞,
        

    >]ZZ;

éa[b]
>Z	
><
(
     {
        bé:	,
         {
            ébZ𝄞:𝄞 Z],
            é;€
        }	Z
    } ,
    	Z(	[
>
>	:, 	 )	,

)(
	]Z
 {
;
(:	a:€ €€)a Z;Zb>
}
€a
)𝄞(
;
 {
").
Definition c497 : case := (" {{(a)a ])Z	]:[;a{,:[:,>,𝄞<;,;{€,){é>Z
	a[]);Z][a>	> 

:{	]é:>𝄞;>>;aé{baé	:;}{(}[€a€€[Z}	Z)
é}<,]𝄞(<}𝄞}b;;𝄞;}}𝄞;Z)]{>€](", "  {
     {
        (a)a ])Z	]:[;a {
            ,
            :[:,
            >,
            𝄞<
                ;,
                ; {
                    €,
                    ) {
                        é
                    >Z
	a[]);Z][a>	> 

: {
                        	]é:>𝄞;>>;aé {
                            baé	:;
                        } {
                            (
                        }[€a€€[Z
                    }	Z)
é
                }<
                    ,
                    ]𝄞(<
                        
                    }𝄞
                }b;;𝄞;
            }
        }𝄞;Z)] {
            
        >€](
            ").
Definition c498 : case := ("𝄞]],é{> [},]{[)}{}>	>	),𝄞:)Z;é>	é))
{€}  ;€	)é
	)]€>é	({,,>é})(b[Z}:
[ >,}aéé>bZ𝄞,;,,Z>Z( 	a]<},<<€,<<b<éZ	[;	b(>>:Z}){aZZé>),< )<}]:}(€{", "𝄞]],
é {
    > [
},
] {
    [)
} {
    
}>	>	),
𝄞:)Z;é>	é))
 {
    €
}  ;€	)é
	)]€>é	(
     {
        ,
        ,
        >é
    }
)(
    b[Z
}:
[ >,

}aéé>bZ𝄞,
;,
,
Z>Z(
 	a]<
    
},
<
    <
        €,
        <
            <b<éZ	[;	b(>>:Z
        }) {
            aZZé
        >
    ),
    <
         
    )<
        
    }]:
}(
    € {
        ").
Definition c499 : case := ("
>:b,<]{,(b	
)
[
]	}({a,[},])<
	bb>aé
Z: <{>é),>>é}[
,}<a; é𝄞,b é;[a	}ba𝄞éa)Z]€;{<
()Z}( }𝄞)		b]}aa>> aZ,a€€:
}€	,)]€}<(<<>;é]><𝄞𝄞

a€Za>€<:]b[;<a𝄞:b{<a{;],a[><é]éaé	{:](éa]]:,€<}é	<
(>€},a[>]>{
Za [Z;𝄞b[ ]€𝄞b];<b;ba𝄞(a){;é é	", "
>:b,
<
    ] {
        ,
        (b	
)
[
]	
    }(
         {
            a,
            [
        },
        ]
    )<
	bb>aé
Z: <
         {
            
        >é),
        
    >>é
}[
,

}<
a; é𝄞,
b é;[a	
}ba𝄞éa)Z]€; {
<
()Z
}( 
}𝄞)		b]
}aa>
> aZ,
a€€:

}€	,
)]€
}<
(
<<>;é]><𝄞𝄞

a€Za>€<
:]b[;<
a𝄞:b {
<
a {
    ;],
    a[
><
    é]éaé	 {
        :](
            éa]]:,
            €<
        }é	<
(
            >€
        },
        a[>]
    > {
        
Za [Z;𝄞b[ ]€𝄞b];<
            b;ba𝄞(a) {
                ;é é	").
Definition c500 : case := ("[,>>:€€)ZZ€]> Z,𝄞	>
<;a]
,;};,é}a[ b<é𝄞b)a)><,
>𝄞b	<b	]):>; ", "[,
>>:€€)ZZ€]> Z,
𝄞	>
<
    ;a]
,
    ;
};,
é
}a[ b<é𝄞b)a)><,

>𝄞b	<b	]):>; ").
Definition c501 : case := (",:Z:( :]}><𝄞}:
Z: é,
]>
(Z;b} :Z:]))>[ 
{ é[:;{[{{€>;] :):a €}é	}
} €€aé;};a[é
[}	b€
 ]}}€Z];( bZ{é]>	aZ :}€<€)>(]	{{}Z;a)€[,€<{:€€{
€a€(,𝄞é})Z{éb;(€>:]:Z{{b€𝄞(>é>}€Z)<b:€)
>b}é<{𝄞€<:a)};é[é(:) 
", ",
:Z:( :]
}><𝄞
}:
Z: é, 
]>
(Z;b
} :Z:]))>[ 
 {
 é[:; {
[ {
 {
    €>;] :):a €
}é	
}

} €€aé;
};a[é
[
}	b€
 ]
}
}€Z];(
 bZ {
é]>	aZ :
}€<€
)>(
]	 {
 {

}Z;a
)€[,
€<
 {
:€€ {

€a€(, 𝄞é
})Z {
éb;(
€
>:]:Z {
 {
b€𝄞(>é>
}€Z)<b:€
)
>b
}é<
 {
𝄞€<
:a)
};é[é(:) 
").
Definition c502 : case := ("):{[ [[, )éé>ab𝄞b(;

>
,
;(	€[;>éb]Z,a]𝄞é:a
()𝄞;>: <{)€(}𝄞
<𝄞)é)Z:(((Z:{(𝄞€[]>	>[,>}:<: 𝄞{)
])éaé<	}
 𝄞Z(€{{<é: >€𝄞<a[,Z𝄞,	Z:Z) €,b{€𝄞b€:	)€<{> ;[€a€ }a", "): {
    [ [[,
     )éé>ab𝄞b(
        ;

>
,
        
;(
            	€[;>éb]Z,
            a]𝄞é:a
()𝄞;>: <
                 {
                    
                )€(
            }𝄞
<
                𝄞)é
            )Z:(
                (
                    (
                        Z: {
                            (
                                𝄞€[]
                            >	
                        >[,
                        >
                    }:<
                        : 𝄞 {
                            
                        )
]
                    )éaé<
                        	
                    }
 𝄞Z(
                        € {
                             {
                                <é: >€𝄞<
                                    a[,
                                    Z𝄞,
                                    	Z:Z
                                ) €,
                                b {
                                    €𝄞b€:	
                                )€<
                                     {
                                        
                                    > ;[€a€ 
                                }a").
Definition c503 : case := (";:b<});{>a	𝄞é€é	):]ZZZ>	})]	,[;	
}a
aZ>]
Z]((€ Zaa€)> :[)[,€𝄞: <b{€€ €[[
]]	]	[)Z{a}Zé)€, ;ZZ(<}{é;[(<𝄞]>)a(}
€a𝄞[Z(>[}Zé€(}<
]Z:}é{	>b)Z{;,;};;	,:< ,	(b
é{)>a[{bZ])[ é€>,< b(aa;,>],(	;
(][]
é;
}Z),
}<b:
:(€

é(>

   (}Z[€b<Z<[é:bé)€b𝄞€Z[a)a}}é)<  ,a}<b𝄞<{{
", ";:b<
    
}); {
    
>a	𝄞é€é	):]ZZZ>	
})]	,
[;	

}a
aZ>]
Z]((€ Zaa€)> :[)[,
€𝄞: <
b {
€€ €[[
]]	]	[)Z {
    a
}Zé)€,
 ;ZZ(
    <
        
    } {
        é;[(<𝄞]>)a(
            
        }
€a𝄞[Z(
            
        >[
    }Zé€(
        
    }<
        
]Z:
    }é {
        	
    >b
)Z {
    ;,
    ;
};;	,
:<
     ,
    	(
        b
é {
            
        )
    >a[ {
        bZ]
    )[ é€
>,
< b(
    aa;,
    >],
    (
        	;
(][]
é;

    }Z),
    

}<b:
:(
    €

é(>

   (
}Z[€b<
    Z<
        [é:bé)€b𝄞€Z[a)a
    }
}é
)<
  ,
a
}<
b𝄞<
     {
         {
            
").
Definition c504 : case := ("::é,}a𝄞bb: }[b(a a{;>é)
[€a	€]€a:a){[:{a
(};é;>} 
[(>(<éé;;{
{ZZ]a	
€€€)é,[>{(;é,(€€€>:é		 >:]b:(a(<(,})[(b:𝄞€,<	 𝄞),,	é,	]Z<)a)]((: ,(}(>;}	}€
;	
, 𝄞:𝄞(a[(<
€(	𝄞 	[Z;
}(€<)]€]:,  }b((;;>
{,", "::é,

}a𝄞bb: 
}[b(
a a {
;>é
)
[€a	€]€a:a) {
[: {
    a
(
        
    };é;>
} 
[(
    >(
        <
            éé;; {
                
 {
                    ZZ]a	
€€€
                )é,
                [
            > {
                (
                    ;é,
                    (
                        €€€>:é		 >:]b:(a(<
                            (, 
                        })[(b:𝄞€, <
                            	 𝄞), , 	é, 	]Z<)a)](
                                (
                                    : ,
                                    (
                                        
                                    }(
                                        >;
                                    }	
                                }€
;	
,
                                 𝄞:𝄞(
                                    a[(
                                        <
                                            
€(
                                                	𝄞 	[Z;

                                            }(€<)]€]:,
                                              
                                        }b(
                                            (
                                                ;;>
 {
                                                    ,
                                                    ").
Definition c505 : case := (":],)):(", ":],
)):(
    ").
Definition c506 : case := ("[[)𝄞),<é	)€}{
(a €(
)Z;:,))(béa, b	[[a;;];,𝄞{ 	}>Zé)(>€<}a;}>a>][a;,b;[ébé€a]])é;]b{,b𝄞<)ab}>€<𝄞b){)𝄞)Z 
€(,: ab]<é (𝄞a;
{𝄞](;}€
[b>
,bé:}b ]€]>;>],{[]{[(;ba€{é b	(Z
>
,<){é,::€{€éb {,
	{>Zbé{,éZ{{}>[]aé{](Z,a,{](:{(Z
[", "[[)𝄞),
<
    é	)€
} {
    
(a €(
)Z;:, ))(
        béa,
         b	[[a;;];,
        𝄞 {
             	
        }
    >Zé
)(>€<
}a;
}>a>][a;, b;[ébé€a]])é;]b {
,
b𝄞<)ab
}>€<
𝄞b) {
)𝄞)Z 
€(
    ,
    : ab]<
        é (
            𝄞a;
 {
                𝄞](
                    ;
                }€
[b
            >
,
            bé:
        }b ]€]
    >;>],
     {
        [] {
            [(
                ;ba€ {
                    é b	(Z
>
, <
                        ) {
                            é,
                            ::€ {
                                €éb  {
                                    ,
                                    
	 {
                                        
                                    >Zbé {
                                        ,
                                        éZ {
                                             {
                                                
                                            }>[]aé {
                                                ](
                                                    Z,
                                                    a,
                                                     {
                                                        ](
                                                            : {
                                                                (
                                                                    Z
[").
Definition c507 : case := ("]𝄞𝄞€{,a]€:)]a<[(é<:Z<,,,( }]]{>𝄞)[ €Za[>Z;Z𝄞{€ [	aa	bb𝄞:
𝄞}]] (< b€{{<>€	,baZ}}}]€{Z[)}Z𝄞)é𝄞:€a}
]𝄞);[€}> ],	aé,}é
)Z	}(}(<é(
;:𝄞𝄞;>:< ;é<;]{[
[	[;>	<{<;;[><€Z<,[] 𝄞€}}>{[", "]𝄞𝄞€ {
    ,
    a]€:)]a<
        [(
            é<
                :Z<
                    ,
                    ,
                    ,
                    (
                         
                    }]] {
                        
                    >𝄞
                )[ €Za[
            >Z;Z𝄞 {
                € [	aa	bb𝄞:
𝄞
            }]] (
                <
                     b€ {
                         {
                            <>€	,
                            baZ
                        }
                    }
                }]€ {
                    Z[
                )
            }Z𝄞
        )é𝄞:€a
    }
]𝄞);[€
}
> ],
	aé,

}é
)Z	
}(

}(
<é(

;:𝄞𝄞;>:<
 ;é<
    ;] {
        [
[	[;
    >	<
         {
            <;;[><
                €Z<,
                [] 𝄞€
            }
        }> {
            [").
Definition c508 : case := ("𝄞}a[Z{[  >(€{€,[:	){: a{Z𝄞(:]𝄞Z] :{	[	<;)€(;)(b,>)𝄞a𝄞aé[ébbb,
}𝄞{,>{[{
 

[]é𝄞}é	)Z >)<𝄞((<
:)>
	Z;	€€	b;<{
	
) éa  ([;:>,)[Z;](()	
 bé𝄞a>{a>
[[>€ ;, ]a,a		:
(>[
{}€	,bb }a{
[]
Z[<]>[]	]Z;:)𝄞:[𝄞 <::{[(	,Z
	}[b]{b	a<>},][a;Z]é} [(b€:]>}
(
", "𝄞
}a[Z {
[  >(
    € {
        €,
        [:	
    ) {
        : a {
            Z𝄞(
                :]𝄞Z] : {
                    	[	<;
                )€(;)(b, >)𝄞a𝄞aé[ébbb,
                

            }𝄞 {
                ,
                > {
                    [ {
                        
 

[]é𝄞
                    }é	)Z >)<
                        𝄞(
                            (<
:)>
	Z;	€€	b;<
                                 {
                                    
	

                                ) éa  ([;:
                            >, )[Z;](
                                ()	
 bé𝄞a
                            > {
                                a>
[[>€ ;,
                                 ]a,
                                a		:
(
                                    >[
 {
                                        
                                    }€	,
                                    bb 
                                }a {
                                    
[]
Z[<]>[]	]Z;:
                                )𝄞:[𝄞 <
                                    :: {
                                        [(
                                            	,
                                            Z
	
                                        }[b] {
                                            b	a<>
                                        },
                                        ][a;Z]é
                                    } [(
                                        b€:]
                                    >
                                }
(
                                    
").
Definition c509 : case := ("){𝄞<
	 [{a{𝄞
€	>𝄞
€;a[)b;{Z}{:é ;:Zb[<>aa> 𝄞;a>;}éb	}[{>Z(()]é)𝄞€{ZZ,€<é;>(
]Z𝄞é{,:a,é,<((b{)é]	
	[
<[,<)}>]Z((;b[€𝄞b:;ZZ )[{€{𝄞éb;}𝄞[é;:;a:b;bab <𝄞)Z((>)[)(}€:[})}>,<;Z;<é:]a>];,Zbb,}](€)}>
 é{	>
a(<Z", ") {
    𝄞<
        
	 [ {
            a {
                𝄞
€	
            >𝄞
€;a[)b; {
                Z
            } {
                :é ;:Zb[<>aa> 𝄞;a>;
            }éb	
        }[ {
            >Z(()]é)𝄞€ {
                ZZ,
                €<é;>(
                    
]Z𝄞é {
                        ,
                        :a,
                        é,
                        <
                            (
                                (
                                    b {
                                        
                                    )é]	
	[
<
                                        [,
                                        <
                                    )
                                }>]Z(
                                    (;b[€𝄞b:;ZZ )[ {
                                        € {
                                            𝄞éb;
                                        }𝄞[é;:;a:b;bab <𝄞
                                    )Z((>)[)(
                                }€:[
                            })
                        }
                    >,
                    <;Z;<é:]a>];,
                    Zbb,
                    
                }](€)
            }>
 é {
                	
            >
a(
                <
                    Z").
Definition c510 : case := ("enum Event<_>{SolutionStored{compute: enum ElectionCompute{OnChain,Signed,Unsigned,Fallback,Emergency},origin: enum Option<AccountId32>{None,Some(struct AccountId32([u8; 32]))},prev_ejected: bool},ElectionFinalized{compute: ElectionCompute,score: struct ElectionScore{minimal_stake: u128,sum_stake: u128,sum_stake_squared: u128}},ElectionFailed,Rewarded{account: AccountId32,value: u128},Slashed{account: AccountId32,value: u128},PhaseTransitioned{from: enum Phase<u32>{Off,Signed,Unsigned((bool,u32)),Emergency},to: Phase<u32>,round: u32}}", "enum Event<_> {
    SolutionStored {
        compute: enum ElectionCompute {
            OnChain,
            Signed,
            Unsigned,
            Fallback,
            Emergency
        },
        origin: enum Option<AccountId32> {
            None,
            Some(struct AccountId32([u8; 32]))
        },
        prev_ejected: bool
    },
    ElectionFinalized {
        compute: ElectionCompute,
        score: struct ElectionScore {
            minimal_stake: u128,
            sum_stake: u128,
            sum_stake_squared: u128
        }
    },
    ElectionFailed,
    Rewarded {
        account: AccountId32,
        value: u128
    },
    Slashed {
        account: AccountId32,
        value: u128
    },
    PhaseTransitioned {
        from: enum Phase<u32> {
            Off,
            Signed,
            Unsigned((bool, u32)),
            Emergency
        },
        to: Phase<u32>,
        round: u32
    }
}").
Definition c511 : case := ("Vec<(Compact<u32>,[(Compact<u16>,Compact<struct PerU16(u16)>); 12],Compact<u16>)>", "Vec<
    (
        Compact<u32>,
        [(
            Compact<u16>,
            Compact<struct PerU16(u16)>
        ); 12],
        Compact<u16>
    )
>").
Definition c512 : case := ("Vec<(enum Data{None,Raw0([u8; 0]),Raw1([u8; 1]),Raw2([u8; 2]),Raw3([u8; 3]),Raw4([u8; 4]),Raw5([u8; 5]),Raw6([u8; 6]),Raw7([u8; 7]),Raw8([u8; 8]),Raw9([u8; 9]),Raw10([u8; 10]),Raw11([u8; 11]),Raw12([u8; 12]),Raw13([u8; 13]),Raw14([u8; 14]),Raw15([u8; 15]),Raw16([u8; 16]),Raw17([u8; 17]),Raw18([u8; 18]),Raw19([u8; 19]),Raw20([u8; 20]),Raw21([u8; 21]),Raw22([u8; 22]),Raw23([u8; 23]),Raw24([u8; 24]),Raw25([u8; 25]),Raw26([u8; 26]),Raw27([u8; 27]),Raw28([u8; 28]),Raw29([u8; 29]),Raw30([u8; 30]),Raw31([u8; 31]),Raw32([u8; 32]),BlakeTwo256([u8; 32]),Sha256([u8; 32]),Keccak256([u8; 32]),ShaThree256([u8; 32])},Data)>", "Vec<
    (
        enum Data {
            None,
            Raw0([u8; 0]),
            Raw1([u8; 1]),
            Raw2([u8; 2]),
            Raw3([u8; 3]),
            Raw4([u8; 4]),
            Raw5([u8; 5]),
            Raw6([u8; 6]),
            Raw7([u8; 7]),
            Raw8([u8; 8]),
            Raw9([u8; 9]),
            Raw10([u8; 10]),
            Raw11([u8; 11]),
            Raw12([u8; 12]),
            Raw13([u8; 13]),
            Raw14([u8; 14]),
            Raw15([u8; 15]),
            Raw16([u8; 16]),
            Raw17([u8; 17]),
            Raw18([u8; 18]),
            Raw19([u8; 19]),
            Raw20([u8; 20]),
            Raw21([u8; 21]),
            Raw22([u8; 22]),
            Raw23([u8; 23]),
            Raw24([u8; 24]),
            Raw25([u8; 25]),
            Raw26([u8; 26]),
            Raw27([u8; 27]),
            Raw28([u8; 28]),
            Raw29([u8; 29]),
            Raw30([u8; 30]),
            Raw31([u8; 31]),
            Raw32([u8; 32]),
            BlakeTwo256([u8; 32]),
            Sha256([u8; 32]),
            Keccak256([u8; 32]),
            ShaThree256([u8; 32])
        },
        Data
    )
>").
Definition cases : list (case) := [c0; c1; c2; c3; c4; c5; c6; c7; c8; c9; c10; c11; c12; c13; c14; c15; c16; c17; c18; c19; c20; c21; c22; c23; c24; c25; c26; c27; c28; c29; c30; c31; c32; c33; c34; c35; c36; c37; c38; c39; c40; c41; c42; c43; c44; c45; c46; c47; c48; c49; c50; c51; c52; c53; c54; c55; c56; c57; c58; c59; c60; c61; c62; c63; c64; c65; c66; c67; c68; c69; c70; c71; c72; c73; c74; c75; c76; c77; c78; c79; c80; c81; c82; c83; c84; c85; c86; c87; c88; c89; c90; c91; c92; c93; c94; c95; c96; c97; c98; c99; c100; c101; c102; c103; c104; c105; c106; c107; c108; c109; c110; c111; c112; c113; c114; c115; c116; c117; c118; c119; c120; c121; c122; c123; c124; c125; c126; c127; c128; c129; c130; c131; c132; c133; c134; c135; c136; c137; c138; c139; c140; c141; c142; c143; c144; c145; c146; c147; c148; c149; c150; c151; c152; c153; c154; c155; c156; c157; c158; c159; c160; c161; c162; c163; c164; c165; c166; c167; c168; c169; c170; c171; c172; c173; c174; c175; c176; c177; c178; c179; c180; c181; c182; c183; c184; c185; c186; c187; c188; c189; c190; c191; c192; c193; c194; c195; c196; c197; c198; c199; c200; c201; c202; c203; c204; c205; c206; c207; c208; c209; c210; c211; c212; c213; c214; c215; c216; c217; c218; c219; c220; c221; c222; c223; c224; c225; c226; c227; c228; c229; c230; c231; c232; c233; c234; c235; c236; c237; c238; c239; c240; c241; c242; c243; c244; c245; c246; c247; c248; c249; c250; c251; c252; c253; c254; c255; c256; c257; c258; c259; c260; c261; c262; c263; c264; c265; c266; c267; c268; c269; c270; c271; c272; c273; c274; c275; c276; c277; c278; c279; c280; c281; c282; c283; c284; c285; c286; c287; c288; c289; c290; c291; c292; c293; c294; c295; c296; c297; c298; c299; c300; c301; c302; c303; c304; c305; c306; c307; c308; c309; c310; c311; c312; c313; c314; c315; c316; c317; c318; c319; c320; c321; c322; c323; c324; c325; c326; c327; c328; c329; c330; c331; c332; c333; c334; c335; c336; c337; c338; c339; c340; c341; c342; c343; c344; c345; c346; c347; c348; c349; c350; c351; c352; c353; c354; c355; c356; c357; c358; c359; c360; c361; c362; c363; c364; c365; c366; c367; c368; c369; c370; c371; c372; c373; c374; c375; c376; c377; c378; c379; c380; c381; c382; c383; c384; c385; c386; c387; c388; c389; c390; c391; c392; c393; c394; c395; c396; c397; c398; c399; c400; c401; c402; c403; c404; c405; c406; c407; c408; c409; c410; c411; c412; c413; c414; c415; c416; c417; c418; c419; c420; c421; c422; c423; c424; c425; c426; c427; c428; c429; c430; c431; c432; c433; c434; c435; c436; c437; c438; c439; c440; c441; c442; c443; c444; c445; c446; c447; c448; c449; c450; c451; c452; c453; c454; c455; c456; c457; c458; c459; c460; c461; c462; c463; c464; c465; c466; c467; c468; c469; c470; c471; c472; c473; c474; c475; c476; c477; c478; c479; c480; c481; c482; c483; c484; c485; c486; c487; c488; c489; c490; c491; c492; c493; c494; c495; c496; c497; c498; c499; c500; c501; c502; c503; c504; c505; c506; c507; c508; c509; c510; c511; c512].
Eval vm_compute in ("corr_exact"%string, failing (corr_exact) cases).
Eval vm_compute in ("corr_stream"%string, failing (corr_stream) cases).
Eval vm_compute in ("prop_ws"%string, failing (prop_ws) cases).
Eval vm_compute in ("prop_discipline"%string, failing (prop_discipline) cases).
