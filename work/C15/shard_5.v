From Coq Require Import List NArith String.
From V Require Import Base.Util Corr.RunC15.
Import ListNotations. Open Scope string_scope.
Definition c0 : case := ("<", "<
    ").
Definition c1 : case := ("}(", "
}(
").
Definition c2 : case := ("){", ") {
    ").
Definition c3 : case := ("<a", "<
    a").
Definition c4 : case := (",>", ",
>").
Definition c5 : case := (" )", " )").
Definition c6 : case := ("{}}", " {
    
}
}").
Definition c7 : case := ("{( ", " {
    (
         ").
Definition c8 : case := ("{<,", " {
    <
        ,
        ").
Definition c9 : case := ("{,<", " {
    ,
    <
        ").
Definition c10 : case := ("{ (", " {
     (
        ").
Definition c11 : case := ("}}{", "
}
} {
").
Definition c12 : case := ("}(a", "
}(
a").
Definition c13 : case := ("}<>", "
}<>").
Definition c14 : case := ("},)", "
},
)").
Definition c15 : case := ("} }", "
} 
}").
Definition c16 : case := ("({ ", "(
     {
         ").
Definition c17 : case := ("((,", "(
    (
        ,
        ").
Definition c18 : case := ("(<<", "(
    <
        <
            ").
Definition c19 : case := ("(,(", "(
    ,
    (
        ").
Definition c20 : case := ("( {", "(
      {
        ").
Definition c21 : case := ("){a", ") {
    a").
Definition c22 : case := (")(>", ")(
    >").
Definition c23 : case := (")<)", ")<
    )").
Definition c24 : case := ("),}", "),

}").
Definition c25 : case := (")a ", ")a ").
Definition c26 : case := ("<{,", "<
     {
        ,
        ").
Definition c27 : case := ("<(<", "<
    (
        <
            ").
Definition c28 : case := ("<<(", "<
    <
        (
            ").
Definition c29 : case := ("<,{", "<
    ,
     {
        ").
Definition c30 : case := ("<aa", "<
    aa").
Definition c31 : case := (">{>", "> {
    >").
Definition c32 : case := (">()", ">()").
Definition c33 : case := ("><}", "><
    
}").
Definition c34 : case := (">> ", ">> ").
Definition c35 : case := (">a,", ">a,
").
Definition c36 : case := (",{<", ",
 {
    <
        ").
Definition c37 : case := (",((", ",
(
    (
        ").
Definition c38 : case := (",<{", ",
<
     {
        ").
Definition c39 : case := (",>a", ",
>a").
Definition c40 : case := (",a>", ",
a>").
Definition c41 : case := ("a{)", "a {
    )").
Definition c42 : case := ("a(}", "a(
    
}").
Definition c43 : case := ("a) ", "a) ").
Definition c44 : case := ("a>,", "a>,
").
Definition c45 : case := ("aa<", "aa<
    ").
Definition c46 : case := (" {(", "  {
    (
        ").
Definition c47 : case := (" ({", " (
     {
        ").
Definition c48 : case := (" )a", " )a").
Definition c49 : case := (" >>", " >>").
Definition c50 : case := (" a)", " a)").
Definition c51 : case := ("{{{}", " {
     {
         {
            
        }").
Definition c52 : case := ("{{} ", " {
     {
        
    } ").
Definition c53 : case := ("{{),", " {
     {
        ),
        ").
Definition c54 : case := ("{{><", " {
     {
        ><
            ").
Definition c55 : case := ("{{a(", " {
     {
        a(
            ").
Definition c56 : case := ("{}{{", " {
    
} {
     {
        ").
Definition c57 : case := ("{}}a", " {
    
}
}a").
Definition c58 : case := ("{})>", " {
    
})>").
Definition c59 : case := ("{}>)", " {
    
}>)").
Definition c60 : case := ("{}a}", " {
    
}a
}").
Definition c61 : case := ("{}  ", " {
    
}  ").
Definition c62 : case := ("{(},", " {
    (
        
    },
    ").
Definition c63 : case := ("{()<", " {
    ()<
        ").
Definition c64 : case := ("{(>(", " {
    (
        >(
            ").
Definition c65 : case := ("{(a{", " {
    (
        a {
            ").
Definition c66 : case := ("{( a", " {
    (
         a").
Definition c67 : case := ("{)}>", " {
    )
}>").
Definition c68 : case := ("{)))", " {
    )))").
Definition c69 : case := ("{)>}", " {
    )>
}").
Definition c70 : case := ("{), ", " {
    ),
     ").
Definition c71 : case := ("{) ,", " {
    ) ,
    ").
Definition c72 : case := ("{<}<", " {
    <
        
    }<
        ").
Definition c73 : case := ("{<)(", " {
    <
        )(
            ").
Definition c74 : case := ("{<>{", " {
    <> {
        ").
Definition c75 : case := ("{<,a", " {
    <
        ,
        a").
Definition c76 : case := ("{< >", " {
    < >").
Definition c77 : case := ("{>})", " {
    >
})").
Definition c78 : case := ("{>)}", " {
    >)
}").
Definition c79 : case := ("{>< ", " {
    ><
         ").
Definition c80 : case := ("{>,,", " {
    >,
    ,
    ").
Definition c81 : case := ("{> <", " {
    > <
        ").
Definition c82 : case := ("{,}(", " {
    ,
    
}(
    ").
Definition c83 : case := ("{,){", " {
    ,
    ) {
        ").
Definition c84 : case := ("{,<a", " {
    ,
    <
        a").
Definition c85 : case := ("{,,>", " {
    ,
    ,
    >").
Definition c86 : case := ("{, )", " {
    ,
     )").
Definition c87 : case := ("{a}}", " {
    a
}
}").
Definition c88 : case := ("{a( ", " {
    a(
         ").
Definition c89 : case := ("{a<,", " {
    a<
        ,
        ").
Definition c90 : case := ("{a,<", " {
    a,
    <
        ").
Definition c91 : case := ("{a (", " {
    a (
        ").
Definition c92 : case := ("{ }{", " {
     
} {
    ").
Definition c93 : case := ("{ (a", " {
     (
        a").
Definition c94 : case := ("{ <>", " {
     <>").
Definition c95 : case := ("{ ,)", " {
     ,
    )").
Definition c96 : case := ("{  }", " {
      
}").
Definition c97 : case := ("}{{ ", "
} {
 {
     ").
Definition c98 : case := ("}{(,", "
} {
(
    ,
    ").
Definition c99 : case := ("}{<<", "
} {
<
    <
        ").
Definition c100 : case := ("}{,(", "
} {
,
(
    ").
Definition c101 : case := ("}{ {", "
} {
  {
    ").
Definition c102 : case := ("}}{a", "
}
} {
a").
Definition c103 : case := ("}}(>", "
}
}(
>").
Definition c104 : case := ("}}<)", "
}
}<
)").
Definition c105 : case := ("}},}", "
}
},

}").
Definition c106 : case := ("}}a ", "
}
}a ").
Definition c107 : case := ("}({,", "
}(
 {
    ,
    ").
Definition c108 : case := ("}((<", "
}(
(
    <
        ").
Definition c109 : case := ("}(<(", "
}(
<
    (
        ").
Definition c110 : case := ("}(,{", "
}(
,
 {
    ").
Definition c111 : case := ("}(aa", "
}(
aa").
Definition c112 : case := ("}){>", "
}) {
>").
Definition c113 : case := ("})()", "
})()").
Definition c114 : case := ("})<}", "
})<

}").
Definition c115 : case := ("})> ", "
})> ").
Definition c116 : case := ("})a,", "
})a,
").
Definition c117 : case := ("}<{<", "
}<
 {
    <
        ").
Definition c118 : case := ("}<((", "
}<
(
    (
        ").
Definition c119 : case := ("}<<{", "
}<
<
     {
        ").
Definition c120 : case := ("}<>a", "
}<>a").
Definition c121 : case := ("}<a>", "
}<a>").
Definition c122 : case := ("}>{)", "
}> {
)").
Definition c123 : case := ("}>(}", "
}>(

}").
Definition c124 : case := ("}>) ", "
}>) ").
Definition c125 : case := ("}>>,", "
}>>,
").
Definition c126 : case := ("}>a<", "
}>a<
").
Definition c127 : case := ("},{(", "
},
 {
(
    ").
Definition c128 : case := ("},({", "
},
(
 {
    ").
Definition c129 : case := ("},)a", "
},
)a").
Definition c130 : case := ("},>>", "
},
>>").
Definition c131 : case := ("},a)", "
},
a)").
Definition c132 : case := ("}a{}", "
}a {

}").
Definition c133 : case := ("}a} ", "
}a
} ").
Definition c134 : case := ("}a),", "
}a),
").
Definition c135 : case := ("}a><", "
}a><
").
Definition c136 : case := ("}aa(", "
}aa(
").
Definition c137 : case := ("} {{", "
}  {
 {
    ").
Definition c138 : case := ("} }a", "
} 
}a").
Definition c139 : case := ("} )>", "
} )>").
Definition c140 : case := ("} >)", "
} >)").
Definition c141 : case := ("} a}", "
} a
}").
Definition c142 : case := ("}   ", "
}   ").
Definition c143 : case := ("({},", "(
     {
        
    },
    ").
Definition c144 : case := ("({)<", "(
     {
        
    )<
        ").
Definition c145 : case := ("({>(", "(
     {
        >(
            ").
Definition c146 : case := ("({a{", "(
     {
        a {
            ").
Definition c147 : case := ("({ a", "(
     {
         a").
Definition c148 : case := ("(}}>", "(
    
}
}>").
Definition c149 : case := ("(}))", "(
}))").
Definition c150 : case := ("(}>}", "(
    
}>
}").
Definition c151 : case := ("(}, ", "(
    
},
 ").
Definition c152 : case := ("(} ,", "(
    
} ,
").
Definition c153 : case := ("((}<", "(
    (
        
    }<
        ").
Definition c154 : case := ("(()(", "(
    ()(
        ").
Definition c155 : case := ("((>{", "(
    (
        > {
            ").
Definition c156 : case := ("((,a", "(
    (
        ,
        a").
Definition c157 : case := ("(( >", "(
    (
         >").
Definition c158 : case := ("()})", "()
})").
Definition c159 : case := ("())}", "())
}").
Definition c160 : case := ("()< ", "()<
     ").
Definition c161 : case := ("(),,", "(),
,
").
Definition c162 : case := ("() <", "() <
    ").
Definition c163 : case := ("(<}(", "(
    <
        
    }(
        ").
Definition c164 : case := ("(<){", "(<
    ) {
        ").
Definition c165 : case := ("(<<a", "(
    <
        <
            a").
Definition c166 : case := ("(<,>", "(
    <,
    >").
Definition c167 : case := ("(< )", "(<
     )").
Definition c168 : case := ("(>}}", "(
    >
}
}").
Definition c169 : case := ("(>( ", "(
    >(
         ").
Definition c170 : case := ("(><,", "(
    ><
        ,
        ").
Definition c171 : case := ("(>,<", "(
    >,
    <
        ").
Definition c172 : case := ("(> (", "(
    > (
        ").
Definition c173 : case := ("(,}{", "(
    ,
    
} {
    ").
Definition c174 : case := ("(,(a", "(
    ,
    (
        a").
Definition c175 : case := ("(,<>", "(
    ,
    <>").
Definition c176 : case := ("(,,)", "(, , )").
Definition c177 : case := ("(, }", "(
    ,
     
}").
Definition c178 : case := ("(a{ ", "(
    a {
         ").
Definition c179 : case := ("(a(,", "(
    a(
        ,
        ").
Definition c180 : case := ("(a<<", "(
    a<
        <
            ").
Definition c181 : case := ("(a,(", "(
    a,
    (
        ").
Definition c182 : case := ("(a {", "(
    a  {
        ").
Definition c183 : case := ("( {a", "(
      {
        a").
Definition c184 : case := ("( (>", "(
     (
        >").
Definition c185 : case := ("( <)", "( <
    )").
Definition c186 : case := ("( ,}", "(
     ,
    
}").
Definition c187 : case := ("( a ", "(
     a ").
Definition c188 : case := ("){{,", ") {
     {
        ,
        ").
Definition c189 : case := ("){(<", ") {
    (
        <
            ").
Definition c190 : case := ("){<(", ") {
    <
        (
            ").
Definition c191 : case := ("){,{", ") {
    ,
     {
        ").
Definition c192 : case := ("){aa", ") {
    aa").
Definition c193 : case := (")}{>", ")
} {
>").
Definition c194 : case := (")}()", ")
}()").
Definition c195 : case := (")}<}", ")
}<

}").
Definition c196 : case := (")}> ", ")
}> ").
Definition c197 : case := (")}a,", ")
}a,
").
Definition c198 : case := (")({<", ")(
     {
        <
            ").
Definition c199 : case := (")(((", ")(
    (
        (
            ").
Definition c200 : case := (")(<{", ")(
    <
         {
            ").
Definition c201 : case := (")(>a", ")(
    >a").
Definition c202 : case := (")(a>", ")(
    a>").
Definition c203 : case := (")){)", ")) {
    )").
Definition c204 : case := ("))(}", "))(
    
}").
Definition c205 : case := ("))) ", "))) ").
Definition c206 : case := ("))>,", "))>,
").
Definition c207 : case := ("))a<", "))a<
    ").
Definition c208 : case := (")<{(", ")<
     {
        (
            ").
Definition c209 : case := (")<({", ")<
    (
         {
            ").
Definition c210 : case := (")<)a", ")<
    )a").
Definition c211 : case := (")<>>", ")<>>").
Definition c212 : case := (")<a)", ")<
    a)").
Definition c213 : case := (")>{}", ")> {
    
}").
Definition c214 : case := (")>} ", ")>
} ").
Definition c215 : case := (")>),", ")>),
").
Definition c216 : case := (")>><", ")>><
    ").
Definition c217 : case := (")>a(", ")>a(
    ").
Definition c218 : case := ("),{{", "),
 {
     {
        ").
Definition c219 : case := ("),}a", "),

}a").
Definition c220 : case := ("),)>", "),
)>").
Definition c221 : case := ("),>)", "),
>)").
Definition c222 : case := ("),a}", "),
a
}").
Definition c223 : case := ("),  ", "),
  ").
Definition c224 : case := (")a},", ")a
},
").
Definition c225 : case := (")a)<", ")a)<
    ").
Definition c226 : case := (")a>(", ")a>(
    ").
Definition c227 : case := (")aa{", ")aa {
    ").
Definition c228 : case := (")a a", ")a a").
Definition c229 : case := (") }>", ") 
}>").
Definition c230 : case := (") ))", ") ))").
Definition c231 : case := (") >}", ") >
}").
Definition c232 : case := (") , ", ") ,
 ").
Definition c233 : case := (")  ,", ")  ,
").
Definition c234 : case := ("<{}<", "<
     {
        
    }<
        ").
Definition c235 : case := ("<{)(", "<
     {
        )(
            ").
Definition c236 : case := ("<{>{", "<
     {
        
    > {
        ").
Definition c237 : case := ("<{,a", "<
     {
        ,
        a").
Definition c238 : case := ("<{ >", "<
     {
         
    >").
Definition c239 : case := ("<}})", "<
    
}
})").
Definition c240 : case := ("<})}", "<
    
})
}").
Definition c241 : case := ("<}< ", "<
    
}<
     ").
Definition c242 : case := ("<},,", "<
    
},
,
").
Definition c243 : case := ("<} <", "<
    
} <
    ").
Definition c244 : case := ("<(}(", "<
    (
        
    }(
        ").
Definition c245 : case := ("<(){", "<
    () {
        ").
Definition c246 : case := ("<(<a", "<
    (
        <
            a").
Definition c247 : case := ("<(,>", "<(
    ,
    >").
Definition c248 : case := ("<( )", "<
    ( )").
Definition c249 : case := ("<)}}", "<
    )
}
}").
Definition c250 : case := ("<)( ", "<
    )(
         ").
Definition c251 : case := ("<)<,", "<
    )<
        ,
        ").
Definition c252 : case := ("<),<", "<
    ),
    <
        ").
Definition c253 : case := ("<) (", "<
    ) (
        ").
Definition c254 : case := ("<<}{", "<
    <
        
    } {
        ").
Definition c255 : case := ("<<(a", "<
    <
        (
            a").
Definition c256 : case := ("<<<>", "<
    <
        <>").
Definition c257 : case := ("<<,)", "<
    <
        ,
        )").
Definition c258 : case := ("<< }", "<
    <
         
    }").
Definition c259 : case := ("<>{ ", "<> {
     ").
Definition c260 : case := ("<>(,", "<>(
    ,
    ").
Definition c261 : case := ("<><<", "<><
    <
        ").
Definition c262 : case := ("<>,(", "<>,
(
    ").
Definition c263 : case := ("<> {", "<>  {
    ").
Definition c264 : case := ("<,{a", "<
    ,
     {
        a").
Definition c265 : case := ("<,(>", "<,
(
    >").
Definition c266 : case := ("<,<)", "<
    ,
    <
        )").
Definition c267 : case := ("<,,}", "<
    ,
    ,
    
}").
Definition c268 : case := ("<,a ", "<
    ,
    a ").
Definition c269 : case := ("<a{,", "<
    a {
        ,
        ").
Definition c270 : case := ("<a(<", "<
    a(
        <
            ").
Definition c271 : case := ("<a<(", "<
    a<
        (
            ").
Definition c272 : case := ("<a,{", "<
    a,
     {
        ").
Definition c273 : case := ("<aaa", "<
    aaa").
Definition c274 : case := ("< {>", "<
      {
        
    >").
Definition c275 : case := ("< ()", "<
     ()").
Definition c276 : case := ("< <}", "<
     <
        
    }").
Definition c277 : case := ("< > ", "< > ").
Definition c278 : case := ("< a,", "<
     a,
    ").
Definition c279 : case := (">{{<", "> {
     {
        <
            ").
Definition c280 : case := (">{((", "> {
    (
        (
            ").
Definition c281 : case := (">{<{", "> {
    <
         {
            ").
Definition c282 : case := (">{>a", "> {
    >a").
Definition c283 : case := (">{a>", "> {
    a>").
Definition c284 : case := (">}{)", ">
} {
)").
Definition c285 : case := (">}(}", ">
}(

}").
Definition c286 : case := (">}) ", ">
}) ").
Definition c287 : case := (">}>,", ">
}>,
").
Definition c288 : case := (">}a<", ">
}a<
").
Definition c289 : case := (">({(", ">(
     {
        (
            ").
Definition c290 : case := (">(({", ">(
    (
         {
            ").
Definition c291 : case := (">()a", ">()a").
Definition c292 : case := (">(>>", ">(
    >>").
Definition c293 : case := (">(a)", ">(a)").
Definition c294 : case := (">){}", ">) {
    
}").
Definition c295 : case := (">)} ", ">)
} ").
Definition c296 : case := (">)),", ">)),
").
Definition c297 : case := (">)><", ">)><
    ").
Definition c298 : case := (">)a(", ">)a(
    ").
Definition c299 : case := ("><{{", "><
     {
         {
            ").
Definition c300 : case := ("><}a", "><
    
}a").
Definition c301 : case := ("><)>", "><)>").
Definition c302 : case := ("><>)", "><>)").
Definition c303 : case := ("><a}", "><
    a
}").
Definition c304 : case := ("><  ", "><
      ").
Definition c305 : case := (">>},", ">>
},
").
Definition c306 : case := (">>)<", ">>)<
    ").
Definition c307 : case := (">>>(", ">>>(
    ").
Definition c308 : case := (">>a{", ">>a {
    ").
Definition c309 : case := (">> a", ">> a").
Definition c310 : case := (">,}>", ">,

}>").
Definition c311 : case := (">,))", ">,
))").
Definition c312 : case := (">,>}", ">,
>
}").
Definition c313 : case := (">,, ", ">,
,
 ").
Definition c314 : case := (">, ,", ">,
 ,
").
Definition c315 : case := (">a}<", ">a
}<
").
Definition c316 : case := (">a)(", ">a)(
    ").
Definition c317 : case := (">a>{", ">a> {
    ").
Definition c318 : case := (">a,a", ">a,
a").
Definition c319 : case := (">a >", ">a >").
Definition c320 : case := ("> })", "> 
})").
Definition c321 : case := ("> )}", "> )
}").
Definition c322 : case := ("> < ", "> <
     ").
Definition c323 : case := ("> ,,", "> ,
,
").
Definition c324 : case := (">  <", ">  <
    ").
Definition c325 : case := (",{}(", ",
 {
    
}(
    ").
Definition c326 : case := (",{){", ",
 {
    ) {
        ").
Definition c327 : case := (",{<a", ",
 {
    <
        a").
Definition c328 : case := (",{,>", ",
 {
    ,
    >").
Definition c329 : case := (",{ )", ",
 {
     )").
Definition c330 : case := (",}}}", ",

}
}
}").
Definition c331 : case := (",}( ", ",

}(
 ").
Definition c332 : case := (",}<,", ",

}<
,
").
Definition c333 : case := (",},<", ",

},
<
").
Definition c334 : case := (",} (", ",

} (
").
Definition c335 : case := (",(}{", ",
(
    
} {
    ").
Definition c336 : case := (",((a", ",
(
    (
        a").
Definition c337 : case := (",(<>", ",
(
    <>").
Definition c338 : case := (",(,)", ",
(, )").
Definition c339 : case := (",( }", ",
(
     
}").
Definition c340 : case := (",){ ", ",
) {
     ").
Definition c341 : case := (",)(,", ",
)(
    ,
    ").
Definition c342 : case := (",)<<", ",
)<
    <
        ").
Definition c343 : case := (",),(", ",
),
(
    ").
Definition c344 : case := (",) {", ",
)  {
    ").
Definition c345 : case := (",<{a", ",
<
     {
        a").
Definition c346 : case := (",<(>", ",
<(
    >").
Definition c347 : case := (",<<)", ",
<
    <
        )").
Definition c348 : case := (",<,}", ",
<
    ,
    
}").
Definition c349 : case := (",<a ", ",
<
    a ").
Definition c350 : case := (",>{,", ",
> {
    ,
    ").
Definition c351 : case := (",>(<", ",
>(
    <
        ").
Definition c352 : case := (",><(", ",
><
    (
        ").
Definition c353 : case := (",>,{", ",
>,
 {
    ").
Definition c354 : case := (",>aa", ",
>aa").
Definition c355 : case := (",,{>", ",
,
 {
    >").
Definition c356 : case := (",,()", ",
,
()").
Definition c357 : case := (",,<}", ",
,
<
    
}").
Definition c358 : case := (",,> ", ",
,
> ").
Definition c359 : case := (",,a,", ",
,
a,
").
Definition c360 : case := (",a{<", ",
a {
    <
        ").
Definition c361 : case := (",a((", ",
a(
    (
        ").
Definition c362 : case := (",a<{", ",
a<
     {
        ").
Definition c363 : case := (",a>a", ",
a>a").
Definition c364 : case := (",aa>", ",
aa>").
Definition c365 : case := (", {)", ",
  {
    )").
Definition c366 : case := (", (}", ",
 (
    
}").
Definition c367 : case := (", ) ", ",
 ) ").
Definition c368 : case := (", >,", ",
 >,
").
Definition c369 : case := (", a<", ",
 a<
    ").
Definition c370 : case := ("a{{(", "a {
     {
        (
            ").
Definition c371 : case := ("a{({", "a {
    (
         {
            ").
Definition c372 : case := ("a{)a", "a {
    )a").
Definition c373 : case := ("a{>>", "a {
    >>").
Definition c374 : case := ("a{a)", "a {
    a)").
Definition c375 : case := ("a}{}", "a
} {

}").
Definition c376 : case := ("a}} ", "a
}
} ").
Definition c377 : case := ("a}),", "a
}),
").
Definition c378 : case := ("a}><", "a
}><
").
Definition c379 : case := ("a}a(", "a
}a(
").
Definition c380 : case := ("a({{", "a(
     {
         {
            ").
Definition c381 : case := ("a(}a", "a(
    
}a").
Definition c382 : case := ("a()>", "a()>").
Definition c383 : case := ("a(>)", "a(>)").
Definition c384 : case := ("a(a}", "a(
    a
}").
Definition c385 : case := ("a(  ", "a(
      ").
Definition c386 : case := ("a)},", "a)
},
").
Definition c387 : case := ("a))<", "a))<
    ").
Definition c388 : case := ("a)>(", "a)>(
    ").
Definition c389 : case := ("a)a{", "a)a {
    ").
Definition c390 : case := ("a) a", "a) a").
Definition c391 : case := ("a<}>", "a<
}>").
Definition c392 : case := ("a<))", "a<
    ))").
Definition c393 : case := ("a<>}", "a<>
}").
Definition c394 : case := ("a<, ", "a<
    ,
     ").
Definition c395 : case := ("a< ,", "a<
     ,
    ").
Definition c396 : case := ("a>}<", "a>
}<
").
Definition c397 : case := ("a>)(", "a>)(
    ").
Definition c398 : case := ("a>>{", "a>> {
    ").
Definition c399 : case := ("a>,a", "a>,
a").
Definition c400 : case := ("a> >", "a> >").
Definition c401 : case := ("a,})", "a,

})").
Definition c402 : case := ("a,)}", "a,
)
}").
Definition c403 : case := ("a,< ", "a,
<
     ").
Definition c404 : case := ("a,,,", "a,
,
,
").
Definition c405 : case := ("a, <", "a,
 <
    ").
Definition c406 : case := ("aa}(", "aa
}(
").
Definition c407 : case := ("aa){", "aa) {
    ").
Definition c408 : case := ("aa<a", "aa<
    a").
Definition c409 : case := ("aa,>", "aa,
>").
Definition c410 : case := ("aa )", "aa )").
Definition c411 : case := ("a }}", "a 
}
}").
Definition c412 : case := ("a ( ", "a (
     ").
Definition c413 : case := ("a <,", "a <
    ,
    ").
Definition c414 : case := ("a ,<", "a ,
<
    ").
Definition c415 : case := ("a  (", "a  (
    ").
Definition c416 : case := (" {}{", "  {
    
} {
    ").
Definition c417 : case := (" {(a", "  {
    (
        a").
Definition c418 : case := (" {<>", "  {
    <>").
Definition c419 : case := (" {,)", "  {
    ,
    )").
Definition c420 : case := (" { }", "  {
     
}").
Definition c421 : case := (" }{ ", " 
} {
 ").
Definition c422 : case := (" }(,", " 
}(
,
").
Definition c423 : case := (" }<<", " 
}<
<
    ").
Definition c424 : case := (" },(", " 
},
(
").
Definition c425 : case := (" } {", " 
}  {
").
Definition c426 : case := (" ({a", " (
     {
        a").
Definition c427 : case := (" ((>", " (
    (
        >").
Definition c428 : case := (" (<)", " (<
    )").
Definition c429 : case := (" (,}", " (
    ,
    
}").
Definition c430 : case := (" (a ", " (
    a ").
Definition c431 : case := (" ){,", " ) {
    ,
    ").
Definition c432 : case := (" )(<", " )(
    <
        ").
Definition c433 : case := (" )<(", " )<
    (
        ").
Definition c434 : case := (" ),{", " ),
 {
    ").
Definition c435 : case := (" )aa", " )aa").
Definition c436 : case := (" <{>", " <
     {
        
    >").
Definition c437 : case := (" <()", " <
    ()").
Definition c438 : case := (" <<}", " <
    <
        
    }").
Definition c439 : case := (" <> ", " <> ").
Definition c440 : case := (" <a,", " <
    a,
    ").
Definition c441 : case := (" >{<", " > {
    <
        ").
Definition c442 : case := (" >((", " >(
    (
        ").
Definition c443 : case := (" ><{", " ><
     {
        ").
Definition c444 : case := (" >>a", " >>a").
Definition c445 : case := (" >a>", " >a>").
Definition c446 : case := (" ,{)", " ,
 {
    )").
Definition c447 : case := (" ,(}", " ,
(
    
}").
Definition c448 : case := (" ,) ", " ,
) ").
Definition c449 : case := (" ,>,", " ,
>,
").
Definition c450 : case := (" ,a<", " ,
a<
    ").
Definition c451 : case := (" a{(", " a {
    (
        ").
Definition c452 : case := (" a({", " a(
     {
        ").
Definition c453 : case := (" a)a", " a)a").
Definition c454 : case := (" a>>", " a>>").
Definition c455 : case := (" aa)", " aa)").
Definition c456 : case := ("  {}", "   {
    
}").
Definition c457 : case := ("  } ", "  
} ").
Definition c458 : case := ("  ),", "  ),
").
Definition c459 : case := ("  ><", "  ><
    ").
Definition c460 : case := ("  a(", "  a(
    ").
Definition c461 : case := ("a<<a>bé,aaa,ééb,aébé,>>", "a<<a>bé,
aaa,
ééb,
aébé,
>>").
Definition c462 : case := ("a<é,babbaé,éa,abbéaa,,,é,aé,é,éaébaaé>)", "a<
    é,
    babbaé,
    éa,
    abbéaa,
    ,
    ,
    é,
    aé,
    é,
    éaébaaé
>)").
Definition c463 : case := ("a<baabébabaaba,aéé,,éé,ééaa>>", "a<baabébabaaba,
aéé,
,
éé,
ééaa>>").
Definition c464 : case := ("((a),,b,baéé,bbaa,bébaé,,aaéaa,éébé,éa,a,a))", "(
    (a),
    ,
    b,
    baéé,
    bbaa,
    bébaé,
    ,
    aaéaa,
    éébé,
    éa,
    a,
    a
))").
Definition c465 : case := ("a(b,éééééabb,a,,a,,abbbbéa,,bbbéb)}", "a(b, éééééabb, a, , a, , abbbbéa, , bbbéb)
}").
Definition c466 : case := ("<{{a,]xbb]888b},{;;]88bx,[aaab,<b;:xx:[b>},{<<b:b;ababb,{u,xa:a]:;},<xa:]a>>>,b8bxxx;:[:;},]x;axx[a]8;[},]]b8[a8x:x,<(;8[:8bx:,b]x;x,{{{;;[]a,u,u}},{88]8],{::8[8]:;ab]:}}})>>", "<
     {
         {
            a,
            ]xbb]888b
        },
         {
            ;;]88bx,
            [aaab,
            <b;:xx:[b>
        },
         {
            <
                <
                    b:b;ababb,
                     {
                        u,
                        xa:a]:;
                    },
                    <xa:]a>
                >
            >,
            b8bxxx;:[:;
        },
        ]x;axx[a]8;[
    },
    ]]b8[a8x:x,
    <
        (
            ;8[:8bx:,
            b]x;x,
             {
                 {
                     {
                        ;;[]a,
                        u,
                        u
                    }
                },
                 {
                    88]8],
                     {
                        ::8[8]:;ab]:
                    }
                }
            }
        )
    >
>").
Definition c467 : case := ("<<(),x[b,:a[a]]8;x:,{}>>", "<
    <
        (),
        x[b,
        :a[a]]8;x:,
         {
            
        }
    >
>").
Definition c468 : case := ("a:[a;:x:;b,a;x8b,;;8xa;:;,;8ax[abx;[,8bb8]a[;8:[8", "a:[a;:x:;b,
a;x8b,
;;8xa;:;,
;8ax[abx;[,
8bb8]a[;8:[8").
Definition c469 : case := ("{<8ab8ab:[:x[[,[]aaab;,((:[;:8]b;,({b:,u,u},:bxb]:b),(<>),(),{:];;[::;x}),aa,<aa[bb]]>),({{;;;;}},((b:8:x,<u>,b];b),[8[,{<u,u,u,ba88:[8aa8a;>,::ab8[;a;:},<{u,u}>,{{u},{ba:,u,b;b8,u},([ba:x,x;b]8a[,u),<u,u,u,u>,{a;]:}}))>}", " {
    <
        8ab8ab:[:x[[,
        []aaab;,
        (
            (
                :[;:8]b;,
                (
                     {
                        b:,
                        u,
                        u
                    },
                    :bxb]:b
                ),
                (<>),
                (),
                 {
                    :];;[::;x
                }
            ),
            aa,
            <aa[bb]]>
        ),
        (
             {
                 {
                    ;;;;
                }
            },
            (
                (b:8:x, <u>, b];b),
                [8[,
                 {
                    <u,
                    u,
                    u,
                    ba88:[8aa8a;>,
                    ::ab8[;a;:
                },
                <
                     {
                        u,
                        u
                    }
                >,
                 {
                     {
                        u
                    },
                     {
                        ba:,
                        u,
                        b;b8,
                        u
                    },
                    ([ba:x, x;b]8a[, u),
                    <u,
                    u,
                    u,
                    u>,
                     {
                        a;]:
                    }
                }
            )
        )
    >
}").
Definition c470 : case := (";a;[,<>,{[[a,[:[;b,{}},{(:x[;:b;[[xb,({{(u,b;b8b,:bb]xb:xb;;,u,u),{88ba;ba,u,u,][[b8]bbx[a}},{8[x;b8]:][;},]:a8b,:x,<{u},<b;a[[a,u>>},{<<>>}))}", ";a;[,
<>,
 {
    [[a,
    [:[;b,
     {
        
    }
},
 {
    (
        :x[;:b;[[xb,
        (
             {
                 {
                    (u, b;b8b, :bb]xb:xb;;, u, u),
                     {
                        88ba;ba,
                        u,
                        u,
                        ][[b8]bbx[a
                    }
                },
                 {
                    8[x;b8]:][;
                },
                ]:a8b,
                :x,
                <
                     {
                        u
                    },
                    <b;a[[a,
                    u>
                >
            },
             {
                <<>>
            }
        )
    )
}").
Definition c471 : case := ("(8;ab],{{{;xb88b},(<(u),<bx[a:[8];,u,u,u,:;xb[ab888:[>,x;;]:axxx:>,b,b][b8b,::x:a[;b];xb),(<(:]x,u),{u,:x,[;88a8,:xb[xx;b},<u,abb:xb8a;8,8a8b]b[8],u,8x[:;88x;:8;>,{}>,{<x]abax;a[;8,:88;b:];[x,;a>,<>})}})", "(
    8;ab],
     {
         {
             {
                ;xb88b
            },
            (
                <
                    (u),
                    <bx[a:[8];,
                    u,
                    u,
                    u,
                    :;xb[ab888:[>,
                    x;;]:axxx:
                >,
                b,
                b][b8b,
                ::x:a[;b];xb
            ),
            (
                <
                    (:]x, u),
                     {
                        u,
                        :x,
                        [;88a8,
                        :xb[xx;b
                    },
                    <
                        u,
                        abb:xb8a;8,
                        8a8b]b[8],
                        u,
                        8x[:;88x;:8;
                    >,
                     {
                        
                    }
                >,
                 {
                    <x]abax;a[;8,
                    :88;b:];[x,
                    ;a>,
                    <>
                }
            )
        }
    }
)").
Definition c472 : case := ("b;:;:;8;,<<{{([,;b8:xax88b]8,b:x:a),<{u}>}}>>", "b;:;:;8;,
<
    <
         {
             {
                ([, ;b8:xax88b]8, b:x:a),
                <
                     {
                        u
                    }
                >
            }
        }
    >
>").
Definition c473 : case := (";8]:bx,{{({(:ab[xa;a,(u,u)),]8];]aaa8;][,(b;8bx,{u})})}}", ";8]:bx,
 {
     {
        (
             {
                (:ab[xa;a, (u, u)),
                ]8];]aaa8;][,
                (
                    b;8bx,
                     {
                        u
                    }
                )
            }
        )
    }
}").
Definition c474 : case := (":a;;,axa:88]x;ax;,;;xa]a],][]ab", ":a;;,
axa:88]x;ax;,
;;xa]a],
][]ab").
Definition c475 : case := ("ba::]", "ba::]").
Definition c476 : case := ("b:;;a[;;:[,ba]b[8xba,x,aa8b;8b]8xx", "b:;;a[;;:[,
ba]b[8xba,
x,
aa8b;8b]8xx").
Definition c477 : case := ("[][,{},<(<;:[:,(<b8:[,abb]:bx]:,(u,u,u,u,]),(u,u,x;bxxb:,b[[[]8b::8;,ab8xb][:a:a),<;axa8a[aa,u,u,:xx],u>>,()),a[]:x]8aaa,()>,<{[::,(8[x[;[xabx,())}>)>", "[][,
 {
    
},
<
    (
        <
            ;:[:,
            (
                <
                    b8:[,
                    abb]:bx]:,
                    (u, u, u, u, ]),
                    (
                        u,
                        u,
                        x;bxxb:,
                        b[[[]8b::8;,
                        ab8xb][:a:a
                    ),
                    <;axa8a[aa,
                    u,
                    u,
                    :xx],
                    u>
                >,
                ()
            ),
            a[]:x]8aaa,
            ()
        >,
        <
             {
                [::,
                (8[x[;[xabx, ())
            }
        >
    )
>").
Definition c478 : case := (":bbba8:[", ":bbba8:[").
Definition c479 : case := ("<>", "<>").
Definition c480 : case := ("<a;:;b8xx]a:x,{xbb,;,<;bba::]],<<b:[,<u,u,u,b8a;x;ax;>,{:]:},(u,u),a[x]:[:ab:>,<<u,u,u,u,u>,{u,;b][8:[x::},;]>,(<u,u,u>,(u,b][]8a8ba,u),<u,u,8a>)>,(xa[a],x,a:][[a:x;[x,;:,(a]8))>}>", "<
    a;:;b8xx]a:x,
     {
        xbb,
        ;,
        <
            ;bba::]],
            <
                <
                    b:[,
                    <u,
                    u,
                    u,
                    b8a;x;ax;>,
                     {
                        :]:
                    },
                    (u, u),
                    a[x]:[:ab:
                >,
                <
                    <u,
                    u,
                    u,
                    u,
                    u>,
                     {
                        u,
                        ;b][8:[x::
                    },
                    ;]
                >,
                (
                    <u,
                    u,
                    u>,
                    (u, b][]8a8ba, u),
                    <u,
                    u,
                    8a>
                )
            >,
            (xa[a], x, a:][[a:x;[x, ;:, (a]8))
        >
    }
>").
Definition c481 : case := ("<<x8,<;]b;a;a[[>>>", "<<x8,
<;]b;a;a[[>>>").
Definition c482 : case := ("<<((b];aba;a8;8,<{},<]b:;:>,<>,(ab[a:a;:b],[::),{:];a:a:bxa;,u,]:88:,u}>),(8];b8[:b),{]x:]:xab,baa:::x][]x,[a8;8[a]})>>", "<
    <
        (
            (
                b];aba;a8;8,
                <
                     {
                        
                    },
                    <]b:;:>,
                    <>,
                    (ab[a:a;:b], [::),
                     {
                        :];a:a:bxa;,
                        u,
                        ]:88:,
                        u
                    }
                >
            ),
            (8];b8[:b),
             {
                ]x:]:xab,
                baa:::x][]x,
                [a8;8[a]
            }
        )
    >
>").
Definition c483 : case := (":8b,],(<];];bb]>)", ":8b,
],
(<];];bb]>)").
Definition c484 : case := (";;b;8:x::][,[abxaa:8:,b;::xa,[],<8,x;:8,{(8],(({b];xa;;x,x]8a,8x,a]x;a8:,bb:[xx]},<xb[[,;,u>,([,x:[:bbx:xx[x,u,u))),<a,{(u,],u,8:b]bax[a8xa),{}},{{u},{u},[xxb:x8]a;;},a8b8:;ab8:,(;a;]b]88:8[)>,:]bx:bb;],(({b8xa]x;[x[b})))}>", ";;b;8:x::][,
[abxaa:8:,
b;::xa,
[],
<
    8,
    x;:8,
     {
        (
            8],
            (
                (
                     {
                        b];xa;;x,
                        x]8a,
                        8x,
                        a]x;a8:,
                        bb:[xx]
                    },
                    <xb[[,
                    ;,
                    u>,
                    ([, x:[:bbx:xx[x, u, u)
                )
            ),
            <
                a,
                 {
                    (u, ], u, 8:b]bax[a8xa),
                     {
                        
                    }
                },
                 {
                     {
                        u
                    },
                     {
                        u
                    },
                    [xxb:x8]a;;
                },
                a8b8:;ab8:,
                (;a;]b]88:8[)
            >,
            :]bx:bb;],
            (
                (
                     {
                        b8xa]x;[x[b
                    }
                )
            )
        )
    }
>").
Definition c485 : case := ("<>,(aaa)", "<>,
(aaa)").
Definition c486 : case := ("<8:8b[];]x],:]xbxb:8,<;;[]]:a8,x:a][:;[[8:x,{::[,{<<x[[>>}}>>", "<
    8:8b[];]x],
    :]xbxb:8,
    <
        ;;[]]:a8,
        x:a][:;[[8:x,
         {
            ::[,
             {
                <<x[[>>
            }
        }
    >
>").
Definition c487 : case := ("{bb;x;]];::a},8x,<((((bx]:x,(u,u),b),;a888b8],({}),{(u,u,u),(),(u,u),]b8]},<(]a][a8:aa[,:;,u,8:];),<u,u>>),x[:b,][a;]b[;:,<<(u)>,b,{},a::[:8xa[[>))>", " {
    bb;x;]];::a
},
8x,
<
    (
        (
            (
                (bx]:x, (u, u), b),
                ;a888b8],
                (
                     {
                        
                    }
                ),
                 {
                    (u, u, u),
                    (),
                    (u, u),
                    ]b8]
                },
                <(]a][a8:aa[, :;, u, 8:];),
                <u,
                u>>
            ),
            x[:b,
            ][a;]b[;:,
            <
                <(u)>,
                b,
                 {
                    
                },
                a::[:8xa[[
            >
        )
    )
>").
Definition c488 : case := ("({},x[bbbbx,])", "(
     {
        
    },
    x[bbbbx,
    ]
)").
Definition c489 : case := ("((((<(u,u,b,8][x]aa,x8;][8),<;8a:;:x[;,u,ab;a8:>,[[:a[>),;;[8x;;b8,((<u,ab8b,u>,:xa,ba:x,<>),<8;[]8:a[[>))))", "(
    (
        (
            (
                <
                    (u, u, b, 8][x]aa, x8;][8),
                    <;8a:;:x[;,
                    u,
                    ab;a8:>,
                    [[:a[
                >
            ),
            ;;[8x;;b8,
            (
                (<u, ab8b, u>, :xa, ba:x, <>),
                <8;[]8:a[[>
            )
        )
    )
)").
Definition c490 : case := ("{x:axa},[:]bb,8[a;8],{b:xxa];;;x,{(<>),({;a;x::ax]b,ba;xbxb8,<{8;;]a:;,u,u},{}>},[8ax8b,<>,{x8]xbab8[,[[:,{(u,u,u,8ab]x[][]][:,u),{},<x8,u>,(u,u,u,8:[b[[[x[[b],u)},]}),b,{}}}", " {
    x:axa
},
[:]bb,
8[a;8],
 {
    b:xxa];;;x,
     {
        (<>),
        (
             {
                ;a;x::ax]b,
                ba;xbxb8,
                <
                     {
                        8;;]a:;,
                        u,
                        u
                    },
                     {
                        
                    }
                >
            },
            [8ax8b,
            <>,
             {
                x8]xbab8[,
                [[:,
                 {
                    (u, u, u, 8ab]x[][]][:, u),
                     {
                        
                    },
                    <x8,
                    u>,
                    (u, u, u, 8:[b[[[x[[b], u)
                },
                ]
            }
        ),
        b,
         {
            
        }
    }
}").
Definition c491 : case := (":}€  
>
{ €Z€ab >	𝄞𝄞;)€(€ab:Z[)€<>a] ,𝄞Z;}}é}
€€><
Z>Z>Z𝄞Z:ZZa)𝄞	]>;[)}a;]é

a	}<:𝄞b	:é[[é𝄞>	}<;}<b(,€<	];)[ ", ":
}€  
>
 {
 €Z€ab >	𝄞𝄞;)€(€ab:Z[)€<>a] ,
𝄞Z;
}
}é
}
€€><
Z>Z>Z𝄞Z:ZZa)𝄞	]>;[)
}a;]é

a	
}<:𝄞b	:é[[é𝄞>	
}<
;
}<
b(, €<
	];)[ ").
Definition c492 : case := ("𝄞:
(;}	:a>𝄞bZ
<<],[éZ;}> €€;é	{]𝄞{[(<[b[}[{;;<<
<	Z	a[{]bbaZ𝄞[}(	€[
Z>é
>]),]€éb[>[€:€bb),;Z]],b	€
	>Z}Z](  b}>:é{:
€<	,[é[€(𝄞<< {>(, <𝄞>],;>é}Zb}𝄞	,a><€[;:a	𝄞€𝄞", "𝄞:
(
    ;
}	:a>𝄞bZ
<
    <],
    [éZ;
}> €€;é	 {
    ]𝄞 {
        [(
            <
                [b[
            }[ {
                ;;<
                    <
                        
<
                            	Z	a[ {
                                ]bbaZ𝄞[
                            }(	€[
Z
                        >é

                    >]),
                    ]€éb[
                >[€:€bb
            ),
            ;Z]],
            b	€
	
        >Z
    }Z](
          b
    }
>:é {
    :
€<
        	,
        [é[€(
            𝄞<
                <
                      {
                        
                    >(
                        ,
                         <𝄞>],
                        ;
                    >é
                }Zb
            }𝄞	,
            a
        ><
            €[;:a	𝄞€𝄞").
Definition c493 : case := ("<}(,>} ZZ)€:](}
[
𝄞]a𝄞,a𝄞Z:<: (𝄞Z:}]  𝄞>Z  };]	[
]:>
}
Z€):(:{;];a]>b[Z)𝄞]Z €>
,Z;,𝄞<>€)>}}<(

<(		,)𝄞 €	]€Z[<ééb;,é[])] (]
[€Zé𝄞(	;(:b];aé}b€	}]", "<
}(, >
} ZZ)€:](

}
[
𝄞]a𝄞,
a𝄞Z:<: (𝄞Z:
}]  𝄞>Z  
};]	[
]:>

}
Z€):(
: {
;];a]>b[Z
)𝄞]Z €>
,
Z;,
𝄞<>€
)>
}
}<
(

<
(		, )𝄞 €	]€Z[<
ééb;, é[])] (
]
[€Zé𝄞(
	;(
:b];aé
}b€	
}]").
Definition c494 : case := ("]	𝄞Z;b;Z ,( ) €<:a𝄞{Z[é[{;;}>[:],,a][éé>[}(;,;b,}€:  ;(>;]€)}{𝄞))𝄞a;,a
{>a]

a 

Z,{a€ <[((", "]	𝄞Z;b;Z ,
( ) €<
    :a𝄞 {
        Z[é[ {
            ;;
        }
    >[:],
    ,
    a][éé>[
}(
    ;,
    ;b,
    
}€:  ;(>;]€)
} {
𝄞
))𝄞a;,
a
 {
>a]

a 

Z,
 {
    a€ <
        [(
            (
                ").
Definition c495 : case := ("b>>>€;) > <€ {[>{𝄞)(𝄞€(<>[é𝄞[€[é(:[:<]Z]€é	b€(abZ𝄞𝄞 €b(;,Z;{<)} é[[ <[,:;𝄞Z(
>	é€ [Z {a{[é
𝄞
[;](),b>
	>
, 𝄞{,>€,) a
a	)(
)}𝄞 Z	](

b}>	𝄞,],𝄞Z]{éb
 }>;a)a €a{€€<{)b:{<𝄞[:€:{(	b[];b𝄞;:({(a [;]]é)	{}€€b;[béé[<
a:a]𝄞𝄞,(Z)(:€ : }:𝄞{):€Z,]b};(€}", "b>>>€;) > <
    €  {
        [
    > {
        𝄞)(
            𝄞€(
                <>[é𝄞[€[é(
                    :[:<
                        ]Z]€é	b€(
                            abZ𝄞𝄞 €b(
                                ;,
                                Z; {
                                    <
                                        
                                    )
                                } é[[ <[,
                                :;𝄞Z(
                                    
>	é€ [Z  {
                                        a {
                                            [é
𝄞
[;](),
                                            b
                                        >
	
                                    >
,
                                     𝄞 {
                                        ,
                                        >€,
                                        
                                    ) a
a	
                                )(
)
                            }𝄞 Z	](
                                

b
                            }>	𝄞,
                            ],
                            𝄞Z] {
                                éb
 
                            }>;a
                        )a €a {
                            €€<
                                 {
                                    
                                )b: {
                                    <
                                        𝄞[:€: {
                                            (
                                                	b[];b𝄞;:(
                                                     {
                                                        (a [;]]é)	 {
                                                            
                                                        }€€b;[béé[<
                                                            
a:a]𝄞𝄞,
                                                            (Z)(
                                                                :€ : 
                                                            }:𝄞 {
                                                                
                                                            ):€Z,
                                                            ]b
                                                        };(
                                                            €
                                                        }").
Definition c496 : case := ("(€:{<}𝄞:Z}{<
[;é€€𝄞(𝄞[;€[éZ𝄞{	é:;)<𝄞b]
Z[] 	, é€<(}b
	>:>€ZZb[é[Z:a
€([:}Z,€ 𝄞{[()]Zb{[ Z {; :
 ,;)]𝄞]](é)€;,a€[	a{[>é}b:Z€	>€ [,<
 <((:éé	
ZZ𝄞𝄞 >Z; Zb>(a];Z€,[a	},ZZ[,€[:;},€)>}:a𝄞[ b𝄞(é},)€:b
 ;>é	é< 𝄞éb€𝄞a€é", "(
    €: {
        <
            
        }𝄞:Z
    } {
        <
            
[;é€€𝄞(
                𝄞[;€[éZ𝄞 {
                    	é:;
                )<𝄞b]
Z[] 	,
                 é€<(
                    
                }b
	>:>€ZZb[é[Z:a
€(
                    [:
                }Z,
                € 𝄞 {
                    [()]Zb {
                        [ Z  {
                            ; :
 ,
                            ;
                        )]𝄞]](é)€;,
                        a€[	a {
                            [
                        >é
                    }b:Z€	
                >€ [,
                <
 <(
                    (
                        :éé	
ZZ𝄞𝄞 >Z; Zb>(a];Z€, [a	
                    }, ZZ[, €[:;
                }, €)>
            }:a𝄞[ b𝄞(é
        }, )€:b
 ;>é	é<
             𝄞éb€𝄞a€é").
Definition c497 : case := ("éb€b>[	](
[ 
;[: €[€{[𝄞aa >:Zé:	,Z) € );;,{{Zab𝄞;(; é[;],	
 >€
{]é>aZ[ ,b€Za,		};b𝄞	{é>{{é )},<		>𝄞);)Z	€a)}	
Z
;	;:}€[bé;	€(,(][];Za>	{;<
<;é:<<é𝄞	 ZZZ,,Z;é]b}é( }bZ€  
<[>𝄞}𝄞
Z	a	;€Z))[	,>a><{(", "éb€b>[	](
    
[ 
;[: €[€ {
        [𝄞aa >:Zé:	,
        Z
    ) € );;,
     {
         {
            Zab𝄞;(
                ; é[;],
                	
 >€
 {
                    ]é>aZ[ ,
                    b€Za,
                    		
                };b𝄞	 {
                    é> {
                         {
                            é 
                        )
                    },
                    <		>𝄞);)Z	€a)
                }	
Z
;	;:
            }€[bé;	€(
                ,
                (
                    ][];Za>	 {
                        ;<
                            
<
                                ;é:<
                                    <
                                        é𝄞	 ZZZ,
                                        ,
                                        Z;é]b
                                    }é( 
                                }bZ€  
<[>𝄞
                            }𝄞
Z	a	;€Z)
                        )[	,
                        
                    >a
                ><
                     {
                        (
                            ").
Definition c498 : case := (":[;;é< 	b:𝄞a}:}a€
é	;>[{{,€}{é€):
} 
<;	b(bé
b[	))(:
𝄞] [b;a	]a),ab€>{aZ><]é]", ":[;;é< 	b:𝄞a
}:
}a€
é	;>[ {
 {
,
€
} {
é€):

} 
<;	b(bé
b[	))(:
𝄞] [b;a	]a),
ab€> {
aZ><
    ]é]").
Definition c499 : case := ("
);)	[]< ", "
);)	[]<
     ").
Definition c500 : case := ("b{(é,b;
	>Z( Z;éé:)[;a}(€𝄞
a:	{>]>éa; ,é{;,é))é€ Z𝄞(𝄞:b,a{ ,;é€𝄞,(éb", "b {
    (
        é,
        b;
	>Z( Z;éé:)[;a
    }(
        €𝄞
a:	 {
            >]>éa; ,
            é {
                ;,
                é
            )
        )é€ Z𝄞(
            𝄞:b,
            a {
                 ,
                ;é€𝄞,
                (
                    éb").
Definition c501 : case := ("	b	
<é}éé{});); ]>a>[[;Z b
	b,€}é<𝄞é
Zabb [€
	]€é<€(	Z𝄞é,𝄞é𝄞{>[[,ZZ;a", "	b	
<
    é
}éé {
    
});); ]
>a>[[;Z b
	b,
€
}é<
𝄞é
Zabb [€
	]€é<
€(
    	Z𝄞é,
    𝄞é𝄞 {
        
    >[[,
    ZZ;a").
Definition c502 : case := ("<b€<b[[}}]	> ],,]Zb)éb})aZ
;aa
}Z>:>𝄞 :Z€(}>Za })(𝄞
Z>a<	)a<𝄞,,€:[]<)	{𝄞:€;]Z,<);])a(,

(𝄞((bb<(]b;:;< é,,<>
b>[a[,)a[
,ba],aa[éé<;Z𝄞>	}]:(:Z(}>a<{𝄞𝄞)𝄞a]]b,(;	}>b<: ):é;]b;}bé<<	}]	Z ]><éb], 
]}:𝄞b	,>]}]>€{< {(Z<Z:€Z
;a 𝄞>a);<}[", "<
    b€<b[[
}
}]	> ],
,
]Zb)éb
})aZ
;aa

}Z
>:>𝄞 :Z€(
}>Za 
})(𝄞
Z>a<
	)a<
𝄞,
,
€:[]<
)	 {
𝄞:€;]Z,
<
);])a(
,


(
    𝄞(
        (
            bb<
                (]b;:;< é, , <>
b>[a[, )a[
,
                ba],
                aa[éé<;Z𝄞>	
            }]:(
                :Z(
                    
                }
            >a<
                 {
                    𝄞𝄞
                )𝄞a]]b,
                (;	
            }
        >b<
            : ):é;]b;
        }bé<<	
    }]	Z ]><éb],
     
]
}:𝄞b	,
>]
}]>€ {
<
      {
        (Z<Z:€Z
;a 𝄞>a);<
            
        }[").
Definition c503 : case := ("{}b{,}𝄞é 
 ,é>}>	a]𝄞>}b]a>
)<)}a<<Z>(	Z:}[> {(: 
	éb	𝄞<é	aa€	]b	[(}Z,a:é[
€ [{))
[b]€a	𝄞a
[>b)ab;é<]b[b)€>);}é,bbb;]	
Zb]<{a:(é
<]<]b,>:[	{,:;a]Z]<   >)	a)[<(){{[€𝄞:𝄞é€ ):({[Z𝄞b] 	Z<>b><,:{,Z[a: a{):€[	é}𝄞,a {]Z:{𝄞;€𝄞𝄞,} ", " {
    
}b {
    ,
    
}𝄞é 
 ,
é>
}>	a]𝄞>
}b]a>
)<
)
}a<<Z>(
	Z:
}[>  {
(
: 
	éb	𝄞<
    é	aa€	]b	[(
        
    }Z,
    a:é[
€ [ {
        
    )
)
[b]€a	𝄞a
[
>b
)ab;é<]b[b)€>);
}é,
bbb;]	
Zb]<
 {
a:(
é
<
    ]<]b,
    >:[	 {
        ,
        :;a]Z]<   >
    )	a)[<
        () {
             {
                [€𝄞:𝄞é€ ):(
                     {
                        [Z𝄞b] 	Z<>b
                    ><
                        ,
                        : {
                            ,
                            Z[a: a {
                                
                            ):€[	é
                        }𝄞,
                        a  {
                            ]Z: {
                                𝄞;€𝄞𝄞,
                                
                            } ").
Definition c504 : case := ("(Z
é€ (	]{::Z][;, ,:a€(
a[{<; 
	𝄞b[
é<<]}>€éé{𝄞Z é𝄞)€{(é ,),Z
]<Z
;𝄞}
{𝄞]:,),)a, ,a 𝄞(Z(𝄞><, { Z€Z
[b;:[,(>b}(]Z: €{<}}(,€{<;[]
é,,>éZ𝄞<é(Z{a€)
<b 𝄞< b
;é]aé
(;]<::a,;<é,Z𝄞{(>Z 	é},;𝄞(}𝄞€,<{)](]
Z;;é>{{}

€; €𝄞a:,	[]éb€b}<𝄞a<,b:	b:bZ))a[𝄞é
Z[b,€>b}<€>€Z", "(
    Z
é€ (
        	] {
            ::Z][;,
             ,
            :a€(
                
a[ {
                    <
                        ; 
	𝄞b[
é<
                            <]
                        }>€éé {
                            𝄞Z é𝄞
                        )€ {
                            (é , ),
                            Z
]<
                                Z
;𝄞
                            }
 {
                                𝄞]:,
                                
                            ),
                            
                        )a,
                         ,
                        a 𝄞(
                            Z(
                                𝄞
                            ><
                                ,
                                  {
                                     Z€Z
[b;:[,
                                    (
                                        
                                    >b
                                }(
                                    ]Z: € {
                                        <
                                            
                                        }
                                    }(
                                        ,
                                        € {
                                            <;[]
é,
                                            ,
                                            >éZ𝄞<
                                                é(
                                                    Z {
                                                        a€
                                                    )
<
                                                        b 𝄞<
                                                             b
;é]aé
(
                                                                ;]<
                                                                    ::a,
                                                                    ;<
                                                                        é,
                                                                        Z𝄞 {
                                                                            (
                                                                                
                                                                            >Z 	é
                                                                        },
                                                                        ;𝄞(
                                                                            
                                                                        }𝄞€,
                                                                        <
                                                                             {
                                                                                
                                                                            )](
                                                                                ]
Z;;é
                                                                            > {
                                                                                 {
                                                                                    
                                                                                }

€; €𝄞a:,
                                                                                	[]éb€b
                                                                            }<
                                                                                𝄞a<,
                                                                                b:	b:bZ
                                                                            )
                                                                        )a[𝄞é
Z[b,
                                                                        €>b
                                                                    }<€>€Z").
Definition c505 : case := ("a][((€Z	€a:];:bb);(	}>{é€
b(,]b[[>[𝄞>(𝄞
𝄞[}>aa::}€[>}Z}	
:a:>𝄞[b<Z(€	𝄞]a,Z€) ,}(>;€)[)<aa[[a)[[𝄞é([}é)(>b€
}
}<é<(; 	,b:	)(:[(𝄞[}€Z;>𝄞€(	:})(])<<𝄞€]
 )<aZb>}Z);<;b<>{€		))]
		é€[aa<]ab €𝄞]} €})€a
}𝄞 ); ];<€ ({b;[<{>,  }(€	:é);
{:<>a𝄞,𝄞", "a][(
    (€Z	€a:];:bb);(
        	
    }> {
        é€
b(
            ,
            ]b[[>[𝄞>(
                𝄞
𝄞[
            }>aa::
        }€[>
    }Z
}	
:a:>𝄞[b<Z(€	𝄞]a, Z€) ,

}(>;€)[
)<aa[[a
)[[𝄞é([
}é)(
>b€

}

}<
é<(; 	, b:	)(
:[(𝄞[
}€Z;>𝄞€(	:
})(])<
<
𝄞€]
 )<aZb>
}Z
);<
;b<> {
€		
)
)]
		é€[aa<
]ab €𝄞]
} €
}
)€a

}𝄞 ); ];<
€ (
 {
b;[<
 {

>,
  
}(€	:é);
 {
:<>a𝄞,
𝄞").
Definition c506 : case := (">) )a<	;€a}{(<Z<	>a{b}}]]bé:{a;
,𝄞},{<aa(:𝄞é, :	}{>𝄞][€𝄞ab€Z𝄞
{éb é𝄞€
]a[Zbé[éZ€
b ]  [ :;	><a	[]é:€éZ(}a(b>[€b([é[]a[𝄞;>)}
(	]:;:;<[}>>€;{  ;,ba)>{,;
>]:]𝄞}(€
é", ">) )a<
    	;€a
} {
    (
        <
            Z<	>a {
                b
            }
        }]]bé: {
            a;
,
            𝄞
        },
         {
            <
                aa(
                    :𝄞é,
                     :	
                } {
                    
                >𝄞][€𝄞ab€Z𝄞
 {
                    éb é𝄞€
]a[Zbé[éZ€
b ]  [ :;	
                ><a	[]é:€éZ(
                    
                }a(
                    b>[€b([é[]a[𝄞;
                >)
            }
(
                	]:;:;<[
            }>>€; {
                  ;,
                ba
            )> {
                ,
                ;
>]:]𝄞
            }(
                €
é").
Definition c507 : case := ("<€é	};Z;(𝄞é	>< [)(, €}:	)
€b€<(	a
: )Z(()},}a[]éa( <;,(Zéa[>;]Z		[ <<}a	ZZ		Z𝄞
>;[,€	a	)éa
}b[(Z,;:]} 
},b€€) ;€]	[)<}[[é,		
:>>},,	)];𝄞	 }
;Z:],)>
;[
::Z	:>;)
𝄞é€<:] a<({	)b}:<𝄞;<}<[)[Z€	Z𝄞>Z	(𝄞:	é>bb([,{[{ é	<]<:>b>é: ):𝄞>	a[
é{)	}<€>é,;Z>𝄞	}é)}b	é], €𝄞𝄞[
):{[<[, :(b[	,a> >{)(<;€>):
𝄞(]}),€:", "<€é	
};Z;(𝄞é	><
 [)(,  €
}:	)
€b€<
(	a
: )Z(
    ()
},

}a[]éa(
 <;,
(
    Zéa[>;]Z		[ <
        <
    }a	ZZ		Z𝄞
>;[,
    €	a	
)éa

}b[(Z, ;:]
} 

}, b€€) ;€]	[
)<
}[[é,
		
:>
>
},
,
	
)];𝄞	 
}
;Z:],
)
>
;[
::Z	:
>;)
𝄞é€<
:] a<
(
 {
	
)b
}:<
𝄞;<
}<[)[Z€	Z𝄞>Z	(
𝄞:	é>bb(
[,
 {
[ {
 é	<]<:>b>é: 
):𝄞
>	a[
é {

)	
}<€>é,
;Z
>𝄞	
}é)
}b	é],
 €𝄞𝄞[
): {
[<[,
 :(
b[	,
a> 
> {

)(<;€>):
𝄞(]
}),
€:").
Definition c508 : case := ("	
 [<}	€{}
)<Z€
<[:
>   bZé	
:(é;};[	,;,
<]
]€,a,(,(ééZ)𝄞[€€:;: :}Z€<𝄞{𝄞,,{>€]
	é( }	}{}:,	}b>,
	[)>{𝄞é ;éb)(€,{;[: 𝄞(éa€Zé
[
);
a)

	[b)<}}:€Zbé}}{<<a€:𝄞}€(b€]):<:€]:
é:	𝄞:éaa[[<é:	]]b;;{(;)(:]é:;a}[b})a	(€)bé{ }€<)Z;;):é	a𝄞,𝄞}<>b𝄞b	]𝄞([a)€:,,𝄞}<]𝄞€a€", "	
 [<
    
}	€ {
    
}
)<
    Z€
<[:
>   bZé	
:(
        é;
    };[	,
    ;,
    
<
        ]
]€,
        a,
        (
            ,
            (ééZ)𝄞[€€:;: :
        }Z€<
            𝄞 {
                𝄞,
                ,
                 {
                    
                >€]
	é(
                     
                }	
            } {
                
            }:,
            	
        }b
    >,
    
	[
)
> {
𝄞é ;éb
)(
€,
 {
    ;[: 𝄞(éa€Zé
[
);
a
)

	[b
)<

}
}:€Zbé
}
} {
<
<
a€:𝄞
}€(b€]):<
:€]:
é:	𝄞:éaa[[<
é:	]]b;; {
    (;)(:]é:;a
}[b
})a	(€)bé {
 
}€<
)Z;;):é	a𝄞,
𝄞
}<>b𝄞b	]𝄞([a)€:,
,
𝄞
}<
]𝄞€a€").
Definition c509 : case := ("	b)(a];,<>(	){:[ b, > (Z][{;Zé{[
()} ,}€({ [(Z<𝄞Z<(,[€{éa𝄞,>	>
:	 Z]{aa}𝄞[:<(b}},; {]]𝄞:>:a€{> <]𝄞}

>b{<})Z[ é{", "	b)(
    a];,
    <>(	) {
        :[ b,
         > (
            Z][ {
                ;Zé {
                    [
()
                } ,
                
            }€(
                 {
                     [(
                        Z<
                            𝄞Z<
                                (
                                    ,
                                    [€ {
                                        éa𝄞,
                                        
                                    >	
                                >
:	 Z] {
                                    aa
                                }𝄞[:<
                                    (
                                        b
                                    }
                                },
                                ;  {
                                    ]]𝄞:
                                >:a€ {
                                    > <]𝄞
                                }

>b {
                                    <
                                        
                                    }
                                )Z[ é {
                                    ").
Definition c510 : case := ("struct MultiLocation{parents: u8,interior: enum Junctions{Here,X1(enum Junction{Parachain(Compact<u32>),AccountId32{network: enum NetworkId{Any,Named(struct WeakBoundedVec<u8,_>(Vec<u8>)),Polkadot,Kusama},id: [u8; 32]},AccountIndex64{network: NetworkId,index: Compact<u64>},AccountKey20{network: NetworkId,key: [u8; 20]},PalletInstance(u8),GeneralIndex(Compact<u128>),GeneralKey(WeakBoundedVec<u8,_>),OnlyChild,Plurality{id: enum BodyId{Unit,Named(WeakBoundedVec<u8,_>),Index(Compact<u32>),Executive,Technical,Legislative,Judicial,Defense,Administration,Treasury},part: enum BodyPart{Voice,Members{count: Compact<u32>},Fraction{nom: Compact<u32>,denom: Compact<u32>},AtLeastProportion{nom: Compact<u32>,denom: Compact<u32>},MoreThanProportion{nom: Compact<u32>,denom: Compact<u32>}}}}),X2(Junction,Junction),X3(Junction,Junction,Junction),X4(Junction,Junction,Junction,Junction),X5(Junction,Junction,Junction,Junction,Junction),X6(Junction,Junction,Junction,Junction,Junction,Junction),X7(Junction,Junction,Junction,Junction,Junction,Junction,Junction),X8(Junction,Junction,Junction,Junction,Junction,Junction,Junction,Junction)}}", "struct MultiLocation {
    parents: u8,
    interior: enum Junctions {
        Here,
        X1(
            enum Junction {
                Parachain(Compact<u32>),
                AccountId32 {
                    network: enum NetworkId {
                        Any,
                        Named(
                            struct WeakBoundedVec<u8,
                            _>(Vec<u8>)
                        ),
                        Polkadot,
                        Kusama
                    },
                    id: [u8; 32]
                },
                AccountIndex64 {
                    network: NetworkId,
                    index: Compact<u64>
                },
                AccountKey20 {
                    network: NetworkId,
                    key: [u8; 20]
                },
                PalletInstance(u8),
                GeneralIndex(Compact<u128>),
                GeneralKey(WeakBoundedVec<u8, _>),
                OnlyChild,
                Plurality {
                    id: enum BodyId {
                        Unit,
                        Named(WeakBoundedVec<u8, _>),
                        Index(Compact<u32>),
                        Executive,
                        Technical,
                        Legislative,
                        Judicial,
                        Defense,
                        Administration,
                        Treasury
                    },
                    part: enum BodyPart {
                        Voice,
                        Members {
                            count: Compact<u32>
                        },
                        Fraction {
                            nom: Compact<u32>,
                            denom: Compact<u32>
                        },
                        AtLeastProportion {
                            nom: Compact<u32>,
                            denom: Compact<u32>
                        },
                        MoreThanProportion {
                            nom: Compact<u32>,
                            denom: Compact<u32>
                        }
                    }
                }
            }
        ),
        X2(Junction, Junction),
        X3(Junction, Junction, Junction),
        X4(
            Junction,
            Junction,
            Junction,
            Junction
        ),
        X5(
            Junction,
            Junction,
            Junction,
            Junction,
            Junction
        ),
        X6(
            Junction,
            Junction,
            Junction,
            Junction,
            Junction,
            Junction
        ),
        X7(
            Junction,
            Junction,
            Junction,
            Junction,
            Junction,
            Junction,
            Junction
        ),
        X8(
            Junction,
            Junction,
            Junction,
            Junction,
            Junction,
            Junction,
            Junction,
            Junction
        )
    }
}").
Definition c511 : case := ("enum WeightLimit{Unlimited,Limited(Compact<u64>)}", "enum WeightLimit {
    Unlimited,
    Limited(Compact<u64>)
}").
Definition c512 : case := ("enum ConfigOp<u32>{Noop,Set(u32),Remove}", "enum ConfigOp<u32> {
    Noop,
    Set(u32),
    Remove
}").
Definition c513 : case := ("struct Public(struct Public([u8; 32]))", "struct Public(struct Public([u8; 32]))").
Definition cases : list (case) := [c0; c1; c2; c3; c4; c5; c6; c7; c8; c9; c10; c11; c12; c13; c14; c15; c16; c17; c18; c19; c20; c21; c22; c23; c24; c25; c26; c27; c28; c29; c30; c31; c32; c33; c34; c35; c36; c37; c38; c39; c40; c41; c42; c43; c44; c45; c46; c47; c48; c49; c50; c51; c52; c53; c54; c55; c56; c57; c58; c59; c60; c61; c62; c63; c64; c65; c66; c67; c68; c69; c70; c71; c72; c73; c74; c75; c76; c77; c78; c79; c80; c81; c82; c83; c84; c85; c86; c87; c88; c89; c90; c91; c92; c93; c94; c95; c96; c97; c98; c99; c100; c101; c102; c103; c104; c105; c106; c107; c108; c109; c110; c111; c112; c113; c114; c115; c116; c117; c118; c119; c120; c121; c122; c123; c124; c125; c126; c127; c128; c129; c130; c131; c132; c133; c134; c135; c136; c137; c138; c139; c140; c141; c142; c143; c144; c145; c146; c147; c148; c149; c150; c151; c152; c153; c154; c155; c156; c157; c158; c159; c160; c161; c162; c163; c164; c165; c166; c167; c168; c169; c170; c171; c172; c173; c174; c175; c176; c177; c178; c179; c180; c181; c182; c183; c184; c185; c186; c187; c188; c189; c190; c191; c192; c193; c194; c195; c196; c197; c198; c199; c200; c201; c202; c203; c204; c205; c206; c207; c208; c209; c210; c211; c212; c213; c214; c215; c216; c217; c218; c219; c220; c221; c222; c223; c224; c225; c226; c227; c228; c229; c230; c231; c232; c233; c234; c235; c236; c237; c238; c239; c240; c241; c242; c243; c244; c245; c246; c247; c248; c249; c250; c251; c252; c253; c254; c255; c256; c257; c258; c259; c260; c261; c262; c263; c264; c265; c266; c267; c268; c269; c270; c271; c272; c273; c274; c275; c276; c277; c278; c279; c280; c281; c282; c283; c284; c285; c286; c287; c288; c289; c290; c291; c292; c293; c294; c295; c296; c297; c298; c299; c300; c301; c302; c303; c304; c305; c306; c307; c308; c309; c310; c311; c312; c313; c314; c315; c316; c317; c318; c319; c320; c321; c322; c323; c324; c325; c326; c327; c328; c329; c330; c331; c332; c333; c334; c335; c336; c337; c338; c339; c340; c341; c342; c343; c344; c345; c346; c347; c348; c349; c350; c351; c352; c353; c354; c355; c356; c357; c358; c359; c360; c361; c362; c363; c364; c365; c366; c367; c368; c369; c370; c371; c372; c373; c374; c375; c376; c377; c378; c379; c380; c381; c382; c383; c384; c385; c386; c387; c388; c389; c390; c391; c392; c393; c394; c395; c396; c397; c398; c399; c400; c401; c402; c403; c404; c405; c406; c407; c408; c409; c410; c411; c412; c413; c414; c415; c416; c417; c418; c419; c420; c421; c422; c423; c424; c425; c426; c427; c428; c429; c430; c431; c432; c433; c434; c435; c436; c437; c438; c439; c440; c441; c442; c443; c444; c445; c446; c447; c448; c449; c450; c451; c452; c453; c454; c455; c456; c457; c458; c459; c460; c461; c462; c463; c464; c465; c466; c467; c468; c469; c470; c471; c472; c473; c474; c475; c476; c477; c478; c479; c480; c481; c482; c483; c484; c485; c486; c487; c488; c489; c490; c491; c492; c493; c494; c495; c496; c497; c498; c499; c500; c501; c502; c503; c504; c505; c506; c507; c508; c509; c510; c511; c512; c513].
Eval vm_compute in ("corr_exact"%string, failing (corr_exact) cases).
Eval vm_compute in ("corr_stream"%string, failing (corr_stream) cases).
Eval vm_compute in ("prop_ws"%string, failing (prop_ws) cases).
Eval vm_compute in ("prop_discipline"%string, failing (prop_discipline) cases).
