From Coq Require Import List NArith String.
From V Require Import Base.Util Corr.RunC15.
Import ListNotations. Open Scope string_scope.
Definition c0 : case := ("{>", " {
    >").
Definition c1 : case := ("()", "()").
Definition c2 : case := ("<}", "<
    
}").
Definition c3 : case := ("> ", "> ").
Definition c4 : case := ("a,", "a,
").
Definition c5 : case := ("{{<", " {
     {
        <
            ").
Definition c6 : case := ("{((", " {
    (
        (
            ").
Definition c7 : case := ("{<{", " {
    <
         {
            ").
Definition c8 : case := ("{>a", " {
    >a").
Definition c9 : case := ("{a>", " {
    a>").
Definition c10 : case := ("}{)", "
} {
)").
Definition c11 : case := ("}(}", "
}(

}").
Definition c12 : case := ("}) ", "
}) ").
Definition c13 : case := ("}>,", "
}>,
").
Definition c14 : case := ("}a<", "
}a<
").
Definition c15 : case := ("({(", "(
     {
        (
            ").
Definition c16 : case := ("(({", "(
    (
         {
            ").
Definition c17 : case := ("()a", "()a").
Definition c18 : case := ("(>>", "(
    >>").
Definition c19 : case := ("(a)", "(a)").
Definition c20 : case := ("){}", ") {
    
}").
Definition c21 : case := (")} ", ")
} ").
Definition c22 : case := (")),", ")),
").
Definition c23 : case := (")><", ")><
    ").
Definition c24 : case := (")a(", ")a(
    ").
Definition c25 : case := ("<{{", "<
     {
         {
            ").
Definition c26 : case := ("<}a", "<
    
}a").
Definition c27 : case := ("<)>", "<)>").
Definition c28 : case := ("<>)", "<>)").
Definition c29 : case := ("<a}", "<
    a
}").
Definition c30 : case := ("<  ", "<
      ").
Definition c31 : case := (">},", ">
},
").
Definition c32 : case := (">)<", ">)<
    ").
Definition c33 : case := (">>(", ">>(
    ").
Definition c34 : case := (">a{", ">a {
    ").
Definition c35 : case := ("> a", "> a").
Definition c36 : case := (",}>", ",

}>").
Definition c37 : case := (",))", ",
))").
Definition c38 : case := (",>}", ",
>
}").
Definition c39 : case := (",, ", ",
,
 ").
Definition c40 : case := (", ,", ",
 ,
").
Definition c41 : case := ("a}<", "a
}<
").
Definition c42 : case := ("a)(", "a)(
    ").
Definition c43 : case := ("a>{", "a> {
    ").
Definition c44 : case := ("a,a", "a,
a").
Definition c45 : case := ("a >", "a >").
Definition c46 : case := (" })", " 
})").
Definition c47 : case := (" )}", " )
}").
Definition c48 : case := (" < ", " <
     ").
Definition c49 : case := (" ,,", " ,
,
").
Definition c50 : case := ("  <", "  <
    ").
Definition c51 : case := ("{{}(", " {
     {
        
    }(
        ").
Definition c52 : case := ("{{){", " {
     {
        ) {
            ").
Definition c53 : case := ("{{<a", " {
     {
        <
            a").
Definition c54 : case := ("{{,>", " {
     {
        ,
        >").
Definition c55 : case := ("{{ )", " {
     {
         )").
Definition c56 : case := ("{}}}", " {
    
}
}
}").
Definition c57 : case := ("{}( ", " {
    
}(
     ").
Definition c58 : case := ("{}<,", " {
    
}<
    ,
    ").
Definition c59 : case := ("{},<", " {
    
},
<
    ").
Definition c60 : case := ("{} (", " {
    
} (
    ").
Definition c61 : case := ("{(}{", " {
    (
        
    } {
        ").
Definition c62 : case := ("{((a", " {
    (
        (
            a").
Definition c63 : case := ("{(<>", " {
    (
        <>").
Definition c64 : case := ("{(,)", " {
    (, )").
Definition c65 : case := ("{( }", " {
    (
         
    }").
Definition c66 : case := ("{){ ", " {
    ) {
         ").
Definition c67 : case := ("{)(,", " {
    )(
        ,
        ").
Definition c68 : case := ("{)<<", " {
    )<
        <
            ").
Definition c69 : case := ("{),(", " {
    ),
    (
        ").
Definition c70 : case := ("{) {", " {
    )  {
        ").
Definition c71 : case := ("{<{a", " {
    <
         {
            a").
Definition c72 : case := ("{<(>", " {
    <(
        >").
Definition c73 : case := ("{<<)", " {
    <
        <
            )").
Definition c74 : case := ("{<,}", " {
    <
        ,
        
    }").
Definition c75 : case := ("{<a ", " {
    <
        a ").
Definition c76 : case := ("{>{,", " {
    > {
        ,
        ").
Definition c77 : case := ("{>(<", " {
    >(
        <
            ").
Definition c78 : case := ("{><(", " {
    ><
        (
            ").
Definition c79 : case := ("{>,{", " {
    >,
     {
        ").
Definition c80 : case := ("{>aa", " {
    >aa").
Definition c81 : case := ("{,{>", " {
    ,
     {
        >").
Definition c82 : case := ("{,()", " {
    ,
    ()").
Definition c83 : case := ("{,<}", " {
    ,
    <
        
    }").
Definition c84 : case := ("{,> ", " {
    ,
    > ").
Definition c85 : case := ("{,a,", " {
    ,
    a,
    ").
Definition c86 : case := ("{a{<", " {
    a {
        <
            ").
Definition c87 : case := ("{a((", " {
    a(
        (
            ").
Definition c88 : case := ("{a<{", " {
    a<
         {
            ").
Definition c89 : case := ("{a>a", " {
    a>a").
Definition c90 : case := ("{aa>", " {
    aa>").
Definition c91 : case := ("{ {)", " {
      {
        )").
Definition c92 : case := ("{ (}", " {
     (
        
    }").
Definition c93 : case := ("{ ) ", " {
     ) ").
Definition c94 : case := ("{ >,", " {
     >,
    ").
Definition c95 : case := ("{ a<", " {
     a<
        ").
Definition c96 : case := ("}{{(", "
} {
 {
    (
        ").
Definition c97 : case := ("}{({", "
} {
(
     {
        ").
Definition c98 : case := ("}{)a", "
} {
)a").
Definition c99 : case := ("}{>>", "
} {
>>").
Definition c100 : case := ("}{a)", "
} {
a)").
Definition c101 : case := ("}}{}", "
}
} {

}").
Definition c102 : case := ("}}} ", "
}
}
} ").
Definition c103 : case := ("}}),", "
}
}),
").
Definition c104 : case := ("}}><", "
}
}><
").
Definition c105 : case := ("}}a(", "
}
}a(
").
Definition c106 : case := ("}({{", "
}(
 {
     {
        ").
Definition c107 : case := ("}(}a", "
}(

}a").
Definition c108 : case := ("}()>", "
}()>").
Definition c109 : case := ("}(>)", "
}(>)").
Definition c110 : case := ("}(a}", "
}(
a
}").
Definition c111 : case := ("}(  ", "
}(
  ").
Definition c112 : case := ("})},", "
})
},
").
Definition c113 : case := ("}))<", "
}))<
").
Definition c114 : case := ("})>(", "
})>(
").
Definition c115 : case := ("})a{", "
})a {
").
Definition c116 : case := ("}) a", "
}) a").
Definition c117 : case := ("}<}>", "
}<
}>").
Definition c118 : case := ("}<))", "
}<
))").
Definition c119 : case := ("}<>}", "
}<>
}").
Definition c120 : case := ("}<, ", "
}<
,
 ").
Definition c121 : case := ("}< ,", "
}<
 ,
").
Definition c122 : case := ("}>}<", "
}>
}<
").
Definition c123 : case := ("}>)(", "
}>)(
").
Definition c124 : case := ("}>>{", "
}>> {
").
Definition c125 : case := ("}>,a", "
}>,
a").
Definition c126 : case := ("}> >", "
}> >").
Definition c127 : case := ("},})", "
},

})").
Definition c128 : case := ("},)}", "
},
)
}").
Definition c129 : case := ("},< ", "
},
<
 ").
Definition c130 : case := ("},,,", "
},
,
,
").
Definition c131 : case := ("}, <", "
},
 <
").
Definition c132 : case := ("}a}(", "
}a
}(
").
Definition c133 : case := ("}a){", "
}a) {
").
Definition c134 : case := ("}a<a", "
}a<
a").
Definition c135 : case := ("}a,>", "
}a,
>").
Definition c136 : case := ("}a )", "
}a )").
Definition c137 : case := ("} }}", "
} 
}
}").
Definition c138 : case := ("} ( ", "
} (
 ").
Definition c139 : case := ("} <,", "
} <
,
").
Definition c140 : case := ("} ,<", "
} ,
<
").
Definition c141 : case := ("}  (", "
}  (
").
Definition c142 : case := ("({}{", "(
     {
        
    } {
        ").
Definition c143 : case := ("({(a", "(
     {
        (
            a").
Definition c144 : case := ("({<>", "(
     {
        <>").
Definition c145 : case := ("({,)", "(
     {
        ,
        
    )").
Definition c146 : case := ("({ }", "(
     {
         
    }").
Definition c147 : case := ("(}{ ", "(
    
} {
     ").
Definition c148 : case := ("(}(,", "(
    
}(
    ,
    ").
Definition c149 : case := ("(}<<", "(
    
}<
    <
        ").
Definition c150 : case := ("(},(", "(
    
},
(
    ").
Definition c151 : case := ("(} {", "(
    
}  {
    ").
Definition c152 : case := ("(({a", "(
    (
         {
            a").
Definition c153 : case := ("(((>", "(
    (
        (
            >").
Definition c154 : case := ("((<)", "(
    (<
        )").
Definition c155 : case := ("((,}", "(
    (
        ,
        
    }").
Definition c156 : case := ("((a ", "(
    (
        a ").
Definition c157 : case := ("(){,", "() {
    ,
    ").
Definition c158 : case := ("()(<", "()(
    <
        ").
Definition c159 : case := ("()<(", "()<
    (
        ").
Definition c160 : case := ("(),{", "(),
 {
    ").
Definition c161 : case := ("()aa", "()aa").
Definition c162 : case := ("(<{>", "(
    <
         {
            
        >").
Definition c163 : case := ("(<()", "(
    <
        ()").
Definition c164 : case := ("(<<}", "(
    <
        <
            
        }").
Definition c165 : case := ("(<> ", "(
    <> ").
Definition c166 : case := ("(<a,", "(
    <
        a,
        ").
Definition c167 : case := ("(>{<", "(
    > {
        <
            ").
Definition c168 : case := ("(>((", "(
    >(
        (
            ").
Definition c169 : case := ("(><{", "(
    ><
         {
            ").
Definition c170 : case := ("(>>a", "(
    >>a").
Definition c171 : case := ("(>a>", "(
    >a>").
Definition c172 : case := ("(,{)", "(
    ,
     {
        
    )").
Definition c173 : case := ("(,(}", "(
    ,
    (
        
    }").
Definition c174 : case := ("(,) ", "(, ) ").
Definition c175 : case := ("(,>,", "(
    ,
    >,
    ").
Definition c176 : case := ("(,a<", "(
    ,
    a<
        ").
Definition c177 : case := ("(a{(", "(
    a {
        (
            ").
Definition c178 : case := ("(a({", "(
    a(
         {
            ").
Definition c179 : case := ("(a)a", "(a)a").
Definition c180 : case := ("(a>>", "(
    a>>").
Definition c181 : case := ("(aa)", "(aa)").
Definition c182 : case := ("( {}", "(
      {
        
    }").
Definition c183 : case := ("( } ", "(
     
} ").
Definition c184 : case := ("( ),", "( ),
").
Definition c185 : case := ("( ><", "(
     ><
        ").
Definition c186 : case := ("( a(", "(
     a(
        ").
Definition c187 : case := ("){{{", ") {
     {
         {
            ").
Definition c188 : case := ("){}a", ") {
    
}a").
Definition c189 : case := ("){)>", ") {
    )>").
Definition c190 : case := ("){>)", ") {
    >)").
Definition c191 : case := ("){a}", ") {
    a
}").
Definition c192 : case := ("){  ", ") {
      ").
Definition c193 : case := (")}},", ")
}
},
").
Definition c194 : case := (")})<", ")
})<
").
Definition c195 : case := (")}>(", ")
}>(
").
Definition c196 : case := (")}a{", ")
}a {
").
Definition c197 : case := (")} a", ")
} a").
Definition c198 : case := (")(}>", ")(
    
}>").
Definition c199 : case := (")())", ")())").
Definition c200 : case := (")(>}", ")(
    >
}").
Definition c201 : case := (")(, ", ")(
    ,
     ").
Definition c202 : case := (")( ,", ")(
     ,
    ").
Definition c203 : case := ("))}<", "))
}<
").
Definition c204 : case := (")))(", ")))(
    ").
Definition c205 : case := ("))>{", "))> {
    ").
Definition c206 : case := (")),a", ")),
a").
Definition c207 : case := (")) >", ")) >").
Definition c208 : case := (")<})", ")<
    
})").
Definition c209 : case := (")<)}", ")<
    )
}").
Definition c210 : case := (")<< ", ")<
    <
         ").
Definition c211 : case := (")<,,", ")<
    ,
    ,
    ").
Definition c212 : case := (")< <", ")<
     <
        ").
Definition c213 : case := (")>}(", ")>
}(
").
Definition c214 : case := (")>){", ")>) {
    ").
Definition c215 : case := (")><a", ")><
    a").
Definition c216 : case := (")>,>", ")>,
>").
Definition c217 : case := (")> )", ")> )").
Definition c218 : case := ("),}}", "),

}
}").
Definition c219 : case := ("),( ", "),
(
     ").
Definition c220 : case := ("),<,", "),
<
    ,
    ").
Definition c221 : case := ("),,<", "),
,
<
    ").
Definition c222 : case := ("), (", "),
 (
    ").
Definition c223 : case := (")a}{", ")a
} {
").
Definition c224 : case := (")a(a", ")a(
    a").
Definition c225 : case := (")a<>", ")a<>").
Definition c226 : case := (")a,)", ")a,
)").
Definition c227 : case := (")a }", ")a 
}").
Definition c228 : case := (") { ", ")  {
     ").
Definition c229 : case := (") (,", ") (
    ,
    ").
Definition c230 : case := (") <<", ") <
    <
        ").
Definition c231 : case := (") ,(", ") ,
(
    ").
Definition c232 : case := (")  {", ")   {
    ").
Definition c233 : case := ("<{{a", "<
     {
         {
            a").
Definition c234 : case := ("<{(>", "<
     {
        (
            
        >").
Definition c235 : case := ("<{<)", "<
     {
        <
            )").
Definition c236 : case := ("<{,}", "<
     {
        ,
        
    }").
Definition c237 : case := ("<{a ", "<
     {
        a ").
Definition c238 : case := ("<}{,", "<
    
} {
    ,
    ").
Definition c239 : case := ("<}(<", "<
    
}(
    <
        ").
Definition c240 : case := ("<}<(", "<
    
}<
    (
        ").
Definition c241 : case := ("<},{", "<
    
},
 {
    ").
Definition c242 : case := ("<}aa", "<
    
}aa").
Definition c243 : case := ("<({>", "<
    (
         {
            
        >").
Definition c244 : case := ("<(()", "<
    (
        ()").
Definition c245 : case := ("<(<}", "<
    (
        <
            
        }").
Definition c246 : case := ("<(> ", "<(
    > ").
Definition c247 : case := ("<(a,", "<
    (
        a,
        ").
Definition c248 : case := ("<){<", "<
    ) {
        <
            ").
Definition c249 : case := ("<)((", "<
    )(
        (
            ").
Definition c250 : case := ("<)<{", "<
    )<
         {
            ").
Definition c251 : case := ("<)>a", "<)>a").
Definition c252 : case := ("<)a>", "<)a>").
Definition c253 : case := ("<<{)", "<
    <
         {
            )").
Definition c254 : case := ("<<(}", "<
    <
        (
            
        }").
Definition c255 : case := ("<<) ", "<
    <
        ) ").
Definition c256 : case := ("<<>,", "<
    <>,
    ").
Definition c257 : case := ("<<a<", "<
    <
        a<
            ").
Definition c258 : case := ("<>{(", "<> {
    (
        ").
Definition c259 : case := ("<>({", "<>(
     {
        ").
Definition c260 : case := ("<>)a", "<>)a").
Definition c261 : case := ("<>>>", "<>>>").
Definition c262 : case := ("<>a)", "<>a)").
Definition c263 : case := ("<,{}", "<
    ,
     {
        
    }").
Definition c264 : case := ("<,} ", "<
    ,
    
} ").
Definition c265 : case := ("<,),", "<
    ,
    ),
    ").
Definition c266 : case := ("<,><", "<,
><
    ").
Definition c267 : case := ("<,a(", "<
    ,
    a(
        ").
Definition c268 : case := ("<a{{", "<
    a {
         {
            ").
Definition c269 : case := ("<a}a", "<
    a
}a").
Definition c270 : case := ("<a)>", "<a)>").
Definition c271 : case := ("<a>)", "<a>)").
Definition c272 : case := ("<aa}", "<
    aa
}").
Definition c273 : case := ("<a  ", "<
    a  ").
Definition c274 : case := ("< },", "<
     
},
").
Definition c275 : case := ("< )<", "<
     )<
        ").
Definition c276 : case := ("< >(", "< >(
    ").
Definition c277 : case := ("< a{", "<
     a {
        ").
Definition c278 : case := ("<  a", "<
      a").
Definition c279 : case := (">{}>", "> {
    
}>").
Definition c280 : case := (">{))", "> {
    ))").
Definition c281 : case := (">{>}", "> {
    >
}").
Definition c282 : case := (">{, ", "> {
    ,
     ").
Definition c283 : case := (">{ ,", "> {
     ,
    ").
Definition c284 : case := (">}}<", ">
}
}<
").
Definition c285 : case := (">})(", ">
})(
").
Definition c286 : case := (">}>{", ">
}> {
").
Definition c287 : case := (">},a", ">
},
a").
Definition c288 : case := (">} >", ">
} >").
Definition c289 : case := (">(})", ">(
})").
Definition c290 : case := (">()}", ">()
}").
Definition c291 : case := (">(< ", ">(
    <
         ").
Definition c292 : case := (">(,,", ">(
    ,
    ,
    ").
Definition c293 : case := (">( <", ">(
     <
        ").
Definition c294 : case := (">)}(", ">)
}(
").
Definition c295 : case := (">)){", ">)) {
    ").
Definition c296 : case := (">)<a", ">)<
    a").
Definition c297 : case := (">),>", ">),
>").
Definition c298 : case := (">) )", ">) )").
Definition c299 : case := ("><}}", "><
    
}
}").
Definition c300 : case := ("><( ", "><
    (
         ").
Definition c301 : case := ("><<,", "><
    <
        ,
        ").
Definition c302 : case := ("><,<", "><
    ,
    <
        ").
Definition c303 : case := (">< (", "><
     (
        ").
Definition c304 : case := (">>}{", ">>
} {
").
Definition c305 : case := (">>(a", ">>(
    a").
Definition c306 : case := (">><>", ">><>").
Definition c307 : case := (">>,)", ">>,
)").
Definition c308 : case := (">> }", ">> 
}").
Definition c309 : case := (">,{ ", ">,
 {
     ").
Definition c310 : case := (">,(,", ">,
(
    ,
    ").
Definition c311 : case := (">,<<", ">,
<
    <
        ").
Definition c312 : case := (">,,(", ">,
,
(
    ").
Definition c313 : case := (">, {", ">,
  {
    ").
Definition c314 : case := (">a{a", ">a {
    a").
Definition c315 : case := (">a(>", ">a(
    >").
Definition c316 : case := (">a<)", ">a<
    )").
Definition c317 : case := (">a,}", ">a,

}").
Definition c318 : case := (">aa ", ">aa ").
Definition c319 : case := ("> {,", ">  {
    ,
    ").
Definition c320 : case := ("> (<", "> (
    <
        ").
Definition c321 : case := ("> <(", "> <
    (
        ").
Definition c322 : case := ("> ,{", "> ,
 {
    ").
Definition c323 : case := ("> aa", "> aa").
Definition c324 : case := (",{{>", ",
 {
     {
        >").
Definition c325 : case := (",{()", ",
 {
    ()").
Definition c326 : case := (",{<}", ",
 {
    <
        
    }").
Definition c327 : case := (",{> ", ",
 {
    > ").
Definition c328 : case := (",{a,", ",
 {
    a,
    ").
Definition c329 : case := (",}{<", ",

} {
<
    ").
Definition c330 : case := (",}((", ",

}(
(
    ").
Definition c331 : case := (",}<{", ",

}<
 {
    ").
Definition c332 : case := (",}>a", ",

}>a").
Definition c333 : case := (",}a>", ",

}a>").
Definition c334 : case := (",({)", ",
(
     {
        
    )").
Definition c335 : case := (",((}", ",
(
    (
        
    }").
Definition c336 : case := (",() ", ",
() ").
Definition c337 : case := (",(>,", ",
(
    >,
    ").
Definition c338 : case := (",(a<", ",
(
    a<
        ").
Definition c339 : case := (",){(", ",
) {
    (
        ").
Definition c340 : case := (",)({", ",
)(
     {
        ").
Definition c341 : case := (",))a", ",
))a").
Definition c342 : case := (",)>>", ",
)>>").
Definition c343 : case := (",)a)", ",
)a)").
Definition c344 : case := (",<{}", ",
<
     {
        
    }").
Definition c345 : case := (",<} ", ",
<
    
} ").
Definition c346 : case := (",<),", ",
<
    ),
    ").
Definition c347 : case := (",<><", ",
<><
    ").
Definition c348 : case := (",<a(", ",
<
    a(
        ").
Definition c349 : case := (",>{{", ",
> {
     {
        ").
Definition c350 : case := (",>}a", ",
>
}a").
Definition c351 : case := (",>)>", ",
>)>").
Definition c352 : case := (",>>)", ",
>>)").
Definition c353 : case := (",>a}", ",
>a
}").
Definition c354 : case := (",>  ", ",
>  ").
Definition c355 : case := (",,},", ",
,

},
").
Definition c356 : case := (",,)<", ",
,
)<
    ").
Definition c357 : case := (",,>(", ",
,
>(
    ").
Definition c358 : case := (",,a{", ",
,
a {
    ").
Definition c359 : case := (",, a", ",
,
 a").
Definition c360 : case := (",a}>", ",
a
}>").
Definition c361 : case := (",a))", ",
a))").
Definition c362 : case := (",a>}", ",
a>
}").
Definition c363 : case := (",a, ", ",
a,
 ").
Definition c364 : case := (",a ,", ",
a ,
").
Definition c365 : case := (", }<", ",
 
}<
").
Definition c366 : case := (", )(", ",
 )(
    ").
Definition c367 : case := (", >{", ",
 > {
    ").
Definition c368 : case := (", ,a", ",
 ,
a").
Definition c369 : case := (",  >", ",
  >").
Definition c370 : case := ("a{})", "a {
    
})").
Definition c371 : case := ("a{)}", "a {
    )
}").
Definition c372 : case := ("a{< ", "a {
    <
         ").
Definition c373 : case := ("a{,,", "a {
    ,
    ,
    ").
Definition c374 : case := ("a{ <", "a {
     <
        ").
Definition c375 : case := ("a}}(", "a
}
}(
").
Definition c376 : case := ("a}){", "a
}) {
").
Definition c377 : case := ("a}<a", "a
}<
a").
Definition c378 : case := ("a},>", "a
},
>").
Definition c379 : case := ("a} )", "a
} )").
Definition c380 : case := ("a(}}", "a(
    
}
}").
Definition c381 : case := ("a(( ", "a(
    (
         ").
Definition c382 : case := ("a(<,", "a(
    <
        ,
        ").
Definition c383 : case := ("a(,<", "a(
    ,
    <
        ").
Definition c384 : case := ("a( (", "a(
     (
        ").
Definition c385 : case := ("a)}{", "a)
} {
").
Definition c386 : case := ("a)(a", "a)(
    a").
Definition c387 : case := ("a)<>", "a)<>").
Definition c388 : case := ("a),)", "a),
)").
Definition c389 : case := ("a) }", "a) 
}").
Definition c390 : case := ("a<{ ", "a<
     {
         ").
Definition c391 : case := ("a<(,", "a<
    (
        ,
        ").
Definition c392 : case := ("a<<<", "a<
    <
        <
            ").
Definition c393 : case := ("a<,(", "a<
    ,
    (
        ").
Definition c394 : case := ("a< {", "a<
      {
        ").
Definition c395 : case := ("a>{a", "a> {
    a").
Definition c396 : case := ("a>(>", "a>(
    >").
Definition c397 : case := ("a><)", "a><
    )").
Definition c398 : case := ("a>,}", "a>,

}").
Definition c399 : case := ("a>a ", "a>a ").
Definition c400 : case := ("a,{,", "a,
 {
    ,
    ").
Definition c401 : case := ("a,(<", "a,
(
    <
        ").
Definition c402 : case := ("a,<(", "a,
<
    (
        ").
Definition c403 : case := ("a,,{", "a,
,
 {
    ").
Definition c404 : case := ("a,aa", "a,
aa").
Definition c405 : case := ("aa{>", "aa {
    >").
Definition c406 : case := ("aa()", "aa()").
Definition c407 : case := ("aa<}", "aa<
    
}").
Definition c408 : case := ("aa> ", "aa> ").
Definition c409 : case := ("aaa,", "aaa,
").
Definition c410 : case := ("a {<", "a  {
    <
        ").
Definition c411 : case := ("a ((", "a (
    (
        ").
Definition c412 : case := ("a <{", "a <
     {
        ").
Definition c413 : case := ("a >a", "a >a").
Definition c414 : case := ("a a>", "a a>").
Definition c415 : case := (" {{)", "  {
     {
        )").
Definition c416 : case := (" {(}", "  {
    (
        
    }").
Definition c417 : case := (" {) ", "  {
    ) ").
Definition c418 : case := (" {>,", "  {
    >,
    ").
Definition c419 : case := (" {a<", "  {
    a<
        ").
Definition c420 : case := (" }{(", " 
} {
(
    ").
Definition c421 : case := (" }({", " 
}(
 {
    ").
Definition c422 : case := (" })a", " 
})a").
Definition c423 : case := (" }>>", " 
}>>").
Definition c424 : case := (" }a)", " 
}a)").
Definition c425 : case := (" ({}", " (
     {
        
    }").
Definition c426 : case := (" (} ", " (
    
} ").
Definition c427 : case := (" (),", " (),
").
Definition c428 : case := (" (><", " (
    ><
        ").
Definition c429 : case := (" (a(", " (
    a(
        ").
Definition c430 : case := (" ){{", " ) {
     {
        ").
Definition c431 : case := (" )}a", " )
}a").
Definition c432 : case := (" ))>", " ))>").
Definition c433 : case := (" )>)", " )>)").
Definition c434 : case := (" )a}", " )a
}").
Definition c435 : case := (" )  ", " )  ").
Definition c436 : case := (" <},", " <
    
},
").
Definition c437 : case := (" <)<", " <
    )<
        ").
Definition c438 : case := (" <>(", " <>(
    ").
Definition c439 : case := (" <a{", " <
    a {
        ").
Definition c440 : case := (" < a", " <
     a").
Definition c441 : case := (" >}>", " >
}>").
Definition c442 : case := (" >))", " >))").
Definition c443 : case := (" >>}", " >>
}").
Definition c444 : case := (" >, ", " >,
 ").
Definition c445 : case := (" > ,", " > ,
").
Definition c446 : case := (" ,}<", " ,

}<
").
Definition c447 : case := (" ,)(", " ,
)(
    ").
Definition c448 : case := (" ,>{", " ,
> {
    ").
Definition c449 : case := (" ,,a", " ,
,
a").
Definition c450 : case := (" , >", " ,
 >").
Definition c451 : case := (" a})", " a
})").
Definition c452 : case := (" a)}", " a)
}").
Definition c453 : case := (" a< ", " a<
     ").
Definition c454 : case := (" a,,", " a,
,
").
Definition c455 : case := (" a <", " a <
    ").
Definition c456 : case := ("  }(", "  
}(
").
Definition c457 : case := ("  ){", "  ) {
    ").
Definition c458 : case := ("  <a", "  <
    a").
Definition c459 : case := ("  ,>", "  ,
>").
Definition c460 : case := ("   )", "   )").
Definition c461 : case := ("(<ba,aé,ba,aébb,a,éébbbbéb,,bba>,a", "(
    <ba,
    aé,
    ba,
    aébb,
    a,
    éébbbbéb,
    ,
    bba>,
    a").
Definition c462 : case := ("(<<a>bbb,éaaébaa,é,éb>", "(
    <<a>bbb,
    éaaébaa,
    é,
    éb>").
Definition c463 : case := ("a<baa,éba,aé,béba,a,éaabbébé,ééaéééab>", "a<
    baa,
    éba,
    aé,
    béba,
    a,
    éaabbébé,
    ééaéééab
>").
Definition c464 : case := ("x{<b,ééb,éaabb,é,é,ba,éé,ééé>}", "x {
    <b,
    ééb,
    éaabb,
    é,
    é,
    ba,
    éé,
    ééé>
}").
Definition c465 : case := ("<(a,a,ébaaaéaa,ébabé,bbé,baé,aaé,b,b,é,,,,b)", "<
    (
        a,
        a,
        ébaaaéaa,
        ébabé,
        bbé,
        baé,
        aaé,
        b,
        b,
        é,
        ,
        ,
        ,
        b
    )").
Definition c466 : case := ("(<::;a,{([bb]88;aab;],({u,;,u}))}>)", "(
    <
        ::;a,
         {
            (
                [bb]88;aab;],
                (
                     {
                        u,
                        ;,
                        u
                    }
                )
            )
        }
    >
)").
Definition c467 : case := ("({[:x[a]]},<<<x]:>,{}>>,{},{<<()>,a;aax8[:;:;;,<xxx88x;:a:8,(<8];ab;aaa]b:>)>>})", "(
     {
        [:x[a]]
    },
    <
        <
            <x]:>,
             {
                
            }
        >
    >,
     {
        
    },
     {
        <
            <()>,
            a;aax8[:;:;;,
            <xxx88x;:a:8,
            (<8];ab;aaa]b:>)>
        >
    }
)").
Definition c468 : case := ("({<a;b[x8[[][bb,({{u,u,u,u},8;b:]8xa:,<u>,<u,u,]b;axa;a:x>})>})", "(
     {
        <
            a;b[x8[[][bb,
            (
                 {
                     {
                        u,
                        u,
                        u,
                        u
                    },
                    8;b:]8xa:,
                    <u>,
                    <u,
                    u,
                    ]b;axa;a:x>
                }
            )
        >
    }
)").
Definition c469 : case := ("{()},{][a,baxx][[];8},<>,<[[x;,88]]]a:aa,8]a;;[[bx:;>,x];", " {
    ()
},
 {
    ][a,
    baxx][[];8
},
<>,
<[[x;,
88]]]a:aa,
8]a;;[[bx:;>,
x];").
Definition c470 : case := ("(88a]]:,<>,{<<>,{},{<(a,x;b];8b,]a:bbx:xx;],u),a;8:,{[}>,;bx;}>})", "(
    88a]]:,
    <>,
     {
        <
            <>,
             {
                
            },
             {
                <
                    (a, x;b];8b, ]a:bbx:xx;], u),
                    a;8:,
                     {
                        [
                    }
                >,
                ;bx;
            }
        >
    }
)").
Definition c471 : case := ("{}", " {
    
}").
Definition c472 : case := ("<[:;;x]a:,({([ax]b8,{;];8:],<u,u>,{u,u,x[[;]bx]:8x,u,u}},<[,()>),x:][[[,<a:8,x:8]b[;[aa[8,{{u,a::xb:},{b8]]::]b:b[x}}>})>", "<
    [:;;x]a:,
    (
         {
            (
                [ax]b8,
                 {
                    ;];8:],
                    <u,
                    u>,
                     {
                        u,
                        u,
                        x[[;]bx]:8x,
                        u,
                        u
                    }
                },
                <[,
                ()>
            ),
            x:][[[,
            <
                a:8,
                x:8]b[;[aa[8,
                 {
                     {
                        u,
                        a::xb:
                    },
                     {
                        b8]]::]b:b[x
                    }
                }
            >
        }
    )
>").
Definition c473 : case := ("xaba[x;,]b::,((<x]ba]:8[x;;,{{8xba8][[,]axx,{u,u,u},(u)},{;,][8]],ab;[:b;x;xx,<u>}},{<(u,]8:;;x:b;;8),(u,:bb;a:8]b)>,]a[]]:8[8a[8,((u,u,u,8aaa[88a[];[)),((u,u),<;;a]:a[,u,u,u,u>,[:[8x;[]x],(u),{u,u,[x:a8,u})}>,(8xxx8x)))", "xaba[x;,
]b::,
(
    (
        <
            x]ba]:8[x;;,
             {
                 {
                    8xba8][[,
                    ]axx,
                     {
                        u,
                        u,
                        u
                    },
                    (u)
                },
                 {
                    ;,
                    ][8]],
                    ab;[:b;x;xx,
                    <u>
                }
            },
             {
                <(u, ]8:;;x:b;;8),
                (u, :bb;a:8]b)>,
                ]a[]]:8[8a[8,
                ((u, u, u, 8aaa[88a[];[)),
                (
                    (u, u),
                    <;;a]:a[,
                    u,
                    u,
                    u,
                    u>,
                    [:[8x;[]x],
                    (u),
                     {
                        u,
                        u,
                        [x:a8,
                        u
                    }
                )
            }
        >,
        (8xxx8x)
    )
)").
Definition c474 : case := ("<((x8:bbb]:88[,((],]x[bx[;[a:8,[bxb),(),xa,([:,x]:8x[,]ax:a8]::;8,<>),[;]8:88a:x:),(<:a]aaaab8xa;,[bbxb]];x][a,bab8,:,88]bx:[ab;>,x88;)),a88x:x8[a:;,{<>,(xxab8:[x[,<x::],:8;];b:;aax[,[;x;b[];,<u,u>,(];x]8,]8b]abb)>)})>", "<
    (
        (
            x8:bbb]:88[,
            (
                (], ]x[bx[;[a:8, [bxb),
                (),
                xa,
                ([:, x]:8x[, ]ax:a8]::;8, <>),
                [;]8:88a:x:
            ),
            (
                <
                    :a]aaaab8xa;,
                    [bbxb]];x][a,
                    bab8,
                    :,
                    88]bx:[ab;
                >,
                x88;
            )
        ),
        a88x:x8[a:;,
         {
            <>,
            (
                xxab8:[x[,
                <
                    x::],
                    :8;];b:;aax[,
                    [;x;b[];,
                    <u,
                    u>,
                    (];x]8, ]8b]abb)
                >
            )
        }
    )
>").
Definition c475 : case := (":x]a,(({(b[::8;xx[],[8;bx,[::]];xa),<];8x],a;]:],(),{(u),(:8b8x:[[),:88;:[x,::a]b[a8},(<;]xx::[;:,u>)>}))", ":x]a,
(
    (
         {
            (b[::8;xx[], [8;bx, [::]];xa),
            <
                ];8x],
                a;]:],
                (),
                 {
                    (u),
                    (:8b8x:[[),
                    :88;:[x,
                    ::a]b[a8
                },
                (<;]xx::[;:, u>)
            >
        }
    )
)").
Definition c476 : case := ("{<{]axx]b8xxb},x,(;]:a[];[][,<>,8;a8a;xb88]b,(ba[[;b[8))>}", " {
    <
         {
            ]axx]b8xxb
        },
        x,
        (
            ;]:a[];[][,
            <>,
            8;a8a;xb88]b,
            (ba[[;b[8)
        )
    >
}").
Definition c477 : case := ("{;]][88][;,{(<{{u}},{:b,<u,a8:,u>,;b8bxxa:x,8;ab},(;;;:8x8::a;a,<u,x;]a[]a,u>),8x]b>),<(({u},(u,bx][a:[;x8:,[];b,;ax;8]),<b,u,][ba]8>))>}}", " {
    ;]][88][;,
     {
        (
            <
                 {
                     {
                        u
                    }
                },
                 {
                    :b,
                    <u,
                    a8:,
                    u>,
                    ;b8bxxa:x,
                    8;ab
                },
                (;;;:8x8::a;a, <u, x;]a[]a, u>),
                8x]b
            >
        ),
        <
            (
                (
                     {
                        u
                    },
                    (u, bx][a:[;x8:, [];b, ;ax;8]),
                    <b,
                    u,
                    ][ba]8>
                )
            )
        >
    }
}").
Definition c478 : case := ("8ab;xx88:[8:,{}", "8ab;xx88:[8:,
 {
    
}").
Definition c479 : case := ("{a,<(x;8b];;,;:]]aba[,(bxaxabb]][,ax][8[a[x,8::[bb8::[][),bx]::;)>,]x]x:},({8,b8a]:;;],<<[]x:x]x;:,<8,a[8;xa]::a,{[:a8xb,u,x:;b:],u,bba},{8b8:[:aa;]b}>,<<a8b8b:;[b8:x,u,u>>>,<<<u>>>>})", " {
    a,
    <
        (
            x;8b];;,
            ;:]]aba[,
            (
                bxaxabb]][,
                ax][8[a[x,
                8::[bb8::[][
            ),
            bx]::;
        )
    >,
    ]x]x:
},
(
     {
        8,
        b8a]:;;],
        <
            <
                []x:x]x;:,
                <
                    8,
                    a[8;xa]::a,
                     {
                        [:a8xb,
                        u,
                        x:;b:],
                        u,
                        bba
                    },
                     {
                        8b8:[:aa;]b
                    }
                >,
                <<a8b8b:;[b8:x,
                u,
                u>>
            >,
            <<<u>>>
        >
    }
)").
Definition c480 : case := ("xa]]]x8aa:aa,{{a;,<<xxaxb,<<u>,:]xax8;]8x>>>}}", "xa]]]x8aa:aa,
 {
     {
        a;,
        <<xxaxb,
        <<u>,
        :]xax8;]8x>>>
    }
}").
Definition c481 : case := ("(<<xxb:8:,<<>,8]8[ab],;b]:b]][b,8[;ba>,<a8bba]:;x,(),<>,<b];8x[a[,(u),{[:x]:8,u,u,u,u}>,<<u>,{u,a[b:aaa8}>>>>)", "(
    <
        <
            xxb:8:,
            <<>,
            8]8[ab],
            ;b]:b]][b,
            8[;ba>,
            <
                a8bba]:;x,
                (),
                <>,
                <
                    b];8x[a[,
                    (u),
                     {
                        [:x]:8,
                        u,
                        u,
                        u,
                        u
                    }
                >,
                <
                    <u>,
                     {
                        u,
                        a[b:aaa8
                    }
                >
            >
        >
    >
)").
Definition c482 : case := ("b;ab;],(<x;b:a>)", "b;ab;],
(<x;b:a>)").
Definition c483 : case := ("<<{[8axx[xb8,{},;x:aa8;[8,<>,:][[;},<::x,{{<baxbxbxbb,u,][;:xaab>,<>,<a;x[,u,x[::babax,u>},bxx8:b,;;]]b,<>,{}}>>>", "<
    <
         {
            [8axx[xb8,
             {
                
            },
            ;x:aa8;[8,
            <>,
            :][[;
        },
        <
            ::x,
             {
                 {
                    <baxbxbxbb,
                    u,
                    ][;:xaab>,
                    <>,
                    <a;x[,
                    u,
                    x[::babax,
                    u>
                },
                bxx8:b,
                ;;]]b,
                <>,
                 {
                    
                }
            }
        >
    >
>").
Definition c484 : case := ("{:b:b[b,<<[;[8;[[]:[a,bxb,{[a:x8b];:[,<>,((u,u))},[8;baxba[>,bx:;b;xb];8[>},{},{:,:},b:8;xx8;:bb", " {
    :b:b[b,
    <
        <
            [;[8;[[]:[a,
            bxb,
             {
                [a:x8b];:[,
                <>,
                ((u, u))
            },
            [8;baxba[
        >,
        bx:;b;xb];8[
    >
},
 {
    
},
 {
    :,
    :
},
b:8;xx8;:bb").
Definition c485 : case := ("a]:[8;[", "a]:[8;[").
Definition c486 : case := ("(;a]a;,<;a[;:]]:]8b>,<x8]]8x;b]x,{<{<u,u,b[aab,u,u>,88b8b[b8[[[;,<u,8x;:a;;8aa,u,u>},(:a]b;xa)>}>)", "(
    ;a]a;,
    <;a[;:]]:]8b>,
    <
        x8]]8x;b]x,
         {
            <
                 {
                    <u,
                    u,
                    b[aab,
                    u,
                    u>,
                    88b8b[b8[[[;,
                    <u,
                    8x;:a;;8aa,
                    u,
                    u>
                },
                (:a]b;xa)
            >
        }
    >
)").
Definition c487 : case := ("{}", " {
    
}").
Definition c488 : case := ("<({;]x]];x88,{<>,((u,b;)),<{u,8[8:8;;]a][x,:;b:a:;]ax,u,8xb]:x[b]8},(u,u),8abbb;ax,b;x[bxb]x88,(u,u,u)>,[;[xb,x[88b[:},8,;]b[ab][},({xa]b;a::;]:8,[,;ab,b,({u},<8:b8,8,u,u>,]]:x[xb][]b8)},[8),([bx]x;:))>", "<
    (
         {
            ;]x]];x88,
             {
                <>,
                ((u, b;)),
                <
                     {
                        u,
                        8[8:8;;]a][x,
                        :;b:a:;]ax,
                        u,
                        8xb]:x[b]8
                    },
                    (u, u),
                    8abbb;ax,
                    b;x[bxb]x88,
                    (u, u, u)
                >,
                [;[xb,
                x[88b[:
            },
            8,
            ;]b[ab][
        },
        (
             {
                xa]b;a::;]:8,
                [,
                ;ab,
                b,
                (
                     {
                        u
                    },
                    <8:b8,
                    8,
                    u,
                    u>,
                    ]]:x[xb][]b8
                )
            },
            [8
        ),
        ([bx]x;:)
    )
>").
Definition c489 : case := ("<({x;[,{bb8,:a:[xxb:,<{u},<u,;xxa;[::a,u>>,{<u,u>,(u,u,u),<u,u,::x,x[b8:888a>,{u},<]b::]8,u>},<b;,<>,x[b[[],{u,u,]aa[8,u,u}>},<[]a]x]x,]bba][:;b,<{],[];x8},a[xb;ba;[a;8>>})>", "<
    (
         {
            x;[,
             {
                bb8,
                :a:[xxb:,
                <
                     {
                        u
                    },
                    <u,
                    ;xxa;[::a,
                    u>
                >,
                 {
                    <u,
                    u>,
                    (u, u, u),
                    <u,
                    u,
                    ::x,
                    x[b8:888a>,
                     {
                        u
                    },
                    <]b::]8,
                    u>
                },
                <
                    b;,
                    <>,
                    x[b[[],
                     {
                        u,
                        u,
                        ]aa[8,
                        u,
                        u
                    }
                >
            },
            <
                []a]x]x,
                ]bba][:;b,
                <
                     {
                        ],
                        [];x8
                    },
                    a[xb;ba;[a;8
                >
            >
        }
    )
>").
Definition c490 : case := ("{<{88aa;,;]b],<((u,;8,u,u,u),(;;bba))>}>}", " {
    <
         {
            88aa;,
            ;]b],
            <((u, ;8, u, u, u), (;;bba))>
        }
    >
}").
Definition c491 : case := ("]}€𝄞( 	,b(>a
b€]{[],]]})] );::){;:é}])ZZ<[<>ZZ:](€€
€	<𝄞(Za :€{:}{{)[é}:
,>	€é
 é(<  (])Za[𝄞Z >b;éé],}a,<€[;}>a[:
]€{)(ééZ
 
[Z :{é
 	<]𝄞:Zba:(Z]a<,;é:}é,} {	[;}]	;,,]", "]
}€𝄞(
 	,
b(
    >a
b€] {
        [],
        ]]
    }
)] 
);::) {
;:é
}])ZZ<
[<>ZZ:](
    €€
€	<
        𝄞(
            Za :€ {
                :
            } {
                 {
                    
                )[é
            }:
,
            
        >	€é
 é(
            <  (])Za[𝄞Z >b;éé],
            
        }a,
        <€[;
    }>a[:
]€ {
        
    )(
        ééZ
 
[Z : {
            é
 	<
                ]𝄞:Zba:(
                    Z]a<
                        ,
                        ;é:
                    }é,
                    
                }  {
                    	[;
                }]	;,
                ,
                ]").
Definition c492 : case := (">) €
Z  ]];
:ba]ba <Z]€
:)	b<,]))<aZ,
 ]€	 ;({:><a€
{[€<[		[;:)Z:]b	{é€:a])

,Z(}b
}}{aZ}>{(:;[;<𝄞>é𝄞>Z>}a<	€ );( <]},]Z𝄞:; aZ,Z>€{a𝄞:é", ">) €
Z  ]];
:ba]ba <
    Z]€
:)	b<
        ,
        ]))<
            aZ,
            
 ]€	 ;(
                 {
                    :
                ><
                    a€
 {
                        [€<
                            [		[;:
                        )Z:]b	 {
                            é€:a])

,
                            Z(
                                
                            }b

                        }
                    } {
                        aZ
                    }
                > {
                    (:;[;<𝄞>é𝄞
                >Z
            >
        }a<
            	€ );(
                 <]
            },
            ]Z𝄞:; aZ,
            Z>€ {
                a𝄞:é").
Definition c493 : case := ("€,Z{	)(>,:)}é}]]}[(:Z<(b{<{}<;}][;,a 𝄞]	[(
a }	<>	:€𝄞,,{[a:€ba;𝄞	[{𝄞;é bZ::,𝄞(é<::𝄞}>	)(>[𝄞) 𝄞€
<(	)<)€bZ𝄞 {}>
[;]>,;a;ébé[: >éZé 𝄞,é	:	:}[][Z,	[
:([	;>é
};);)𝄞)[€>a	é,(é}[𝄞
)>a :]<):]]]<[[", "€,
Z {
    	)(>, :)
}é
}]]
}[(
:Z<
(
    b {
        <
             {
                
            }<
                ;
            }][;,
            a 𝄞]	[(
                
a 
            }	<>	:€𝄞,
            ,
             {
                [a:€ba;𝄞	[ {
                    𝄞;é bZ::,
                    𝄞(é<::𝄞
                }>	)(
            >[𝄞) 𝄞€
<
                (	)<
                    
                )€bZ𝄞  {
                    
                }
            >
[;]
        >,
        ;a;ébé[: 
    >éZé 𝄞,
    é	:	:
}[][Z,
	[
:([	;
>é

};);
)𝄞
)[€>a	é,
(é
}[𝄞
)>a :]<
):]]]<
[[").
Definition c494 : case := ("]Z}𝄞a<Z[(:>}
,)]	𝄞;ba<a[)(€,,,Zb𝄞a	)[[[<a{)ba{]aaé)𝄞Z𝄞	  (}𝄞 );bb,>€,{𝄞<b,},  ;€;Z𝄞)
€Z
< b]])]>:	(}}(]<(é>;:,
(a€
	:];:{[,))
,	),	(;<(𝄞:é>}>}; b{}];a
, {]b(a€][é[€Z {€€(()é[	é;:
𝄞;[,)€Z]]
};()𝄞(;<)
;,é}	,é<	
,(]}:>,<):b],b:a𝄞€é
>(<", "]Z
}𝄞a<Z[(:>
}
, )]	𝄞;ba<
a[)(€, , , Zb𝄞a	)[[[<
a {
    )ba {
        ]aaé)𝄞Z𝄞	  (
    }𝄞 );bb,
    
>€,
 {
    𝄞<
        b,
        
    },
      ;€;Z𝄞)
€Z
< b]])]>:	(
        
    }
}(
    ]<(
        é>;:,
        
(
            a€
	:];: {
                [,
                
            )
        )
,
        	
    ),
    	(
        ;<(
            𝄞:é>
        }
    >
}; b {
    
}];a
,
  {
    ]b(
        a€][é[€Z  {
            €€(()é[	é;:
𝄞;[, )€Z]]

        };()𝄞(;<
            )
;,
            é
        }	,
        é<	
,
        (]
    }:>, <):b],
    b:a𝄞€é
>(
        <
            ").
Definition c495 : case := ("[b{
:)b{é) b 𝄞<€ 𝄞:Z	a)ba;);b;€;ZZ[é{} é	;,	bZ	a<,{>}ba,}€]Z{€<}}b:b,}é	][ <
	é	€b€(
𝄞a)[{
,>
<
)})Z éb,𝄞(	{	Z é ]€;{
€a(<:Zb>Z€)),	,:>>Z𝄞€]}):	{Zb>}{}€>é:𝄞𝄞b [
b(€<{{b[
> 	)ab>
	{(Z(]𝄞},a[{𝄞b> €,{}{é)Z𝄞

	{b] :]a	[,,b}[b(
:}<(( 	} :(:]]{] :):]][(a𝄞é);<)€Z	{:,,", "[b {
    
:)b {
        é) b 𝄞<
            € 𝄞:Z	a)ba;);b;€;ZZ[é {
                
            } é	;,
            	bZ	a<
                ,
                 {
                    
                >
            }ba,
            
        }€]Z {
            €<
                
            }
        }b:b,
        
    }é	][ <
        
	é	€b€(
𝄞a)[ {
            
,
            
        >
<
            
)
        })Z éb,
        𝄞(
            	 {
                	Z é ]€; {
                    
€a(<:Zb>Z€)
                ),
                	,
                :
            >
        >Z𝄞€]
    }):	 {
        Zb
    >
} {
    
}€>é:𝄞𝄞b [
b(
    €<
         {
             {
                b[

            > 	
        )ab>
	 {
            (
                Z(
                    ]𝄞
                },
                a[ {
                    𝄞b> €,
                     {
                        
                    } {
                        é
                    )Z𝄞

	 {
                        b] :]a	[,
                        ,
                        b
                    }[b(
                        
:
                    }<
                        (
                            (
                                 	
                            } :(
                                :]] {
                                    ] :
                                ):]][(a𝄞é);<
                                    
                                )€Z	 {
                                    :,
                                    ,
                                    ").
Definition c496 : case := ("
[<𝄞b;€[;{	>a	(]𝄞€]]𝄞𝄞<(Z;;:	]<]é{]{;<
{{;(	Z<[
,𝄞: é
]€ Zb,<;](b	}	):𝄞>𝄞Z𝄞<é>Z:éZ]>	éZ	{é
,<(}€,{ {}€)", "
[<
    𝄞b;€[; {
        	
    >a	(
        ]𝄞€]]𝄞𝄞<
            (
                Z;;:	]<
                    ]é {
                        ] {
                            ;<
                                
 {
                                     {
                                        ;(
                                            	Z<
                                                [
,
                                                𝄞: é
]€ Zb,
                                                <;](b	
                                            }	):𝄞>𝄞Z𝄞<é>Z:éZ]
                                        >	éZ	 {
                                            é
,
                                            <
                                                (
                                                    
                                                }€,
                                                 {
                                                      {
                                                        
                                                    }€
                                                )").
Definition c497 : case := (" a	 ", " a	 ").
Definition c498 : case := (",<
(éé{{<)>>é}Z€b:é[):é>;€] b	}𝄞	Z)[><>(]Z{(;>
}	}a,}}}}b> (,[é𝄞	}]](	>aa[ é€  ];b(a:<<	€a>,bb	€(,});Z) ,a€b;,:;[][;]
:(

", ",
<
    
(
        éé {
             {
                <
            )>
        >é
    }Z€b:é[):é>;€] b	
}𝄞	Z)[><>(
    ]Z {
        (
            ;>

        }	
    }a,
    
}
}
}
}b> (
,
[é𝄞	
}]](
	>aa[ é€  ];b(a:<
<	€a>, bb	€(, 
});Z) ,
a€b;,
:;[][;]
:(


").
Definition c499 : case := (";]b{é}€b<(,(€Z
<),abaaéé
a)a:{{[[a	", ";]b {
    é
}€b<
    (, (€Z
<
        ), abaaéé
a)a: {
             {
                [[a	").
Definition c500 : case := (">;(b𝄞	;( )]{]é();[€€aé>𝄞]a𝄞
>[€€{;[}{:; é
[Zb[Z,;bé< ", ">;(
    b𝄞	;( )] {
        ]é();[€€aé>𝄞]a𝄞
>[€€ {
            ;[
        } {
            :; é
[Zb[Z,
            ;bé<
                 ").
Definition c501 : case := ("b	bb>	(bb

Z[]:b>:;]] }
Z[", "b	bb>	(
    bb

Z[]:b>:;]] 
}
Z[").
Definition c502 : case := ("(Z}aZa,,;b{))<}>Z;é]><Za €𝄞Zé>[a[é)},aa	:[: >><,𝄞 bZ[é(}{
ab  𝄞(𝄞);[b:<]<Z,(]>

}𝄞:	
	:)
€	€<	b: Z𝄞[:
][bb(Za[:}é𝄞>	𝄞}
{𝄞>Z(a;Z} (,)))	é(,}
	,(𝄞<]:
	:<ba(a][a
<)Z>", "(
    Z
}aZa,
,
;b {
    
))<
}>Z;é]><Za €𝄞Zé>[a[é)
},
aa	:[: >><
,
𝄞 bZ[é(

} {

ab  𝄞(𝄞);[b:<
    ]<Z,
    (]>


}𝄞:	
	:)
€	€<	b: Z𝄞[:
][bb(
    Za[:
}é𝄞>	𝄞
}
 {
𝄞
>Z(a;Z
} (, ))
)	é(
,

}
	,
(
𝄞<
]:
	:<
ba(a][a
<)Z>").
Definition c503 : case := ("a>
 €é,)	<)(}:é;€:>;, é;ab){{𝄞{;b,	]{[;𝄞:b];>;}€
]:;é€[}é]:})
€
𝄞
Z𝄞[((:>})[; ((a[éé(]𝄞:b,])<
 €	
])aZ,][a);]()(]
	a𝄞}€)
,{(}{){>:)) :));({,;é
b,):aa]<b((𝄞 
}b	a])	é,é<Za:),>€Z::( ;(a	<;(", "a>
 €é,
)	<)(
}:é;€:>;,  é;ab) {
 {
    𝄞 {
        ;b,
        	] {
            [;𝄞:b];>;
        }€
]:;é€[
    }é]:
})
€
𝄞
Z𝄞[(
    (:>
})[; ((a[éé(]𝄞:b, ])<
    
 €	
])aZ, ][a);]()(]
	a𝄞
}€)
,
 {
    (
        
    } {
        
    ) {
        
    >:
)) :));(
     {
        ,
        ;é
b,
        
    ):aa]<
        b((𝄞 

    }b	a])	é, é<Za:),
    >€Z::(
         ;(
            a	<
                ;(
                    ").
Definition c504 : case := (":>{Z{}:}é]a]a𝄞<Z	b𝄞𝄞][}{}b€	){)€	<a<Z 
	a>:aé;Zé<))Z,> >		(},;<{,)éZ{) €", ":> {
    Z {
        
    }:
}é]a]a𝄞<
    Z	b𝄞𝄞][
} {
    
}b€	) {
    )€	<a<Z 
	a>:aé;Zé<))Z,
    > >		(
        
    },
    ;<
         {
            ,
            
        )éZ {
            ) €").
Definition c505 : case := (" >€Z,Zb>€,𝄞::€:]>
;𝄞)<<a𝄞[,€ ;>b𝄞
	[[;}: ((;Z{};a[ >Z(:(})> :é}<}( ](", " >€Z,
Zb>€,
𝄞::€:]>
;𝄞)<
    <a𝄞[,
    € ;>b𝄞
	[[;
}: (
    (
        ;Z {
            
        };a[ 
    >Z(
        :(
    })> :é
}<
    
}(
     ](
        ").
Definition c506 : case := ("a>a,bZ] ] 
>)]):[<)€(
𝄞>}]é𝄞,𝄞]€€;é>Z é]<
]éé[𝄞< )>𝄞](bba}a[]:{}	𝄞(,[[
€b(;b)
€é>]}Z;<])€};é €<{,
>(𝄞<]:a,,<>;(<a
	{>[aZ)>b)[<é]Z;;Z𝄞>Z((
,{b€b,[	b::é: b]", "a>a,
bZ] ] 
>)]):[<)€(
𝄞>
}]é𝄞, 𝄞]€€;é>Z é]<

]éé[𝄞< )>𝄞](
    bba
}a[]: {
    
}	𝄞(, [[
€b(;b)
€é
>]
}Z;<
])€
};é €<
 {
,


>(
𝄞<
    ]:a,
    ,
    <>;(
        <
            a
	 {
                
            >[aZ
        )
    >b
)[<é]Z;;Z𝄞>Z(
    (
        
,
         {
            b€b,
            [	b::é: b]").
Definition c507 : case := ("(Z 	
€
:)a{}(](𝄞}𝄞)]<Z::b)<,𝄞
b {b:>,b}

(

 [€}; >𝄞€Z, a<<) <𝄞b
[; 	,b>>[}[}((<	};}}>,>	aé>,]b𝄞>{>𝄞(𝄞		é;}>  };}
€€éZ:) :] ,){)
aé<,,	,:(>𝄞aa:[<{[)a:[}<<{
)]);bé	€
(Z,;a>;{,[<	é]}>a(;>))[
𝄞€", "(Z 	
€
:)a {
    
}(](𝄞
}𝄞)]<
Z::b)<
    ,
    𝄞
b  {
        b:
    >,
    b
}

(

 [€
}; 
>𝄞€Z,  a<<) <𝄞b
[; 	,
b>>[
}[
}(
(
<	
};
}
}>,
>	aé>,
]b𝄞> {
>𝄞(𝄞		é;
}>  
};
}
€€éZ:) :] ,

) {

)
aé<,
,
	,
:(
>𝄞aa:[<
 {
[
)a:[
}<
<
 {

)]);bé	€
(
Z,
;a
>; {
,
[<	é]
}>a(;
>)
)[
𝄞€").
Definition c508 : case := ("	),	€
,€(]{] <
{)𝄞a:bb€]bZ	[{€}]𝄞:[ébZabé<) €}{:€b(𝄞{]]𝄞(a	b;; ]é(é Z[aZ]]𝄞]]	,a)}:€bb{:é}𝄞:{<<[𝄞Z,{(	>éa[][;>a	<,€a 	;[	}(]:}b>,;éZ>bZ€	bb]b {€
	)	[:;> 
[:<}b;;:é)(b>", "	),
	€
,
€(
    ] {
        ] <
            
 {
                
            )𝄞a:bb€]bZ	[ {
                €
            }]𝄞:[ébZabé<
                ) €
            } {
                :€b(
                    𝄞 {
                        ]]𝄞(
                            a	b;; ]é(é Z[aZ]]𝄞]]	, a)
                        }:€bb {
                            :é
                        }𝄞: {
                            <
                                <
                                    [𝄞Z,
                                     {
                                        (
                                            	
                                        >éa[][;
                                    >a	<,
                                    €a 	;[	
                                }(
                                    ]:
                                }b>,
                                ;éZ
                            >bZ€	bb]b  {
                                €
	
                            )	[:;
                        > 
[:<
                    }b;;:é
                )(
                    b>").
Definition c509 : case := ("[(Compact<u16>,Compact<struct PerU16(u16)>); 15]", "[(
    Compact<u16>,
    Compact<struct PerU16(u16)>
); 15]").
Definition c510 : case := ("enum Origin{StakingAdmin,Treasurer,FellowshipAdmin,GeneralAdmin,AuctionAdmin,LeaseAdmin,ReferendumCanceller,ReferendumKiller,SmallTipper,BigTipper,SmallSpender,MediumSpender,BigSpender,WhitelistedCaller}", "enum Origin {
    StakingAdmin,
    Treasurer,
    FellowshipAdmin,
    GeneralAdmin,
    AuctionAdmin,
    LeaseAdmin,
    ReferendumCanceller,
    ReferendumKiller,
    SmallTipper,
    BigTipper,
    SmallSpender,
    MediumSpender,
    BigSpender,
    WhitelistedCaller
}").
Definition c511 : case := ("enum Event<_>{Created{depositor: struct AccountId32([u8; 32]),pool_id: u32},Bonded{member: AccountId32,pool_id: u32,bonded: u128,joined: bool},PaidOut{member: AccountId32,pool_id: u32,payout: u128},Unbonded{member: AccountId32,pool_id: u32,balance: u128,points: u128,era: u32},Withdrawn{member: AccountId32,pool_id: u32,balance: u128,points: u128},Destroyed{pool_id: u32},StateChanged{pool_id: u32,new_state: enum PoolState{Open,Blocked,Destroying}},MemberRemoved{pool_id: u32,member: AccountId32},RolesUpdated{root: enum Option<AccountId32>{None,Some(AccountId32)},bouncer: Option<AccountId32>,nominator: Option<AccountId32>},PoolSlashed{pool_id: u32,balance: u128},UnbondingPoolSlashed{pool_id: u32,era: u32,balance: u128},PoolCommissionUpdated{pool_id: u32,current: enum Option<(Perbill,AccountId32)>{None,Some((struct Perbill(u32),AccountId32))}},PoolMaxCommissionUpdated{pool_id: u32,max_commission: Perbill},PoolCommissionChangeRateUpdated{pool_id: u32,change_rate: struct CommissionChangeRate<u32>{max_increase: Perbill,min_delay: u32}},PoolCommissionClaimed{pool_id: u32,commission: u128}}", "enum Event<_> {
    Created {
        depositor: struct AccountId32([u8; 32]),
        pool_id: u32
    },
    Bonded {
        member: AccountId32,
        pool_id: u32,
        bonded: u128,
        joined: bool
    },
    PaidOut {
        member: AccountId32,
        pool_id: u32,
        payout: u128
    },
    Unbonded {
        member: AccountId32,
        pool_id: u32,
        balance: u128,
        points: u128,
        era: u32
    },
    Withdrawn {
        member: AccountId32,
        pool_id: u32,
        balance: u128,
        points: u128
    },
    Destroyed {
        pool_id: u32
    },
    StateChanged {
        pool_id: u32,
        new_state: enum PoolState {
            Open,
            Blocked,
            Destroying
        }
    },
    MemberRemoved {
        pool_id: u32,
        member: AccountId32
    },
    RolesUpdated {
        root: enum Option<AccountId32> {
            None,
            Some(AccountId32)
        },
        bouncer: Option<AccountId32>,
        nominator: Option<AccountId32>
    },
    PoolSlashed {
        pool_id: u32,
        balance: u128
    },
    UnbondingPoolSlashed {
        pool_id: u32,
        era: u32,
        balance: u128
    },
    PoolCommissionUpdated {
        pool_id: u32,
        current: enum Option<(Perbill, AccountId32)> {
            None,
            Some(
                (struct Perbill(u32), AccountId32)
            )
        }
    },
    PoolMaxCommissionUpdated {
        pool_id: u32,
        max_commission: Perbill
    },
    PoolCommissionChangeRateUpdated {
        pool_id: u32,
        change_rate: struct CommissionChangeRate<u32> {
            max_increase: Perbill,
            min_delay: u32
        }
    },
    PoolCommissionClaimed {
        pool_id: u32,
        commission: u128
    }
}").
Definition c512 : case := ("struct OutboundHrmpMessage<Id>{recipient: struct Id(u32),data: Vec<u8>}", "struct OutboundHrmpMessage<Id> {
    recipient: struct Id(u32),
    data: Vec<u8>
}").
Definition cases : list (case) := [c0; c1; c2; c3; c4; c5; c6; c7; c8; c9; c10; c11; c12; c13; c14; c15; c16; c17; c18; c19; c20; c21; c22; c23; c24; c25; c26; c27; c28; c29; c30; c31; c32; c33; c34; c35; c36; c37; c38; c39; c40; c41; c42; c43; c44; c45; c46; c47; c48; c49; c50; c51; c52; c53; c54; c55; c56; c57; c58; c59; c60; c61; c62; c63; c64; c65; c66; c67; c68; c69; c70; c71; c72; c73; c74; c75; c76; c77; c78; c79; c80; c81; c82; c83; c84; c85; c86; c87; c88; c89; c90; c91; c92; c93; c94; c95; c96; c97; c98; c99; c100; c101; c102; c103; c104; c105; c106; c107; c108; c109; c110; c111; c112; c113; c114; c115; c116; c117; c118; c119; c120; c121; c122; c123; c124; c125; c126; c127; c128; c129; c130; c131; c132; c133; c134; c135; c136; c137; c138; c139; c140; c141; c142; c143; c144; c145; c146; c147; c148; c149; c150; c151; c152; c153; c154; c155; c156; c157; c158; c159; c160; c161; c162; c163; c164; c165; c166; c167; c168; c169; c170; c171; c172; c173; c174; c175; c176; c177; c178; c179; c180; c181; c182; c183; c184; c185; c186; c187; c188; c189; c190; c191; c192; c193; c194; c195; c196; c197; c198; c199; c200; c201; c202; c203; c204; c205; c206; c207; c208; c209; c210; c211; c212; c213; c214; c215; c216; c217; c218; c219; c220; c221; c222; c223; c224; c225; c226; c227; c228; c229; c230; c231; c232; c233; c234; c235; c236; c237; c238; c239; c240; c241; c242; c243; c244; c245; c246; c247; c248; c249; c250; c251; c252; c253; c254; c255; c256; c257; c258; c259; c260; c261; c262; c263; c264; c265; c266; c267; c268; c269; c270; c271; c272; c273; c274; c275; c276; c277; c278; c279; c280; c281; c282; c283; c284; c285; c286; c287; c288; c289; c290; c291; c292; c293; c294; c295; c296; c297; c298; c299; c300; c301; c302; c303; c304; c305; c306; c307; c308; c309; c310; c311; c312; c313; c314; c315; c316; c317; c318; c319; c320; c321; c322; c323; c324; c325; c326; c327; c328; c329; c330; c331; c332; c333; c334; c335; c336; c337; c338; c339; c340; c341; c342; c343; c344; c345; c346; c347; c348; c349; c350; c351; c352; c353; c354; c355; c356; c357; c358; c359; c360; c361; c362; c363; c364; c365; c366; c367; c368; c369; c370; c371; c372; c373; c374; c375; c376; c377; c378; c379; c380; c381; c382; c383; c384; c385; c386; c387; c388; c389; c390; c391; c392; c393; c394; c395; c396; c397; c398; c399; c400; c401; c402; c403; c404; c405; c406; c407; c408; c409; c410; c411; c412; c413; c414; c415; c416; c417; c418; c419; c420; c421; c422; c423; c424; c425; c426; c427; c428; c429; c430; c431; c432; c433; c434; c435; c436; c437; c438; c439; c440; c441; c442; c443; c444; c445; c446; c447; c448; c449; c450; c451; c452; c453; c454; c455; c456; c457; c458; c459; c460; c461; c462; c463; c464; c465; c466; c467; c468; c469; c470; c471; c472; c473; c474; c475; c476; c477; c478; c479; c480; c481; c482; c483; c484; c485; c486; c487; c488; c489; c490; c491; c492; c493; c494; c495; c496; c497; c498; c499; c500; c501; c502; c503; c504; c505; c506; c507; c508; c509; c510; c511; c512].
Eval vm_compute in ("corr_exact"%string, failing (corr_exact) cases).
Eval vm_compute in ("corr_stream"%string, failing (corr_stream) cases).
Eval vm_compute in ("prop_ws"%string, failing (prop_ws) cases).
Eval vm_compute in ("prop_discipline"%string, failing (prop_discipline) cases).
