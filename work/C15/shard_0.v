From Coq Require Import List NArith String.
From V Require Import Base.Util Corr.RunC15.
Import ListNotations. Open Scope string_scope.
Definition c0 : case := ("", "").
Definition c1 : case := ("{,", " {
    ,
    ").
Definition c2 : case := ("(<", "(
    <
        ").
Definition c3 : case := ("<(", "<
    (
        ").
Definition c4 : case := (",{", ",
 {
    ").
Definition c5 : case := ("aa", "aa").
Definition c6 : case := ("{{>", " {
     {
        >").
Definition c7 : case := ("{()", " {
    ()").
Definition c8 : case := ("{<}", " {
    <
        
    }").
Definition c9 : case := ("{> ", " {
    > ").
Definition c10 : case := ("{a,", " {
    a,
    ").
Definition c11 : case := ("}{<", "
} {
<
    ").
Definition c12 : case := ("}((", "
}(
(
    ").
Definition c13 : case := ("}<{", "
}<
 {
    ").
Definition c14 : case := ("}>a", "
}>a").
Definition c15 : case := ("}a>", "
}a>").
Definition c16 : case := ("({)", "(
     {
        
    )").
Definition c17 : case := ("((}", "(
    (
        
    }").
Definition c18 : case := ("() ", "() ").
Definition c19 : case := ("(>,", "(
    >,
    ").
Definition c20 : case := ("(a<", "(
    a<
        ").
Definition c21 : case := ("){(", ") {
    (
        ").
Definition c22 : case := (")({", ")(
     {
        ").
Definition c23 : case := ("))a", "))a").
Definition c24 : case := (")>>", ")>>").
Definition c25 : case := (")a)", ")a)").
Definition c26 : case := ("<{}", "<
     {
        
    }").
Definition c27 : case := ("<} ", "<
    
} ").
Definition c28 : case := ("<),", "<
    ),
    ").
Definition c29 : case := ("<><", "<><
    ").
Definition c30 : case := ("<a(", "<
    a(
        ").
Definition c31 : case := (">{{", "> {
     {
        ").
Definition c32 : case := (">}a", ">
}a").
Definition c33 : case := (">)>", ">)>").
Definition c34 : case := (">>)", ">>)").
Definition c35 : case := (">a}", ">a
}").
Definition c36 : case := (">  ", ">  ").
Definition c37 : case := (",},", ",

},
").
Definition c38 : case := (",)<", ",
)<
    ").
Definition c39 : case := (",>(", ",
>(
    ").
Definition c40 : case := (",a{", ",
a {
    ").
Definition c41 : case := (", a", ",
 a").
Definition c42 : case := ("a}>", "a
}>").
Definition c43 : case := ("a))", "a))").
Definition c44 : case := ("a>}", "a>
}").
Definition c45 : case := ("a, ", "a,
 ").
Definition c46 : case := ("a ,", "a ,
").
Definition c47 : case := (" }<", " 
}<
").
Definition c48 : case := (" )(", " )(
    ").
Definition c49 : case := (" >{", " > {
    ").
Definition c50 : case := (" ,a", " ,
a").
Definition c51 : case := ("  >", "  >").
Definition c52 : case := ("{{})", " {
     {
        
    })").
Definition c53 : case := ("{{)}", " {
     {
        )
    }").
Definition c54 : case := ("{{< ", " {
     {
        <
             ").
Definition c55 : case := ("{{,,", " {
     {
        ,
        ,
        ").
Definition c56 : case := ("{{ <", " {
     {
         <
            ").
Definition c57 : case := ("{}}(", " {
    
}
}(
").
Definition c58 : case := ("{}){", " {
    
}) {
    ").
Definition c59 : case := ("{}<a", " {
    
}<
    a").
Definition c60 : case := ("{},>", " {
    
},
>").
Definition c61 : case := ("{} )", " {
    
} )").
Definition c62 : case := ("{(}}", " {
    (
        
    }
}").
Definition c63 : case := ("{(( ", " {
    (
        (
             ").
Definition c64 : case := ("{(<,", " {
    (
        <
            ,
            ").
Definition c65 : case := ("{(,<", " {
    (
        ,
        <
            ").
Definition c66 : case := ("{( (", " {
    (
         (
            ").
Definition c67 : case := ("{)}{", " {
    )
} {
    ").
Definition c68 : case := ("{)(a", " {
    )(
        a").
Definition c69 : case := ("{)<>", " {
    )<>").
Definition c70 : case := ("{),)", " {
    ),
    )").
Definition c71 : case := ("{) }", " {
    ) 
}").
Definition c72 : case := ("{<{ ", " {
    <
         {
             ").
Definition c73 : case := ("{<(,", " {
    <
        (
            ,
            ").
Definition c74 : case := ("{<<<", " {
    <
        <
            <
                ").
Definition c75 : case := ("{<,(", " {
    <
        ,
        (
            ").
Definition c76 : case := ("{< {", " {
    <
          {
            ").
Definition c77 : case := ("{>{a", " {
    > {
        a").
Definition c78 : case := ("{>(>", " {
    >(
        >").
Definition c79 : case := ("{><)", " {
    ><
        )").
Definition c80 : case := ("{>,}", " {
    >,
    
}").
Definition c81 : case := ("{>a ", " {
    >a ").
Definition c82 : case := ("{,{,", " {
    ,
     {
        ,
        ").
Definition c83 : case := ("{,(<", " {
    ,
    (
        <
            ").
Definition c84 : case := ("{,<(", " {
    ,
    <
        (
            ").
Definition c85 : case := ("{,,{", " {
    ,
    ,
     {
        ").
Definition c86 : case := ("{,aa", " {
    ,
    aa").
Definition c87 : case := ("{a{>", " {
    a {
        >").
Definition c88 : case := ("{a()", " {
    a()").
Definition c89 : case := ("{a<}", " {
    a<
        
    }").
Definition c90 : case := ("{a> ", " {
    a> ").
Definition c91 : case := ("{aa,", " {
    aa,
    ").
Definition c92 : case := ("{ {<", " {
      {
        <
            ").
Definition c93 : case := ("{ ((", " {
     (
        (
            ").
Definition c94 : case := ("{ <{", " {
     <
         {
            ").
Definition c95 : case := ("{ >a", " {
     >a").
Definition c96 : case := ("{ a>", " {
     a>").
Definition c97 : case := ("}{{)", "
} {
 {
    )").
Definition c98 : case := ("}{(}", "
} {
(
    
}").
Definition c99 : case := ("}{) ", "
} {
) ").
Definition c100 : case := ("}{>,", "
} {
>,
").
Definition c101 : case := ("}{a<", "
} {
a<
    ").
Definition c102 : case := ("}}{(", "
}
} {
(
").
Definition c103 : case := ("}}({", "
}
}(
 {
").
Definition c104 : case := ("}})a", "
}
})a").
Definition c105 : case := ("}}>>", "
}
}>>").
Definition c106 : case := ("}}a)", "
}
}a)").
Definition c107 : case := ("}({}", "
}(
 {
    
}").
Definition c108 : case := ("}(} ", "
}(

} ").
Definition c109 : case := ("}(),", "
}(),
").
Definition c110 : case := ("}(><", "
}(
><
    ").
Definition c111 : case := ("}(a(", "
}(
a(
    ").
Definition c112 : case := ("}){{", "
}) {
 {
    ").
Definition c113 : case := ("})}a", "
})
}a").
Definition c114 : case := ("}))>", "
}))>").
Definition c115 : case := ("})>)", "
})>)").
Definition c116 : case := ("})a}", "
})a
}").
Definition c117 : case := ("})  ", "
})  ").
Definition c118 : case := ("}<},", "
}<

},
").
Definition c119 : case := ("}<)<", "
}<
)<
    ").
Definition c120 : case := ("}<>(", "
}<>(
").
Definition c121 : case := ("}<a{", "
}<
a {
    ").
Definition c122 : case := ("}< a", "
}<
 a").
Definition c123 : case := ("}>}>", "
}>
}>").
Definition c124 : case := ("}>))", "
}>))").
Definition c125 : case := ("}>>}", "
}>>
}").
Definition c126 : case := ("}>, ", "
}>,
 ").
Definition c127 : case := ("}> ,", "
}> ,
").
Definition c128 : case := ("},}<", "
},

}<
").
Definition c129 : case := ("},)(", "
},
)(
").
Definition c130 : case := ("},>{", "
},
> {
").
Definition c131 : case := ("},,a", "
},
,
a").
Definition c132 : case := ("}, >", "
},
 >").
Definition c133 : case := ("}a})", "
}a
})").
Definition c134 : case := ("}a)}", "
}a)
}").
Definition c135 : case := ("}a< ", "
}a<
 ").
Definition c136 : case := ("}a,,", "
}a,
,
").
Definition c137 : case := ("}a <", "
}a <
").
Definition c138 : case := ("} }(", "
} 
}(
").
Definition c139 : case := ("} ){", "
} ) {
").
Definition c140 : case := ("} <a", "
} <
a").
Definition c141 : case := ("} ,>", "
} ,
>").
Definition c142 : case := ("}  )", "
}  )").
Definition c143 : case := ("({}}", "(
     {
        
    }
}").
Definition c144 : case := ("({( ", "(
     {
        (
             ").
Definition c145 : case := ("({<,", "(
     {
        <
            ,
            ").
Definition c146 : case := ("({,<", "(
     {
        ,
        <
            ").
Definition c147 : case := ("({ (", "(
     {
         (
            ").
Definition c148 : case := ("(}}{", "(
    
}
} {
").
Definition c149 : case := ("(}(a", "(
    
}(
    a").
Definition c150 : case := ("(}<>", "(
    
}<>").
Definition c151 : case := ("(},)", "(
}, )").
Definition c152 : case := ("(} }", "(
    
} 
}").
Definition c153 : case := ("(({ ", "(
    (
         {
             ").
Definition c154 : case := ("(((,", "(
    (
        (
            ,
            ").
Definition c155 : case := ("((<<", "(
    (
        <
            <
                ").
Definition c156 : case := ("((,(", "(
    (
        ,
        (
            ").
Definition c157 : case := ("(( {", "(
    (
          {
            ").
Definition c158 : case := ("(){a", "() {
    a").
Definition c159 : case := ("()(>", "()(
    >").
Definition c160 : case := ("()<)", "()<
    )").
Definition c161 : case := ("(),}", "(),

}").
Definition c162 : case := ("()a ", "()a ").
Definition c163 : case := ("(<{,", "(
    <
         {
            ,
            ").
Definition c164 : case := ("(<(<", "(
    <
        (
            <
                ").
Definition c165 : case := ("(<<(", "(
    <
        <
            (
                ").
Definition c166 : case := ("(<,{", "(
    <
        ,
         {
            ").
Definition c167 : case := ("(<aa", "(
    <
        aa").
Definition c168 : case := ("(>{>", "(
    > {
        >").
Definition c169 : case := ("(>()", "(
    >()").
Definition c170 : case := ("(><}", "(
    ><
        
    }").
Definition c171 : case := ("(>> ", "(
    >> ").
Definition c172 : case := ("(>a,", "(
    >a,
    ").
Definition c173 : case := ("(,{<", "(
    ,
     {
        <
            ").
Definition c174 : case := ("(,((", "(
    ,
    (
        (
            ").
Definition c175 : case := ("(,<{", "(
    ,
    <
         {
            ").
Definition c176 : case := ("(,>a", "(
    ,
    >a").
Definition c177 : case := ("(,a>", "(
    ,
    a>").
Definition c178 : case := ("(a{)", "(
    a {
        
    )").
Definition c179 : case := ("(a(}", "(
    a(
        
    }").
Definition c180 : case := ("(a) ", "(a) ").
Definition c181 : case := ("(a>,", "(
    a>,
    ").
Definition c182 : case := ("(aa<", "(
    aa<
        ").
Definition c183 : case := ("( {(", "(
      {
        (
            ").
Definition c184 : case := ("( ({", "(
     (
         {
            ").
Definition c185 : case := ("( )a", "( )a").
Definition c186 : case := ("( >>", "(
     >>").
Definition c187 : case := ("( a)", "( a)").
Definition c188 : case := ("){{}", ") {
     {
        
    }").
Definition c189 : case := ("){} ", ") {
    
} ").
Definition c190 : case := ("){),", ") {
    ),
    ").
Definition c191 : case := ("){><", ") {
    ><
        ").
Definition c192 : case := ("){a(", ") {
    a(
        ").
Definition c193 : case := (")}{{", ")
} {
 {
    ").
Definition c194 : case := (")}}a", ")
}
}a").
Definition c195 : case := (")})>", ")
})>").
Definition c196 : case := (")}>)", ")
}>)").
Definition c197 : case := (")}a}", ")
}a
}").
Definition c198 : case := (")}  ", ")
}  ").
Definition c199 : case := (")(},", ")(
    
},
").
Definition c200 : case := (")()<", ")()<
    ").
Definition c201 : case := (")(>(", ")(
    >(
        ").
Definition c202 : case := (")(a{", ")(
    a {
        ").
Definition c203 : case := (")( a", ")(
     a").
Definition c204 : case := ("))}>", "))
}>").
Definition c205 : case := ("))))", "))))").
Definition c206 : case := ("))>}", "))>
}").
Definition c207 : case := (")), ", ")),
 ").
Definition c208 : case := (")) ,", ")) ,
").
Definition c209 : case := (")<}<", ")<
    
}<
    ").
Definition c210 : case := (")<)(", ")<
    )(
        ").
Definition c211 : case := (")<>{", ")<> {
    ").
Definition c212 : case := (")<,a", ")<
    ,
    a").
Definition c213 : case := (")< >", ")< >").
Definition c214 : case := (")>})", ")>
})").
Definition c215 : case := (")>)}", ")>)
}").
Definition c216 : case := (")>< ", ")><
     ").
Definition c217 : case := (")>,,", ")>,
,
").
Definition c218 : case := (")> <", ")> <
    ").
Definition c219 : case := ("),}(", "),

}(
").
Definition c220 : case := ("),){", "),
) {
    ").
Definition c221 : case := ("),<a", "),
<
    a").
Definition c222 : case := ("),,>", "),
,
>").
Definition c223 : case := ("), )", "),
 )").
Definition c224 : case := (")a}}", ")a
}
}").
Definition c225 : case := (")a( ", ")a(
     ").
Definition c226 : case := (")a<,", ")a<
    ,
    ").
Definition c227 : case := (")a,<", ")a,
<
    ").
Definition c228 : case := (")a (", ")a (
    ").
Definition c229 : case := (") }{", ") 
} {
").
Definition c230 : case := (") (a", ") (
    a").
Definition c231 : case := (") <>", ") <>").
Definition c232 : case := (") ,)", ") ,
)").
Definition c233 : case := (")  }", ")  
}").
Definition c234 : case := ("<{{ ", "<
     {
         {
             ").
Definition c235 : case := ("<{(,", "<
     {
        (
            ,
            ").
Definition c236 : case := ("<{<<", "<
     {
        <
            <
                ").
Definition c237 : case := ("<{,(", "<
     {
        ,
        (
            ").
Definition c238 : case := ("<{ {", "<
     {
          {
            ").
Definition c239 : case := ("<}{a", "<
    
} {
    a").
Definition c240 : case := ("<}(>", "<
}(
>").
Definition c241 : case := ("<}<)", "<
    
}<
    )").
Definition c242 : case := ("<},}", "<
    
},

}").
Definition c243 : case := ("<}a ", "<
    
}a ").
Definition c244 : case := ("<({,", "<
    (
         {
            ,
            ").
Definition c245 : case := ("<((<", "<
    (
        (
            <
                ").
Definition c246 : case := ("<(<(", "<
    (
        <
            (
                ").
Definition c247 : case := ("<(,{", "<
    (
        ,
         {
            ").
Definition c248 : case := ("<(aa", "<
    (
        aa").
Definition c249 : case := ("<){>", "<
    ) {
        
    >").
Definition c250 : case := ("<)()", "<
    )()").
Definition c251 : case := ("<)<}", "<
    )<
        
    }").
Definition c252 : case := ("<)> ", "<)> ").
Definition c253 : case := ("<)a,", "<
    )a,
    ").
Definition c254 : case := ("<<{<", "<
    <
         {
            <
                ").
Definition c255 : case := ("<<((", "<
    <
        (
            (
                ").
Definition c256 : case := ("<<<{", "<
    <
        <
             {
                ").
Definition c257 : case := ("<<>a", "<
    <>a").
Definition c258 : case := ("<<a>", "<
    <a>").
Definition c259 : case := ("<>{)", "<> {
    )").
Definition c260 : case := ("<>(}", "<>(
    
}").
Definition c261 : case := ("<>) ", "<>) ").
Definition c262 : case := ("<>>,", "<>>,
").
Definition c263 : case := ("<>a<", "<>a<
    ").
Definition c264 : case := ("<,{(", "<
    ,
     {
        (
            ").
Definition c265 : case := ("<,({", "<
    ,
    (
         {
            ").
Definition c266 : case := ("<,)a", "<
    ,
    )a").
Definition c267 : case := ("<,>>", "<,
>>").
Definition c268 : case := ("<,a)", "<
    ,
    a)").
Definition c269 : case := ("<a{}", "<
    a {
        
    }").
Definition c270 : case := ("<a} ", "<
    a
} ").
Definition c271 : case := ("<a),", "<
    a),
    ").
Definition c272 : case := ("<a><", "<a><
    ").
Definition c273 : case := ("<aa(", "<
    aa(
        ").
Definition c274 : case := ("< {{", "<
      {
         {
            ").
Definition c275 : case := ("< }a", "<
     
}a").
Definition c276 : case := ("< )>", "< )>").
Definition c277 : case := ("< >)", "< >)").
Definition c278 : case := ("< a}", "<
     a
}").
Definition c279 : case := ("<   ", "<
       ").
Definition c280 : case := (">{},", "> {
    
},
").
Definition c281 : case := (">{)<", "> {
    )<
        ").
Definition c282 : case := (">{>(", "> {
    >(
        ").
Definition c283 : case := (">{a{", "> {
    a {
        ").
Definition c284 : case := (">{ a", "> {
     a").
Definition c285 : case := (">}}>", ">
}
}>").
Definition c286 : case := (">}))", ">
}))").
Definition c287 : case := (">}>}", ">
}>
}").
Definition c288 : case := (">}, ", ">
},
 ").
Definition c289 : case := (">} ,", ">
} ,
").
Definition c290 : case := (">(}<", ">(
    
}<
    ").
Definition c291 : case := (">()(", ">()(
    ").
Definition c292 : case := (">(>{", ">(
    > {
        ").
Definition c293 : case := (">(,a", ">(
    ,
    a").
Definition c294 : case := (">( >", ">(
     >").
Definition c295 : case := (">)})", ">)
})").
Definition c296 : case := (">))}", ">))
}").
Definition c297 : case := (">)< ", ">)<
     ").
Definition c298 : case := (">),,", ">),
,
").
Definition c299 : case := (">) <", ">) <
    ").
Definition c300 : case := ("><}(", "><
    
}(
    ").
Definition c301 : case := ("><){", "><
    ) {
        ").
Definition c302 : case := ("><<a", "><
    <
        a").
Definition c303 : case := ("><,>", "><,
>").
Definition c304 : case := (">< )", "><
     )").
Definition c305 : case := (">>}}", ">>
}
}").
Definition c306 : case := (">>( ", ">>(
     ").
Definition c307 : case := (">><,", ">><
    ,
    ").
Definition c308 : case := (">>,<", ">>,
<
    ").
Definition c309 : case := (">> (", ">> (
    ").
Definition c310 : case := (">,}{", ">,

} {
").
Definition c311 : case := (">,(a", ">,
(
    a").
Definition c312 : case := (">,<>", ">,
<>").
Definition c313 : case := (">,,)", ">,
,
)").
Definition c314 : case := (">, }", ">,
 
}").
Definition c315 : case := (">a{ ", ">a {
     ").
Definition c316 : case := (">a(,", ">a(
    ,
    ").
Definition c317 : case := (">a<<", ">a<
    <
        ").
Definition c318 : case := (">a,(", ">a,
(
    ").
Definition c319 : case := (">a {", ">a  {
    ").
Definition c320 : case := ("> {a", ">  {
    a").
Definition c321 : case := ("> (>", "> (
    >").
Definition c322 : case := ("> <)", "> <
    )").
Definition c323 : case := ("> ,}", "> ,

}").
Definition c324 : case := ("> a ", "> a ").
Definition c325 : case := (",{{,", ",
 {
     {
        ,
        ").
Definition c326 : case := (",{(<", ",
 {
    (
        <
            ").
Definition c327 : case := (",{<(", ",
 {
    <
        (
            ").
Definition c328 : case := (",{,{", ",
 {
    ,
     {
        ").
Definition c329 : case := (",{aa", ",
 {
    aa").
Definition c330 : case := (",}{>", ",

} {
>").
Definition c331 : case := (",}()", ",

}()").
Definition c332 : case := (",}<}", ",

}<

}").
Definition c333 : case := (",}> ", ",

}> ").
Definition c334 : case := (",}a,", ",

}a,
").
Definition c335 : case := (",({<", ",
(
     {
        <
            ").
Definition c336 : case := (",(((", ",
(
    (
        (
            ").
Definition c337 : case := (",(<{", ",
(
    <
         {
            ").
Definition c338 : case := (",(>a", ",
(
    >a").
Definition c339 : case := (",(a>", ",
(
    a>").
Definition c340 : case := (",){)", ",
) {
    )").
Definition c341 : case := (",)(}", ",
)(
    
}").
Definition c342 : case := (",)) ", ",
)) ").
Definition c343 : case := (",)>,", ",
)>,
").
Definition c344 : case := (",)a<", ",
)a<
    ").
Definition c345 : case := (",<{(", ",
<
     {
        (
            ").
Definition c346 : case := (",<({", ",
<
    (
         {
            ").
Definition c347 : case := (",<)a", ",
<
    )a").
Definition c348 : case := (",<>>", ",
<>>").
Definition c349 : case := (",<a)", ",
<
    a)").
Definition c350 : case := (",>{}", ",
> {
    
}").
Definition c351 : case := (",>} ", ",
>
} ").
Definition c352 : case := (",>),", ",
>),
").
Definition c353 : case := (",>><", ",
>><
    ").
Definition c354 : case := (",>a(", ",
>a(
    ").
Definition c355 : case := (",,{{", ",
,
 {
     {
        ").
Definition c356 : case := (",,}a", ",
,

}a").
Definition c357 : case := (",,)>", ",
,
)>").
Definition c358 : case := (",,>)", ",
,
>)").
Definition c359 : case := (",,a}", ",
,
a
}").
Definition c360 : case := (",,  ", ",
,
  ").
Definition c361 : case := (",a},", ",
a
},
").
Definition c362 : case := (",a)<", ",
a)<
    ").
Definition c363 : case := (",a>(", ",
a>(
    ").
Definition c364 : case := (",aa{", ",
aa {
    ").
Definition c365 : case := (",a a", ",
a a").
Definition c366 : case := (", }>", ",
 
}>").
Definition c367 : case := (", ))", ",
 ))").
Definition c368 : case := (", >}", ",
 >
}").
Definition c369 : case := (", , ", ",
 ,
 ").
Definition c370 : case := (",  ,", ",
  ,
").
Definition c371 : case := ("a{}<", "a {
    
}<
    ").
Definition c372 : case := ("a{)(", "a {
    )(
        ").
Definition c373 : case := ("a{>{", "a {
    > {
        ").
Definition c374 : case := ("a{,a", "a {
    ,
    a").
Definition c375 : case := ("a{ >", "a {
     >").
Definition c376 : case := ("a}})", "a
}
})").
Definition c377 : case := ("a})}", "a
})
}").
Definition c378 : case := ("a}< ", "a
}<
 ").
Definition c379 : case := ("a},,", "a
},
,
").
Definition c380 : case := ("a} <", "a
} <
").
Definition c381 : case := ("a(}(", "a(
    
}(
    ").
Definition c382 : case := ("a(){", "a() {
    ").
Definition c383 : case := ("a(<a", "a(
    <
        a").
Definition c384 : case := ("a(,>", "a(
    ,
    >").
Definition c385 : case := ("a( )", "a( )").
Definition c386 : case := ("a)}}", "a)
}
}").
Definition c387 : case := ("a)( ", "a)(
     ").
Definition c388 : case := ("a)<,", "a)<
    ,
    ").
Definition c389 : case := ("a),<", "a),
<
    ").
Definition c390 : case := ("a) (", "a) (
    ").
Definition c391 : case := ("a<}{", "a<
    
} {
    ").
Definition c392 : case := ("a<(a", "a<
    (
        a").
Definition c393 : case := ("a<<>", "a<
    <>").
Definition c394 : case := ("a<,)", "a<
    ,
    )").
Definition c395 : case := ("a< }", "a<
     
}").
Definition c396 : case := ("a>{ ", "a> {
     ").
Definition c397 : case := ("a>(,", "a>(
    ,
    ").
Definition c398 : case := ("a><<", "a><
    <
        ").
Definition c399 : case := ("a>,(", "a>,
(
    ").
Definition c400 : case := ("a> {", "a>  {
    ").
Definition c401 : case := ("a,{a", "a,
 {
    a").
Definition c402 : case := ("a,(>", "a,
(
    >").
Definition c403 : case := ("a,<)", "a,
<
    )").
Definition c404 : case := ("a,,}", "a,
,

}").
Definition c405 : case := ("a,a ", "a,
a ").
Definition c406 : case := ("aa{,", "aa {
    ,
    ").
Definition c407 : case := ("aa(<", "aa(
    <
        ").
Definition c408 : case := ("aa<(", "aa<
    (
        ").
Definition c409 : case := ("aa,{", "aa,
 {
    ").
Definition c410 : case := ("aaaa", "aaaa").
Definition c411 : case := ("a {>", "a  {
    >").
Definition c412 : case := ("a ()", "a ()").
Definition c413 : case := ("a <}", "a <
    
}").
Definition c414 : case := ("a > ", "a > ").
Definition c415 : case := ("a a,", "a a,
").
Definition c416 : case := (" {{<", "  {
     {
        <
            ").
Definition c417 : case := (" {((", "  {
    (
        (
            ").
Definition c418 : case := (" {<{", "  {
    <
         {
            ").
Definition c419 : case := (" {>a", "  {
    >a").
Definition c420 : case := (" {a>", "  {
    a>").
Definition c421 : case := (" }{)", " 
} {
)").
Definition c422 : case := (" }(}", " 
}(

}").
Definition c423 : case := (" }) ", " 
}) ").
Definition c424 : case := (" }>,", " 
}>,
").
Definition c425 : case := (" }a<", " 
}a<
").
Definition c426 : case := (" ({(", " (
     {
        (
            ").
Definition c427 : case := (" (({", " (
    (
         {
            ").
Definition c428 : case := (" ()a", " ()a").
Definition c429 : case := (" (>>", " (
    >>").
Definition c430 : case := (" (a)", " (a)").
Definition c431 : case := (" ){}", " ) {
    
}").
Definition c432 : case := (" )} ", " )
} ").
Definition c433 : case := (" )),", " )),
").
Definition c434 : case := (" )><", " )><
    ").
Definition c435 : case := (" )a(", " )a(
    ").
Definition c436 : case := (" <{{", " <
     {
         {
            ").
Definition c437 : case := (" <}a", " <
    
}a").
Definition c438 : case := (" <)>", " <)>").
Definition c439 : case := (" <>)", " <>)").
Definition c440 : case := (" <a}", " <
    a
}").
Definition c441 : case := (" <  ", " <
      ").
Definition c442 : case := (" >},", " >
},
").
Definition c443 : case := (" >)<", " >)<
    ").
Definition c444 : case := (" >>(", " >>(
    ").
Definition c445 : case := (" >a{", " >a {
    ").
Definition c446 : case := (" > a", " > a").
Definition c447 : case := (" ,}>", " ,

}>").
Definition c448 : case := (" ,))", " ,
))").
Definition c449 : case := (" ,>}", " ,
>
}").
Definition c450 : case := (" ,, ", " ,
,
 ").
Definition c451 : case := (" , ,", " ,
 ,
").
Definition c452 : case := (" a}<", " a
}<
").
Definition c453 : case := (" a)(", " a)(
    ").
Definition c454 : case := (" a>{", " a> {
    ").
Definition c455 : case := (" a,a", " a,
a").
Definition c456 : case := (" a >", " a >").
Definition c457 : case := ("  })", "  
})").
Definition c458 : case := ("  )}", "  )
}").
Definition c459 : case := ("  < ", "  <
     ").
Definition c460 : case := ("  ,,", "  ,
,
").
Definition c461 : case := ("   <", "   <
    ").
Definition c462 : case := ("<,ébbaéé,aééééaéababéababéébéba>)", "<,
ébbaéé,
aééééaéababéababéébéba>)").
Definition c463 : case := ("a(éé,,,a,,é{,bééé,abéb)", "a(
    éé,
    ,
    ,
    a,
    ,
    é {
        ,
        bééé,
        abéb
    )").
Definition c464 : case := ("((a)bbbéb,aé,éaé,,bé,é,,,ab,aaé,,béba)}", "(
    (a)bbbéb,
    aé,
    éaé,
    ,
    bé,
    é,
    ,
    ,
    ab,
    aaé,
    ,
    béba
)
}").
Definition c465 : case := ("((béa,ababaaaabébéa,babaaaéb)>", "(
    (béa, ababaaaabébéa, babaaaéb)>").
Definition c466 : case := ("a(ééaéaaéab,béaaéaééa,b,,aé,abb,babé,,a,b,ab),a", "a(
    ééaéaaéab,
    béaaéaééa,
    b,
    ,
    aé,
    abb,
    babé,
    ,
    a,
    b,
    ab
),
a").
Definition c467 : case := ("a]", "a]").
Definition c468 : case := ("({},8[[8b;;:x;,x:a:8];,::][,<[88;;:b8;:a>)", "(
     {
        
    },
    8[[8b;;:x;,
    x:a:8];,
    ::][,
    <[88;;:b8;:a>
)").
Definition c469 : case := ("<:a:xb:]]b8x,8]]b]a>,(]b[,({<<{u,u},{u,u,u,u,u},aaa:x;8[>,({aa]xx;[xb,;},{},(u,:),aaa::a,(:b[xb]][::,x:b],][]:)),:a[xx;axa],((u,:::a[8x[]b8),{u,xax;,x[];}),8[:]>,<8bb8>}))", "<:a:xb:]]b8x,
8]]b]a>,
(
    ]b[,
    (
         {
            <
                <
                     {
                        u,
                        u
                    },
                     {
                        u,
                        u,
                        u,
                        u,
                        u
                    },
                    aaa:x;8[
                >,
                (
                     {
                        aa]xx;[xb,
                        ;
                    },
                     {
                        
                    },
                    (u, :),
                    aaa::a,
                    (:b[xb]][::, x:b], ][]:)
                ),
                :a[xx;axa],
                (
                    (u, :::a[8x[]b8),
                     {
                        u,
                        xax;,
                        x[];
                    }
                ),
                8[:]
            >,
            <8bb8>
        }
    )
)").
Definition c470 : case := ("<<<;[8:ab;xb8x],8]xx]:x>>>,a;8;,;", "<<<;[8:ab;xb8x],
8]xx]:x>>>,
a;8;,
;").
Definition c471 : case := ("(((<;;;]bab;ba,(<u,u,u,u,u>,a;b,{[:8b,u,]]]x}),{88:];},<<u,:[,u>,8]:bb8x>>,{8b:[,[:[]];;a;,{(u),(u,a[b;:,a,u),(u,u),(u),<u>},a[8;;:b8:b:b})),[]aab8x:a8:;,[[b;]bb[),(;x8b:b,{})", "(
    (
        (
            <
                ;;;]bab;ba,
                (
                    <u,
                    u,
                    u,
                    u,
                    u>,
                    a;b,
                     {
                        [:8b,
                        u,
                        ]]]x
                    }
                ),
                 {
                    88:];
                },
                <<u,
                :[,
                u>,
                8]:bb8x>
            >,
             {
                8b:[,
                [:[]];;a;,
                 {
                    (u),
                    (u, a[b;:, a, u),
                    (u, u),
                    (u),
                    <u>
                },
                a[8;;:b8:b:b
            }
        )
    ),
    []aab8x:a8:;,
    [[b;]bb[
),
(
    ;x8b:b,
     {
        
    }
)").
Definition c472 : case := ("b,x88xx;[;", "b,
x88xx;[;").
Definition c473 : case := ("[baxa88b:8,;[:ba;8bbx8,()", "[baxa88b:8,
;[:ba;8bbx8,
()").
Definition c474 : case := ("[]bbax],<]x,ax];[xbb;a:>,x88]bx::[]", "[]bbax],
<]x,
ax];[xbb;a:>,
x88]bx::[]").
Definition c475 : case := ("{((:bb;a]x[aa,:a,x:8::8x;b[,:x,<;[;,x[8,]::ax,88],{<u,[:;xxxa>}>))}", " {
    (
        (
            :bb;a]x[aa,
            :a,
            x:8::8x;b[,
            :x,
            <
                ;[;,
                x[8,
                ]::ax,
                88],
                 {
                    <u,
                    [:;xxxa>
                }
            >
        )
    )
}").
Definition c476 : case := ("b,(]a[:8]x,<{[,{8]:,x},({},(xx[8]a]),8][bxb]),<{{u,u,u,bb][[:a[]8x:},[;x,(u,u)},(<>,;xa;b:bb:a),;8;[[>,<a]8bxb[[;]88>},{][::b:b[;:;},{(<<u>,]b:b8ba:a8,(a8x:,[a[,u,a,u),<xb]]:8;x]>>,:[,{(:[[]b]ax),{},<u,xxa,u,u,a;[;;axb>}),<()>}>)", "b,
(
    ]a[:8]x,
    <
         {
            [,
             {
                8]:,
                x
            },
            (
                 {
                    
                },
                (xx[8]a]),
                8][bxb]
            ),
            <
                 {
                     {
                        u,
                        u,
                        u,
                        bb][[:a[]8x:
                    },
                    [;x,
                    (u, u)
                },
                (<>, ;xa;b:bb:a),
                ;8;[[
            >,
            <a]8bxb[[;]88>
        },
         {
            ][::b:b[;:;
        },
         {
            (
                <
                    <u>,
                    ]b:b8ba:a8,
                    (a8x:, [a[, u, a, u),
                    <xb]]:8;x]>
                >,
                :[,
                 {
                    (:[[]b]ax),
                     {
                        
                    },
                    <u,
                    xxa,
                    u,
                    u,
                    a;[;;axb>
                }
            ),
            <()>
        }
    >
)").
Definition c477 : case := ("b]b8]8[]:abx,xa8;8[8[],([),aaax]", "b]b8]8[]:abx,
xa8;8[8[],
([),
aaax]").
Definition c478 : case := ("{<[[:ax8:;a>},];", " {
    <[[:ax8:;a>
},
];").
Definition c479 : case := ("{<>,{{[a,<(;:[b]ab8a),:a]]xa]b],x[b:ba8]:;x[,[a>,<8:]a]]xa,b88;x:xbb8a8,8[x:]]a],x]x][x]],<<:xx[,;:x,:];]8;xa8,u>,ax;]ab8>>},{},{a],<<]8:8;b,]8b]>,:[;ax>}}}", " {
    <>,
     {
         {
            [a,
            <
                (;:[b]ab8a),
                :a]]xa]b],
                x[b:ba8]:;x[,
                [a
            >,
            <
                8:]a]]xa,
                b88;x:xbb8a8,
                8[x:]]a],
                x]x][x]],
                <<:xx[,
                ;:x,
                :];]8;xa8,
                u>,
                ax;]ab8>
            >
        },
         {
            
        },
         {
            a],
            <<]8:8;b,
            ]8b]>,
            :[;ax>
        }
    }
}").
Definition c480 : case := ("(),(),<(({;,8;];},(;[88),(<bax:8;>,]babbax;),8[b:x;b))>,{x}", "(),
(),
<
    (
        (
             {
                ;,
                8;];
            },
            (;[88),
            (<bax:8;>, ]babbax;),
            8[b:x;b
        )
    )
>,
 {
    x
}").
Definition c481 : case := ("(]b:bx;;8[x,[),::,{<<{(),xx8xa]:,b]bbb:8;[abb,8,()},<{{}}>>>}", "(]b:bx;;8[x, [),
::,
 {
    <
        <
             {
                (),
                xx8xa]:,
                b]bbb:8;[abb,
                8,
                ()
            },
            <
                 {
                     {
                        
                    }
                }
            >
        >
    >
}").
Definition c482 : case := ("{<8;;>,((bx;[][])),(8b8:ba[,a[a8]x8]ba[)}", " {
    <8;;>,
    ((bx;[][])),
    (8b8:ba[, a[a8]x8]ba[)
}").
Definition c483 : case := ("({8},{<(),[a]];8b8]]x,(),(aa8x;;,(),<<;a;:,8bx:,u>,(u,u,u)>,a]:]a,{{:;:[a8[x,a,u},{u,[;[],a:[xb:;x}})>})", "(
     {
        8
    },
     {
        <
            (),
            [a]];8b8]]x,
            (),
            (
                aa8x;;,
                (),
                <<;a;:,
                8bx:,
                u>,
                (u, u, u)>,
                a]:]a,
                 {
                     {
                        :;:[a8[x,
                        a,
                        u
                    },
                     {
                        u,
                        [;[],
                        a:[xb:;x
                    }
                }
            )
        >
    }
)").
Definition c484 : case := ("<(<a;[a:b:x[,]8;,][;[>,b],b;:;8aaa8),<<((a,{ab]:b]b:a[;a,u,u,u}),(()),:xa,<{}>),{:,x[ba::,{(u,aa]b8:;)},((u,u,ba,u,b8xbbb;:))}>>>,()", "<
    (
        <a;[a:b:x[,
        ]8;,
        ][;[>,
        b],
        b;:;8aaa8
    ),
    <
        <
            (
                (
                    a,
                     {
                        ab]:b]b:a[;a,
                        u,
                        u,
                        u
                    }
                ),
                (()),
                :xa,
                <
                     {
                        
                    }
                >
            ),
             {
                :,
                x[ba::,
                 {
                    (u, aa]b8:;)
                },
                ((u, u, ba, u, b8xbbb;:))
            }
        >
    >
>,
()").
Definition c485 : case := ("{{[b},a8x8:b[8x[},bx,{([][;:;,<<<{},::,(u)>>,xxa,[8a;x8x88a,<b,{a8[[]b,<u>,;b;},:]][ab[>,<;x,<:;];>,[]b8a[8,(<]bbx:x88b8,u,[::b[x;b]]];,u,u>,<:[:8bb];a>,[b,(x:,u,][[[[],bb:[bb[]b)),8;[x8x:]][[>>),(({<>})),(),{(x]a;8a:,(88;:aaabxb))}}", " {
     {
        [b
    },
    a8x8:b[8x[
},
bx,
 {
    (
        [][;:;,
        <
            <
                <
                     {
                        
                    },
                    ::,
                    (u)
                >
            >,
            xxa,
            [8a;x8x88a,
            <
                b,
                 {
                    a8[[]b,
                    <u>,
                    ;b;
                },
                :]][ab[
            >,
            <
                ;x,
                <:;];>,
                []b8a[8,
                (
                    <]bbx:x88b8,
                    u,
                    [::b[x;b]]];,
                    u,
                    u>,
                    <:[:8bb];a>,
                    [b,
                    (x:, u, ][[[[], bb:[bb[]b)
                ),
                8;[x8x:]][[
            >
        >
    ),
    (
        (
             {
                <>
            }
        )
    ),
    (),
     {
        (x]a;8a:, (88;:aaabxb))
    }
}").
Definition c486 : case := ("<8a;[,]>,b", "<8a;[,
]>,
b").
Definition c487 : case := ("{},[::8[x:;,({(((x8,<b];b>)))})", " {
    
},
[::8[x:;,
(
     {
        (((x8, <b];b>)))
    }
)").
Definition c488 : case := (";ab::a;:[[],(<>,{8xbbx:ab:8;;,<]x[[b88,]8[;]]8,a[;[8;:]::];>,(({(u),(u,;x;[[8,u,u)},((u,u,u,a:x;[8x,a[ab),{},<>,{u}),{<>,:]]:8]]b,:bx[,bx];[8})),{xxaxxbx},<<{<u,u>,<8:x[ab[b]8]a,u>}>>})", ";ab::a;:[[],
(
    <>,
     {
        8xbbx:ab:8;;,
        <]x[[b88,
        ]8[;]]8,
        a[;[8;:]::];>,
        (
            (
                 {
                    (u),
                    (u, ;x;[[8, u, u)
                },
                (
                    (u, u, u, a:x;[8x, a[ab),
                     {
                        
                    },
                    <>,
                     {
                        u
                    }
                ),
                 {
                    <>,
                    :]]:8]]b,
                    :bx[,
                    bx];[8
                }
            )
        ),
         {
            xxaxxbx
        },
        <
            <
                 {
                    <u,
                    u>,
                    <8:x[ab[b]8]a,
                    u>
                }
            >
        >
    }
)").
Definition c489 : case := ("{b;x88]8:[;[a,ax][x[:,{([;a][x][)}}", " {
    b;x88]8:[;[a,
    ax][x[:,
     {
        ([;a][x][)
    }
}").
Definition c490 : case := ("[:8", "[:8").
Definition c491 : case := ("ax;8bbb", "ax;8bbb").
Definition c492 : case := ("[a; é<Z({)€>Z>	,€𝄞 ,
 ,}
[>Zé};bZ]b,)}]{a)(<€Z
Z𝄞
:(<) :
)b{é)Z]

 𝄞b€	,€)€𝄞:	b,;(<;:{;)]<([
,} }
 ;
)	aé]é]b	€>;}𝄞[a}}é{ é;)>	,b,]	) {é	 
𝄞(Z;<b€;é({€[a€:]}[
 <
€}(éé{{
Za𝄞<	,
]𝄞é
b {:<<		𝄞}>:>)]}é ,]>a})}{{},[>:<b}b]Z(Z,𝄞:éé€é>b:;a,{{", "[a; é<
    Z(
         {
            
        )€
    >Z>	,
    €𝄞 ,
    
 ,
    
}
[>Zé
};bZ]b,
)
}] {
a)(<
€Z
Z𝄞
:(<
    ) :
)b {
        é)Z]

 𝄞b€	,
        €)€𝄞:	b,
        ;(
            <
                ;: {
                    ;
                )]<([
, 
            } 
        }
 ;
)	aé]é]b	€>;
    }𝄞[a
}
}é {
 é;)
>	,
b,
]	)  {
é	 
𝄞(
    Z;<
        b€;é(
             {
                €[a€:]
            }[
 <
                
€
            }(
                éé {
                     {
                        
Za𝄞<
                            	,
                            
]𝄞é
b  {
                                :<<		𝄞
                            }>:>
                        )]
                    }é ,
                    ]
                >a
            }
        )
    } {
         {
            
        },
        [
    >:<b
}b]Z(
    Z,
    𝄞:éé€é>b:;a,
     {
         {
            ").
Definition c493 : case := ("𝄞;Zb[:€𝄞{𝄞<}é<b
:€[(é
𝄞{Z𝄞<aZ)Z[];
:(})>	)a}aa]€,[
>b};,))
)𝄞,
€>:);{𝄞Z]	>	>
;<:,,{
),aZ)>𝄞;b; ;
Z<bb 	éb	a(éb,}:bbZ
;({	){ ,{<Z𝄞b<
;
Z >)}b)b}}:Z;() >

{b,€<[Z(𝄞;([	,𝄞
,,,,𝄞(:[	:(<(𝄞(;[ ;}Z;<Z][𝄞é}
b<}[)[Z[{é;b(,b(,)}[Za)Z<
<b}>{>é};(}b𝄞,€<,):<é;b
]<,aé", "𝄞;Zb[:€𝄞 {
    𝄞<
        
    }é<
        b
:€[(
            é
𝄞 {
                Z𝄞<aZ
            )Z[];
:(
        })>	)a
    }aa]€,
    [

>b
};,
))
)𝄞,

€
>:); {
𝄞Z]	>	>
;<
:,
,
 {
    
),
    aZ)
>𝄞;b; ;
Z<
    bb 	éb	a(
        éb,
        
    }:bbZ
;(
         {
            	
        ) {
             ,
             {
                <Z𝄞b<
;
Z >
            )
        }b)b
    }
}:Z;() >

 {
    b,
    €<
        [Z(
            𝄞;(
                [	,
                𝄞
,
                ,
                ,
                ,
                𝄞(
                    :[	:(
                        <
                            (
                                𝄞(;[ ;
                            }Z;<
                                Z][𝄞é
                            }
b<
                                
                            }[)[Z[ {
                                é;b(, b(, )
                            }[Za)Z<
                                
<b
                            }> {
                                
                            >é
                        };(
                    }b𝄞, €<
                        , ):<
                            é;b
]<
                                ,
                                aé").
Definition c494 : case := ("bZb])
}{ >b>	>)}{>:b	>𝄞[𝄞,[{}é,)€,)€<{	<}<
(:<(,;;{)	<a € é }é	[; Z];é]b]	Zb€(
Z€,
}>b>𝄞𝄞	a:(,)[b[𝄞>;]Z
:b)}<<€<}[{a;Z<{,€é:b€;
<", "bZb])

} {
 >b>	>)
} {
>:b	>𝄞[𝄞,
[ {
    
}é,
)€,
)€<
     {
        	<
            
        }<
            
(
                :<
                    (
                        ,
                        ;; {
                            
                        )	<a € é 
                    }é	[; Z];é]b]	Zb€(
Z€, 

                }>b
            >𝄞𝄞	a:(, )[b[𝄞
        >;]Z
:b)
    }<
        <
            €<
                
            }[ {
                a;Z<
                     {
                        ,
                        €é:b€;
<
                            ").
Definition c495 : case := (",
,{,b
)
b(
; <aa{éé	<b>:	(:]𝄞b;éb𝄞;é	([<
€)a]
;[)){:(:𝄞b
{	𝄞
:{é:é[
 b
:b[:}€(a{[a<:€(}𝄞{€)]a(Zé[b,(éa	Zé 𝄞[ }	{a(éZ<)  
;],,€}:Z]>})
b;(,€
:};  ))[a[Zé}>>ééé]𝄞>a;(
>", ",

,
 {
    ,
    b
)
b(
        
; <
            aa {
                éé	<b>:	(:]𝄞b;éb𝄞;é	([<
                    
€)a]
;[)
                ) {
                    :(
                        :𝄞b
 {
                            	𝄞
: {
                                é:é[
 b
:b[:
                            }€(
                                a {
                                    [a<
                                        :€(
                                            
                                        }𝄞 {
                                            €
                                        )]a(
                                            Zé[b,
                                            (
                                                éa	Zé 𝄞[ 
                                            }	 {
                                                a(éZ<)  
;],
                                                ,
                                                €
                                            }:Z]>
                                        }
                                    )
b;(, €
:
                                };  )
                            )[a[Zé
                        }
                    >
                >ééé]𝄞
            >a;(
                
>").
Definition c496 : case := ("é𝄞]𝄞,]é{€(<Za€)b
((>aa 
;:)
Z<
} 
[)>b
€};}
𝄞;€)é> }<]Z]<[𝄞,
éaZ})):Z)b,€	éZ:é<
)(ba(}, {a	{€(Z(€:
	𝄞b,€][}
<]a);:b;),(<)a))𝄞{(;;{
𝄞 ;b} }<	
:Z{ >𝄞{:Z[):,
]]éé b€]b€é
>}},€[b}b}:}Zé{][,,é€ ]é]
b[ <[,<}Z)}{ 
<	b;é<", "é𝄞]𝄞,
]é {
    €(<Za€)b
((>aa 
;:)
Z<

} 
[)>b
€
};
}
𝄞;€)é> 
}<
]Z]<
[𝄞,

éaZ
})):Z)b,
€	éZ:é<

)(
ba(
    
},
  {
    a	 {
        €(Z(€:
	𝄞b, €][
    }
<
        ]a);:b;),
        (<
            )a
        )
    )𝄞 {
        (
            ;; {
                
𝄞 ;b
            } 
        }<
            	
:Z {
                 
            >𝄞 {
                :Z[
            ):,
            
]]éé b€]b€é

        >
    }
},
€[b
}b
}:
}Zé {
][,
,
é€ ]é]
b[ <
[,
<

}Z)
} {
 
<
	b;é<
    ").
Definition c497 : case := ("[)é
	[𝄞
>é𝄞
}é<(𝄞({ 	,Zé {[:;Z
;b	 €
éb[
𝄞,(é><;;éZ} [a)>	é,<:;b]𝄞Z] é	€<
{]	>]b}Z;Z {(b€)[}<<:é:	ba[	}
;)	,:𝄞):
{};€[(<Z,	<>ba]€]](]}[:<{€€é :
é()}€<€](a>[Z𝄞,€a{>aZ}]é€> {a,,)a
)<: 𝄞)aa é𝄞>;]]([ Z{é;é
>bZ}]<;}{Z{,é:Zé )	é,{a<	é<}b[b	€,a)a];  {;€)𝄞)€Z 
(;[𝄞
 } Z]Z(
Z𝄞€};]) {;)a:", "[)é
	[𝄞
>é𝄞

}é<
(
    𝄞(
         {
             	,
            Zé  {
                [:;Z
;b	 €
éb[
𝄞,
                (é
            ><;;éZ
        } [a)>	é,
        <
            :;b]𝄞Z] é	€<
                
 {
                    ]	
                >]b
            }Z;Z  {
                (b€)[
            }<
                <
                    :é:	ba[	
                }
;
            )	,
            :𝄞
        ):
 {
            
        };€[(
            <
                Z,
                	<>ba]€]](
                    ]
                }[:<
                     {
                        €€é :
é()
                    }€<€](
                        a>[Z𝄞,
                        €a {
                            
                        >aZ
                    }]é€
                >  {
                    a,
                    ,
                    
                )a

            )<: 𝄞
        )aa é𝄞>;]](
            [ Z {
                é;é

            >bZ
        }]<
            ;
        } {
            Z {
                ,
                é:Zé 
            )	é,
             {
                a<
                    	é<
                        
                    }b[b	€,
                    a)a];   {
                        ;€)𝄞)€Z 
(
                            ;[𝄞
 
                        } Z]Z(
Z𝄞€
                    };])  {
                        ;
                    )a:").
Definition c498 : case := ("](b>;,, )Z{;
(𝄞,é{ 𝄞, >Z<
<;	<]€€]}){, }
€>€)	}[Z(€€><𝄞é>:(>;[ ", "](b>;, ,  )Z {
    ;
(
        𝄞,
        é {
             𝄞,
             >Z<
                
<
                    ;	<
                        ]€€]
                    }
                ) {
                    ,
                     
                }
€
            >€)	
        }[Z(
            €€
        ><𝄞é>:(
            
        >;[ ").
Definition c499 : case := ("	 >𝄞)(a,[)(
;]b><],{€}b[}:éa;é,)Z><>€({b:[;<>([𝄞)  },	b:𝄞>>Z 𝄞<;a]Z><é𝄞𝄞<{	é:{[)(Z	;,	<:
;([>𝄞[	>𝄞Z
Z(:Z>][{{	Z][a)( aa
,}€}
<	Z>	Z >;(()€a]}€){}){:Z{]a{<𝄞b	}	
(,{Z ,
€(é(>:b Zb€:;>	{Z
}a€] a>[[]	Z, :: ZaaaZ{(,:>( }(<>[[ aZ},b<,b<,b :€	𝄞€)𝄞𝄞>{", "	 >𝄞)(a, [)(
    
;]b><
        ],
         {
            €
        }b[
    }:éa;é,
    
)Z
><>€(
 {
    b:[;<>([𝄞)  
},
	b:𝄞>>Z 𝄞<;a]Z><
    é𝄞𝄞<
         {
            	é: {
                [
            )(
                Z	;,
                	<:
;(
                    [>𝄞[	
                >𝄞Z
Z(
                    :Z
                >][ {
                     {
                        	Z][a
                    )(
                         aa
,
                        
                    }€
                }
<	Z>	Z >;(()€a]
            }€) {
                
            }
        ) {
            :Z {
                ]a {
                    <
                        𝄞b	
                    }	
(
                        ,
                         {
                            Z ,
                            
€(
                                é(
                                    
                                >:b Zb€:;>	 {
                                    Z

                                }a€] a>[[]	Z,
                                 :: ZaaaZ {
                                    (
                                        ,
                                        :>(
                                             
                                        }(<>[[ aZ
                                    }, b<
                                        , b<, b :€	𝄞€)𝄞𝄞> {
                                            ").
Definition c500 : case := (";€:]]	;a;}a<>){
 :<		𝄞>Z{]:,]a𝄞{	[Z,Z;a 𝄞<€,> ]é  	é:<[é]	[a>[€[]({}:é>a𝄞é<)<b€𝄞€} b,a]a𝄞
	)(

]Z
][,:é{};	;€;)]< [(	,])b,é,,,Z >{{babZ]()}Z>é}	>(:	>,<{ €}>]€,𝄞)é;;(]>,bZ]:><>	:: 
,[;[𝄞{})>)𝄞é é; ", ";€:]]	;a;
}a<>) {

 :<		𝄞>Z {
    ]:,
    ]a𝄞 {
        	[Z,
        Z;a 𝄞<€,
        > ]é  	é:<[é]	[a>[€[](
             {
                
            }:é>a𝄞é<
                
            )<
                b€𝄞€
            } b,
            a]a𝄞
	)(
                

]Z
][,
                :é {
                    
                };	;€;
            )]< [(	, ])b,
            é,
            ,
            ,
            Z > {
                 {
                    babZ]()
                }Z
            >é
        }	
    >(
        :	>,
        <
             {
                 €
            }
        >]€,
        𝄞
    )é;;(
        ]>,
        bZ]:><>	:: 
,
        [;[𝄞 {
            
        }
    )>)𝄞é é; ").
Definition c501 : case := ("]a];é	Z>]::	>	é 
)>:{é	>é:
]{
:>})[){Z€]	:
(Z]{ZZ(é€[}:(;é([𝄞]𝄞<b>>
b{>b <	([<: 	é;;]𝄞()a{,(Za
) )):{𝄞> )} <(>]: ])aab;€<(", "]a];é	Z>]::	>	é 
)>: {
    é	>é:
] {
        
:>
    })[) {
        Z€]	:
(
            Z] {
                ZZ(
                    é€[
                }:(
                    ;é(
                        [𝄞]𝄞<b>>
b {
                            >b <
                                	(
                                    [<
                                        : 	é;;]𝄞()a {
                                            ,
                                            (Za
) 
                                        )
                                    ): {
                                        𝄞
                                    > 
                                )
                            } <(>]: ])aab;€<
                                (
                                    ").
Definition c502 : case := (">Z(
	b>b𝄞aé𝄞);>
]}𝄞](<a;b𝄞>, 𝄞)]{,{a) ](	)>(,Z:𝄞{é>,{,<b,	>:,<;]€ <>({{ <>(]€{(][[>;(]{}{[
Z
,:	> ,,a<Z>€{𝄞}é
bb>(€𝄞é ]({<é	[
{éé)}}𝄞 aééZb{,,:;a;:,]((a €		
:>{:Z
 €𝄞<,Z>Z;{:a<])
<
<
aa€
	[	),<{€{Z€,[<a<	:;€a€;ZZ 	é<é[ Z[>]a(<€(", ">Z(
	b>b𝄞aé𝄞);>
]
}𝄞](<a;b𝄞>,  𝄞)] {
,
 {
    a) ](	)>(
        ,
        Z:𝄞 {
            é>,
             {
                ,
                <b,
                	>:,
                <
                    ;]€ <>(
                         {
                             {
                                 <>(
                                    ]€ {
                                        (
                                            ][[
                                        >;(
                                            ] {
                                                
                                            } {
                                                [
Z
,
                                                :	> ,
                                                ,
                                                a<Z>€ {
                                                    𝄞
                                                }é
bb>(
                                                    €𝄞é ](
                                                         {
                                                            <
                                                                é	[
 {
                                                                    éé
                                                                )
                                                            }
                                                        }𝄞 aééZb {
                                                            ,
                                                            ,
                                                            :;a;:,
                                                            ](
                                                                (
                                                                    a €		
:
                                                                > {
                                                                    :Z
 €𝄞<,
                                                                    Z>Z; {
                                                                        :a<
                                                                            ]
                                                                        )
<
                                                                            
<
                                                                                
aa€
	[	
                                                                            ),
                                                                            <
                                                                                 {
                                                                                    € {
                                                                                        Z€,
                                                                                        [<
                                                                                            a<
                                                                                                	:;€a€;ZZ 	é<é[ Z[>]a(
                                                                                                    <
                                                                                                        €(
                                                                                                            ").
Definition c503 : case := ("
)	>:,:( {Z𝄞<]Zéa,(b[:,
Z €)𝄞a]", "
)	>:,
:(
      {
        Z𝄞<
            ]Zéa,
            (b[:, 
Z €)𝄞a]").
Definition c504 : case := ("{aZb𝄞}Z>	[((é[
𝄞Z𝄞,(>Z<
>a:b;:]a]a( 	{}),b))	,]:[}]<,;}b>𝄞𝄞>>Z €é	a}](€	€[]
€Z[)(
},}Z€€
>{>]))
a[aé() ;<,>:,
	
>](é	b]	);b;]:a{]	€	𝄞};€
<", " {
    aZb𝄞
}Z>	[(
    (
        é[
𝄞Z𝄞,
        (
            >Z<
>a:b;:]a]a(
                 	 {
                    
                }
            ),
            b
        )
    )	,
    ]:[
}]<,
;
}b>𝄞𝄞>>Z €é	a
}](€	€[]
€Z[)(


},

}Z€€
> {
>]
)
)
a[aé() ;<,
>:,

	
>](é	b]	);b;]:a {
]	€	𝄞
};€
<
").
Definition c505 : case := ("	>{;<éa( :]<:]>]}{Z", "	> {
    ;<
        éa(
             :]<:]>]
        } {
            Z").
Definition c506 : case := ("})<éé)[><>€>>><<<€>{>Z[€a[<}[	é>[é𝄞,:é)}<𝄞a	,	([:", "
})<éé)[><>€>>><
<
    <€> {
        
    >Z[€a[<
}[	é>[é𝄞,
:é)
}<
𝄞a	,
	(
    [:").
Definition c507 : case := ("Z𝄞<)[])𝄞<Z:,{
𝄞{]{[
: Z€[{]Z{a,<  	b€€
Z
𝄞
[b] é,
{{,a;
(𝄞:[ ] ;€a}
>>{(}€{;	é𝄞Z€ ;ab>:]){Z]>
Z
b>	 ,€}}((
}ba,(}({[[{<{
Z}	a𝄞	a[},b{[
€𝄞,}	(,(
>,}[:𝄞)	{:é
a	b{ )a>;,:<Z::éZ,éb{ < ]<é )}}::;[Z:", "Z𝄞<
    )[])𝄞<
        Z:,
         {
            
𝄞 {
                ] {
                    [
: Z€[ {
                        ]Z {
                            a,
                            <
                                  	b€€
Z
𝄞
[b] é,
                                
 {
                                     {
                                        ,
                                        a;
(
                                            𝄞:[ ] ;€a
                                        }

                                    >
                                > {
                                    (
                                        
                                    }€ {
                                        ;	é𝄞Z€ ;ab
                                    >:]
                                ) {
                                    Z]>
Z
b>	 ,
                                    €
                                }
                            }(
                                (
                                    

                                }ba,
                                (
                                    
                                }(
                                     {
                                        [[ {
                                            <
                                                 {
                                                    
Z
                                                }	a𝄞	a[
                                            },
                                            b {
                                                [
€𝄞,
                                                
                                            }	(
                                                ,
                                                (

                                            >, 
                                        }[:𝄞)	 {
                                            :é
a	b {
                                                 
                                            )a>;,
                                            :<
                                                Z::éZ,
                                                éb {
                                                     <
                                                         ]<
                                                            é 
                                                        )
                                                    }
                                                }::;[Z:").
Definition c508 : case := ("a<
bé});, <)}:[, ab,){aa(<;b){}(€,𝄞€é((Z<<>𝄞
:€{}]€[€<Z
a:éb,,[<}{b€ab) [),<[𝄞}:{ba𝄞::€Zb>]𝄞};}:<	,]((€é€a 
 :))	éé
a),}	>
€<	(𝄞])[𝄞;a;Z<,bbé,a<𝄞{b€,é;é;;éb	] }éb	b", "a<
    
bé
});,
 <
    )
}:[,
 ab,
) {
    aa(<
        ;b) {
            
        }(
            €,
            𝄞€é(
                (
                    Z<
                        <>𝄞
:€ {
                            
                        }]€[€<
                            Z
a:éb,
                            ,
                            [<
                                
                            } {
                                b€ab
                            ) [
                        ),
                        <
                            [𝄞
                        }: {
                            ba𝄞::€Zb
                        >]𝄞
                    };
                }:<	,
                ]((€é€a 
 :))	éé
a
            ),
            
        }	>
€<
            	(𝄞])[𝄞;a;Z<
                ,
                bbé,
                a<
                    𝄞 {
                        b€,
                        é;é;;éb	] 
                    }éb	b").
Definition c509 : case := ("< 	[:>𝄞(}[]}𝄞];a<,€[;{€𝄞	),
]{(; €
 <(:;	;]Z
) {)  a:b)a{	,b Z
€:[:	
 ébZ	({{{[;)
]<(;>( [}}	 )bé(	;)b{ é)aZ:[éZa}})	<[<
< [[éZé:<;:b;,>éa, €[}(<)aa;{b	{(>)€
b;;€)[),€)𝄞>{	{b(€
(Z()b

Z{>]€b(;éé (𝄞<
(:],,
[𝄞€)b,,{é}€<Z]b(𝄞(,](>,€>>(Z}; Z<)>):Z
(}€(b€, ,,
€>

<

]€(]]𝄞;bb>𝄞[()
:](>", "< 	[:>𝄞(
    
}[]
}𝄞];a<
,
€[; {
    €𝄞	
),

] {
    (
        ; €
 <
            (:;	;]Z
)  {
                
            )  a:b)a {
                	,
                b Z
€:[:	
 ébZ	(
                     {
                         {
                             {
                                [;
                            )
]<(
                                ;>( [
                            }
                        }	 )bé(	;)b {
                             é
                        )aZ:[éZa
                    }
                })	<
                    [<
                        
<
                             [[éZé:<;:b;,
                            >éa,
                             €[
                        }(<
                            )aa; {
                                b	 {
                                    (
                                >)€
b;;€)[),
                                €)𝄞
                            > {
                                	 {
                                    b(
                                        €
(
                                            Z()b

Z {
                                                
                                            >]€b(
                                                ;éé (
                                                    𝄞<
                                                        
(:], , 
[𝄞€)b,
                                                        ,
                                                         {
                                                            é
                                                        }€<Z]b(
                                                            𝄞(
                                                                ,
                                                                ](>, €
                                                            >
                                                        >(Z
                                                    }; Z<)>):Z
(
                                                        
                                                    }€(
                                                        b€,
                                                         ,
                                                        ,
                                                        
€
                                                    >

<

]€(
                                                        ]]𝄞;bb>𝄞[()
:](
                                                            
                                                        >").
Definition c510 : case := ("struct EthereumAddress([u8; 20])", "struct EthereumAddress([u8; 20])").
Definition c511 : case := ("Vec<(struct Id(u32),u32)>", "Vec<(struct Id(u32), u32)>").
Definition c512 : case := ("enum Call<_>{join{amount: Compact<u128>,pool_id: u32},bond_extra{extra: enum BondExtra<u128>{FreeBalance(u128),Rewards}},claim_payout,unbond{member_account: enum MultiAddress<AccountId32,()>{Id(struct AccountId32([u8; 32])),Index(Compact<()>),Raw(Vec<u8>),Address32([u8; 32]),Address20([u8; 20])},unbonding_points: Compact<u128>},pool_withdraw_unbonded{pool_id: u32,num_slashing_spans: u32},withdraw_unbonded{member_account: MultiAddress<AccountId32,()>,num_slashing_spans: u32},create{amount: Compact<u128>,root: MultiAddress<AccountId32,()>,nominator: MultiAddress<AccountId32,()>,bouncer: MultiAddress<AccountId32,()>},create_with_pool_id{amount: Compact<u128>,root: MultiAddress<AccountId32,()>,nominator: MultiAddress<AccountId32,()>,bouncer: MultiAddress<AccountId32,()>,pool_id: u32},nominate{pool_id: u32,validators: Vec<AccountId32>},set_state{pool_id: u32,state: enum PoolState{Open,Blocked,Destroying}},set_metadata{pool_id: u32,metadata: Vec<u8>},set_configs{min_join_bond: enum ConfigOp<u128>{Noop,Set(u128),Remove},min_create_bond: ConfigOp<u128>,max_pools: enum ConfigOp<u32>{Noop,Set(u32),Remove},max_members: ConfigOp<u32>,max_members_per_pool: ConfigOp<u32>,global_max_commission: enum ConfigOp<Perbill>{Noop,Set(struct Perbill(u32)),Remove}},update_roles{pool_id: u32,new_root: enum ConfigOp<AccountId32>{Noop,Set(AccountId32),Remove},new_nominator: ConfigOp<AccountId32>,new_bouncer: ConfigOp<AccountId32>},chill{pool_id: u32},bond_extra_other{member: MultiAddress<AccountId32,()>,extra: BondExtra<u128>},set_claim_permission{permission: enum ClaimPermission{Permissioned,PermissionlessCompound,PermissionlessWithdraw,PermissionlessAll}},claim_payout_other{other: AccountId32},set_commission{pool_id: u32,new_commission: enum Option<(Perbill,AccountId32)>{None,Some((Perbill,AccountId32))}},set_commission_max{pool_id: u32,max_commission: Perbill},set_commission_change_rate{pool_id: u32,change_rate: struct CommissionChangeRate<u32>{max_increase: Perbill,min_delay: u32}},claim_commission{pool_id: u32}}", "enum Call<_> {
    join {
        amount: Compact<u128>,
        pool_id: u32
    },
    bond_extra {
        extra: enum BondExtra<u128> {
            FreeBalance(u128),
            Rewards
        }
    },
    claim_payout,
    unbond {
        member_account: enum MultiAddress<AccountId32,
        ()> {
            Id(struct AccountId32([u8; 32])),
            Index(Compact<()>),
            Raw(Vec<u8>),
            Address32([u8; 32]),
            Address20([u8; 20])
        },
        unbonding_points: Compact<u128>
    },
    pool_withdraw_unbonded {
        pool_id: u32,
        num_slashing_spans: u32
    },
    withdraw_unbonded {
        member_account: MultiAddress<AccountId32,
        ()>,
        num_slashing_spans: u32
    },
    create {
        amount: Compact<u128>,
        root: MultiAddress<AccountId32,
        ()>,
        nominator: MultiAddress<AccountId32,
        ()>,
        bouncer: MultiAddress<AccountId32,
        ()>
    },
    create_with_pool_id {
        amount: Compact<u128>,
        root: MultiAddress<AccountId32,
        ()>,
        nominator: MultiAddress<AccountId32,
        ()>,
        bouncer: MultiAddress<AccountId32,
        ()>,
        pool_id: u32
    },
    nominate {
        pool_id: u32,
        validators: Vec<AccountId32>
    },
    set_state {
        pool_id: u32,
        state: enum PoolState {
            Open,
            Blocked,
            Destroying
        }
    },
    set_metadata {
        pool_id: u32,
        metadata: Vec<u8>
    },
    set_configs {
        min_join_bond: enum ConfigOp<u128> {
            Noop,
            Set(u128),
            Remove
        },
        min_create_bond: ConfigOp<u128>,
        max_pools: enum ConfigOp<u32> {
            Noop,
            Set(u32),
            Remove
        },
        max_members: ConfigOp<u32>,
        max_members_per_pool: ConfigOp<u32>,
        global_max_commission: enum ConfigOp<Perbill> {
            Noop,
            Set(struct Perbill(u32)),
            Remove
        }
    },
    update_roles {
        pool_id: u32,
        new_root: enum ConfigOp<AccountId32> {
            Noop,
            Set(AccountId32),
            Remove
        },
        new_nominator: ConfigOp<AccountId32>,
        new_bouncer: ConfigOp<AccountId32>
    },
    chill {
        pool_id: u32
    },
    bond_extra_other {
        member: MultiAddress<AccountId32,
        ()>,
        extra: BondExtra<u128>
    },
    set_claim_permission {
        permission: enum ClaimPermission {
            Permissioned,
            PermissionlessCompound,
            PermissionlessWithdraw,
            PermissionlessAll
        }
    },
    claim_payout_other {
        other: AccountId32
    },
    set_commission {
        pool_id: u32,
        new_commission: enum Option<(Perbill, AccountId32)> {
            None,
            Some((Perbill, AccountId32))
        }
    },
    set_commission_max {
        pool_id: u32,
        max_commission: Perbill
    },
    set_commission_change_rate {
        pool_id: u32,
        change_rate: struct CommissionChangeRate<u32> {
            max_increase: Perbill,
            min_delay: u32
        }
    },
    claim_commission {
        pool_id: u32
    }
}").
Definition c513 : case := ("struct BTreeMap<u32,u128>(Vec<(u32,u128)>)", "struct BTreeMap<u32,
u128>(Vec<(u32, u128)>)").
Definition cases : list (case) := [c0; c1; c2; c3; c4; c5; c6; c7; c8; c9; c10; c11; c12; c13; c14; c15; c16; c17; c18; c19; c20; c21; c22; c23; c24; c25; c26; c27; c28; c29; c30; c31; c32; c33; c34; c35; c36; c37; c38; c39; c40; c41; c42; c43; c44; c45; c46; c47; c48; c49; c50; c51; c52; c53; c54; c55; c56; c57; c58; c59; c60; c61; c62; c63; c64; c65; c66; c67; c68; c69; c70; c71; c72; c73; c74; c75; c76; c77; c78; c79; c80; c81; c82; c83; c84; c85; c86; c87; c88; c89; c90; c91; c92; c93; c94; c95; c96; c97; c98; c99; c100; c101; c102; c103; c104; c105; c106; c107; c108; c109; c110; c111; c112; c113; c114; c115; c116; c117; c118; c119; c120; c121; c122; c123; c124; c125; c126; c127; c128; c129; c130; c131; c132; c133; c134; c135; c136; c137; c138; c139; c140; c141; c142; c143; c144; c145; c146; c147; c148; c149; c150; c151; c152; c153; c154; c155; c156; c157; c158; c159; c160; c161; c162; c163; c164; c165; c166; c167; c168; c169; c170; c171; c172; c173; c174; c175; c176; c177; c178; c179; c180; c181; c182; c183; c184; c185; c186; c187; c188; c189; c190; c191; c192; c193; c194; c195; c196; c197; c198; c199; c200; c201; c202; c203; c204; c205; c206; c207; c208; c209; c210; c211; c212; c213; c214; c215; c216; c217; c218; c219; c220; c221; c222; c223; c224; c225; c226; c227; c228; c229; c230; c231; c232; c233; c234; c235; c236; c237; c238; c239; c240; c241; c242; c243; c244; c245; c246; c247; c248; c249; c250; c251; c252; c253; c254; c255; c256; c257; c258; c259; c260; c261; c262; c263; c264; c265; c266; c267; c268; c269; c270; c271; c272; c273; c274; c275; c276; c277; c278; c279; c280; c281; c282; c283; c284; c285; c286; c287; c288; c289; c290; c291; c292; c293; c294; c295; c296; c297; c298; c299; c300; c301; c302; c303; c304; c305; c306; c307; c308; c309; c310; c311; c312; c313; c314; c315; c316; c317; c318; c319; c320; c321; c322; c323; c324; c325; c326; c327; c328; c329; c330; c331; c332; c333; c334; c335; c336; c337; c338; c339; c340; c341; c342; c343; c344; c345; c346; c347; c348; c349; c350; c351; c352; c353; c354; c355; c356; c357; c358; c359; c360; c361; c362; c363; c364; c365; c366; c367; c368; c369; c370; c371; c372; c373; c374; c375; c376; c377; c378; c379; c380; c381; c382; c383; c384; c385; c386; c387; c388; c389; c390; c391; c392; c393; c394; c395; c396; c397; c398; c399; c400; c401; c402; c403; c404; c405; c406; c407; c408; c409; c410; c411; c412; c413; c414; c415; c416; c417; c418; c419; c420; c421; c422; c423; c424; c425; c426; c427; c428; c429; c430; c431; c432; c433; c434; c435; c436; c437; c438; c439; c440; c441; c442; c443; c444; c445; c446; c447; c448; c449; c450; c451; c452; c453; c454; c455; c456; c457; c458; c459; c460; c461; c462; c463; c464; c465; c466; c467; c468; c469; c470; c471; c472; c473; c474; c475; c476; c477; c478; c479; c480; c481; c482; c483; c484; c485; c486; c487; c488; c489; c490; c491; c492; c493; c494; c495; c496; c497; c498; c499; c500; c501; c502; c503; c504; c505; c506; c507; c508; c509; c510; c511; c512; c513].
Eval vm_compute in ("corr_exact"%string, failing (corr_exact) cases).
Eval vm_compute in ("corr_stream"%string, failing (corr_stream) cases).
Eval vm_compute in ("prop_ws"%string, failing (prop_ws) cases).
Eval vm_compute in ("prop_discipline"%string, failing (prop_discipline) cases).
