From Coq Require Import List NArith String.
From V Require Import Base.Util Corr.RunC15.
Import ListNotations. Open Scope string_scope.
Definition c0 : case := ("{{", " {
     {
        ").
Definition c1 : case := ("}a", "
}a").
Definition c2 : case := (")>", ")>").
Definition c3 : case := (">)", ">)").
Definition c4 : case := ("a}", "a
}").
Definition c5 : case := ("  ", "  ").
Definition c6 : case := ("{},", " {
    
},
").
Definition c7 : case := ("{)<", " {
    )<
        ").
Definition c8 : case := ("{>(", " {
    >(
        ").
Definition c9 : case := ("{a{", " {
    a {
        ").
Definition c10 : case := ("{ a", " {
     a").
Definition c11 : case := ("}}>", "
}
}>").
Definition c12 : case := ("}))", "
}))").
Definition c13 : case := ("}>}", "
}>
}").
Definition c14 : case := ("}, ", "
},
 ").
Definition c15 : case := ("} ,", "
} ,
").
Definition c16 : case := ("(}<", "(
    
}<
    ").
Definition c17 : case := ("()(", "()(
    ").
Definition c18 : case := ("(>{", "(
    > {
        ").
Definition c19 : case := ("(,a", "(
    ,
    a").
Definition c20 : case := ("( >", "(
     >").
Definition c21 : case := (")})", ")
})").
Definition c22 : case := ("))}", "))
}").
Definition c23 : case := (")< ", ")<
     ").
Definition c24 : case := ("),,", "),
,
").
Definition c25 : case := (") <", ") <
    ").
Definition c26 : case := ("<}(", "<
    
}(
    ").
Definition c27 : case := ("<){", "<
    ) {
        ").
Definition c28 : case := ("<<a", "<
    <
        a").
Definition c29 : case := ("<,>", "<,
>").
Definition c30 : case := ("< )", "<
     )").
Definition c31 : case := (">}}", ">
}
}").
Definition c32 : case := (">( ", ">(
     ").
Definition c33 : case := ("><,", "><
    ,
    ").
Definition c34 : case := (">,<", ">,
<
    ").
Definition c35 : case := ("> (", "> (
    ").
Definition c36 : case := (",}{", ",

} {
").
Definition c37 : case := (",(a", ",
(
    a").
Definition c38 : case := (",<>", ",
<>").
Definition c39 : case := (",,)", ",
,
)").
Definition c40 : case := (", }", ",
 
}").
Definition c41 : case := ("a{ ", "a {
     ").
Definition c42 : case := ("a(,", "a(
    ,
    ").
Definition c43 : case := ("a<<", "a<
    <
        ").
Definition c44 : case := ("a,(", "a,
(
    ").
Definition c45 : case := ("a {", "a  {
    ").
Definition c46 : case := (" {a", "  {
    a").
Definition c47 : case := (" (>", " (
    >").
Definition c48 : case := (" <)", " <
    )").
Definition c49 : case := (" ,}", " ,

}").
Definition c50 : case := (" a ", " a ").
Definition c51 : case := ("{{{,", " {
     {
         {
            ,
            ").
Definition c52 : case := ("{{(<", " {
     {
        (
            <
                ").
Definition c53 : case := ("{{<(", " {
     {
        <
            (
                ").
Definition c54 : case := ("{{,{", " {
     {
        ,
         {
            ").
Definition c55 : case := ("{{aa", " {
     {
        aa").
Definition c56 : case := ("{}{>", " {
    
} {
    >").
Definition c57 : case := ("{}()", " {
    
}()").
Definition c58 : case := ("{}<}", " {
    
}<
    
}").
Definition c59 : case := ("{}> ", " {
    
}> ").
Definition c60 : case := ("{}a,", " {
    
}a,
").
Definition c61 : case := ("{({<", " {
    (
         {
            <
                ").
Definition c62 : case := ("{(((", " {
    (
        (
            (
                ").
Definition c63 : case := ("{(<{", " {
    (
        <
             {
                ").
Definition c64 : case := ("{(>a", " {
    (
        >a").
Definition c65 : case := ("{(a>", " {
    (
        a>").
Definition c66 : case := ("{){)", " {
    ) {
        )").
Definition c67 : case := ("{)(}", " {
    )(
        
    }").
Definition c68 : case := ("{)) ", " {
    )) ").
Definition c69 : case := ("{)>,", " {
    )>,
    ").
Definition c70 : case := ("{)a<", " {
    )a<
        ").
Definition c71 : case := ("{<{(", " {
    <
         {
            (
                ").
Definition c72 : case := ("{<({", " {
    <
        (
             {
                ").
Definition c73 : case := ("{<)a", " {
    <
        )a").
Definition c74 : case := ("{<>>", " {
    <>>").
Definition c75 : case := ("{<a)", " {
    <
        a)").
Definition c76 : case := ("{>{}", " {
    > {
        
    }").
Definition c77 : case := ("{>} ", " {
    >
} ").
Definition c78 : case := ("{>),", " {
    >),
    ").
Definition c79 : case := ("{>><", " {
    >><
        ").
Definition c80 : case := ("{>a(", " {
    >a(
        ").
Definition c81 : case := ("{,{{", " {
    ,
     {
         {
            ").
Definition c82 : case := ("{,}a", " {
    ,
    
}a").
Definition c83 : case := ("{,)>", " {
    ,
    )>").
Definition c84 : case := ("{,>)", " {
    ,
    >)").
Definition c85 : case := ("{,a}", " {
    ,
    a
}").
Definition c86 : case := ("{,  ", " {
    ,
      ").
Definition c87 : case := ("{a},", " {
    a
},
").
Definition c88 : case := ("{a)<", " {
    a)<
        ").
Definition c89 : case := ("{a>(", " {
    a>(
        ").
Definition c90 : case := ("{aa{", " {
    aa {
        ").
Definition c91 : case := ("{a a", " {
    a a").
Definition c92 : case := ("{ }>", " {
     
}>").
Definition c93 : case := ("{ ))", " {
     ))").
Definition c94 : case := ("{ >}", " {
     >
}").
Definition c95 : case := ("{ , ", " {
     ,
     ").
Definition c96 : case := ("{  ,", " {
      ,
    ").
Definition c97 : case := ("}{}<", "
} {

}<
").
Definition c98 : case := ("}{)(", "
} {
)(
    ").
Definition c99 : case := ("}{>{", "
} {
> {
    ").
Definition c100 : case := ("}{,a", "
} {
,
a").
Definition c101 : case := ("}{ >", "
} {
 >").
Definition c102 : case := ("}}})", "
}
}
})").
Definition c103 : case := ("}})}", "
}
})
}").
Definition c104 : case := ("}}< ", "
}
}<
 ").
Definition c105 : case := ("}},,", "
}
},
,
").
Definition c106 : case := ("}} <", "
}
} <
").
Definition c107 : case := ("}(}(", "
}(

}(
").
Definition c108 : case := ("}(){", "
}() {
").
Definition c109 : case := ("}(<a", "
}(
<
    a").
Definition c110 : case := ("}(,>", "
}(
,
>").
Definition c111 : case := ("}( )", "
}( )").
Definition c112 : case := ("})}}", "
})
}
}").
Definition c113 : case := ("})( ", "
})(
 ").
Definition c114 : case := ("})<,", "
})<
,
").
Definition c115 : case := ("}),<", "
}),
<
").
Definition c116 : case := ("}) (", "
}) (
").
Definition c117 : case := ("}<}{", "
}<

} {
").
Definition c118 : case := ("}<(a", "
}<
(
    a").
Definition c119 : case := ("}<<>", "
}<
<>").
Definition c120 : case := ("}<,)", "
}<
,
)").
Definition c121 : case := ("}< }", "
}<
 
}").
Definition c122 : case := ("}>{ ", "
}> {
 ").
Definition c123 : case := ("}>(,", "
}>(
,
").
Definition c124 : case := ("}><<", "
}><
<
    ").
Definition c125 : case := ("}>,(", "
}>,
(
").
Definition c126 : case := ("}> {", "
}>  {
").
Definition c127 : case := ("},{a", "
},
 {
a").
Definition c128 : case := ("},(>", "
},
(
>").
Definition c129 : case := ("},<)", "
},
<
)").
Definition c130 : case := ("},,}", "
},
,

}").
Definition c131 : case := ("},a ", "
},
a ").
Definition c132 : case := ("}a{,", "
}a {
,
").
Definition c133 : case := ("}a(<", "
}a(
<
    ").
Definition c134 : case := ("}a<(", "
}a<
(
    ").
Definition c135 : case := ("}a,{", "
}a,
 {
").
Definition c136 : case := ("}aaa", "
}aaa").
Definition c137 : case := ("} {>", "
}  {
>").
Definition c138 : case := ("} ()", "
} ()").
Definition c139 : case := ("} <}", "
} <

}").
Definition c140 : case := ("} > ", "
} > ").
Definition c141 : case := ("} a,", "
} a,
").
Definition c142 : case := ("({{<", "(
     {
         {
            <
                ").
Definition c143 : case := ("({((", "(
     {
        (
            (
                ").
Definition c144 : case := ("({<{", "(
     {
        <
             {
                ").
Definition c145 : case := ("({>a", "(
     {
        >a").
Definition c146 : case := ("({a>", "(
     {
        a>").
Definition c147 : case := ("(}{)", "(
    
} {
    
)").
Definition c148 : case := ("(}(}", "(
    
}(
    
}").
Definition c149 : case := ("(}) ", "(
}) ").
Definition c150 : case := ("(}>,", "(
    
}>,
").
Definition c151 : case := ("(}a<", "(
    
}a<
    ").
Definition c152 : case := ("(({(", "(
    (
         {
            (
                ").
Definition c153 : case := ("((({", "(
    (
        (
             {
                ").
Definition c154 : case := ("(()a", "(
    ()a").
Definition c155 : case := ("((>>", "(
    (
        >>").
Definition c156 : case := ("((a)", "(
    (a)").
Definition c157 : case := ("(){}", "() {
    
}").
Definition c158 : case := ("()} ", "()
} ").
Definition c159 : case := ("()),", "()),
").
Definition c160 : case := ("()><", "()><
    ").
Definition c161 : case := ("()a(", "()a(
    ").
Definition c162 : case := ("(<{{", "(
    <
         {
             {
                ").
Definition c163 : case := ("(<}a", "(
    <
        
    }a").
Definition c164 : case := ("(<)>", "(<)>").
Definition c165 : case := ("(<>)", "(<>)").
Definition c166 : case := ("(<a}", "(
    <
        a
    }").
Definition c167 : case := ("(<  ", "(
    <
          ").
Definition c168 : case := ("(>},", "(
    >
},
").
Definition c169 : case := ("(>)<", "(>)<
    ").
Definition c170 : case := ("(>>(", "(
    >>(
        ").
Definition c171 : case := ("(>a{", "(
    >a {
        ").
Definition c172 : case := ("(> a", "(
    > a").
Definition c173 : case := ("(,}>", "(
    ,
    
}>").
Definition c174 : case := ("(,))", "(, ))").
Definition c175 : case := ("(,>}", "(
    ,
    >
}").
Definition c176 : case := ("(,, ", "(
    ,
    ,
     ").
Definition c177 : case := ("(, ,", "(
    ,
     ,
    ").
Definition c178 : case := ("(a}<", "(
    a
}<
    ").
Definition c179 : case := ("(a)(", "(a)(
    ").
Definition c180 : case := ("(a>{", "(
    a> {
        ").
Definition c181 : case := ("(a,a", "(
    a,
    a").
Definition c182 : case := ("(a >", "(
    a >").
Definition c183 : case := ("( })", "( 
})").
Definition c184 : case := ("( )}", "( )
}").
Definition c185 : case := ("( < ", "(
     <
         ").
Definition c186 : case := ("( ,,", "(
     ,
    ,
    ").
Definition c187 : case := ("(  <", "(
      <
        ").
Definition c188 : case := ("){}(", ") {
    
}(
    ").
Definition c189 : case := ("){){", ") {
    ) {
        ").
Definition c190 : case := ("){<a", ") {
    <
        a").
Definition c191 : case := ("){,>", ") {
    ,
    >").
Definition c192 : case := ("){ )", ") {
     )").
Definition c193 : case := (")}}}", ")
}
}
}").
Definition c194 : case := (")}( ", ")
}(
 ").
Definition c195 : case := (")}<,", ")
}<
,
").
Definition c196 : case := (")},<", ")
},
<
").
Definition c197 : case := (")} (", ")
} (
").
Definition c198 : case := (")(}{", ")(
    
} {
    ").
Definition c199 : case := (")((a", ")(
    (
        a").
Definition c200 : case := (")(<>", ")(
    <>").
Definition c201 : case := (")(,)", ")(, )").
Definition c202 : case := (")( }", ")(
     
}").
Definition c203 : case := (")){ ", ")) {
     ").
Definition c204 : case := ("))(,", "))(
    ,
    ").
Definition c205 : case := ("))<<", "))<
    <
        ").
Definition c206 : case := (")),(", ")),
(
    ").
Definition c207 : case := (")) {", "))  {
    ").
Definition c208 : case := (")<{a", ")<
     {
        a").
Definition c209 : case := (")<(>", ")<(
    >").
Definition c210 : case := (")<<)", ")<
    <
        )").
Definition c211 : case := (")<,}", ")<
    ,
    
}").
Definition c212 : case := (")<a ", ")<
    a ").
Definition c213 : case := (")>{,", ")> {
    ,
    ").
Definition c214 : case := (")>(<", ")>(
    <
        ").
Definition c215 : case := (")><(", ")><
    (
        ").
Definition c216 : case := (")>,{", ")>,
 {
    ").
Definition c217 : case := (")>aa", ")>aa").
Definition c218 : case := ("),{>", "),
 {
    >").
Definition c219 : case := ("),()", "),
()").
Definition c220 : case := ("),<}", "),
<
    
}").
Definition c221 : case := ("),> ", "),
> ").
Definition c222 : case := ("),a,", "),
a,
").
Definition c223 : case := (")a{<", ")a {
    <
        ").
Definition c224 : case := (")a((", ")a(
    (
        ").
Definition c225 : case := (")a<{", ")a<
     {
        ").
Definition c226 : case := (")a>a", ")a>a").
Definition c227 : case := (")aa>", ")aa>").
Definition c228 : case := (") {)", ")  {
    )").
Definition c229 : case := (") (}", ") (
    
}").
Definition c230 : case := (") ) ", ") ) ").
Definition c231 : case := (") >,", ") >,
").
Definition c232 : case := (") a<", ") a<
    ").
Definition c233 : case := ("<{{(", "<
     {
         {
            (
                ").
Definition c234 : case := ("<{({", "<
     {
        (
             {
                ").
Definition c235 : case := ("<{)a", "<
     {
        )a").
Definition c236 : case := ("<{>>", "<
     {
        
    >>").
Definition c237 : case := ("<{a)", "<
     {
        a)").
Definition c238 : case := ("<}{}", "<
    
} {
    
}").
Definition c239 : case := ("<}} ", "<
    
}
} ").
Definition c240 : case := ("<}),", "<
    
}),
").
Definition c241 : case := ("<}><", "<
}><
").
Definition c242 : case := ("<}a(", "<
    
}a(
    ").
Definition c243 : case := ("<({{", "<
    (
         {
             {
                ").
Definition c244 : case := ("<(}a", "<
    (
        
    }a").
Definition c245 : case := ("<()>", "<()>").
Definition c246 : case := ("<(>)", "<(>)").
Definition c247 : case := ("<(a}", "<
    (
        a
    }").
Definition c248 : case := ("<(  ", "<
    (
          ").
Definition c249 : case := ("<)},", "<
    )
},
").
Definition c250 : case := ("<))<", "<
    ))<
        ").
Definition c251 : case := ("<)>(", "<)>(
    ").
Definition c252 : case := ("<)a{", "<
    )a {
        ").
Definition c253 : case := ("<) a", "<
    ) a").
Definition c254 : case := ("<<}>", "<
    <
}>").
Definition c255 : case := ("<<))", "<
    <
        ))").
Definition c256 : case := ("<<>}", "<
    <>
}").
Definition c257 : case := ("<<, ", "<
    <
        ,
         ").
Definition c258 : case := ("<< ,", "<
    <
         ,
        ").
Definition c259 : case := ("<>}<", "<>
}<
").
Definition c260 : case := ("<>)(", "<>)(
    ").
Definition c261 : case := ("<>>{", "<>> {
    ").
Definition c262 : case := ("<>,a", "<>,
a").
Definition c263 : case := ("<> >", "<> >").
Definition c264 : case := ("<,})", "<
    ,
    
})").
Definition c265 : case := ("<,)}", "<
    ,
    )
}").
Definition c266 : case := ("<,< ", "<
    ,
    <
         ").
Definition c267 : case := ("<,,,", "<
    ,
    ,
    ,
    ").
Definition c268 : case := ("<, <", "<
    ,
     <
        ").
Definition c269 : case := ("<a}(", "<
    a
}(
    ").
Definition c270 : case := ("<a){", "<
    a) {
        ").
Definition c271 : case := ("<a<a", "<
    a<
        a").
Definition c272 : case := ("<a,>", "<a,
>").
Definition c273 : case := ("<a )", "<
    a )").
Definition c274 : case := ("< }}", "<
     
}
}").
Definition c275 : case := ("< ( ", "<
     (
         ").
Definition c276 : case := ("< <,", "<
     <
        ,
        ").
Definition c277 : case := ("< ,<", "<
     ,
    <
        ").
Definition c278 : case := ("<  (", "<
      (
        ").
Definition c279 : case := (">{}{", "> {
    
} {
    ").
Definition c280 : case := (">{(a", "> {
    (
        a").
Definition c281 : case := (">{<>", "> {
    <>").
Definition c282 : case := (">{,)", "> {
    ,
    )").
Definition c283 : case := (">{ }", "> {
     
}").
Definition c284 : case := (">}{ ", ">
} {
 ").
Definition c285 : case := (">}(,", ">
}(
,
").
Definition c286 : case := (">}<<", ">
}<
<
    ").
Definition c287 : case := (">},(", ">
},
(
").
Definition c288 : case := (">} {", ">
}  {
").
Definition c289 : case := (">({a", ">(
     {
        a").
Definition c290 : case := (">((>", ">(
    (
        >").
Definition c291 : case := (">(<)", ">(<
    )").
Definition c292 : case := (">(,}", ">(
    ,
    
}").
Definition c293 : case := (">(a ", ">(
    a ").
Definition c294 : case := (">){,", ">) {
    ,
    ").
Definition c295 : case := (">)(<", ">)(
    <
        ").
Definition c296 : case := (">)<(", ">)<
    (
        ").
Definition c297 : case := (">),{", ">),
 {
    ").
Definition c298 : case := (">)aa", ">)aa").
Definition c299 : case := ("><{>", "><
     {
        
    >").
Definition c300 : case := ("><()", "><
    ()").
Definition c301 : case := ("><<}", "><
    <
        
    }").
Definition c302 : case := ("><> ", "><> ").
Definition c303 : case := ("><a,", "><
    a,
    ").
Definition c304 : case := (">>{<", ">> {
    <
        ").
Definition c305 : case := (">>((", ">>(
    (
        ").
Definition c306 : case := (">><{", ">><
     {
        ").
Definition c307 : case := (">>>a", ">>>a").
Definition c308 : case := (">>a>", ">>a>").
Definition c309 : case := (">,{)", ">,
 {
    )").
Definition c310 : case := (">,(}", ">,
(
    
}").
Definition c311 : case := (">,) ", ">,
) ").
Definition c312 : case := (">,>,", ">,
>,
").
Definition c313 : case := (">,a<", ">,
a<
    ").
Definition c314 : case := (">a{(", ">a {
    (
        ").
Definition c315 : case := (">a({", ">a(
     {
        ").
Definition c316 : case := (">a)a", ">a)a").
Definition c317 : case := (">a>>", ">a>>").
Definition c318 : case := (">aa)", ">aa)").
Definition c319 : case := ("> {}", ">  {
    
}").
Definition c320 : case := ("> } ", "> 
} ").
Definition c321 : case := ("> ),", "> ),
").
Definition c322 : case := ("> ><", "> ><
    ").
Definition c323 : case := ("> a(", "> a(
    ").
Definition c324 : case := (",{{{", ",
 {
     {
         {
            ").
Definition c325 : case := (",{}a", ",
 {
    
}a").
Definition c326 : case := (",{)>", ",
 {
    )>").
Definition c327 : case := (",{>)", ",
 {
    >)").
Definition c328 : case := (",{a}", ",
 {
    a
}").
Definition c329 : case := (",{  ", ",
 {
      ").
Definition c330 : case := (",}},", ",

}
},
").
Definition c331 : case := (",})<", ",

})<
").
Definition c332 : case := (",}>(", ",

}>(
").
Definition c333 : case := (",}a{", ",

}a {
").
Definition c334 : case := (",} a", ",

} a").
Definition c335 : case := (",(}>", ",
(
    
}>").
Definition c336 : case := (",())", ",
())").
Definition c337 : case := (",(>}", ",
(
    >
}").
Definition c338 : case := (",(, ", ",
(
    ,
     ").
Definition c339 : case := (",( ,", ",
(
     ,
    ").
Definition c340 : case := (",)}<", ",
)
}<
").
Definition c341 : case := (",))(", ",
))(
    ").
Definition c342 : case := (",)>{", ",
)> {
    ").
Definition c343 : case := (",),a", ",
),
a").
Definition c344 : case := (",) >", ",
) >").
Definition c345 : case := (",<})", ",
<
    
})").
Definition c346 : case := (",<)}", ",
<
    )
}").
Definition c347 : case := (",<< ", ",
<
    <
         ").
Definition c348 : case := (",<,,", ",
<
    ,
    ,
    ").
Definition c349 : case := (",< <", ",
<
     <
        ").
Definition c350 : case := (",>}(", ",
>
}(
").
Definition c351 : case := (",>){", ",
>) {
    ").
Definition c352 : case := (",><a", ",
><
    a").
Definition c353 : case := (",>,>", ",
>,
>").
Definition c354 : case := (",> )", ",
> )").
Definition c355 : case := (",,}}", ",
,

}
}").
Definition c356 : case := (",,( ", ",
,
(
     ").
Definition c357 : case := (",,<,", ",
,
<
    ,
    ").
Definition c358 : case := (",,,<", ",
,
,
<
    ").
Definition c359 : case := (",, (", ",
,
 (
    ").
Definition c360 : case := (",a}{", ",
a
} {
").
Definition c361 : case := (",a(a", ",
a(
    a").
Definition c362 : case := (",a<>", ",
a<>").
Definition c363 : case := (",a,)", ",
a,
)").
Definition c364 : case := (",a }", ",
a 
}").
Definition c365 : case := (", { ", ",
  {
     ").
Definition c366 : case := (", (,", ",
 (
    ,
    ").
Definition c367 : case := (", <<", ",
 <
    <
        ").
Definition c368 : case := (", ,(", ",
 ,
(
    ").
Definition c369 : case := (",  {", ",
   {
    ").
Definition c370 : case := ("a{{a", "a {
     {
        a").
Definition c371 : case := ("a{(>", "a {
    (
        >").
Definition c372 : case := ("a{<)", "a {
    <
        )").
Definition c373 : case := ("a{,}", "a {
    ,
    
}").
Definition c374 : case := ("a{a ", "a {
    a ").
Definition c375 : case := ("a}{,", "a
} {
,
").
Definition c376 : case := ("a}(<", "a
}(
<
    ").
Definition c377 : case := ("a}<(", "a
}<
(
    ").
Definition c378 : case := ("a},{", "a
},
 {
").
Definition c379 : case := ("a}aa", "a
}aa").
Definition c380 : case := ("a({>", "a(
     {
        >").
Definition c381 : case := ("a(()", "a(
    ()").
Definition c382 : case := ("a(<}", "a(
    <
        
    }").
Definition c383 : case := ("a(> ", "a(
    > ").
Definition c384 : case := ("a(a,", "a(
    a,
    ").
Definition c385 : case := ("a){<", "a) {
    <
        ").
Definition c386 : case := ("a)((", "a)(
    (
        ").
Definition c387 : case := ("a)<{", "a)<
     {
        ").
Definition c388 : case := ("a)>a", "a)>a").
Definition c389 : case := ("a)a>", "a)a>").
Definition c390 : case := ("a<{)", "a<
     {
        )").
Definition c391 : case := ("a<(}", "a<
    (
        
    }").
Definition c392 : case := ("a<) ", "a<
    ) ").
Definition c393 : case := ("a<>,", "a<>,
").
Definition c394 : case := ("a<a<", "a<
    a<
        ").
Definition c395 : case := ("a>{(", "a> {
    (
        ").
Definition c396 : case := ("a>({", "a>(
     {
        ").
Definition c397 : case := ("a>)a", "a>)a").
Definition c398 : case := ("a>>>", "a>>>").
Definition c399 : case := ("a>a)", "a>a)").
Definition c400 : case := ("a,{}", "a,
 {
    
}").
Definition c401 : case := ("a,} ", "a,

} ").
Definition c402 : case := ("a,),", "a,
),
").
Definition c403 : case := ("a,><", "a,
><
    ").
Definition c404 : case := ("a,a(", "a,
a(
    ").
Definition c405 : case := ("aa{{", "aa {
     {
        ").
Definition c406 : case := ("aa}a", "aa
}a").
Definition c407 : case := ("aa)>", "aa)>").
Definition c408 : case := ("aa>)", "aa>)").
Definition c409 : case := ("aaa}", "aaa
}").
Definition c410 : case := ("aa  ", "aa  ").
Definition c411 : case := ("a },", "a 
},
").
Definition c412 : case := ("a )<", "a )<
    ").
Definition c413 : case := ("a >(", "a >(
    ").
Definition c414 : case := ("a a{", "a a {
    ").
Definition c415 : case := ("a  a", "a  a").
Definition c416 : case := (" {}>", "  {
    
}>").
Definition c417 : case := (" {))", "  {
    ))").
Definition c418 : case := (" {>}", "  {
    >
}").
Definition c419 : case := (" {, ", "  {
    ,
     ").
Definition c420 : case := (" { ,", "  {
     ,
    ").
Definition c421 : case := (" }}<", " 
}
}<
").
Definition c422 : case := (" })(", " 
})(
").
Definition c423 : case := (" }>{", " 
}> {
").
Definition c424 : case := (" },a", " 
},
a").
Definition c425 : case := (" } >", " 
} >").
Definition c426 : case := (" (})", " (
})").
Definition c427 : case := (" ()}", " ()
}").
Definition c428 : case := (" (< ", " (
    <
         ").
Definition c429 : case := (" (,,", " (
    ,
    ,
    ").
Definition c430 : case := (" ( <", " (
     <
        ").
Definition c431 : case := (" )}(", " )
}(
").
Definition c432 : case := (" )){", " )) {
    ").
Definition c433 : case := (" )<a", " )<
    a").
Definition c434 : case := (" ),>", " ),
>").
Definition c435 : case := (" ) )", " ) )").
Definition c436 : case := (" <}}", " <
    
}
}").
Definition c437 : case := (" <( ", " <
    (
         ").
Definition c438 : case := (" <<,", " <
    <
        ,
        ").
Definition c439 : case := (" <,<", " <
    ,
    <
        ").
Definition c440 : case := (" < (", " <
     (
        ").
Definition c441 : case := (" >}{", " >
} {
").
Definition c442 : case := (" >(a", " >(
    a").
Definition c443 : case := (" ><>", " ><>").
Definition c444 : case := (" >,)", " >,
)").
Definition c445 : case := (" > }", " > 
}").
Definition c446 : case := (" ,{ ", " ,
 {
     ").
Definition c447 : case := (" ,(,", " ,
(
    ,
    ").
Definition c448 : case := (" ,<<", " ,
<
    <
        ").
Definition c449 : case := (" ,,(", " ,
,
(
    ").
Definition c450 : case := (" , {", " ,
  {
    ").
Definition c451 : case := (" a{a", " a {
    a").
Definition c452 : case := (" a(>", " a(
    >").
Definition c453 : case := (" a<)", " a<
    )").
Definition c454 : case := (" a,}", " a,

}").
Definition c455 : case := (" aa ", " aa ").
Definition c456 : case := ("  {,", "   {
    ,
    ").
Definition c457 : case := ("  (<", "  (
    <
        ").
Definition c458 : case := ("  <(", "  <
    (
        ").
Definition c459 : case := ("  ,{", "  ,
 {
    ").
Definition c460 : case := ("  aa", "  aa").
Definition c461 : case := ("x{<é,b,aaéa,,baaé,ééba,b,éé>)", "x {
    <é,
    b,
    aaéa,
    ,
    baaé,
    ééba,
    b,
    éé>)").
Definition c462 : case := ("x{((a)béaééaabaéaéabéb,b,b,aé,ébbé,,é,éabb,)}", "x {
    (
        (a)béaééaabaéaéabéb,
        b,
        b,
        aé,
        ébbé,
        ,
        é,
        éabb,
        
    )
}").
Definition c463 : case := ("a<<a>é,éaaéabé,béaabaaéééba{ééba>,a", "a<
    <a>é,
    éaaéabé,
    béaabaaéééba {
        ééba
    >,
    a").
Definition c464 : case := ("<<<a>éaéaéébbbbéaé,bab>}", "<
    <<a>éaéaéébbbbéaé,
    bab>
}").
Definition c465 : case := ("x{(aéééé,aé,,abbééab,é,aabbaaba,,bébaba)>", "x {
    (
        aéééé,
        aé,
        ,
        abbééab,
        é,
        aabbaaba,
        ,
        bébaba
    )>").
Definition c466 : case := ("<<x:[88b:a,:a,[[a]]x[]b;;>,x][[;8[:,;8bx;]xb8];8>,]::;b8[8x8x]", "<
    <x:[88b:a,
    :a,
    [[a]]x[]b;;>,
    x][[;8[:,
    ;8bx;]xb8];8
>,
]::;b8[8x8x]").
Definition c467 : case := ("::::8[;:[],]8x", "::::8[;:[],
]8x").
Definition c468 : case := ("aa;ba,{(x]:]8b8[b;x,(<>,{<xb;b,<x[;;];]bb,8;;:x],u,u,8:;][>,xax;;b,{[b:]8;8b8,u,x[bxa]x,u}>,[:x::a,8a88[x},<];x[];x],8:;;]:bbx;8],<b;;b,{},{b8;x,u,bx8];x88,u,[:];xa;}>,xbxb>,{{<[x8[8:[b:8>}}))}", "aa;ba,
 {
    (
        x]:]8b8[b;x,
        (
            <>,
             {
                <
                    xb;b,
                    <x[;;];]bb,
                    8;;:x],
                    u,
                    u,
                    8:;][>,
                    xax;;b,
                     {
                        [b:]8;8b8,
                        u,
                        x[bxa]x,
                        u
                    }
                >,
                [:x::a,
                8a88[x
            },
            <
                ];x[];x],
                8:;;]:bbx;8],
                <
                    b;;b,
                     {
                        
                    },
                     {
                        b8;x,
                        u,
                        bx8];x88,
                        u,
                        [:];xa;
                    }
                >,
                xbxb
            >,
             {
                 {
                    <[x8[8:[b:8>
                }
            }
        )
    )
}").
Definition c469 : case := ("([];;8]b],{(:]:;;,][8],[88];)})", "(
    [];;8]b],
     {
        (:]:;;, ][8], [88];)
    }
)").
Definition c470 : case := ("<(<{(),;bx]8::[a8,{x8:aa},({},8;,<;x[;]8:]b]x]>),{(:),:;888,<u,;[x8xx8,u,u>,]]a,:;];ba:a;}}>,;a8:x;b],bxx[x[a,[xxb[b),:;,:b[,{b:]xa:8,{<{(:a;[)},<>,;:;x:;a;,<>>}}>", "<
    (
        <
             {
                (),
                ;bx]8::[a8,
                 {
                    x8:aa
                },
                (
                     {
                        
                    },
                    8;,
                    <;x[;]8:]b]x]>
                ),
                 {
                    (:),
                    :;888,
                    <u,
                    ;[x8xx8,
                    u,
                    u>,
                    ]]a,
                    :;];ba:a;
                }
            }
        >,
        ;a8:x;b],
        bxx[x[a,
        [xxb[b
    ),
    :;,
    :b[,
     {
        b:]xa:8,
         {
            <
                 {
                    (:a;[)
                },
                <>,
                ;:;x:;a;,
                <>
            >
        }
    }
>").
Definition c471 : case := ("{<(xb[,8,a:x]88aab8]8)>,[x;a[:ba]:},;x:8", " {
    <(xb[, 8, a:x]88aab8]8)>,
    [x;a[:ba]:
},
;x:8").
Definition c472 : case := ("],(),:,x[8a[", "],
(),
:,
x[8a[").
Definition c473 : case := (":8;]],<<;xb:8,ax;[8b]:ab8a,;:8[xaa;a[[a,<<xa:,(<[a8b8:8aba,u>,(u),(a;[8ba],8a8];:[[]8b]))>>>>", ":8;]],
<
    <
        ;xb:8,
        ax;[8b]:ab8a,
        ;:8[xaa;a[[a,
        <
            <
                xa:,
                (
                    <[a8b8:8aba,
                    u>,
                    (u),
                    (a;[8ba], 8a8];:[[]8b])
                )
            >
        >
    >
>").
Definition c474 : case := ("(((<((u,:x]a8;x[8,x][:a;][]a,u),<u>,{u,]]:[;;x,aaa,a;x8:a},{u,b]:b:},{u,8}),b8:x:a]a[]aa,:8:;:][8;aba,a[x;,(]x:a[x,<u>)>)))", "(
    (
        (
            <
                (
                    (u, :x]a8;x[8, x][:a;][]a, u),
                    <u>,
                     {
                        u,
                        ]]:[;;x,
                        aaa,
                        a;x8:a
                    },
                     {
                        u,
                        b]:b:
                    },
                     {
                        u,
                        8
                    }
                ),
                b8:x:a]a[]aa,
                :8:;:][8;aba,
                a[x;,
                (]x:a[x, <u>)
            >
        )
    )
)").
Definition c475 : case := ("ax8[ba8xb;a]", "ax8[ba8xb;a]").
Definition c476 : case := ("(),<>,<8xbbaab];8[,<x]8]a,b:]:a];:8b;8,{;xb]a::b},{;:]]8xb]:,{{abaab8axx,{u,:;]8[ax8a,;:x]8[,u},8]x,b}}}>>", "(),
<>,
<
    8xbbaab];8[,
    <
        x]8]a,
        b:]:a];:8b;8,
         {
            ;xb]a::b
        },
         {
            ;:]]8xb]:,
             {
                 {
                    abaab8axx,
                     {
                        u,
                        :;]8[ax8a,
                        ;:x]8[,
                        u
                    },
                    8]x,
                    b
                }
            }
        }
    >
>").
Definition c477 : case := ("()", "()").
Definition c478 : case := ("<{<>,8x::xx:;[],88:b:[[b;]a},({(:a[[a]x;;]b[,(),b:]8a:x,:]a]xbx:x,<{8xa,xaab;]]8xb;},()>),a,{8a8]]a[x[[:8,(<:>,(b:bb:;]))}})>", "<
     {
        <>,
        8x::xx:;[],
        88:b:[[b;]a
    },
    (
         {
            (
                :a[[a]x;;]b[,
                (),
                b:]8a:x,
                :]a]xbx:x,
                <
                     {
                        8xa,
                        xaab;]]8xb;
                    },
                    ()
                >
            ),
            a,
             {
                8a8]]a[x[[:8,
                (<:>, (b:bb:;]))
            }
        }
    )
>").
Definition c479 : case := ("{{(({x:8xb,{u,u,:bxb}},;[;8x:aa];[8,[:b),{bx8:bb8,];:8[[[},{bb]]x[;b8a,b,<{u,u,u,u},<u,u,ba[::]bx:,88:a;88;>,(8[xxx8a,a8x,;),<u>>},({},<(x]a[xb[x]b[:,a8:8b]8;[),{;:[8ab;x],u,::axb:;a[];},[x88>))}}", " {
     {
        (
            (
                 {
                    x:8xb,
                     {
                        u,
                        u,
                        :bxb
                    }
                },
                ;[;8x:aa];[8,
                [:b
            ),
             {
                bx8:bb8,
                ];:8[[[
            },
             {
                bb]]x[;b8a,
                b,
                <
                     {
                        u,
                        u,
                        u,
                        u
                    },
                    <u,
                    u,
                    ba[::]bx:,
                    88:a;88;>,
                    (8[xxx8a, a8x, ;),
                    <u>
                >
            },
            (
                 {
                    
                },
                <
                    (x]a[xb[x]b[:, a8:8b]8;[),
                     {
                        ;:[8ab;x],
                        u,
                        ::axb:;a[];
                    },
                    [x88
                >
            )
        )
    }
}").
Definition c480 : case := ("(;,:]:b]aba8,xa[:axba,8a,<:a[;;ba:]b>)", "(
    ;,
    :]:b]aba8,
    xa[:axba,
    8a,
    <:a[;;ba:]b>
)").
Definition c481 : case := ("<([b[8x,8,:,:[]a[]a8ab),x:b:x;xxx88,];bb[:8bbb[;>", "<
    ([b[8x, 8, :, :[]a[]a8ab),
    x:b:x;xxx88,
    ];bb[:8bbb[;
>").
Definition c482 : case := ("((x;),<>,x[b])", "((x;), <>, x[b])").
Definition c483 : case := ("x[aaxa:[]", "x[aaxa:[]").
Definition c484 : case := ("((8:bb::,]8x:xa][:][),:88x[a[:8:a:,(],{<<{u,8x:[][],u},(u,:;[a8;,bba[[8:;ba:,u,xaa8x]8a:),<u,u>,<a],u,u,x:;b>>>}))", "(
    (8:bb::, ]8x:xa][:][),
    :88x[a[:8:a:,
    (
        ],
         {
            <
                <
                     {
                        u,
                        8x:[][],
                        u
                    },
                    (
                        u,
                        :;[a8;,
                        bba[[8:;ba:,
                        u,
                        xaa8x]8a:
                    ),
                    <u,
                    u>,
                    <a],
                    u,
                    u,
                    x:;b>
                >
            >
        }
    )
)").
Definition c485 : case := (";8b:xxbbbx:,;8a8[", ";8b:xxbbbx:,
;8a8[").
Definition c486 : case := ("b[a8[:ba:8bx", "b[a8[:ba:8bx").
Definition c487 : case := ("<<8axb[[8b8,<>,8,(bb[;xax[;8x)>>,xxxxabb[],{x:x[:;8[ab8,b8[]a[]}", "<<8axb[[8b8,
<>,
8,
(bb[;xax[;8x)>>,
xxxxabb[],
 {
    x:x[:;8[ab8,
    b8[]a[]
}").
Definition c488 : case := ("{{{},;xx]::;:8[bb,{b:;a[abxx},(),{(;[x];][,{<u,88:]]x;;>,(u,u)},;[x];bx,]8:a][]a])}}},{},<>", " {
     {
         {
            
        },
        ;xx]::;:8[bb,
         {
            b:;a[abxx
        },
        (),
         {
            (
                ;[x];][,
                 {
                    <u,
                    88:]]x;;>,
                    (u, u)
                },
                ;[x];bx,
                ]8:a][]a]
            )
        }
    }
},
 {
    
},
<>").
Definition c489 : case := ("<{abbx;a[axb,[,((::b]:::]:[[x,x,;8xb];:[ab:),8]bba;,{{{u},{u,u,u}},(([8;]ab8xx:a,u,b][),(u),{8][;]x[:];8,u,u})}),{}}>", "<
     {
        abbx;a[axb,
        [,
        (
            (::b]:::]:[[x, x, ;8xb];:[ab:),
            8]bba;,
             {
                 {
                     {
                        u
                    },
                     {
                        u,
                        u,
                        u
                    }
                },
                (
                    ([8;]ab8xx:a, u, b][),
                    (u),
                     {
                        8][;]x[:];8,
                        u,
                        u
                    }
                )
            }
        ),
         {
            
        }
    }
>").
Definition c490 : case := ("8;]:8],<{<<{}>,(8a,<(u,[8xb,u),[a[]:;a,<]]::x:8xa8>,8[b;8;]]x,<u,u,u>>,<{u},x]a88,{u,[a]]:[,axbbab88[8ba}>,{(u,;),8[a]axb;x[,{;;;x[bb8];;;}})>}>", "8;]:8],
<
     {
        <
            <
                 {
                    
                }
            >,
            (
                8a,
                <
                    (u, [8xb, u),
                    [a[]:;a,
                    <]]::x:8xa8>,
                    8[b;8;]]x,
                    <u,
                    u,
                    u>
                >,
                <
                     {
                        u
                    },
                    x]a88,
                     {
                        u,
                        [a]]:[,
                        axbbab88[8ba
                    }
                >,
                 {
                    (u, ;),
                    8[a]axb;x[,
                     {
                        ;;;x[bb8];;;
                    }
                }
            )
        >
    }
>").
Definition c491 : case := (")a;Z:b:]	,Z,]	);>;((((}a[	])é	(	:;	,
,𝄞:[(<Zb<Z,é(	<[Z}é;,;𝄞b€éa", ")a;Z:b:]	,
Z,
]	);>;(
    (
        (
            (
        }a[	])é	(
            	:;	,
            
,
            𝄞:[(
                <
                    Zb<
                        Z,
                        é(
                            	<
                                [Z
                            }é;,
                            ;𝄞b€éa").
Definition c492 : case := ("𝄞:,,
[Z],a{,,
	>])
, 
<𝄞<:	(}𝄞)[	]b}éé[,	
;Z):
{é
,]{)) {;
>a	
;ZZ}}{<<{]<é<aZ€<}a:]	;Zé}[ ]::<}<{𝄞});éa[𝄞
€{ba:𝄞]

€}><;	
(}}		a

bZbb,bé, <{ [:	;;𝄞Z (}	((({,}>>[bb(b{𝄞{€,;	:€[)<<b]<;é
[,é€>𝄞é
b 𝄞é{,", "𝄞:,
,

[Z],
a {
    ,
    ,
    
	>])
,
     
<
        𝄞<
            :	(
        }𝄞)[	]b
    }éé[,
    	
;Z):
 {
        é
,
        ] {
            ))  {
                ;

            >a	
;ZZ
        }
    } {
        <
            <
                 {
                    ]<
                        é<
                            aZ€<
                                
                            }a:]	;Zé
                        }[ ]::<
                            
                        }<
                             {
                                𝄞
                            });éa[𝄞
€ {
                                ba:𝄞]

€
                            }
                        ><
                            ;	
(
                                
                            }
                        }		a

bZbb,
                        bé,
                         <
                             {
                                 [:	;;𝄞Z (
                                    
                                }	(
                                    (
                                        (
                                             {
                                                ,
                                                
                                            }
                                        >
                                    >[bb(
                                        b {
                                            𝄞 {
                                                €,
                                                ;	:€[
                                            )<
                                                <
                                                    b]<;é
[,
                                                    é€>𝄞é
b 𝄞é {
                                                        ,
                                                        ").
Definition c493 : case := ("	€<:{
		
a	 }𝄞[{a}b;	€€;)
,,{aaé	;;](}é{a}[[ ;)[é([;b 
b,,);]: ", "	€<
    : {
        
		
a	 
    }𝄞[ {
        a
    }b;	€€;)
,
    ,
     {
        aaé	;;](
            
        }é {
            a
        }[[ ;
    )[é([;b 
b, , );]: ").
Definition c494 : case := ("(<)
{	>[a𝄞b{}	{::<<:<(ba>[𝄞€éb€:<<	,])a,a	,	(}a
;(𝄞b[;{,<< }é(Z€a]([a𝄞;]Z[)<[	
{
<b:{Zb],{[(<)(", "(<
    )
 {
        	
    >[a𝄞b {
        
    }	 {
        ::<
            <
                :<(ba>[𝄞€éb€:<
                    <
                        	, ])a,
                        a	,
                        	(
                            
                        }a
;(
                            𝄞b[; {
                                ,
                                <
                                    <
                                         
                                    }é(
                                        Z€a]([a𝄞;]Z[)<
                                            [	
 {
                                                
<
                                                    b: {
                                                        Zb],
                                                         {
                                                            [(<
                                                                )(
                                                                    ").
Definition c495 : case := ("{,:<b]})é<	:𝄞]ba €: (a<a	,)
;	>)é Z)b([{<𝄞 ;>}:aZ}€({}
é[()>{]a,b)(a(<a; [);é	a", " {
    ,
    :<
        b]
    })é<
        	:𝄞]ba €: (a<a	, )
;	>)é Z)b(
            [ {
                <𝄞 ;>
            }:aZ
        }€(
             {
                
            }
é[()
        > {
            ]a,
            b
        )(
            a(<
                a; [);é	a").
Definition c496 : case := ("<Z

	
;Z}]€
€<:[:,],:>𝄞𝄞é	Z} )]€,:},,(a]é𝄞)b]ZZ
€(
a}ZZ	[  {, <€	b𝄞		;a𝄞] ;)>{", "<
    Z

	
;Z
}]€
€<:[:,
],
:>𝄞𝄞é	Z
} )]€,
:
},
,
(a]é𝄞)b]ZZ
€(

a
}ZZ	[   {
,
 <€	b𝄞		;a𝄞] ;
)> {
").
Definition c497 : case := ("	é
€[ab,,(}𝄞b;<[éé	€: }Zb(>b	)𝄞𝄞b]
;:		𝄞} 
><;", "	é
€[ab,
,
(
    
}𝄞b;<[éé	€: 
}Zb(>b	)𝄞𝄞b]
;:		𝄞
} 
><
;").
Definition c498 : case := ("€)]	b;	é])a,}
[:>]𝄞<]}{a,
,€ :}𝄞	<𝄞}(é :𝄞<

,a,é))	;€{,	 [(é(b{),	;(b>Z >[({([} ;)>,Z,	,	
()>a", "€)]	b;	é])a,

}
[:>]𝄞<
]
} {
a,

,
€ :
}𝄞	<
𝄞
}(é :𝄞<


, a, é))	;€ {
    ,
    	 [(
        é(
            b {
                
            ),
            	;(
                b
            >Z 
        >[(
             {
                ([
            } ;)
        >,
        Z,
        	,
        	
()>a").
Definition c499 : case := (":] 
€€)𝄞]
[]a𝄞Z{>;;{}}	,),;

;}Z𝄞[<b]aZ𝄞[
Z€€ (Z((€€
;]
𝄞€{é] <( é€Z;Zé𝄞Z(	𝄞€€{(a  }[;", ":] 
€€)𝄞]
[]a𝄞Z {
    >;; {
        
    }
}	,
),
;

;
}Z𝄞[<
b]aZ𝄞[
Z€€ (
    Z(
        (
            €€
;]
𝄞€ {
                é] <
                    (
                         é€Z;Zé𝄞Z(
                            	𝄞€€ {
                                (
                                    a  
                                }[;").
Definition c500 : case := (",,] )𝄞aé€Z{é𝄞:<:]Z
€ >,};>:€𝄞)é é:
𝄞
:𝄞a𝄞€
(],
𝄞><
]<[ é(é](b})<	𝄞 ZZ,€é]]::𝄞])>>>Z<Z{{Za	>Z{;{>b[,
 >)}]	](Z
<<>Z>b> :]𝄞] ]	)€ €
,[é;	Z<,:a;] }aaé>;€]{[Zé{b{:aZ<{;
Z𝄞(<<Z𝄞€ Z	:,{a	>:{:[){]  𝄞é𝄞𝄞>}]b€)
:a	)({Z 𝄞Z𝄞[} €)é}é:aa);𝄞)é€a<b]]:>b<) a;€𝄞::; <€ :}]:béa<{;é𝄞aa𝄞	 ,>]€", ",
,
] )𝄞aé€Z {
    é𝄞:<:]Z
€ >,
    
};>:€𝄞)é é:
𝄞
:𝄞a𝄞€
(
    ],
    
𝄞><
]<[ é(é](b
})<	𝄞 ZZ, €é]]::𝄞])>>>Z<
    Z {
         {
            Za	
        >Z {
            ; {
                >b[,
                
 >
            )
        }]	](Z
<<>Z>b> :]𝄞] ]	)€ €
,
        [é;	Z<,
        :a;] 
    }aaé>;€] {
        [Zé {
            b {
                :aZ<
                     {
                        ;
Z𝄞(
                            <
                                <
                                    Z𝄞€ Z	:,
                                     {
                                        a	
                                    >: {
                                        :[
                                    ) {
                                        ]  𝄞é𝄞𝄞
                                    >
                                }]b€)
:a	)(
                                     {
                                        Z 𝄞Z𝄞[
                                    } €
                                )é
                            }é:aa);𝄞)é€a<b]]:>b<
                                ) a;€𝄞::; <
                                    € :
                                }]:béa<
                                     {
                                        ;é𝄞aa𝄞	 ,
                                        
                                    >]€").
Definition c501 : case := ("a<é}]>){	:€,(
[>:}]
], ]é]
é]{;[)𝄞é𝄞,
b𝄞:><	(,", "a<é
}]>) {
	:€,
(
    
[>:
}]
],
 ]é]
é] {
    ;[
)𝄞é𝄞,

b𝄞:><
    	(
        ,
        ").
Definition c502 : case := (">>bZ	)a{𝄞b 	{[€{<é(:	𝄞);[]𝄞),	:é€>;[;< a))€><{{<:(:€)a}{([]
{
:[;bé€Z𝄞> }{, ;€]};a𝄞: 	<{>

é<é𝄞}:]{é{	b€]é}éaéé (][({]);] } ;( aa ;  {𝄞(;: {:}<](Z{,Zb𝄞>Z𝄞b;a;𝄞,a< b𝄞	>]{	(>Zé𝄞	}	)>
}€>}
:𝄞{aa;𝄞]><[𝄞{	[;]	),{𝄞;é,) 𝄞
	]Z: 	
[é	a:[;);:b}b𝄞<)[	€ { (;[));<{<		ba:{ béa𝄞,[", ">>bZ	)a {
    𝄞b 	 {
        [€ {
            <é(:	𝄞);[]𝄞),
            	:é€>;[;< a))€><
                 {
                     {
                        <
                            :(:€)a
                        } {
                            (
                                []
 {
                                    
:[;bé€Z𝄞
                                > 
                            } {
                                ,
                                 ;€]
                            };a𝄞: 	<
                                 {
                                    
                                >

é<
                                    é𝄞
                                }:] {
                                    é {
                                        	b€]é
                                    }éaéé (
                                        ][(
                                             {
                                                ]
                                            );] 
                                        } ;(
                                             aa ;   {
                                                𝄞(
                                                    ;:  {
                                                        :
                                                    }<
                                                        ](
                                                            Z {
                                                                ,
                                                                Zb𝄞
                                                            >Z𝄞b;a;𝄞,
                                                            a< b𝄞	>] {
                                                                	(
                                                            >Zé𝄞	
                                                        }	)
                                                    >

                                                }€>
                                            }
:𝄞 {
                                                aa;𝄞]><
                                                    [𝄞 {
                                                        	[;]	
                                                    ),
                                                     {
                                                        𝄞;é,
                                                        
                                                    ) 𝄞
	]Z: 	
[é	a:[;
                                                );:b
                                            }b𝄞<
                                                
                                            )[	€  {
                                                 (;[)
                                            );<
                                                 {
                                                    <
                                                        		ba: {
                                                             béa𝄞,
                                                            [").
Definition c503 : case := ("é;𝄞:}{é});		éba) 	<:a€ aZé}𝄞]([	é{€	 ,
};:	)éé<]>[}(b:a𝄞
}[(€:{:;a	b(}
𝄞>;,;	{}}é{aé](Z{;:>𝄞é<a,><}𝄞<<é(
 {> {
𝄞:𝄞>𝄞<{a: )<; (éaZZ(é:𝄞>b (]	>>(é]:];éa)(}a,[[ b [)b)}	Zé),;[}𝄞b€béb€	[	é}{<	𝄞(𝄞}[} <a	]}bZ<)(a€,Z€Z{a€éZ }]	}[é€:Z{[
", "é;𝄞:
} {
é
});		éba) 	<
:a€ aZé
}𝄞](
[	é {
    €	 ,
    

};:	
)éé<]>[
}(
b:a𝄞

}[(
€: {
:;a	b(
    
}
𝄞
>;,
;	 {

}
}é {
aé](
Z {
    ;:>𝄞é<a,
    ><
        
    }𝄞<
        <
            é(
                
  {
                    
                >  {
                    
𝄞:𝄞
                >𝄞<
                     {
                        a: 
                    )<; (
                        éaZZ(
                            é:𝄞>b (]	
                        >
                    >(é]:];éa)(
                }a, [[ b [)b)
            }	Zé
        ),
        ;[
    }𝄞b€béb€	[	é
} {
    <
        	𝄞(𝄞
    }[
} <
    a	]
}bZ<
    )(
        a€,
        Z€Z {
            a€éZ 
        }]	
    }[é€:Z {
        [
").
Definition c504 : case := (",𝄞]Z>[<
;>	,,{: }	{;b𝄞𝄞{
{[é>,;b
[)é}b;é[b><é,<{}<[𝄞 ]a<
b{Zb(;,aba}é;]
é€(aZ)é}<é(>{€{<	 é€
é	:( ]	𝄞𝄞", ",
𝄞]Z>[<
;>	,
,
 {
    : 
}	 {
    ;b𝄞𝄞 {
        
 {
            [é>,
            ;b
[)é
        }b;é[b><
            é,
            <
                 {
                    
                }<
                    [𝄞 ]a<
                        
b {
                            Zb(
                                ;,
                                aba
                            }é;]
é€(aZ)é
                        }<é(
                            > {
                                € {
                                    <
                                        	 é€
é	:(
                                             ]	𝄞𝄞").
Definition c505 : case := ("
	;
€Z;>𝄞}éé:]€Z{<𝄞}[	€𝄞𝄞aé[𝄞<,<	]{Z{ 
€:€,Z{é 

:;𝄞	) {:<𝄞{
b(;}
} 𝄞
𝄞b𝄞	(	; ,
é€	;  :Z[(,€é𝄞]b	< Z}[€bZ[[	;,𝄞>a)€a Z()é}𝄞,Zb[]<𝄞<])<𝄞<;	{;[)]}€){b(<Z ,](,>}>:b<}
a𝄞]{𝄞Z<<>,:	)((:b<é€{b", "
	;
€Z;>𝄞
}éé:]€Z {
<
    𝄞
}[	€𝄞𝄞aé[𝄞<
    ,
    <
        	] {
            Z {
                 
€:€,
                Z {
                    é 

:;𝄞	)  {
                        :<
                            𝄞 {
                                
b(
                                    ;
                                }

                            } 𝄞
𝄞b𝄞	(
                                	; ,
                                
é€	;  :Z[(, €é𝄞]b	< Z
                            }[€bZ[[	;, 𝄞>a)€a Z()é
                        }𝄞,
                        Zb[]<
                            𝄞<
                                ]
                            )<
                                𝄞<
                                    ;	 {
                                        ;[
                                    )]
                                }€) {
                                    b(
                                        <Z ,
                                        ](
                                            ,
                                            >
                                        }
                                    >:b<
                                        
                                    }
a𝄞] {
                                        𝄞Z<
                                            <>,
                                            :	
                                        )(
                                            (
                                                :b<
                                                    é€ {
                                                        b").
Definition c506 : case := ("{(<b{	,](;<,𝄞<;[>[]b<]<[<a€:
	é:€>b€<	;]{	]é[Z[€Za{€]éZ  };},b	
:){a{)é<;	)€é€<𝄞{(	:
Z
[:[

(", " {
    (
        <
            b {
                	,
                ](
                    ;<
                        ,
                        𝄞<;[>[]b<
                            ]<
                                [<a€:
	é:€>b€<
                                    	;] {
                                        	]é[Z[€Za {
                                            €]éZ  
                                        };
                                    },
                                    b	
:
                                ) {
                                    a {
                                        
                                    )é<
                                        ;	)€é€<
                                            𝄞 {
                                                (
                                                    	:
Z
[:[

(
                                                        ").
Definition c507 : case := ("[aé
)>(](
b>{a(]({{	𝄞>]ab	é	]é)<,<Z ;;]b},b><}}>é<(; éb)	 ;[;𝄞	", "[aé
)>(
    ](
        
b> {
            a(
                ](
                     {
                         {
                            	𝄞>]ab	é	]é
                        )<
                            ,
                            <Z ;;]b
                        },
                        b><
                    }
                }>é<
                    (; éb)	 ;[;𝄞	").
Definition c508 : case := ("ba][€;é)
𝄞a(:<é>;{é]	]
) Z[>]b:{a[é:},é<€<Z(>[>€<€𝄞{]€ €<a 𝄞𝄞a€:,>, Z )Z)[<<𝄞<:
𝄞[>
[>)€[€
::𝄞(<]€(
a;, aé(,€};
Z{,a]<€ >
}𝄞>,, ]Zé	)ZZ<<€	Zé𝄞};𝄞 {>[)€{é
{{()]𝄞>𝄞>]]b<][>()a b€€€é;
{Z]€		b	𝄞]}é€,:,
(:
	>€{;€a) 		:é	
é{	béZ	) Zé,{aa,]<,}", "ba][€;é)
𝄞a(
    :<é>; {
        é]	]

    ) Z[>]b: {
        a[é:
    },
    é<€<Z(
        >[>€<
            €𝄞 {
                ]€ €<a 𝄞𝄞a€:,
                >,
                 Z 
            )Z)[<
                <𝄞<:
𝄞[>
[>)€[€
::𝄞(
                    <
                        ]€(
                            
a;,
                             aé(
                                ,
                                €
                            };
Z {
                                ,
                                a]<€ >

                            }𝄞
                        >,
                        ,
                         ]Zé	
                    )ZZ<
                        <
                            €	Zé𝄞
                        };𝄞  {
                            
                        >[
                    )€ {
                        é
 {
                             {
                                ()]𝄞
                            >𝄞
                        >]]b<][>()a b€€€é;
 {
                            Z]€		b	𝄞]
                        }é€,
                        :,
                        
(
                            :
	
                        >€ {
                            ;€a
                        ) 		:é	
é {
                            	béZ	
                        ) Zé,
                         {
                            aa,
                            ]<
                                ,
                                
                            }").
Definition c509 : case := ("b:Z	é;]	>𝄞bb[
(>,:) ,é{€	) {
]]}é
 	{):é(Z]]	>
;	Z<})>{}>[}b,{)a[ZZ] €b:{
,é𝄞;	]	(;(€a	€[𝄞a}>€
](	 €{é]]
Z}é
€𝄞Z,}a	}[é		]<𝄞 >{aé	 ]aZa[	é,a:é{{,:b}]} (}( b}>a{[:(;>€	<a ]b{é(é<b}éZé[	𝄞
}é[{bé[ébb{;(;Z},]Z,,}
>:	(	", "b:Z	é;]	>𝄞bb[
(>, :) ,
é {
    €	)  {
        
]]
    }é
 	 {
        ):é(Z]]	>
;	Z<
    })> {
        
    }>[
}b,
 {
    )a[ZZ] €b: {
        
,
        é𝄞;	]	(
            ;(
                €a	€[𝄞a
            }>€
](
                	 € {
                    é]]
Z
                }é
€𝄞Z,
                
            }a	
        }[é		]<𝄞 > {
            aé	 ]aZa[	é,
            a:é {
                 {
                    ,
                    :b
                }]
            } (
                
            }(
                 b
            }>a {
                [:(
                    ;>€	<
                        a ]b {
                            é(
                                é<
                                    b
                                }éZé[	𝄞

                            }é[ {
                                bé[ébb {
                                    ;(
                                        ;Z
                                    },
                                    ]Z,
                                    ,
                                    
                                }

                            >:	(
                                	").
Definition c510 : case := ("enum Error<_>{PauseFailed,ResumeFailed,ChangePending,TooSoon,InvalidKeyOwnershipProof,InvalidEquivocationProof,DuplicateOffenceReport}", "enum Error<_> {
    PauseFailed,
    ResumeFailed,
    ChangePending,
    TooSoon,
    InvalidKeyOwnershipProof,
    InvalidEquivocationProof,
    DuplicateOffenceReport
}").
Definition c511 : case := ("struct BoundedVec<AccountId32,_>(Vec<struct AccountId32([u8; 32])>)", "struct BoundedVec<AccountId32,
_>(
    Vec<struct AccountId32([u8; 32])>
)").
Definition c512 : case := ("Vec<struct UnappliedSlash<AccountId32,u128>{validator: struct AccountId32([u8; 32]),own: u128,others: Vec<(AccountId32,u128)>,reporters: Vec<AccountId32>,payout: u128}>", "Vec<
    struct UnappliedSlash<AccountId32,
    u128> {
        validator: struct AccountId32([u8; 32]),
        own: u128,
        others: Vec<(AccountId32, u128)>,
        reporters: Vec<AccountId32>,
        payout: u128
    }
>").
Definition cases : list (case) := [c0; c1; c2; c3; c4; c5; c6; c7; c8; c9; c10; c11; c12; c13; c14; c15; c16; c17; c18; c19; c20; c21; c22; c23; c24; c25; c26; c27; c28; c29; c30; c31; c32; c33; c34; c35; c36; c37; c38; c39; c40; c41; c42; c43; c44; c45; c46; c47; c48; c49; c50; c51; c52; c53; c54; c55; c56; c57; c58; c59; c60; c61; c62; c63; c64; c65; c66; c67; c68; c69; c70; c71; c72; c73; c74; c75; c76; c77; c78; c79; c80; c81; c82; c83; c84; c85; c86; c87; c88; c89; c90; c91; c92; c93; c94; c95; c96; c97; c98; c99; c100; c101; c102; c103; c104; c105; c106; c107; c108; c109; c110; c111; c112; c113; c114; c115; c116; c117; c118; c119; c120; c121; c122; c123; c124; c125; c126; c127; c128; c129; c130; c131; c132; c133; c134; c135; c136; c137; c138; c139; c140; c141; c142; c143; c144; c145; c146; c147; c148; c149; c150; c151; c152; c153; c154; c155; c156; c157; c158; c159; c160; c161; c162; c163; c164; c165; c166; c167; c168; c169; c170; c171; c172; c173; c174; c175; c176; c177; c178; c179; c180; c181; c182; c183; c184; c185; c186; c187; c188; c189; c190; c191; c192; c193; c194; c195; c196; c197; c198; c199; c200; c201; c202; c203; c204; c205; c206; c207; c208; c209; c210; c211; c212; c213; c214; c215; c216; c217; c218; c219; c220; c221; c222; c223; c224; c225; c226; c227; c228; c229; c230; c231; c232; c233; c234; c235; c236; c237; c238; c239; c240; c241; c242; c243; c244; c245; c246; c247; c248; c249; c250; c251; c252; c253; c254; c255; c256; c257; c258; c259; c260; c261; c262; c263; c264; c265; c266; c267; c268; c269; c270; c271; c272; c273; c274; c275; c276; c277; c278; c279; c280; c281; c282; c283; c284; c285; c286; c287; c288; c289; c290; c291; c292; c293; c294; c295; c296; c297; c298; c299; c300; c301; c302; c303; c304; c305; c306; c307; c308; c309; c310; c311; c312; c313; c314; c315; c316; c317; c318; c319; c320; c321; c322; c323; c324; c325; c326; c327; c328; c329; c330; c331; c332; c333; c334; c335; c336; c337; c338; c339; c340; c341; c342; c343; c344; c345; c346; c347; c348; c349; c350; c351; c352; c353; c354; c355; c356; c357; c358; c359; c360; c361; c362; c363; c364; c365; c366; c367; c368; c369; c370; c371; c372; c373; c374; c375; c376; c377; c378; c379; c380; c381; c382; c383; c384; c385; c386; c387; c388; c389; c390; c391; c392; c393; c394; c395; c396; c397; c398; c399; c400; c401; c402; c403; c404; c405; c406; c407; c408; c409; c410; c411; c412; c413; c414; c415; c416; c417; c418; c419; c420; c421; c422; c423; c424; c425; c426; c427; c428; c429; c430; c431; c432; c433; c434; c435; c436; c437; c438; c439; c440; c441; c442; c443; c444; c445; c446; c447; c448; c449; c450; c451; c452; c453; c454; c455; c456; c457; c458; c459; c460; c461; c462; c463; c464; c465; c466; c467; c468; c469; c470; c471; c472; c473; c474; c475; c476; c477; c478; c479; c480; c481; c482; c483; c484; c485; c486; c487; c488; c489; c490; c491; c492; c493; c494; c495; c496; c497; c498; c499; c500; c501; c502; c503; c504; c505; c506; c507; c508; c509; c510; c511; c512].
Eval vm_compute in ("corr_exact"%string, failing (corr_exact) cases).
Eval vm_compute in ("corr_stream"%string, failing (corr_stream) cases).
Eval vm_compute in ("prop_ws"%string, failing (prop_ws) cases).
Eval vm_compute in ("prop_discipline"%string, failing (prop_discipline) cases).
