From Coq Require Import List NArith String.
From V Require Import Base.Util Corr.RunC15.
Import ListNotations. Open Scope string_scope.
Definition c0 : case := ("{(", " {
    (
        ").
Definition c1 : case := ("({", "(
     {
        ").
Definition c2 : case := (")a", ")a").
Definition c3 : case := (">>", ">>").
Definition c4 : case := ("a)", "a)").
Definition c5 : case := ("{{}", " {
     {
        
    }").
Definition c6 : case := ("{} ", " {
    
} ").
Definition c7 : case := ("{),", " {
    ),
    ").
Definition c8 : case := ("{><", " {
    ><
        ").
Definition c9 : case := ("{a(", " {
    a(
        ").
Definition c10 : case := ("}{{", "
} {
 {
    ").
Definition c11 : case := ("}}a", "
}
}a").
Definition c12 : case := ("})>", "
})>").
Definition c13 : case := ("}>)", "
}>)").
Definition c14 : case := ("}a}", "
}a
}").
Definition c15 : case := ("}  ", "
}  ").
Definition c16 : case := ("(},", "(
    
},
").
Definition c17 : case := ("()<", "()<
    ").
Definition c18 : case := ("(>(", "(
    >(
        ").
Definition c19 : case := ("(a{", "(
    a {
        ").
Definition c20 : case := ("( a", "(
     a").
Definition c21 : case := (")}>", ")
}>").
Definition c22 : case := (")))", ")))").
Definition c23 : case := (")>}", ")>
}").
Definition c24 : case := ("), ", "),
 ").
Definition c25 : case := (") ,", ") ,
").
Definition c26 : case := ("<}<", "<
    
}<
    ").
Definition c27 : case := ("<)(", "<
    )(
        ").
Definition c28 : case := ("<>{", "<> {
    ").
Definition c29 : case := ("<,a", "<
    ,
    a").
Definition c30 : case := ("< >", "< >").
Definition c31 : case := (">})", ">
})").
Definition c32 : case := (">)}", ">)
}").
Definition c33 : case := (">< ", "><
     ").
Definition c34 : case := (">,,", ">,
,
").
Definition c35 : case := ("> <", "> <
    ").
Definition c36 : case := (",}(", ",

}(
").
Definition c37 : case := (",){", ",
) {
    ").
Definition c38 : case := (",<a", ",
<
    a").
Definition c39 : case := (",,>", ",
,
>").
Definition c40 : case := (", )", ",
 )").
Definition c41 : case := ("a}}", "a
}
}").
Definition c42 : case := ("a( ", "a(
     ").
Definition c43 : case := ("a<,", "a<
    ,
    ").
Definition c44 : case := ("a,<", "a,
<
    ").
Definition c45 : case := ("a (", "a (
    ").
Definition c46 : case := (" }{", " 
} {
").
Definition c47 : case := (" (a", " (
    a").
Definition c48 : case := (" <>", " <>").
Definition c49 : case := (" ,)", " ,
)").
Definition c50 : case := ("  }", "  
}").
Definition c51 : case := ("{{{ ", " {
     {
         {
             ").
Definition c52 : case := ("{{(,", " {
     {
        (
            ,
            ").
Definition c53 : case := ("{{<<", " {
     {
        <
            <
                ").
Definition c54 : case := ("{{,(", " {
     {
        ,
        (
            ").
Definition c55 : case := ("{{ {", " {
     {
          {
            ").
Definition c56 : case := ("{}{a", " {
    
} {
    a").
Definition c57 : case := ("{}(>", " {
    
}(
    >").
Definition c58 : case := ("{}<)", " {
    
}<
    )").
Definition c59 : case := ("{},}", " {
    
},

}").
Definition c60 : case := ("{}a ", " {
    
}a ").
Definition c61 : case := ("{({,", " {
    (
         {
            ,
            ").
Definition c62 : case := ("{((<", " {
    (
        (
            <
                ").
Definition c63 : case := ("{(<(", " {
    (
        <
            (
                ").
Definition c64 : case := ("{(,{", " {
    (
        ,
         {
            ").
Definition c65 : case := ("{(aa", " {
    (
        aa").
Definition c66 : case := ("{){>", " {
    ) {
        >").
Definition c67 : case := ("{)()", " {
    )()").
Definition c68 : case := ("{)<}", " {
    )<
        
    }").
Definition c69 : case := ("{)> ", " {
    )> ").
Definition c70 : case := ("{)a,", " {
    )a,
    ").
Definition c71 : case := ("{<{<", " {
    <
         {
            <
                ").
Definition c72 : case := ("{<((", " {
    <
        (
            (
                ").
Definition c73 : case := ("{<<{", " {
    <
        <
             {
                ").
Definition c74 : case := ("{<>a", " {
    <>a").
Definition c75 : case := ("{<a>", " {
    <a>").
Definition c76 : case := ("{>{)", " {
    > {
        )").
Definition c77 : case := ("{>(}", " {
    >(
        
    }").
Definition c78 : case := ("{>) ", " {
    >) ").
Definition c79 : case := ("{>>,", " {
    >>,
    ").
Definition c80 : case := ("{>a<", " {
    >a<
        ").
Definition c81 : case := ("{,{(", " {
    ,
     {
        (
            ").
Definition c82 : case := ("{,({", " {
    ,
    (
         {
            ").
Definition c83 : case := ("{,)a", " {
    ,
    )a").
Definition c84 : case := ("{,>>", " {
    ,
    >>").
Definition c85 : case := ("{,a)", " {
    ,
    a)").
Definition c86 : case := ("{a{}", " {
    a {
        
    }").
Definition c87 : case := ("{a} ", " {
    a
} ").
Definition c88 : case := ("{a),", " {
    a),
    ").
Definition c89 : case := ("{a><", " {
    a><
        ").
Definition c90 : case := ("{aa(", " {
    aa(
        ").
Definition c91 : case := ("{ {{", " {
      {
         {
            ").
Definition c92 : case := ("{ }a", " {
     
}a").
Definition c93 : case := ("{ )>", " {
     )>").
Definition c94 : case := ("{ >)", " {
     >)").
Definition c95 : case := ("{ a}", " {
     a
}").
Definition c96 : case := ("{   ", " {
       ").
Definition c97 : case := ("}{},", "
} {

},
").
Definition c98 : case := ("}{)<", "
} {
)<
    ").
Definition c99 : case := ("}{>(", "
} {
>(
    ").
Definition c100 : case := ("}{a{", "
} {
a {
    ").
Definition c101 : case := ("}{ a", "
} {
 a").
Definition c102 : case := ("}}}>", "
}
}
}>").
Definition c103 : case := ("}}))", "
}
}))").
Definition c104 : case := ("}}>}", "
}
}>
}").
Definition c105 : case := ("}}, ", "
}
},
 ").
Definition c106 : case := ("}} ,", "
}
} ,
").
Definition c107 : case := ("}(}<", "
}(

}<
").
Definition c108 : case := ("}()(", "
}()(
").
Definition c109 : case := ("}(>{", "
}(
> {
    ").
Definition c110 : case := ("}(,a", "
}(
,
a").
Definition c111 : case := ("}( >", "
}(
 >").
Definition c112 : case := ("})})", "
})
})").
Definition c113 : case := ("}))}", "
}))
}").
Definition c114 : case := ("})< ", "
})<
 ").
Definition c115 : case := ("}),,", "
}),
,
").
Definition c116 : case := ("}) <", "
}) <
").
Definition c117 : case := ("}<}(", "
}<

}(
").
Definition c118 : case := ("}<){", "
}<
) {
    ").
Definition c119 : case := ("}<<a", "
}<
<
    a").
Definition c120 : case := ("}<,>", "
}<,
>").
Definition c121 : case := ("}< )", "
}<
 )").
Definition c122 : case := ("}>}}", "
}>
}
}").
Definition c123 : case := ("}>( ", "
}>(
 ").
Definition c124 : case := ("}><,", "
}><
,
").
Definition c125 : case := ("}>,<", "
}>,
<
").
Definition c126 : case := ("}> (", "
}> (
").
Definition c127 : case := ("},}{", "
},

} {
").
Definition c128 : case := ("},(a", "
},
(
a").
Definition c129 : case := ("},<>", "
},
<>").
Definition c130 : case := ("},,)", "
},
,
)").
Definition c131 : case := ("}, }", "
},
 
}").
Definition c132 : case := ("}a{ ", "
}a {
 ").
Definition c133 : case := ("}a(,", "
}a(
,
").
Definition c134 : case := ("}a<<", "
}a<
<
    ").
Definition c135 : case := ("}a,(", "
}a,
(
").
Definition c136 : case := ("}a {", "
}a  {
").
Definition c137 : case := ("} {a", "
}  {
a").
Definition c138 : case := ("} (>", "
} (
>").
Definition c139 : case := ("} <)", "
} <
)").
Definition c140 : case := ("} ,}", "
} ,

}").
Definition c141 : case := ("} a ", "
} a ").
Definition c142 : case := ("({{,", "(
     {
         {
            ,
            ").
Definition c143 : case := ("({(<", "(
     {
        (
            <
                ").
Definition c144 : case := ("({<(", "(
     {
        <
            (
                ").
Definition c145 : case := ("({,{", "(
     {
        ,
         {
            ").
Definition c146 : case := ("({aa", "(
     {
        aa").
Definition c147 : case := ("(}{>", "(
    
} {
    >").
Definition c148 : case := ("(}()", "(
    
}()").
Definition c149 : case := ("(}<}", "(
    
}<
    
}").
Definition c150 : case := ("(}> ", "(
    
}> ").
Definition c151 : case := ("(}a,", "(
    
}a,
").
Definition c152 : case := ("(({<", "(
    (
         {
            <
                ").
Definition c153 : case := ("((((", "(
    (
        (
            (
                ").
Definition c154 : case := ("((<{", "(
    (
        <
             {
                ").
Definition c155 : case := ("((>a", "(
    (
        >a").
Definition c156 : case := ("((a>", "(
    (
        a>").
Definition c157 : case := ("(){)", "() {
    )").
Definition c158 : case := ("()(}", "()(
    
}").
Definition c159 : case := ("()) ", "()) ").
Definition c160 : case := ("()>,", "()>,
").
Definition c161 : case := ("()a<", "()a<
    ").
Definition c162 : case := ("(<{(", "(
    <
         {
            (
                ").
Definition c163 : case := ("(<({", "(
    <
        (
             {
                ").
Definition c164 : case := ("(<)a", "(<
    )a").
Definition c165 : case := ("(<>>", "(
    <>>").
Definition c166 : case := ("(<a)", "(<
    a)").
Definition c167 : case := ("(>{}", "(
    > {
        
    }").
Definition c168 : case := ("(>} ", "(
    >
} ").
Definition c169 : case := ("(>),", "(>),
").
Definition c170 : case := ("(>><", "(
    >><
        ").
Definition c171 : case := ("(>a(", "(
    >a(
        ").
Definition c172 : case := ("(,{{", "(
    ,
     {
         {
            ").
Definition c173 : case := ("(,}a", "(
    ,
    
}a").
Definition c174 : case := ("(,)>", "(, )>").
Definition c175 : case := ("(,>)", "(, >)").
Definition c176 : case := ("(,a}", "(
    ,
    a
}").
Definition c177 : case := ("(,  ", "(
    ,
      ").
Definition c178 : case := ("(a},", "(
    a
},
").
Definition c179 : case := ("(a)<", "(a)<
    ").
Definition c180 : case := ("(a>(", "(
    a>(
        ").
Definition c181 : case := ("(aa{", "(
    aa {
        ").
Definition c182 : case := ("(a a", "(
    a a").
Definition c183 : case := ("( }>", "(
     
}>").
Definition c184 : case := ("( ))", "( ))").
Definition c185 : case := ("( >}", "(
     >
}").
Definition c186 : case := ("( , ", "(
     ,
     ").
Definition c187 : case := ("(  ,", "(
      ,
    ").
Definition c188 : case := ("){}<", ") {
    
}<
    ").
Definition c189 : case := ("){)(", ") {
    )(
        ").
Definition c190 : case := ("){>{", ") {
    > {
        ").
Definition c191 : case := ("){,a", ") {
    ,
    a").
Definition c192 : case := ("){ >", ") {
     >").
Definition c193 : case := (")}})", ")
}
})").
Definition c194 : case := (")})}", ")
})
}").
Definition c195 : case := (")}< ", ")
}<
 ").
Definition c196 : case := (")},,", ")
},
,
").
Definition c197 : case := (")} <", ")
} <
").
Definition c198 : case := (")(}(", ")(
    
}(
    ").
Definition c199 : case := (")(){", ")() {
    ").
Definition c200 : case := (")(<a", ")(
    <
        a").
Definition c201 : case := (")(,>", ")(
    ,
    >").
Definition c202 : case := (")( )", ")( )").
Definition c203 : case := ("))}}", "))
}
}").
Definition c204 : case := ("))( ", "))(
     ").
Definition c205 : case := ("))<,", "))<
    ,
    ").
Definition c206 : case := (")),<", ")),
<
    ").
Definition c207 : case := (")) (", ")) (
    ").
Definition c208 : case := (")<}{", ")<
    
} {
    ").
Definition c209 : case := (")<(a", ")<
    (
        a").
Definition c210 : case := (")<<>", ")<
    <>").
Definition c211 : case := (")<,)", ")<
    ,
    )").
Definition c212 : case := (")< }", ")<
     
}").
Definition c213 : case := (")>{ ", ")> {
     ").
Definition c214 : case := (")>(,", ")>(
    ,
    ").
Definition c215 : case := (")><<", ")><
    <
        ").
Definition c216 : case := (")>,(", ")>,
(
    ").
Definition c217 : case := (")> {", ")>  {
    ").
Definition c218 : case := ("),{a", "),
 {
    a").
Definition c219 : case := ("),(>", "),
(
    >").
Definition c220 : case := ("),<)", "),
<
    )").
Definition c221 : case := ("),,}", "),
,

}").
Definition c222 : case := ("),a ", "),
a ").
Definition c223 : case := (")a{,", ")a {
    ,
    ").
Definition c224 : case := (")a(<", ")a(
    <
        ").
Definition c225 : case := (")a<(", ")a<
    (
        ").
Definition c226 : case := (")a,{", ")a,
 {
    ").
Definition c227 : case := (")aaa", ")aaa").
Definition c228 : case := (") {>", ")  {
    >").
Definition c229 : case := (") ()", ") ()").
Definition c230 : case := (") <}", ") <
    
}").
Definition c231 : case := (") > ", ") > ").
Definition c232 : case := (") a,", ") a,
").
Definition c233 : case := ("<{{<", "<
     {
         {
            <
                ").
Definition c234 : case := ("<{((", "<
     {
        (
            (
                ").
Definition c235 : case := ("<{<{", "<
     {
        <
             {
                ").
Definition c236 : case := ("<{>a", "<
     {
        
    >a").
Definition c237 : case := ("<{a>", "<
     {
        a
    >").
Definition c238 : case := ("<}{)", "<
    
} {
    )").
Definition c239 : case := ("<}(}", "<
    
}(
    
}").
Definition c240 : case := ("<}) ", "<
    
}) ").
Definition c241 : case := ("<}>,", "<
}>,
").
Definition c242 : case := ("<}a<", "<
    
}a<
    ").
Definition c243 : case := ("<({(", "<
    (
         {
            (
                ").
Definition c244 : case := ("<(({", "<
    (
        (
             {
                ").
Definition c245 : case := ("<()a", "<
    ()a").
Definition c246 : case := ("<(>>", "<(
    >>").
Definition c247 : case := ("<(a)", "<
    (a)").
Definition c248 : case := ("<){}", "<
    ) {
        
    }").
Definition c249 : case := ("<)} ", "<
    )
} ").
Definition c250 : case := ("<)),", "<
    )),
    ").
Definition c251 : case := ("<)><", "<)><
    ").
Definition c252 : case := ("<)a(", "<
    )a(
        ").
Definition c253 : case := ("<<{{", "<
    <
         {
             {
                ").
Definition c254 : case := ("<<}a", "<
    <
        
    }a").
Definition c255 : case := ("<<)>", "<
    <)>").
Definition c256 : case := ("<<>)", "<
    <>)").
Definition c257 : case := ("<<a}", "<
    <
        a
    }").
Definition c258 : case := ("<<  ", "<
    <
          ").
Definition c259 : case := ("<>},", "<>
},
").
Definition c260 : case := ("<>)<", "<>)<
    ").
Definition c261 : case := ("<>>(", "<>>(
    ").
Definition c262 : case := ("<>a{", "<>a {
    ").
Definition c263 : case := ("<> a", "<> a").
Definition c264 : case := ("<,}>", "<,

}>").
Definition c265 : case := ("<,))", "<
    ,
    ))").
Definition c266 : case := ("<,>}", "<,
>
}").
Definition c267 : case := ("<,, ", "<
    ,
    ,
     ").
Definition c268 : case := ("<, ,", "<
    ,
     ,
    ").
Definition c269 : case := ("<a}<", "<
    a
}<
    ").
Definition c270 : case := ("<a)(", "<
    a)(
        ").
Definition c271 : case := ("<a>{", "<a> {
    ").
Definition c272 : case := ("<a,a", "<
    a,
    a").
Definition c273 : case := ("<a >", "<a >").
Definition c274 : case := ("< })", "<
     
})").
Definition c275 : case := ("< )}", "<
     )
}").
Definition c276 : case := ("< < ", "<
     <
         ").
Definition c277 : case := ("< ,,", "<
     ,
    ,
    ").
Definition c278 : case := ("<  <", "<
      <
        ").
Definition c279 : case := (">{}(", "> {
    
}(
    ").
Definition c280 : case := (">{){", "> {
    ) {
        ").
Definition c281 : case := (">{<a", "> {
    <
        a").
Definition c282 : case := (">{,>", "> {
    ,
    >").
Definition c283 : case := (">{ )", "> {
     )").
Definition c284 : case := (">}}}", ">
}
}
}").
Definition c285 : case := (">}( ", ">
}(
 ").
Definition c286 : case := (">}<,", ">
}<
,
").
Definition c287 : case := (">},<", ">
},
<
").
Definition c288 : case := (">} (", ">
} (
").
Definition c289 : case := (">(}{", ">(
    
} {
    ").
Definition c290 : case := (">((a", ">(
    (
        a").
Definition c291 : case := (">(<>", ">(
    <>").
Definition c292 : case := (">(,)", ">(, )").
Definition c293 : case := (">( }", ">(
     
}").
Definition c294 : case := (">){ ", ">) {
     ").
Definition c295 : case := (">)(,", ">)(
    ,
    ").
Definition c296 : case := (">)<<", ">)<
    <
        ").
Definition c297 : case := (">),(", ">),
(
    ").
Definition c298 : case := (">) {", ">)  {
    ").
Definition c299 : case := ("><{a", "><
     {
        a").
Definition c300 : case := ("><(>", "><(
    >").
Definition c301 : case := ("><<)", "><
    <
        )").
Definition c302 : case := ("><,}", "><
    ,
    
}").
Definition c303 : case := ("><a ", "><
    a ").
Definition c304 : case := (">>{,", ">> {
    ,
    ").
Definition c305 : case := (">>(<", ">>(
    <
        ").
Definition c306 : case := (">><(", ">><
    (
        ").
Definition c307 : case := (">>,{", ">>,
 {
    ").
Definition c308 : case := (">>aa", ">>aa").
Definition c309 : case := (">,{>", ">,
 {
    >").
Definition c310 : case := (">,()", ">,
()").
Definition c311 : case := (">,<}", ">,
<
    
}").
Definition c312 : case := (">,> ", ">,
> ").
Definition c313 : case := (">,a,", ">,
a,
").
Definition c314 : case := (">a{<", ">a {
    <
        ").
Definition c315 : case := (">a((", ">a(
    (
        ").
Definition c316 : case := (">a<{", ">a<
     {
        ").
Definition c317 : case := (">a>a", ">a>a").
Definition c318 : case := (">aa>", ">aa>").
Definition c319 : case := ("> {)", ">  {
    )").
Definition c320 : case := ("> (}", "> (
    
}").
Definition c321 : case := ("> ) ", "> ) ").
Definition c322 : case := ("> >,", "> >,
").
Definition c323 : case := ("> a<", "> a<
    ").
Definition c324 : case := (",{{(", ",
 {
     {
        (
            ").
Definition c325 : case := (",{({", ",
 {
    (
         {
            ").
Definition c326 : case := (",{)a", ",
 {
    )a").
Definition c327 : case := (",{>>", ",
 {
    >>").
Definition c328 : case := (",{a)", ",
 {
    a)").
Definition c329 : case := (",}{}", ",

} {

}").
Definition c330 : case := (",}} ", ",

}
} ").
Definition c331 : case := (",}),", ",

}),
").
Definition c332 : case := (",}><", ",

}><
").
Definition c333 : case := (",}a(", ",

}a(
").
Definition c334 : case := (",({{", ",
(
     {
         {
            ").
Definition c335 : case := (",(}a", ",
(
    
}a").
Definition c336 : case := (",()>", ",
()>").
Definition c337 : case := (",(>)", ",
(>)").
Definition c338 : case := (",(a}", ",
(
    a
}").
Definition c339 : case := (",(  ", ",
(
      ").
Definition c340 : case := (",)},", ",
)
},
").
Definition c341 : case := (",))<", ",
))<
    ").
Definition c342 : case := (",)>(", ",
)>(
    ").
Definition c343 : case := (",)a{", ",
)a {
    ").
Definition c344 : case := (",) a", ",
) a").
Definition c345 : case := (",<}>", ",
<
}>").
Definition c346 : case := (",<))", ",
<
    ))").
Definition c347 : case := (",<>}", ",
<>
}").
Definition c348 : case := (",<, ", ",
<
    ,
     ").
Definition c349 : case := (",< ,", ",
<
     ,
    ").
Definition c350 : case := (",>}<", ",
>
}<
").
Definition c351 : case := (",>)(", ",
>)(
    ").
Definition c352 : case := (",>>{", ",
>> {
    ").
Definition c353 : case := (",>,a", ",
>,
a").
Definition c354 : case := (",> >", ",
> >").
Definition c355 : case := (",,})", ",
,

})").
Definition c356 : case := (",,)}", ",
,
)
}").
Definition c357 : case := (",,< ", ",
,
<
     ").
Definition c358 : case := (",,,,", ",
,
,
,
").
Definition c359 : case := (",, <", ",
,
 <
    ").
Definition c360 : case := (",a}(", ",
a
}(
").
Definition c361 : case := (",a){", ",
a) {
    ").
Definition c362 : case := (",a<a", ",
a<
    a").
Definition c363 : case := (",a,>", ",
a,
>").
Definition c364 : case := (",a )", ",
a )").
Definition c365 : case := (", }}", ",
 
}
}").
Definition c366 : case := (", ( ", ",
 (
     ").
Definition c367 : case := (", <,", ",
 <
    ,
    ").
Definition c368 : case := (", ,<", ",
 ,
<
    ").
Definition c369 : case := (",  (", ",
  (
    ").
Definition c370 : case := ("a{}{", "a {
    
} {
    ").
Definition c371 : case := ("a{(a", "a {
    (
        a").
Definition c372 : case := ("a{<>", "a {
    <>").
Definition c373 : case := ("a{,)", "a {
    ,
    )").
Definition c374 : case := ("a{ }", "a {
     
}").
Definition c375 : case := ("a}{ ", "a
} {
 ").
Definition c376 : case := ("a}(,", "a
}(
,
").
Definition c377 : case := ("a}<<", "a
}<
<
    ").
Definition c378 : case := ("a},(", "a
},
(
").
Definition c379 : case := ("a} {", "a
}  {
").
Definition c380 : case := ("a({a", "a(
     {
        a").
Definition c381 : case := ("a((>", "a(
    (
        >").
Definition c382 : case := ("a(<)", "a(<
    )").
Definition c383 : case := ("a(,}", "a(
    ,
    
}").
Definition c384 : case := ("a(a ", "a(
    a ").
Definition c385 : case := ("a){,", "a) {
    ,
    ").
Definition c386 : case := ("a)(<", "a)(
    <
        ").
Definition c387 : case := ("a)<(", "a)<
    (
        ").
Definition c388 : case := ("a),{", "a),
 {
    ").
Definition c389 : case := ("a)aa", "a)aa").
Definition c390 : case := ("a<{>", "a<
     {
        
    >").
Definition c391 : case := ("a<()", "a<
    ()").
Definition c392 : case := ("a<<}", "a<
    <
        
    }").
Definition c393 : case := ("a<> ", "a<> ").
Definition c394 : case := ("a<a,", "a<
    a,
    ").
Definition c395 : case := ("a>{<", "a> {
    <
        ").
Definition c396 : case := ("a>((", "a>(
    (
        ").
Definition c397 : case := ("a><{", "a><
     {
        ").
Definition c398 : case := ("a>>a", "a>>a").
Definition c399 : case := ("a>a>", "a>a>").
Definition c400 : case := ("a,{)", "a,
 {
    )").
Definition c401 : case := ("a,(}", "a,
(
    
}").
Definition c402 : case := ("a,) ", "a,
) ").
Definition c403 : case := ("a,>,", "a,
>,
").
Definition c404 : case := ("a,a<", "a,
a<
    ").
Definition c405 : case := ("aa{(", "aa {
    (
        ").
Definition c406 : case := ("aa({", "aa(
     {
        ").
Definition c407 : case := ("aa)a", "aa)a").
Definition c408 : case := ("aa>>", "aa>>").
Definition c409 : case := ("aaa)", "aaa)").
Definition c410 : case := ("a {}", "a  {
    
}").
Definition c411 : case := ("a } ", "a 
} ").
Definition c412 : case := ("a ),", "a ),
").
Definition c413 : case := ("a ><", "a ><
    ").
Definition c414 : case := ("a a(", "a a(
    ").
Definition c415 : case := (" {{{", "  {
     {
         {
            ").
Definition c416 : case := (" {}a", "  {
    
}a").
Definition c417 : case := (" {)>", "  {
    )>").
Definition c418 : case := (" {>)", "  {
    >)").
Definition c419 : case := (" {a}", "  {
    a
}").
Definition c420 : case := (" {  ", "  {
      ").
Definition c421 : case := (" }},", " 
}
},
").
Definition c422 : case := (" })<", " 
})<
").
Definition c423 : case := (" }>(", " 
}>(
").
Definition c424 : case := (" }a{", " 
}a {
").
Definition c425 : case := (" } a", " 
} a").
Definition c426 : case := (" (}>", " (
    
}>").
Definition c427 : case := (" ())", " ())").
Definition c428 : case := (" (>}", " (
    >
}").
Definition c429 : case := (" (, ", " (
    ,
     ").
Definition c430 : case := (" ( ,", " (
     ,
    ").
Definition c431 : case := (" )}<", " )
}<
").
Definition c432 : case := (" ))(", " ))(
    ").
Definition c433 : case := (" )>{", " )> {
    ").
Definition c434 : case := (" ),a", " ),
a").
Definition c435 : case := (" ) >", " ) >").
Definition c436 : case := (" <})", " <
    
})").
Definition c437 : case := (" <)}", " <
    )
}").
Definition c438 : case := (" << ", " <
    <
         ").
Definition c439 : case := (" <,,", " <
    ,
    ,
    ").
Definition c440 : case := (" < <", " <
     <
        ").
Definition c441 : case := (" >}(", " >
}(
").
Definition c442 : case := (" >){", " >) {
    ").
Definition c443 : case := (" ><a", " ><
    a").
Definition c444 : case := (" >,>", " >,
>").
Definition c445 : case := (" > )", " > )").
Definition c446 : case := (" ,}}", " ,

}
}").
Definition c447 : case := (" ,( ", " ,
(
     ").
Definition c448 : case := (" ,<,", " ,
<
    ,
    ").
Definition c449 : case := (" ,,<", " ,
,
<
    ").
Definition c450 : case := (" , (", " ,
 (
    ").
Definition c451 : case := (" a}{", " a
} {
").
Definition c452 : case := (" a(a", " a(
    a").
Definition c453 : case := (" a<>", " a<>").
Definition c454 : case := (" a,)", " a,
)").
Definition c455 : case := (" a }", " a 
}").
Definition c456 : case := ("  { ", "   {
     ").
Definition c457 : case := ("  (,", "  (
    ,
    ").
Definition c458 : case := ("  <<", "  <
    <
        ").
Definition c459 : case := ("  ,(", "  ,
(
    ").
Definition c460 : case := ("   {", "    {
    ").
Definition c461 : case := ("((babébbbébaéébébbbbbaéa{a,b))", "(
    (
        babébbbébaéébébbbbbaéa {
            a,
            b
        )
    )").
Definition c462 : case := ("(éaéé,aaab,éaé,abb,éé,a,bé,b,aébabbb{,bbéaa)}", "(
    éaéé,
    aaab,
    éaé,
    abb,
    éé,
    a,
    bé,
    b,
    aébabbb {
        ,
        bbéaa
    )
}").
Definition c463 : case := ("<(a,b,,éé,b,aébéa,aéaaéé,babéabéba))", "<
    (
        a,
        b,
        ,
        éé,
        b,
        aébéa,
        aéaaéé,
        babéabéba
    ))").
Definition c464 : case := ("<<,,a,ébaabéb,,é,,é,ébéa>}", "<
    <,
    ,
    a,
    ébaabéb,
    ,
    é,
    ,
    é,
    ébéa>
}").
Definition c465 : case := ("<(éé,bbé,bééééaéabbéébébéa,aééébbébé,ab,))", "<
    (
        éé,
        bbé,
        bééééaéabbéébébéa,
        aééébbébé,
        ab,
        
    ))").
Definition c466 : case := ("{},8::];;a]],x;[8[:,8b],[", " {
    
},
8::];;a]],
x;[8[:,
8b],
[").
Definition c467 : case := ("88;]][", "88;]][").
Definition c468 : case := ("<(a[,<]],x;abb8,{}>,<{bb]b[bx]]][]}>)>", "<
    (
        a[,
        <
            ]],
            x;abb8,
             {
                
            }
        >,
        <
             {
                bb]b[bx]]][]
            }
        >
    )
>").
Definition c469 : case := ("(<{{([:,{;;[8][;bx;,u,u,u,b[}),aa:},<{b8:axaxb},(x;;),((:8[[bxa8x[;),(u,bx,u,[,8),[a88bb];b),(),{x;,[]]:b[bab8x,{[;:;:]8a8b8a,]8[},xa88x,{[x;;xx]x;xx,u,u}}>,<<(u,aax8a:a]8aa],u,[xa:;:bb;a,bxxb:axaxb)>,a:;b]b,<{}>>}>)", "(
    <
         {
             {
                (
                    [:,
                     {
                        ;;[8][;bx;,
                        u,
                        u,
                        u,
                        b[
                    }
                ),
                aa:
            },
            <
                 {
                    b8:axaxb
                },
                (x;;),
                (
                    (:8[[bxa8x[;),
                    (u, bx, u, [, 8),
                    [a88bb];b
                ),
                (),
                 {
                    x;,
                    []]:b[bab8x,
                     {
                        [;:;:]8a8b8a,
                        ]8[
                    },
                    xa88x,
                     {
                        [x;;xx]x;xx,
                        u,
                        u
                    }
                }
            >,
            <
                <
                    (
                        u,
                        aax8a:a]8aa],
                        u,
                        [xa:;:bb;a,
                        bxxb:axaxb
                    )
                >,
                a:;b]b,
                <
                     {
                        
                    }
                >
            >
        }
    >
)").
Definition c470 : case := ("(a8[]b)", "(a8[]b)").
Definition c471 : case := ("]:[b,{},a[[]]b:a,<>,a;", "]:[b,
 {
    
},
a[[]]b:a,
<>,
a;").
Definition c472 : case := ("aa:[[[,([babxbxbb8];,(),;b[:;:[;]xa,{(8,()),;xb})", "aa:[[[,
(
    [babxbxbb8];,
    (),
    ;b[:;:[;]xa,
     {
        (8, ()),
        ;xb
    }
)").
Definition c473 : case := ("[,<b[bb8b[[8][:,[b,],{{},((<{[xx;]:a];8;,]b:x[]]a;xx}>))}>", "[,
<
    b[bb8b[[8][:,
    [b,
    ],
     {
         {
            
        },
        (
            (
                <
                     {
                        [xx;]:a];8;,
                        ]b:x[]]a;xx
                    }
                >
            )
        )
    }
>").
Definition c474 : case := ("[ab:,(),<>", "[ab:,
(),
<>").
Definition c475 : case := ("{];[:]b:b,(:;;bx]]]:x[x,<]:bx8a]8xb>,<{},8[b]ax:::a:b>,;bb8b8[[x,[bb8a8]),;8},(aax:];],(<>),<a[b;[xx,{{b88xa[;,{x8b;]:b];a8b,[x]],xb;[]},a[[ab:[]8;]8},{88][},((8;;]8[;:8))}>)", " {
    ];[:]b:b,
    (
        :;;bx]]]:x[x,
        <]:bx8a]8xb>,
        <
             {
                
            },
            8[b]ax:::a:b
        >,
        ;bb8b8[[x,
        [bb8a8]
    ),
    ;8
},
(
    aax:];],
    (<>),
    <
        a[b;[xx,
         {
             {
                b88xa[;,
                 {
                    x8b;]:b];a8b,
                    [x]],
                    xb;[]
                },
                a[[ab:[]8;]8
            },
             {
                88][
            },
            ((8;;]8[;:8))
        }
    >
)").
Definition c476 : case := ("(),<x8[abx,[bb]:x[]x,xxb8bbbx]xax,8[xa;8,:;x[;xxx>,axb]xa,:;,bx;x]8;a[:;]", "(),
<
    x8[abx,
    [bb]:x[]x,
    xxb8bbbx]xax,
    8[xa;8,
    :;x[;xxx
>,
axb]xa,
:;,
bx;x]8;a[:;]").
Definition c477 : case := ("<bx8a:[a:,{xx]a;[a]8,{:a8,{axb;;;ax8a,({u,[;]8;,u,u,8:x;b8b[})}}}>,({:8ba[;,<(<<u>,{u,u,[[8],ab[ba8,u}>,{},aa[),(aa[;;88)>})", "<
    bx8a:[a:,
     {
        xx]a;[a]8,
         {
            :a8,
             {
                axb;;;ax8a,
                (
                     {
                        u,
                        [;]8;,
                        u,
                        u,
                        8:x;b8b[
                    }
                )
            }
        }
    }
>,
(
     {
        :8ba[;,
        <
            (
                <
                    <u>,
                     {
                        u,
                        u,
                        [[8],
                        ab[ba8,
                        u
                    }
                >,
                 {
                    
                },
                aa[
            ),
            (aa[;;88)
        >
    }
)").
Definition c478 : case := ("b88xa,ba;,],]];:8bx]:,{<<(8b]a,{[,]b];},{{u,u,u,b8;x[]]x},[;:[bb[]];:;,<a,;x];:x,u>,{u,;,u}},<:a[:;8x:a[,:8]a;:;x,{;[:xxa8[;,u},<>>)>,[aa>,8bb,8]a8}", "b88xa,
ba;,
],
]];:8bx]:,
 {
    <
        <
            (
                8b]a,
                 {
                    [,
                    ]b];
                },
                 {
                     {
                        u,
                        u,
                        u,
                        b8;x[]]x
                    },
                    [;:[bb[]];:;,
                    <a,
                    ;x];:x,
                    u>,
                     {
                        u,
                        ;,
                        u
                    }
                },
                <
                    :a[:;8x:a[,
                    :8]a;:;x,
                     {
                        ;[:xxa8[;,
                        u
                    },
                    <>
                >
            )
        >,
        [aa
    >,
    8bb,
    8]a8
}").
Definition c479 : case := ("]::,;abba:,{<][]:[:>}", "]::,
;abba:,
 {
    <][]:[:>
}").
Definition c480 : case := ("a],<(<:::[,<<<[ab:b]],u>,{;]ba8,u,u,u,u}>>,<x8,((u,]:xxa8,u))>>)>", "a],
<
    (
        <
            :::[,
            <
                <
                    <[ab:b]],
                    u>,
                     {
                        ;]ba8,
                        u,
                        u,
                        u,
                        u
                    }
                >
            >,
            <x8,
            ((u, ]:xxa8, u))>
        >
    )
>").
Definition c481 : case := ("(({{8][ax:x];,a:b,(<aaa:x,u,:8;],ab;;;[:xxx,:];]:a>,([bxba8a;;8),{u,ab::a;},b:bb8,[]x;a:b;8),({x;x[;]]:,u})}}))", "(
    (
         {
             {
                8][ax:x];,
                a:b,
                (
                    <aaa:x,
                    u,
                    :8;],
                    ab;;;[:xxx,
                    :];]:a>,
                    ([bxba8a;;8),
                     {
                        u,
                        ab::a;
                    },
                    b:bb8,
                    []x;a:b;8
                ),
                (
                     {
                        x;x[;]]:,
                        u
                    }
                )
            }
        }
    )
)").
Definition c482 : case := ("b[,{8bx]}", "b[,
 {
    8bx]
}").
Definition c483 : case := ("<{{;:;:a:x[;,;,;a},(<{<u>,(u)},<x];xx,(u,u,;8b:8aa[[[;x)>>)}>", "<
     {
         {
            ;:;:a:x[;,
            ;,
            ;a
        },
        (
            <
                 {
                    <u>,
                    (u)
                },
                <x];xx,
                (u, u, ;8b:8aa[[[;x)>
            >
        )
    }
>").
Definition c484 : case := (":", ":").
Definition c485 : case := ("({][][8]8,(<;]]x:a;:,<>,{{u,u,u,u,][::;[8[[:;},()},8:x]:,x;]a[x8baxb>,a:bx;xa],8xx[ba),{({(u,]a8,u),(u,a[a;x;:xbb,bb8[])})}})", "(
     {
        ][][8]8,
        (
            <
                ;]]x:a;:,
                <>,
                 {
                     {
                        u,
                        u,
                        u,
                        u,
                        ][::;[8[[:;
                    },
                    ()
                },
                8:x]:,
                x;]a[x8baxb
            >,
            a:bx;xa],
            8xx[ba
        ),
         {
            (
                 {
                    (u, ]a8, u),
                    (u, a[a;x;:xbb, bb8[])
                }
            )
        }
    }
)").
Definition c486 : case := ("{<{a;,;b[bb:bb:}>}", " {
    <
         {
            a;,
            ;b[bb:bb:
        }
    >
}").
Definition c487 : case := ("8b:8ax],{:b][;8,8]8a;;b}", "8b:8ax],
 {
    :b][;8,
    8]8a;;b
}").
Definition c488 : case := ("(a;::;,b[x:;x)", "(a;::;, b[x:;x)").
Definition c489 : case := ("(),{;a,<;;,(8x,{;x[b8x:8x[[[}),[b8b8[x;,:xba8[]x:[b:>}", "(),
 {
    ;a,
    <
        ;;,
        (
            8x,
             {
                ;x[b8x:8x[[[
            }
        ),
        [b8b8[x;,
        :xba8[]x:[b:
    >
}").
Definition c490 : case := ("aa:8]8bx]:a,{(b,x[,({;b8,<(u,u),{u,u,8a,a;x;[]bxa]}>}))}", "aa:8]8bx]:a,
 {
    (
        b,
        x[,
        (
             {
                ;b8,
                <
                    (u, u),
                     {
                        u,
                        u,
                        8a,
                        a;x;[]bxa]
                    }
                >
            }
        )
    )
}").
Definition c491 : case := ("]€€b<(é]a(><€,{ <{))[€
é([bZ𝄞,:b),
>[}	{𝄞:),;])a;;€>baZ[}(<]:(::  <{]a

>;[Z>", "]€€b<(
    é]a(
        ><
            €,
             {
                 <
                     {
                        
                    )
                )[€
é([bZ𝄞, :b),
                

            >[
        }	 {
            𝄞:),
            ;])a;;€
        >baZ[
    }(
        <
            ]:(
                ::  <
                     {
                        ]a


                    >;[Z
                >").
Definition c492 : case := (">(;Z,ZZ,𝄞a >:éb>)
{)b:bZ
aa[(éZZ)€,):< ,a𝄞}(Z𝄞,[b𝄞)]é<[;:[𝄞𝄞b}{< ;}]€b{a{€baZ𝄞é (𝄞Z <[{é;[:];€;bb(,)[[]

>
((	é},
)€>,:	Z a,a<𝄞€)€,", ">(;Z, ZZ, 𝄞a >:éb>)
 {
    )b:bZ
aa[(éZZ)€,
    ):<
         ,
        a𝄞
    }(Z𝄞, [b𝄞)]é<
        [;:[𝄞𝄞b
    } {
        <
             ;
        }]€b {
            a {
                €baZ𝄞é (
                    𝄞Z <
                        [ {
                            é;[:];€;bb(, )[[]


                        >
((	é
                    }, 
)€
                >, :	Z a, a<
                    𝄞€)€,
                    ").
Definition c493 : case := (")€é)[
[(]éaa] [€	é	𝄞)𝄞€{>{,𝄞>::b	},
[[:a,[b", ")€é)[
[(]éaa] [€	é	𝄞)𝄞€ {
    > {
        ,
        𝄞>::b	
    },
    
[[:a,
    [b").
Definition c494 : case := ("(𝄞é€a>) [ €€é}{{]] ab(}€}<é,,
]éb𝄞{", "(𝄞é€a>) [ €€é
} {
 {
    ]] ab(
        
    }€
}<
    é,
    ,
    
]éb𝄞 {
        ").
Definition c495 : case := ("<(} [:
𝄞€,)	}b>𝄞 €)€>,b { [	(<>{>}><:;
Z>{,[>
);)é)> 
[𝄞}:]€;)}	><)}
)€ [
[ba}a€([{([],;,[(
>
)
€)<ba:b){}<(,€  b {aa[(} ]}
{[:𝄞}", "<(
} [:
𝄞€, )	
}b>𝄞 €)€>,
b  {
 [	(
<> {
    >
}><:;
Z> {
    ,
    [>

);)é)> 
[𝄞
}:]€;)
}	><
)
}
)€ [
[ba
}a€(
[ {
([], ;, [(

>
)
€)<
ba:b
) {

}<
(
,
€  b  {
    aa[(
        
    } ]
}
 {
    [:𝄞
}").
Definition c496 : case := ("	>€;;Z€<](],
b[,𝄞 aab;;,)𝄞:;[>><,(;éaa

	)bZ[}(é,{;ab aZ>€}[>bZ}𝄞:);€b
)),
 Z]Z<Z]é(é;b;	€a<>;(:Z:é>[{
,Z[[}><,𝄞(]:}>>	) 𝄞a€) )](Zé]𝄞 aé<>:(€€,):[Z>é
>]);a)Z{}(	𝄞};	b} 	,<€[ ;b]a:]} béZ(éb>]:ZZ€Z ", "	>€;;Z€<](], 
b[, 𝄞 aab;;, )𝄞:;[>><
    ,
    (;éaa

	)bZ[
}(
    é,
     {
        ;ab aZ
    >€
}[>bZ
}𝄞:
);€b
)),

 Z]Z<Z]é(
é;b;	€a<>;(
:Z:é>[ {
    
,
    Z[[
}><,
𝄞(]:
}>>	) 𝄞a€
) 
)](Zé]𝄞 aé<>:(€€, ):[Z>é
>]);a)Z {

}(
	𝄞
};	b
} 	,
<€[ ;b]a:]
} béZ(
éb>]:ZZ€Z ").
Definition c497 : case := ("ab) aZ 	):<
:b,}€aéa,€<[)({>}>,, {a€([ [{𝄞
b]{€b€;)<]Zéa𝄞b}€;

;a)]>>
}>b]𝄞]<[,(<ZaZ{é(;Z}é€);<	€(é
);𝄞é{éZ€,:Z{	é,[:é:)
a
[é)<𝄞)", "ab) aZ 	):<
    
:b,
    
}€aéa,
€<
    [)(
         {
            
        >
    }
>,
,
  {
    a€(
        [ [ {
            𝄞
b] {
                €b€;
            )<]Zéa𝄞b
        }€;

;a
    )]>>

}>b]𝄞]<
    [,
    (
        <
            ZaZ {
                é(;Z
            }é€);<
                	€(é
);𝄞é {
                    éZ€,
                    :Z {
                        	é,
                        [:é:
                    )
a
[é)<
                        𝄞)").
Definition c498 : case := (",]𝄞a[	a€)Zabbé))b>)
{{	b:{{Z: Z
)( <a,}a({[𝄞𝄞,
	, {>
€é𝄞é}(é:
}}	>,
  )}

]éé(𝄞€< {[;,Z€]", ",
]𝄞a[	a€)Zabbé))b>)
 {
     {
        	b: {
             {
                Z: Z
)(
                     <
                        a,
                        
                    }a(
                         {
                            [𝄞𝄞,
                            
	,
                              {
                                
                            >
€é𝄞é
                        }(é:

                    }
                }	>, 
  )
            }

]éé(
                𝄞€<
                      {
                        [;,
                        Z€]").
Definition c499 : case := (":}{é(:é
Z>a;b},Z,<aaé

a	; é€}<Z	𝄞é,:
𝄞𝄞b
[,<{,é	:::{𝄞;
{€Z,{[{é;, b>)a
, ;é	€b	a>,€[>:a	𝄞]€:{:[ 𝄞
>€b }a((()}<ééaé
€€>é:}b<
:>é€[(
<:(>(Z	€[>>;𝄞ab	:éa(>	[(]Zé}é€
]{:(}
>bZ[bZ a	éZ;<a}b)> [a(>, []>}<)}>[,>)>>
]{<>b]			;𝄞;[<;a(ab({Z 𝄞, )	)>(]a{,Zé,({[:Z>)
[	bZ[€{,", ":
} {
é(
    :é
Z>a;b
},
Z,
<
    aaé

a	; é€
}<
    Z	𝄞é,
    :
𝄞𝄞b
[,
    <
         {
            ,
            é	::: {
                𝄞;
 {
                    €Z,
                     {
                        [ {
                            é;,
                             b
                        >
                    )a
,
                     ;é	€b	a
                >,
                €[
            >:a	𝄞]€: {
                :[ 𝄞
>€b 
            }a(
                (
                    ()
                }<ééaé
€€>é:
            }b<
:>é€[(
                
<:(
                    >(
                        Z	€[>>;𝄞ab	:éa(
                            >	[(
                                ]Zé
                            }é€
] {
                                :(
                            }
>bZ[bZ a	éZ;<a
                        }b)> [a(>,  []>
                    }<)
                }>[,
                >
            )>>
] {
                <>b]			;𝄞;[<
                    ;a(
                        ab(
                             {
                                Z 𝄞,
                                 
                            )	
                        )
                    >(
                        ]a {
                            ,
                            Zé,
                            (
                                 {
                                    [:Z>
                                )
[	bZ[€ {
                                    ,
                                    ").
Definition c500 : case := ("[:)[€a]::	[>}{bZZb>Z[b]	aa>:	b)é),é}
éab<{𝄞Z{>[Z[[
€:]:(€{>{ ,]:
>[	[éZ{𝄞
a	}() €[ ,	)𝄞,{[Z}[ ,{{<Z;𝄞	b}𝄞	)];𝄞[b<é€€(	é
}béa:;[ 	{é	
(((<,Z>;	);>< :b>
,]éb[((a<, ( €a],}
)(]Z()é€a:€
{<é<𝄞>( €[]a
},𝄞a)>Zab;>(>(:,a>{;<,)[};)<>>€>", "[:)[€a]::	[>
} {
bZZb>Z[b]	aa>:	b)é),
é
}
éab<
 {
    𝄞Z {
        
    >[Z[[
€:]:(
        € {
            > {
                 ,
                ]:
>[	[éZ {
                    𝄞
a	
                }() €[ ,
                	
            )𝄞,
             {
                [Z
            }[ ,
             {
                 {
                    <
                        Z;𝄞	b
                    }𝄞	)];𝄞[b<
                        é€€(
                            	é

                        }béa:;[ 	 {
                            é	
(
                                (
                                    (<, Z>;	);
                                >< :b>
,
                                ]éb[(
                                    (
                                        a<
                                            ,
                                             ( €a], 
                                        }
)(
                                            ]Z()é€a:€
 {
                                                <é<𝄞>( €[]a

                                            }, 𝄞a)>Zab;
                                        >(
                                            
                                        >(
                                            :,
                                            a> {
                                                ;<,
                                                
                                            )[
                                        };
                                    )<>>€>").
Definition c501 : case := ("(>}{a({])Z
,>é ", "(
    >
} {
    a(
         {
            ]
        )Z
,
        >é ").
Definition c502 : case := ("( [€, ;[é:(é 	(;;:>Z}a,ba }]𝄞}(;;[ (
<	 𝄞)é]	é:(𝄞])é)Z{ ];{€ba;}
)𝄞(,)𝄞b;}[		Z𝄞(
,
,;€𝄞>b[],(
, [<a>Z,𝄞<(é<b ]](
𝄞<𝄞	<]€[  b𝄞{:€	<
>é)];€€}𝄞{>€{}:[{[a𝄞>:,;[;(	] )Z	 [b)(>)Z}<𝄞<(é}b{<
𝄞)Z}(:<Z,
;𝄞é€,,é€€", "(
     [€,
     ;[é:(
        é 	(
            ;;:>Z
        }a,
        ba 
    }]𝄞
}(;;[ (
<
    	 𝄞)é]	é:(𝄞])é)Z {
         ]; {
            €ba;
        }

    )𝄞(, )𝄞b;
}[		Z𝄞(
    
,
    
,
    ;€𝄞
>b[],
(
    
,
     [<a>Z,
    𝄞<
        (
            é<
                b ]](
                    
𝄞<
                        𝄞	<
                            ]€[  b𝄞 {
                                :€	<
>é
                            )];€€
                        }𝄞 {
                            
                        >€ {
                            
                        }:[ {
                            [a𝄞
                        >:,
                        ;[;(	] )Z	 [b
                    )(
                >)Z
            }<
                𝄞<
                    (
                        é
                    }b {
                        <
                            
𝄞
                        )Z
                    }(
                        :<
                            Z,
                            
;𝄞é€,
                            ,
                            é€€").
Definition c503 : case := (";𝄞([)a>	é𝄞]a)}]é}[}€b}	bZ ],	
b[[𝄞𝄞{}a>:((}{éé,]	𝄞é}){(: >};éé(])Z
	;):€}é>>] ;):>", ";𝄞([)a>	é𝄞]a)
}]é
}[
}€b
}	bZ ],
	
b[[𝄞𝄞 {

}a>:(
(

} {
éé,
]	𝄞é
}
) {
(: >
};éé(])Z
	;):€
}é>>] ;
):>").
Definition c504 : case := (";éb€<{ ((<]€	b𝄞,)<éa{é𝄞][[b𝄞	}<>b
𝄞 é{]<]𝄞]é	,))éa	> 	>
< ", ";éb€<
     {
         (
            (<
                ]€	b𝄞, )<
                    éa {
                        é𝄞][[b𝄞	
                    }<>b
𝄞 é {
                        ]<]𝄞]é	,
                        
                    ))éa	> 	
                >
<
                     ").
Definition c505 : case := ("𝄞[a𝄞
	é	,ZZ<>>{)
𝄞},a[;
}[éa(b)}ZaZ<
;,,{]€}>(]€	€(>a,
[Z;	Z		:[]};a)Z}
a:	]b𝄞	[)
:𝄞<Z)é}€	{<]", "𝄞[a𝄞
	é	,
ZZ<>> {
    )
𝄞
},
a[;

}[éa(b)
}ZaZ<

;,
,
 {
]€
}
>(
]€	€(>a, 
[Z;	Z		:[]
};a)Z
}
a:	]b𝄞	[
)
:𝄞<
Z)é
}€	 {
<
]").
Definition c506 : case := (";):(;<{é(Z,}]{a];]]}é )é(𝄞𝄞),ZZ  𝄞>,a;{[b>;ZZ>,)aZ
𝄞	[	€:a€b€	<		{;,>
	)
<[;Z€€(Zé>aa{<)) [)
b}{:Z}€ <{<	),;:;
é,€ (
𝄞𝄞 𝄞𝄞:],𝄞:b:}<{>:é}{ 𝄞𝄞ba )< :a [€a{é𝄞]<
	
(}
);é
(]<[ >  		 Z{((éa(<; €(é,
𝄞𝄞[ééZé	 ba", ";):(
    ;<
         {
            é(
                Z,
                
            }] {
                a];]]
            }é 
        )é(𝄞𝄞),
        ZZ  𝄞
    >,
    a; {
        [b>;ZZ>,
        
    )aZ
𝄞	[	€:a€b€	<
        		 {
            ;,
            
        >
	)
<[;Z€€(
            Zé>aa {
                <
                    
                )) [)
b
            } {
                :Z
            }€ <
                 {
                    <
                        	),
                        ;:;
é,
                        € (
                            
𝄞𝄞 𝄞𝄞:],
                            𝄞:b:
                        }<
                             {
                                
                            >:é
                        } {
                             𝄞𝄞ba 
                        )<
                             :a [€a {
                                é𝄞]<
                                    
	
(
                                }
);é
(
                                    ]<[ >  		 Z {
                                        (
                                            (
                                                éa(
                                                    <
                                                        ; €(
                                                            é,
                                                            
𝄞𝄞[ééZé	 ba").
Definition c507 : case := ("b ,b€é[Z{	,((€a,)𝄞{> €{	)] ,€	(
𝄞]b:}	 a€>b€(b)<:b;>,{)>}b}aa{(
]Z[)};)[)	:𝄞a(

,[𝄞 Z;,𝄞}:[€:):(>> {:b(,}>;}b;[a]é),<)𝄞 
]
 
𝄞{ ];]€<𝄞<,,]{
 ,<[(𝄞}{[<Z}>€ ))Z ]€a(
é)[>;€(]Z])Z:é])(,	€	>€;,{é€a€	{]b>é>}€{);)Z;}[b:é{", "b ,
b€é[Z {
    	,
    (
        (€a, )𝄞 {
            > € {
                	
            )] ,
            €	(
                
𝄞]b:
            }	 a€>b€(b)<:b;>,
             {
                
            )>
        }b
    }aa {
        (
]Z[)
    };)[)	:𝄞a(

, [𝄞 Z;, 𝄞
}:[€:):(
    >>  {
        :b(, 
    }>;
}b;[a]é),
<
    
)𝄞 
]
 
𝄞 {
     ];]€<
        𝄞<
            ,
            ,
            ] {
                
 ,
                <
                    [(
                        𝄞
                    } {
                        [<Z
                    }>€ 
                ))Z ]€a(
é)[
            >;€(]Z])Z:é])(
                ,
                	€	
            >€;,
             {
                é€a€	 {
                    ]b
                >é
            >
        }€ {
            
        );)Z;
    }[b:é {
        ").
Definition c508 : case := (",[}],a	(,bZZ:Z,	])(	<	  ),Z)})b}]𝄞€
<]):
€(Z)(	[])	
])][{(aa( 𝄞,a,:
{:€(	

b€aéb(a;,
	<<𝄞[€]Za{	>[)][,}),:aZ𝄞]{{ZZ< <𝄞;<	(
a;,	;<)}[>,:€ ;:€{ 𝄞Z);b𝄞(𝄞{>;ZZ>€]𝄞<]𝄞]	< }b
Zé€b>[:)é
< ZZZ		;𝄞Z(]bb >é}éaZ}a{[€é>a[€ ;€]aZ)

:},€[;	>:é]])𝄞 }>}b,	{b<
; 𝄞;:[]b]>
[}ba[(, ([>, >	][	b
(<€)];(b)	<,;} é,é(Z(b
", ",
[
}],
a	(, bZZ:Z, 	])(	<
	  ),
Z)
})b
}]𝄞€
<
]):
€(Z)(	[])	
])][ {
(
    aa(
         𝄞,
        a,
        :
 {
            :€(
                	

b€aéb(
                    a;,
                    
	<
                        <
                            𝄞[€]Za {
                                	
                            >[
                        )][,
                        
                    }
                ),
                :aZ𝄞] {
                     {
                        ZZ<
                             <
                                𝄞;<
                                    	(
a;, 	;<)
                                }[>,
                                :€ ;:€ {
                                     𝄞Z
                                );b𝄞(
                                    𝄞 {
                                        
                                    >;ZZ
                                >€]𝄞<
                                    ]𝄞]	< 
                                }b
Zé€b>[:
                            )é
< ZZZ		;𝄞Z(
                                ]bb >é
                            }éaZ
                        }a {
                            [€é
                        >a[€ ;€]aZ
                    )

:
                },
                €[;	
            >:é]]
        )𝄞 
    }
>
}b,
	 {
b<
; 𝄞;:[]b]>
[
}ba[(
,
 (
    [
>,
 
>	][	b
(<
€)];(b)	<
    ,
    ;
} é,
é(
    Z(
        b
").
Definition c509 : case := ("	€b𝄞	] ", "	€b𝄞	] ").
Definition c510 : case := ("struct Tally<u128>{ayes: u128,nays: u128,turnout: u128}", "struct Tally<u128> {
    ayes: u128,
    nays: u128,
    turnout: u128
}").
Definition c511 : case := ("(u32,enum Error{Overflow,Unimplemented,UntrustedReserveLocation,UntrustedTeleportLocation,LocationFull,LocationNotInvertible,BadOrigin,InvalidLocation,AssetNotFound,FailedToTransactAsset,NotWithdrawable,LocationCannotHold,ExceedsMaxMessageSize,DestinationUnsupported,Transport,Unroutable,UnknownClaim,FailedToDecode,MaxWeightInvalid,NotHoldingFees,TooExpensive,Trap(u64),ExpectationFalse,PalletNotFound,NameMismatch,VersionIncompatible,HoldingWouldOverflow,ExportError,ReanchorFailed,NoDeal,FeesNotMet,LockError,NoPermission,Unanchored,NotDepositable,UnhandledXcmVersion,WeightLimitReached(struct Weight{ref_time: Compact<u64>,proof_size: Compact<u64>}),Barrier,WeightNotComputable,ExceedsStackLimit})", "(
    u32,
    enum Error {
        Overflow,
        Unimplemented,
        UntrustedReserveLocation,
        UntrustedTeleportLocation,
        LocationFull,
        LocationNotInvertible,
        BadOrigin,
        InvalidLocation,
        AssetNotFound,
        FailedToTransactAsset,
        NotWithdrawable,
        LocationCannotHold,
        ExceedsMaxMessageSize,
        DestinationUnsupported,
        Transport,
        Unroutable,
        UnknownClaim,
        FailedToDecode,
        MaxWeightInvalid,
        NotHoldingFees,
        TooExpensive,
        Trap(u64),
        ExpectationFalse,
        PalletNotFound,
        NameMismatch,
        VersionIncompatible,
        HoldingWouldOverflow,
        ExportError,
        ReanchorFailed,
        NoDeal,
        FeesNotMet,
        LockError,
        NoPermission,
        Unanchored,
        NotDepositable,
        UnhandledXcmVersion,
        WeightLimitReached(
            struct Weight {
                ref_time: Compact<u64>,
                proof_size: Compact<u64>
            }
        ),
        Barrier,
        WeightNotComputable,
        ExceedsStackLimit
    }
)").
Definition c512 : case := ("enum MetadataOwner{External,Proposal(u32),Referendum(u32)}", "enum MetadataOwner {
    External,
    Proposal(u32),
    Referendum(u32)
}").
Definition cases : list (case) := [c0; c1; c2; c3; c4; c5; c6; c7; c8; c9; c10; c11; c12; c13; c14; c15; c16; c17; c18; c19; c20; c21; c22; c23; c24; c25; c26; c27; c28; c29; c30; c31; c32; c33; c34; c35; c36; c37; c38; c39; c40; c41; c42; c43; c44; c45; c46; c47; c48; c49; c50; c51; c52; c53; c54; c55; c56; c57; c58; c59; c60; c61; c62; c63; c64; c65; c66; c67; c68; c69; c70; c71; c72; c73; c74; c75; c76; c77; c78; c79; c80; c81; c82; c83; c84; c85; c86; c87; c88; c89; c90; c91; c92; c93; c94; c95; c96; c97; c98; c99; c100; c101; c102; c103; c104; c105; c106; c107; c108; c109; c110; c111; c112; c113; c114; c115; c116; c117; c118; c119; c120; c121; c122; c123; c124; c125; c126; c127; c128; c129; c130; c131; c132; c133; c134; c135; c136; c137; c138; c139; c140; c141; c142; c143; c144; c145; c146; c147; c148; c149; c150; c151; c152; c153; c154; c155; c156; c157; c158; c159; c160; c161; c162; c163; c164; c165; c166; c167; c168; c169; c170; c171; c172; c173; c174; c175; c176; c177; c178; c179; c180; c181; c182; c183; c184; c185; c186; c187; c188; c189; c190; c191; c192; c193; c194; c195; c196; c197; c198; c199; c200; c201; c202; c203; c204; c205; c206; c207; c208; c209; c210; c211; c212; c213; c214; c215; c216; c217; c218; c219; c220; c221; c222; c223; c224; c225; c226; c227; c228; c229; c230; c231; c232; c233; c234; c235; c236; c237; c238; c239; c240; c241; c242; c243; c244; c245; c246; c247; c248; c249; c250; c251; c252; c253; c254; c255; c256; c257; c258; c259; c260; c261; c262; c263; c264; c265; c266; c267; c268; c269; c270; c271; c272; c273; c274; c275; c276; c277; c278; c279; c280; c281; c282; c283; c284; c285; c286; c287; c288; c289; c290; c291; c292; c293; c294; c295; c296; c297; c298; c299; c300; c301; c302; c303; c304; c305; c306; c307; c308; c309; c310; c311; c312; c313; c314; c315; c316; c317; c318; c319; c320; c321; c322; c323; c324; c325; c326; c327; c328; c329; c330; c331; c332; c333; c334; c335; c336; c337; c338; c339; c340; c341; c342; c343; c344; c345; c346; c347; c348; c349; c350; c351; c352; c353; c354; c355; c356; c357; c358; c359; c360; c361; c362; c363; c364; c365; c366; c367; c368; c369; c370; c371; c372; c373; c374; c375; c376; c377; c378; c379; c380; c381; c382; c383; c384; c385; c386; c387; c388; c389; c390; c391; c392; c393; c394; c395; c396; c397; c398; c399; c400; c401; c402; c403; c404; c405; c406; c407; c408; c409; c410; c411; c412; c413; c414; c415; c416; c417; c418; c419; c420; c421; c422; c423; c424; c425; c426; c427; c428; c429; c430; c431; c432; c433; c434; c435; c436; c437; c438; c439; c440; c441; c442; c443; c444; c445; c446; c447; c448; c449; c450; c451; c452; c453; c454; c455; c456; c457; c458; c459; c460; c461; c462; c463; c464; c465; c466; c467; c468; c469; c470; c471; c472; c473; c474; c475; c476; c477; c478; c479; c480; c481; c482; c483; c484; c485; c486; c487; c488; c489; c490; c491; c492; c493; c494; c495; c496; c497; c498; c499; c500; c501; c502; c503; c504; c505; c506; c507; c508; c509; c510; c511; c512].
Eval vm_compute in ("corr_exact"%string, failing (corr_exact) cases).
Eval vm_compute in ("corr_stream"%string, failing (corr_stream) cases).
Eval vm_compute in ("prop_ws"%string, failing (prop_ws) cases).
Eval vm_compute in ("prop_discipline"%string, failing (prop_discipline) cases).
