From Coq Require Import List NArith String.
From V Require Import Base.Util Corr.RunC15.
Import ListNotations. Open Scope string_scope.
Definition c0 : case := (" ", " ").
Definition c1 : case := ("},", "
},
").
Definition c2 : case := (")<", ")<
    ").
Definition c3 : case := (">(", ">(
    ").
Definition c4 : case := ("a{", "a {
    ").
Definition c5 : case := (" a", " a").
Definition c6 : case := ("{}>", " {
    
}>").
Definition c7 : case := ("{))", " {
    ))").
Definition c8 : case := ("{>}", " {
    >
}").
Definition c9 : case := ("{, ", " {
    ,
     ").
Definition c10 : case := ("{ ,", " {
     ,
    ").
Definition c11 : case := ("}}<", "
}
}<
").
Definition c12 : case := ("})(", "
})(
").
Definition c13 : case := ("}>{", "
}> {
").
Definition c14 : case := ("},a", "
},
a").
Definition c15 : case := ("} >", "
} >").
Definition c16 : case := ("(})", "(
})").
Definition c17 : case := ("()}", "()
}").
Definition c18 : case := ("(< ", "(
    <
         ").
Definition c19 : case := ("(,,", "(
    ,
    ,
    ").
Definition c20 : case := ("( <", "(
     <
        ").
Definition c21 : case := (")}(", ")
}(
").
Definition c22 : case := (")){", ")) {
    ").
Definition c23 : case := (")<a", ")<
    a").
Definition c24 : case := ("),>", "),
>").
Definition c25 : case := (") )", ") )").
Definition c26 : case := ("<}}", "<
    
}
}").
Definition c27 : case := ("<( ", "<
    (
         ").
Definition c28 : case := ("<<,", "<
    <
        ,
        ").
Definition c29 : case := ("<,<", "<
    ,
    <
        ").
Definition c30 : case := ("< (", "<
     (
        ").
Definition c31 : case := (">}{", ">
} {
").
Definition c32 : case := (">(a", ">(
    a").
Definition c33 : case := ("><>", "><>").
Definition c34 : case := (">,)", ">,
)").
Definition c35 : case := ("> }", "> 
}").
Definition c36 : case := (",{ ", ",
 {
     ").
Definition c37 : case := (",(,", ",
(
    ,
    ").
Definition c38 : case := (",<<", ",
<
    <
        ").
Definition c39 : case := (",,(", ",
,
(
    ").
Definition c40 : case := (", {", ",
  {
    ").
Definition c41 : case := ("a{a", "a {
    a").
Definition c42 : case := ("a(>", "a(
    >").
Definition c43 : case := ("a<)", "a<
    )").
Definition c44 : case := ("a,}", "a,

}").
Definition c45 : case := ("aa ", "aa ").
Definition c46 : case := (" {,", "  {
    ,
    ").
Definition c47 : case := (" (<", " (
    <
        ").
Definition c48 : case := (" <(", " <
    (
        ").
Definition c49 : case := (" ,{", " ,
 {
    ").
Definition c50 : case := (" aa", " aa").
Definition c51 : case := ("{{{>", " {
     {
         {
            >").
Definition c52 : case := ("{{()", " {
     {
        ()").
Definition c53 : case := ("{{<}", " {
     {
        <
            
        }").
Definition c54 : case := ("{{> ", " {
     {
        > ").
Definition c55 : case := ("{{a,", " {
     {
        a,
        ").
Definition c56 : case := ("{}{<", " {
    
} {
    <
        ").
Definition c57 : case := ("{}((", " {
    
}(
    (
        ").
Definition c58 : case := ("{}<{", " {
    
}<
     {
        ").
Definition c59 : case := ("{}>a", " {
    
}>a").
Definition c60 : case := ("{}a>", " {
    
}a>").
Definition c61 : case := ("{({)", " {
    (
         {
            
        )").
Definition c62 : case := ("{((}", " {
    (
        (
            
        }").
Definition c63 : case := ("{() ", " {
    () ").
Definition c64 : case := ("{(>,", " {
    (
        >,
        ").
Definition c65 : case := ("{(a<", " {
    (
        a<
            ").
Definition c66 : case := ("{){(", " {
    ) {
        (
            ").
Definition c67 : case := ("{)({", " {
    )(
         {
            ").
Definition c68 : case := ("{))a", " {
    ))a").
Definition c69 : case := ("{)>>", " {
    )>>").
Definition c70 : case := ("{)a)", " {
    )a)").
Definition c71 : case := ("{<{}", " {
    <
         {
            
        }").
Definition c72 : case := ("{<} ", " {
    <
        
    } ").
Definition c73 : case := ("{<),", " {
    <
        ),
        ").
Definition c74 : case := ("{<><", " {
    <><
        ").
Definition c75 : case := ("{<a(", " {
    <
        a(
            ").
Definition c76 : case := ("{>{{", " {
    > {
         {
            ").
Definition c77 : case := ("{>}a", " {
    >
}a").
Definition c78 : case := ("{>)>", " {
    >)>").
Definition c79 : case := ("{>>)", " {
    >>)").
Definition c80 : case := ("{>a}", " {
    >a
}").
Definition c81 : case := ("{>  ", " {
    >  ").
Definition c82 : case := ("{,},", " {
    ,
    
},
").
Definition c83 : case := ("{,)<", " {
    ,
    )<
        ").
Definition c84 : case := ("{,>(", " {
    ,
    >(
        ").
Definition c85 : case := ("{,a{", " {
    ,
    a {
        ").
Definition c86 : case := ("{, a", " {
    ,
     a").
Definition c87 : case := ("{a}>", " {
    a
}>").
Definition c88 : case := ("{a))", " {
    a))").
Definition c89 : case := ("{a>}", " {
    a>
}").
Definition c90 : case := ("{a, ", " {
    a,
     ").
Definition c91 : case := ("{a ,", " {
    a ,
    ").
Definition c92 : case := ("{ }<", " {
     
}<
    ").
Definition c93 : case := ("{ )(", " {
     )(
        ").
Definition c94 : case := ("{ >{", " {
     > {
        ").
Definition c95 : case := ("{ ,a", " {
     ,
    a").
Definition c96 : case := ("{  >", " {
      >").
Definition c97 : case := ("}{})", "
} {

})").
Definition c98 : case := ("}{)}", "
} {
)
}").
Definition c99 : case := ("}{< ", "
} {
<
     ").
Definition c100 : case := ("}{,,", "
} {
,
,
").
Definition c101 : case := ("}{ <", "
} {
 <
    ").
Definition c102 : case := ("}}}(", "
}
}
}(
").
Definition c103 : case := ("}}){", "
}
}) {
").
Definition c104 : case := ("}}<a", "
}
}<
a").
Definition c105 : case := ("}},>", "
}
},
>").
Definition c106 : case := ("}} )", "
}
} )").
Definition c107 : case := ("}(}}", "
}(

}
}").
Definition c108 : case := ("}(( ", "
}(
(
     ").
Definition c109 : case := ("}(<,", "
}(
<
    ,
    ").
Definition c110 : case := ("}(,<", "
}(
,
<
    ").
Definition c111 : case := ("}( (", "
}(
 (
    ").
Definition c112 : case := ("})}{", "
})
} {
").
Definition c113 : case := ("})(a", "
})(
a").
Definition c114 : case := ("})<>", "
})<>").
Definition c115 : case := ("}),)", "
}),
)").
Definition c116 : case := ("}) }", "
}) 
}").
Definition c117 : case := ("}<{ ", "
}<
 {
     ").
Definition c118 : case := ("}<(,", "
}<
(
    ,
    ").
Definition c119 : case := ("}<<<", "
}<
<
    <
        ").
Definition c120 : case := ("}<,(", "
}<
,
(
    ").
Definition c121 : case := ("}< {", "
}<
  {
    ").
Definition c122 : case := ("}>{a", "
}> {
a").
Definition c123 : case := ("}>(>", "
}>(
>").
Definition c124 : case := ("}><)", "
}><
)").
Definition c125 : case := ("}>,}", "
}>,

}").
Definition c126 : case := ("}>a ", "
}>a ").
Definition c127 : case := ("},{,", "
},
 {
,
").
Definition c128 : case := ("},(<", "
},
(
<
    ").
Definition c129 : case := ("},<(", "
},
<
(
    ").
Definition c130 : case := ("},,{", "
},
,
 {
").
Definition c131 : case := ("},aa", "
},
aa").
Definition c132 : case := ("}a{>", "
}a {
>").
Definition c133 : case := ("}a()", "
}a()").
Definition c134 : case := ("}a<}", "
}a<

}").
Definition c135 : case := ("}a> ", "
}a> ").
Definition c136 : case := ("}aa,", "
}aa,
").
Definition c137 : case := ("} {<", "
}  {
<
    ").
Definition c138 : case := ("} ((", "
} (
(
    ").
Definition c139 : case := ("} <{", "
} <
 {
    ").
Definition c140 : case := ("} >a", "
} >a").
Definition c141 : case := ("} a>", "
} a>").
Definition c142 : case := ("({{)", "(
     {
         {
            
        )").
Definition c143 : case := ("({(}", "(
     {
        (
            
        }").
Definition c144 : case := ("({) ", "(
     {
        
    ) ").
Definition c145 : case := ("({>,", "(
     {
        >,
        ").
Definition c146 : case := ("({a<", "(
     {
        a<
            ").
Definition c147 : case := ("(}{(", "(
    
} {
    (
        ").
Definition c148 : case := ("(}({", "(
    
}(
     {
        ").
Definition c149 : case := ("(})a", "(
})a").
Definition c150 : case := ("(}>>", "(
    
}>>").
Definition c151 : case := ("(}a)", "(
}a)").
Definition c152 : case := ("(({}", "(
    (
         {
            
        }").
Definition c153 : case := ("((} ", "(
    (
        
    } ").
Definition c154 : case := ("((),", "(
    (),
    ").
Definition c155 : case := ("((><", "(
    (
        ><
            ").
Definition c156 : case := ("((a(", "(
    (
        a(
            ").
Definition c157 : case := ("(){{", "() {
     {
        ").
Definition c158 : case := ("()}a", "()
}a").
Definition c159 : case := ("())>", "())>").
Definition c160 : case := ("()>)", "()>)").
Definition c161 : case := ("()a}", "()a
}").
Definition c162 : case := ("()  ", "()  ").
Definition c163 : case := ("(<},", "(
    <
        
    },
    ").
Definition c164 : case := ("(<)<", "(<
    )<
        ").
Definition c165 : case := ("(<>(", "(
    <>(
        ").
Definition c166 : case := ("(<a{", "(
    <
        a {
            ").
Definition c167 : case := ("(< a", "(
    <
         a").
Definition c168 : case := ("(>}>", "(
    >
}>").
Definition c169 : case := ("(>))", "(>))").
Definition c170 : case := ("(>>}", "(
    >>
}").
Definition c171 : case := ("(>, ", "(
    >,
     ").
Definition c172 : case := ("(> ,", "(
    > ,
    ").
Definition c173 : case := ("(,}<", "(
    ,
    
}<
    ").
Definition c174 : case := ("(,)(", "(, )(
    ").
Definition c175 : case := ("(,>{", "(
    ,
    > {
        ").
Definition c176 : case := ("(,,a", "(
    ,
    ,
    a").
Definition c177 : case := ("(, >", "(
    ,
     >").
Definition c178 : case := ("(a})", "(a
})").
Definition c179 : case := ("(a)}", "(a)
}").
Definition c180 : case := ("(a< ", "(
    a<
         ").
Definition c181 : case := ("(a,,", "(
    a,
    ,
    ").
Definition c182 : case := ("(a <", "(
    a <
        ").
Definition c183 : case := ("( }(", "(
     
}(
    ").
Definition c184 : case := ("( ){", "( ) {
    ").
Definition c185 : case := ("( <a", "(
     <
        a").
Definition c186 : case := ("( ,>", "(
     ,
    >").
Definition c187 : case := ("(  )", "(  )").
Definition c188 : case := ("){}}", ") {
    
}
}").
Definition c189 : case := ("){( ", ") {
    (
         ").
Definition c190 : case := ("){<,", ") {
    <
        ,
        ").
Definition c191 : case := ("){,<", ") {
    ,
    <
        ").
Definition c192 : case := ("){ (", ") {
     (
        ").
Definition c193 : case := (")}}{", ")
}
} {
").
Definition c194 : case := (")}(a", ")
}(
a").
Definition c195 : case := (")}<>", ")
}<>").
Definition c196 : case := (")},)", ")
},
)").
Definition c197 : case := (")} }", ")
} 
}").
Definition c198 : case := (")({ ", ")(
     {
         ").
Definition c199 : case := (")((,", ")(
    (
        ,
        ").
Definition c200 : case := (")(<<", ")(
    <
        <
            ").
Definition c201 : case := (")(,(", ")(
    ,
    (
        ").
Definition c202 : case := (")( {", ")(
      {
        ").
Definition c203 : case := (")){a", ")) {
    a").
Definition c204 : case := ("))(>", "))(
    >").
Definition c205 : case := ("))<)", "))<
    )").
Definition c206 : case := (")),}", ")),

}").
Definition c207 : case := ("))a ", "))a ").
Definition c208 : case := (")<{,", ")<
     {
        ,
        ").
Definition c209 : case := (")<(<", ")<
    (
        <
            ").
Definition c210 : case := (")<<(", ")<
    <
        (
            ").
Definition c211 : case := (")<,{", ")<
    ,
     {
        ").
Definition c212 : case := (")<aa", ")<
    aa").
Definition c213 : case := (")>{>", ")> {
    >").
Definition c214 : case := (")>()", ")>()").
Definition c215 : case := (")><}", ")><
    
}").
Definition c216 : case := (")>> ", ")>> ").
Definition c217 : case := (")>a,", ")>a,
").
Definition c218 : case := ("),{<", "),
 {
    <
        ").
Definition c219 : case := ("),((", "),
(
    (
        ").
Definition c220 : case := ("),<{", "),
<
     {
        ").
Definition c221 : case := ("),>a", "),
>a").
Definition c222 : case := ("),a>", "),
a>").
Definition c223 : case := (")a{)", ")a {
    )").
Definition c224 : case := (")a(}", ")a(
    
}").
Definition c225 : case := (")a) ", ")a) ").
Definition c226 : case := (")a>,", ")a>,
").
Definition c227 : case := (")aa<", ")aa<
    ").
Definition c228 : case := (") {(", ")  {
    (
        ").
Definition c229 : case := (") ({", ") (
     {
        ").
Definition c230 : case := (") )a", ") )a").
Definition c231 : case := (") >>", ") >>").
Definition c232 : case := (") a)", ") a)").
Definition c233 : case := ("<{{}", "<
     {
         {
            
        }").
Definition c234 : case := ("<{} ", "<
     {
        
    } ").
Definition c235 : case := ("<{),", "<
     {
        ),
        ").
Definition c236 : case := ("<{><", "<
     {
        
    ><
        ").
Definition c237 : case := ("<{a(", "<
     {
        a(
            ").
Definition c238 : case := ("<}{{", "<
    
} {
     {
        ").
Definition c239 : case := ("<}}a", "<
    
}
}a").
Definition c240 : case := ("<})>", "<
})>").
Definition c241 : case := ("<}>)", "<
}>)").
Definition c242 : case := ("<}a}", "<
    
}a
}").
Definition c243 : case := ("<}  ", "<
    
}  ").
Definition c244 : case := ("<(},", "<
    (
        
    },
    ").
Definition c245 : case := ("<()<", "<
    ()<
        ").
Definition c246 : case := ("<(>(", "<(
    >(
        ").
Definition c247 : case := ("<(a{", "<
    (
        a {
            ").
Definition c248 : case := ("<( a", "<
    (
         a").
Definition c249 : case := ("<)}>", "<)
}>").
Definition c250 : case := ("<)))", "<
    )))").
Definition c251 : case := ("<)>}", "<)>
}").
Definition c252 : case := ("<), ", "<
    ),
     ").
Definition c253 : case := ("<) ,", "<
    ) ,
    ").
Definition c254 : case := ("<<}<", "<
    <
        
    }<
        ").
Definition c255 : case := ("<<)(", "<
    <
        )(
            ").
Definition c256 : case := ("<<>{", "<
    <> {
        ").
Definition c257 : case := ("<<,a", "<
    <
        ,
        a").
Definition c258 : case := ("<< >", "<
    < >").
Definition c259 : case := ("<>})", "<>
})").
Definition c260 : case := ("<>)}", "<>)
}").
Definition c261 : case := ("<>< ", "<><
     ").
Definition c262 : case := ("<>,,", "<>,
,
").
Definition c263 : case := ("<> <", "<> <
    ").
Definition c264 : case := ("<,}(", "<
    ,
    
}(
    ").
Definition c265 : case := ("<,){", "<
    ,
    ) {
        ").
Definition c266 : case := ("<,<a", "<
    ,
    <
        a").
Definition c267 : case := ("<,,>", "<,
,
>").
Definition c268 : case := ("<, )", "<
    ,
     )").
Definition c269 : case := ("<a}}", "<
    a
}
}").
Definition c270 : case := ("<a( ", "<
    a(
         ").
Definition c271 : case := ("<a<,", "<
    a<
        ,
        ").
Definition c272 : case := ("<a,<", "<
    a,
    <
        ").
Definition c273 : case := ("<a (", "<
    a (
        ").
Definition c274 : case := ("< }{", "<
     
} {
    ").
Definition c275 : case := ("< (a", "<
     (
        a").
Definition c276 : case := ("< <>", "<
     <>").
Definition c277 : case := ("< ,)", "<
     ,
    )").
Definition c278 : case := ("<  }", "<
      
}").
Definition c279 : case := (">{{ ", "> {
     {
         ").
Definition c280 : case := (">{(,", "> {
    (
        ,
        ").
Definition c281 : case := (">{<<", "> {
    <
        <
            ").
Definition c282 : case := (">{,(", "> {
    ,
    (
        ").
Definition c283 : case := (">{ {", "> {
      {
        ").
Definition c284 : case := (">}{a", ">
} {
a").
Definition c285 : case := (">}(>", ">
}(
>").
Definition c286 : case := (">}<)", ">
}<
)").
Definition c287 : case := (">},}", ">
},

}").
Definition c288 : case := (">}a ", ">
}a ").
Definition c289 : case := (">({,", ">(
     {
        ,
        ").
Definition c290 : case := (">((<", ">(
    (
        <
            ").
Definition c291 : case := (">(<(", ">(
    <
        (
            ").
Definition c292 : case := (">(,{", ">(
    ,
     {
        ").
Definition c293 : case := (">(aa", ">(
    aa").
Definition c294 : case := (">){>", ">) {
    >").
Definition c295 : case := (">)()", ">)()").
Definition c296 : case := (">)<}", ">)<
    
}").
Definition c297 : case := (">)> ", ">)> ").
Definition c298 : case := (">)a,", ">)a,
").
Definition c299 : case := ("><{<", "><
     {
        <
            ").
Definition c300 : case := ("><((", "><
    (
        (
            ").
Definition c301 : case := ("><<{", "><
    <
         {
            ").
Definition c302 : case := ("><>a", "><>a").
Definition c303 : case := ("><a>", "><a>").
Definition c304 : case := (">>{)", ">> {
    )").
Definition c305 : case := (">>(}", ">>(
    
}").
Definition c306 : case := (">>) ", ">>) ").
Definition c307 : case := (">>>,", ">>>,
").
Definition c308 : case := (">>a<", ">>a<
    ").
Definition c309 : case := (">,{(", ">,
 {
    (
        ").
Definition c310 : case := (">,({", ">,
(
     {
        ").
Definition c311 : case := (">,)a", ">,
)a").
Definition c312 : case := (">,>>", ">,
>>").
Definition c313 : case := (">,a)", ">,
a)").
Definition c314 : case := (">a{}", ">a {
    
}").
Definition c315 : case := (">a} ", ">a
} ").
Definition c316 : case := (">a),", ">a),
").
Definition c317 : case := (">a><", ">a><
    ").
Definition c318 : case := (">aa(", ">aa(
    ").
Definition c319 : case := ("> {{", ">  {
     {
        ").
Definition c320 : case := ("> }a", "> 
}a").
Definition c321 : case := ("> )>", "> )>").
Definition c322 : case := ("> >)", "> >)").
Definition c323 : case := ("> a}", "> a
}").
Definition c324 : case := (">   ", ">   ").
Definition c325 : case := (",{},", ",
 {
    
},
").
Definition c326 : case := (",{)<", ",
 {
    )<
        ").
Definition c327 : case := (",{>(", ",
 {
    >(
        ").
Definition c328 : case := (",{a{", ",
 {
    a {
        ").
Definition c329 : case := (",{ a", ",
 {
     a").
Definition c330 : case := (",}}>", ",

}
}>").
Definition c331 : case := (",}))", ",

}))").
Definition c332 : case := (",}>}", ",

}>
}").
Definition c333 : case := (",}, ", ",

},
 ").
Definition c334 : case := (",} ,", ",

} ,
").
Definition c335 : case := (",(}<", ",
(
    
}<
    ").
Definition c336 : case := (",()(", ",
()(
    ").
Definition c337 : case := (",(>{", ",
(
    > {
        ").
Definition c338 : case := (",(,a", ",
(
    ,
    a").
Definition c339 : case := (",( >", ",
(
     >").
Definition c340 : case := (",)})", ",
)
})").
Definition c341 : case := (",))}", ",
))
}").
Definition c342 : case := (",)< ", ",
)<
     ").
Definition c343 : case := (",),,", ",
),
,
").
Definition c344 : case := (",) <", ",
) <
    ").
Definition c345 : case := (",<}(", ",
<
    
}(
    ").
Definition c346 : case := (",<){", ",
<
    ) {
        ").
Definition c347 : case := (",<<a", ",
<
    <
        a").
Definition c348 : case := (",<,>", ",
<,
>").
Definition c349 : case := (",< )", ",
<
     )").
Definition c350 : case := (",>}}", ",
>
}
}").
Definition c351 : case := (",>( ", ",
>(
     ").
Definition c352 : case := (",><,", ",
><
    ,
    ").
Definition c353 : case := (",>,<", ",
>,
<
    ").
Definition c354 : case := (",> (", ",
> (
    ").
Definition c355 : case := (",,}{", ",
,

} {
").
Definition c356 : case := (",,(a", ",
,
(
    a").
Definition c357 : case := (",,<>", ",
,
<>").
Definition c358 : case := (",,,)", ",
,
,
)").
Definition c359 : case := (",, }", ",
,
 
}").
Definition c360 : case := (",a{ ", ",
a {
     ").
Definition c361 : case := (",a(,", ",
a(
    ,
    ").
Definition c362 : case := (",a<<", ",
a<
    <
        ").
Definition c363 : case := (",a,(", ",
a,
(
    ").
Definition c364 : case := (",a {", ",
a  {
    ").
Definition c365 : case := (", {a", ",
  {
    a").
Definition c366 : case := (", (>", ",
 (
    >").
Definition c367 : case := (", <)", ",
 <
    )").
Definition c368 : case := (", ,}", ",
 ,

}").
Definition c369 : case := (", a ", ",
 a ").
Definition c370 : case := ("a{{,", "a {
     {
        ,
        ").
Definition c371 : case := ("a{(<", "a {
    (
        <
            ").
Definition c372 : case := ("a{<(", "a {
    <
        (
            ").
Definition c373 : case := ("a{,{", "a {
    ,
     {
        ").
Definition c374 : case := ("a{aa", "a {
    aa").
Definition c375 : case := ("a}{>", "a
} {
>").
Definition c376 : case := ("a}()", "a
}()").
Definition c377 : case := ("a}<}", "a
}<

}").
Definition c378 : case := ("a}> ", "a
}> ").
Definition c379 : case := ("a}a,", "a
}a,
").
Definition c380 : case := ("a({<", "a(
     {
        <
            ").
Definition c381 : case := ("a(((", "a(
    (
        (
            ").
Definition c382 : case := ("a(<{", "a(
    <
         {
            ").
Definition c383 : case := ("a(>a", "a(
    >a").
Definition c384 : case := ("a(a>", "a(
    a>").
Definition c385 : case := ("a){)", "a) {
    )").
Definition c386 : case := ("a)(}", "a)(
    
}").
Definition c387 : case := ("a)) ", "a)) ").
Definition c388 : case := ("a)>,", "a)>,
").
Definition c389 : case := ("a)a<", "a)a<
    ").
Definition c390 : case := ("a<{(", "a<
     {
        (
            ").
Definition c391 : case := ("a<({", "a<
    (
         {
            ").
Definition c392 : case := ("a<)a", "a<
    )a").
Definition c393 : case := ("a<>>", "a<>>").
Definition c394 : case := ("a<a)", "a<
    a)").
Definition c395 : case := ("a>{}", "a> {
    
}").
Definition c396 : case := ("a>} ", "a>
} ").
Definition c397 : case := ("a>),", "a>),
").
Definition c398 : case := ("a>><", "a>><
    ").
Definition c399 : case := ("a>a(", "a>a(
    ").
Definition c400 : case := ("a,{{", "a,
 {
     {
        ").
Definition c401 : case := ("a,}a", "a,

}a").
Definition c402 : case := ("a,)>", "a,
)>").
Definition c403 : case := ("a,>)", "a,
>)").
Definition c404 : case := ("a,a}", "a,
a
}").
Definition c405 : case := ("a,  ", "a,
  ").
Definition c406 : case := ("aa},", "aa
},
").
Definition c407 : case := ("aa)<", "aa)<
    ").
Definition c408 : case := ("aa>(", "aa>(
    ").
Definition c409 : case := ("aaa{", "aaa {
    ").
Definition c410 : case := ("aa a", "aa a").
Definition c411 : case := ("a }>", "a 
}>").
Definition c412 : case := ("a ))", "a ))").
Definition c413 : case := ("a >}", "a >
}").
Definition c414 : case := ("a , ", "a ,
 ").
Definition c415 : case := ("a  ,", "a  ,
").
Definition c416 : case := (" {}<", "  {
    
}<
    ").
Definition c417 : case := (" {)(", "  {
    )(
        ").
Definition c418 : case := (" {>{", "  {
    > {
        ").
Definition c419 : case := (" {,a", "  {
    ,
    a").
Definition c420 : case := (" { >", "  {
     >").
Definition c421 : case := (" }})", " 
}
})").
Definition c422 : case := (" })}", " 
})
}").
Definition c423 : case := (" }< ", " 
}<
 ").
Definition c424 : case := (" },,", " 
},
,
").
Definition c425 : case := (" } <", " 
} <
").
Definition c426 : case := (" (}(", " (
    
}(
    ").
Definition c427 : case := (" (){", " () {
    ").
Definition c428 : case := (" (<a", " (
    <
        a").
Definition c429 : case := (" (,>", " (
    ,
    >").
Definition c430 : case := (" ( )", " ( )").
Definition c431 : case := (" )}}", " )
}
}").
Definition c432 : case := (" )( ", " )(
     ").
Definition c433 : case := (" )<,", " )<
    ,
    ").
Definition c434 : case := (" ),<", " ),
<
    ").
Definition c435 : case := (" ) (", " ) (
    ").
Definition c436 : case := (" <}{", " <
    
} {
    ").
Definition c437 : case := (" <(a", " <
    (
        a").
Definition c438 : case := (" <<>", " <
    <>").
Definition c439 : case := (" <,)", " <
    ,
    )").
Definition c440 : case := (" < }", " <
     
}").
Definition c441 : case := (" >{ ", " > {
     ").
Definition c442 : case := (" >(,", " >(
    ,
    ").
Definition c443 : case := (" ><<", " ><
    <
        ").
Definition c444 : case := (" >,(", " >,
(
    ").
Definition c445 : case := (" > {", " >  {
    ").
Definition c446 : case := (" ,{a", " ,
 {
    a").
Definition c447 : case := (" ,(>", " ,
(
    >").
Definition c448 : case := (" ,<)", " ,
<
    )").
Definition c449 : case := (" ,,}", " ,
,

}").
Definition c450 : case := (" ,a ", " ,
a ").
Definition c451 : case := (" a{,", " a {
    ,
    ").
Definition c452 : case := (" a(<", " a(
    <
        ").
Definition c453 : case := (" a<(", " a<
    (
        ").
Definition c454 : case := (" a,{", " a,
 {
    ").
Definition c455 : case := (" aaa", " aaa").
Definition c456 : case := ("  {>", "   {
    >").
Definition c457 : case := ("  ()", "  ()").
Definition c458 : case := ("  <}", "  <
    
}").
Definition c459 : case := ("  > ", "  > ").
Definition c460 : case := ("  a,", "  a,
").
Definition c461 : case := ("(((a),bab,aaaéaéa,ééaaébb)}", "(
    ((a), bab, aaaéaéa, ééaaébb)
}").
Definition c462 : case := ("((a)abbébéaabéé,aébb,ébaéab,a,,,,éaébébb)}", "(
    (a)abbébéaabéé,
    aébb,
    ébaéab,
    a,
    ,
    ,
    ,
    éaébébb
)
}").
Definition c463 : case := ("((abé,,ébbabbé,é,,bbaébéébbba,,)}", "(
    (abé, , ébbabbé, é, , bbaébéébbba, , )
}").
Definition c464 : case := ("a<<a>,é,é,a,éa,aabé,a>", "a<<a>,
é,
é,
a,
éa,
aabé,
a>").
Definition c465 : case := ("((é,é,a,aa,abb,é,aéé,ba,aa,,,ébéaébéa),a", "(
    (
        é,
        é,
        a,
        aa,
        abb,
        é,
        aéé,
        ba,
        aa,
        ,
        ,
        ébéaébéa
    ),
    a").
Definition c466 : case := (";[b88aa;,((x88,{}),[bb]::888,({][;;a,:[88;,b[,];:]]ab][,<(xa,<[]b8,b;[x:[[:,u>,x[]8x8;),aa:]:a,[a;[x]a:]ax,bx]ab[[[>},<(ab;]];b[ax:,[[aa8x;,(xa8x:b:];a8,[,;xx]88ab8;]:))>))", ";[b88aa;,
(
    (
        x88,
         {
            
        }
    ),
    [bb]::888,
    (
         {
            ][;;a,
            :[88;,
            b[,
            ];:]]ab][,
            <
                (xa, <[]b8, b;[x:[[:, u>, x[]8x8;),
                aa:]:a,
                [a;[x]a:]ax,
                bx]ab[[[
            >
        },
        <
            (
                ab;]];b[ax:,
                [[aa8x;,
                (xa8x:b:];a8, [, ;xx]88ab8;]:)
            )
        >
    )
)").
Definition c467 : case := ("<{b::x]],{<;b[b;];b,{a8:b:b;;]]]],:]],]a,<]axa];],:[>,a8},{{bbbx:x[[[,u,u}}>}}>", "<
     {
        b::x]],
         {
            <
                ;b[b;];b,
                 {
                    a8:b:b;;]]]],
                    :]],
                    ]a,
                    <]axa];],
                    :[>,
                    a8
                },
                 {
                     {
                        bbbx:x[[[,
                        u,
                        u
                    }
                }
            >
        }
    }
>").
Definition c468 : case := ("<{<{},[8]xa[,{(b[;baa][8a,:xbbxx:aa;8,a8,{][b[8,u,:b}),({:a,:]bx;,x[:})}>},a][b[;,],[x8::a:>", "<
     {
        <
             {
                
            },
            [8]xa[,
             {
                (
                    b[;baa][8a,
                    :xbbxx:aa;8,
                    a8,
                     {
                        ][b[8,
                        u,
                        :b
                    }
                ),
                (
                     {
                        :a,
                        :]bx;,
                        x[:
                    }
                )
            }
        >
    },
    a][b[;,
    ],
    [x8::a:
>").
Definition c469 : case := ("a;xx,:[]:,<>", "a;xx,
:[]:,
<>").
Definition c470 : case := ("({},{})", "(
     {
        
    },
     {
        
    }
)").
Definition c471 : case := ("88x]b,{8;;x]xbb},({},ax:8x:x]]b,[:x]],]88x;xb[b[)", "88x]b,
 {
    8;;x]xbb
},
(
     {
        
    },
    ax:8x:x]]b,
    [:x]],
    ]88x;xb[b[
)").
Definition c472 : case := ("8:8;8:,a[:];,;;bb", "8:8;8:,
a[:];,
;;bb").
Definition c473 : case := ("<[,x:a][;],[,(({(),{abaaba]8:;b,(]ba;::8]a][x)}}))>", "<
    [,
    x:a][;],
    [,
    (
        (
             {
                (),
                 {
                    abaaba]8:;b,
                    (]ba;::8]a][x)
                }
            }
        )
    )
>").
Definition c474 : case := ("<<;[;;;[,ba[,({;xbb::[8;},;b[,b),<]a8a:[[8,<((:;[:[:))>>>>", "<
    <
        ;[;;;[,
        ba[,
        (
             {
                ;xbb::[8;
            },
            ;b[,
            b
        ),
        <]a8a:[[8,
        <((:;[:[:))>>
    >
>").
Definition c475 : case := ("<(((][:]bx:8,8:];[,(a8abb]b]]]x,<>),{<u>}),aax;]:;8b[a,a[a;x[]b;ba))>", "<
    (
        (
            (
                ][:]bx:8,
                8:];[,
                (a8abb]b]]]x, <>),
                 {
                    <u>
                }
            ),
            aax;]:;8b[a,
            a[a;x[]b;ba
        )
    )
>").
Definition c476 : case := ("(<b;:bx,:a,a]:x88a:;a,<<({u,xxx8[x;;8b[})>>>)", "(
    <
        b;:bx,
        :a,
        a]:x88a:;a,
        <
            <
                (
                     {
                        u,
                        xxx8[x;;8b[
                    }
                )
            >
        >
    >
)").
Definition c477 : case := ("({{<([[x:]b,{]8:;xx,u,u,u,x[;8x},(;8[[x),<u>),]x,({u,u,u,u},{},xx:;;)>},(x;8]:,(),axb][8[b,:[]:[]bxaba;,(::,(<>,]];;]aa:b)))})", "(
     {
         {
            <
                (
                    [[x:]b,
                     {
                        ]8:;xx,
                        u,
                        u,
                        u,
                        x[;8x
                    },
                    (;8[[x),
                    <u>
                ),
                ]x,
                (
                     {
                        u,
                        u,
                        u,
                        u
                    },
                     {
                        
                    },
                    xx:;;
                )
            >
        },
        (
            x;8]:,
            (),
            axb][8[b,
            :[]:[]bxaba;,
            (::, (<>, ]];;]aa:b))
        )
    }
)").
Definition c478 : case := ("8a]", "8a]").
Definition c479 : case := ("<{(<b;b[[a][>,(<;,{},(b),{ab::x,u,u}>,{:][8x]}),bxba8][8]8,(),<[:]b[[[a8]xa,(())>)}>", "<
     {
        (
            <b;b[[a][>,
            (
                <
                    ;,
                     {
                        
                    },
                    (b),
                     {
                        ab::x,
                        u,
                        u
                    }
                >,
                 {
                    :][8x]
                }
            ),
            bxba8][8]8,
            (),
            <[:]b[[[a8]xa,
            (())>
        )
    }
>").
Definition c480 : case := ("{<({:x;x;,({[]:]]];[[:]})})>}", " {
    <
        (
             {
                :x;x;,
                (
                     {
                        []:]]];[[:]
                    }
                )
            }
        )
    >
}").
Definition c481 : case := ("{{(bab8;]8a;,[:b]b[b8bb]x,::bb[b[,{{88a8,8x]b8,{u,u},{bxa]8x,u,8x:[x]:a},8},<xb[]bbax:[,{u,baa];,8[;ba:a]]x:],[;a,u},{x,u,;]]]8:,:,u},<u,:;:>,{u}>}),;a},a,()}", " {
     {
        (
            bab8;]8a;,
            [:b]b[b8bb]x,
            ::bb[b[,
             {
                 {
                    88a8,
                    8x]b8,
                     {
                        u,
                        u
                    },
                     {
                        bxa]8x,
                        u,
                        8x:[x]:a
                    },
                    8
                },
                <
                    xb[]bbax:[,
                     {
                        u,
                        baa];,
                        8[;ba:a]]x:],
                        [;a,
                        u
                    },
                     {
                        x,
                        u,
                        ;]]]8:,
                        :,
                        u
                    },
                    <u,
                    :;:>,
                     {
                        u
                    }
                >
            }
        ),
        ;a
    },
    a,
    ()
}").
Definition c482 : case := ("{<{<{(u,[8]x;:x:::b,u,u)},{8;8;,8bba[:;,(:,:;888:]),]888xa[;8[],:xa::;b:]},(x:]),<()>,]]aax]>,{()}}>}", " {
    <
         {
            <
                 {
                    (u, [8]x;:x:::b, u, u)
                },
                 {
                    8;8;,
                    8bba[:;,
                    (:, :;888:]),
                    ]888xa[;8[],
                    :xa::;b:]
                },
                (x:]),
                <()>,
                ]]aax]
            >,
             {
                ()
            }
        }
    >
}").
Definition c483 : case := ("{<:x];a;,(<a[a]b,8;>,((bxbb[b,<u>,x;8b;]]:b:,(u,u,u,[;[bxaa]][;],u),(u,u,u,u)),{:::b::[:];[}))>}", " {
    <
        :x];a;,
        (
            <a[a]b,
            8;>,
            (
                (
                    bxbb[b,
                    <u>,
                    x;8b;]]:b:,
                    (u, u, u, [;[bxaa]][;], u),
                    (u, u, u, u)
                ),
                 {
                    :::b::[:];[
                }
            )
        )
    >
}").
Definition c484 : case := ("aax;]ab8::]", "aax;]ab8::]").
Definition c485 : case := ("a[88;a,];b]8bx,xbb;ab,a,]8]a:[bx", "a[88;a,
];b]8bx,
xbb;ab,
a,
]8]a:[bx").
Definition c486 : case := ("({x]:x;b,8[aax;]x[],<>,<<[[,:x:x;:x:]a;8>>},(:bb]:,a8:;;:bx[xxb)),{:[xa8:[;][[],{b;8;x},ab8,b];[bb[x},[x[8],;8x:x],[;8[:aa]8", "(
     {
        x]:x;b,
        8[aax;]x[],
        <>,
        <<[[,
        :x:x;:x:]a;8>>
    },
    (:bb]:, a8:;;:bx[xxb)
),
 {
    :[xa8:[;][[],
     {
        b;8;x
    },
    ab8,
    b];[bb[x
},
[x[8],
;8x:x],
[;8[:aa]8").
Definition c487 : case := (":a;b;,[ba", ":a;b;,
[ba").
Definition c488 : case := ("(8b8aa;)", "(8b8aa;)").
Definition c489 : case := ("[x[]]a:xbx,((;]]8;))", "[x[]]a:xbx,
((;]]8;))").
Definition c490 : case := ("{(),<<<{{},(),xa[8b8[]a[[,(u,u,a[:a::x:,])},:8a:x>,(<xab8;a:[;x,[8,{u,u,u,[]xb}>)>,x[b[]>},x[x,::[,{},<{(({(:x],u,[:8bx8,u),{u,u,u,u},{u,u,u}},<{u,a:xbab;baab}>,:;a8;x:]a8][))}>", " {
    (),
    <
        <
            <
                 {
                     {
                        
                    },
                    (),
                    xa[8b8[]a[[,
                    (u, u, a[:a::x:, ])
                },
                :8a:x
            >,
            (
                <
                    xab8;a:[;x,
                    [8,
                     {
                        u,
                        u,
                        u,
                        []xb
                    }
                >
            )
        >,
        x[b[]
    >
},
x[x,
::[,
 {
    
},
<
     {
        (
            (
                 {
                    (:x], u, [:8bx8, u),
                     {
                        u,
                        u,
                        u,
                        u
                    },
                     {
                        u,
                        u,
                        u
                    }
                },
                <
                     {
                        u,
                        a:xbab;baab
                    }
                >,
                :;a8;x:]a8][
            )
        )
    }
>").
Definition c491 : case := ("
;é<:>a;	", "
;é<:>a;	").
Definition c492 : case := ("b
𝄞
é{	𝄞])€;]{);[}}<);{;	€[]𝄞𝄞<<<aa:é	{([bé
 [
𝄞]: 𝄞}a;})<:
:,{>;𝄞𝄞a)ZZ>€Z
:>é:(> Z][
[<; a b){𝄞Z
:{]Z(>	a[]€})	)<	é;bé[<b,]},
>aé ]{,,{{𝄞
(
 <", "b
𝄞
é {
    	𝄞])€;] {
        );[
    }
}<
    ); {
        ;	€[]𝄞𝄞<
            <
                <
                    aa:é	 {
                        ([bé
 [
𝄞]: 𝄞
                    }a;
                })<
                    :
:,
                     {
                        
                    >;𝄞𝄞a)ZZ
                >€Z
:
            >é:(
        > Z][
[<
            ; a b) {
                𝄞Z
: {
                    ]Z(
                >	a[]€
            })	)<
                	é;bé[<b,
                ]
            },
            
>aé ] {
                ,
                ,
                 {
                     {
                        𝄞
(
                            
 <
                                ").
Definition c493 : case := (">[ZZb	Z[Zb<>[){𝄞𝄞é	𝄞):[Z[><(}aé𝄞b: {€]{€:𝄞(a 	<bZ;𝄞<[é;}<
 <é)>{):, ;Z})€:
a{<€[€}][]}€é𝄞{])𝄞[	€<
Zb}𝄞]
<[()[)};{𝄞	<:
>(;>(>Za	€>ééb(]𝄞,€ €	é:}€	;;:](b,)Z €
a,[ 	{
aZ€,>:bZ𝄞<{,}𝄞𝄞é
;<::(;({<€é)]é },a[é€<{;𝄞]b,a]}	>€,:<ééb) b([aZa{(),𝄞	](;;
b
}:>,:
(:<é(é	[ b
}<€>é)	]:]éb)aa;}{,Za€𝄞:	é;{b))", ">[ZZb	Z[Zb<>[) {
    𝄞𝄞é	𝄞):[Z[><
        (
            
        }aé𝄞b:  {
            €] {
                €:𝄞(a 	<
                    bZ;𝄞<
                        [é;
                    }<
                        
 <é)> {
                            
                        ):,
                         ;Z
                    })€:
a {
                        <
                            €[€
                        }][]
                    }€é𝄞 {
                        ])𝄞[	€<
                            
Zb
                        }𝄞]
<
                            [()[)
                        }; {
                            𝄞	<:
>(
                                ;
                            >(
                                
                            >Za	€
                        >ééb(
                            ]𝄞,
                            € €	é:
                        }€	;;:](b, )Z €
a,
                        [ 	 {
                            
aZ€,
                            
                        >:bZ𝄞<
                             {
                                ,
                                
                            }𝄞𝄞é
;<
                                ::(
                                    ;(
                                         {
                                            <
                                                €é
                                            )]é 
                                        },
                                        a[é€<
                                             {
                                                ;𝄞]b,
                                                a]
                                            }	
                                        >€,
                                        :<
                                            ééb
                                        ) b(
                                            [aZa {
                                                (),
                                                𝄞	](
                                                    ;;
b

                                                }:
                                            >,
                                            :
(:<
                                                é(é	[ b

                                            }<€>é)	]:]éb)aa;
                                        } {
                                            ,
                                            Za€𝄞:	é; {
                                                b
                                            )
                                        )").
Definition c494 : case := (":}(	b(}b: (𝄞;;
;]}{€aé€[[
}
:;)<€€	𝄞b,	,	𝄞é>>[;	éb(<()]
 𝄞}
(;)  :Z}𝄞: >é€(a:é:[[Z[𝄞),,{)a 	){)	ééZ
€<}b}>]:a,€,[[{)a𝄞[(]b]b;] {}):,)[;;
]},𝄞:>	(
:€]<aZ,)}	}	(; aa:𝄞}: (a[𝄞é	 <,;b[€€b:]€;;}]", ":
}(
	b(
    
}b: (
    𝄞;;
;]
} {
    €aé€[[

}
:;
)<€€	𝄞b,
	,
	𝄞é>>[;	éb(
<()]
 𝄞
}
(;)  :Z
}𝄞: >é€(a:é:[[Z[𝄞),
,
 {

)a 	
) {

)	ééZ
€<
}b
}>]:a,
€,
[[ {
)a𝄞[(
]b]b;]  {

}
):,
)[;;
]
},
𝄞:>	(
:€]<
aZ, )
}	
}	(
; aa:𝄞
}: (
a[𝄞é	 <
,
;b[€€b:]€;;
}]").
Definition c495 : case := ("]b;{;€𝄞a]b<𝄞< é<𝄞 €	€; )𝄞)	[𝄞b( }𝄞;𝄞>é𝄞<;<]<]b(;𝄞}Z(", "]b; {
    ;€𝄞a]b<
        𝄞<
             é<𝄞 €	€; )𝄞)	[𝄞b(
                 
            }𝄞;𝄞>é𝄞<
                ;<
                    ]<
                        ]b(
                            ;𝄞
                        }Z(
                            ").
Definition c496 : case := ("<:€𝄞𝄞(", "<
    :€𝄞𝄞(
        ").
Definition c497 : case := (":a
é{(>𝄞)€ ,,,	 [(bé{{a[(a𝄞€]Z
{}) ,}<;;a( ;b,::;é𝄞 (a	𝄞:])
:<{a);>𝄞:: ;	<𝄞]ba<", ":a
é {
    (>𝄞)€ ,
    ,
    ,
    	 [(
        bé {
             {
                a[(
                    a𝄞€]Z
 {
                        
                    }
                ) ,
                
            }<
                ;;a(
                     ;b,
                    ::;é𝄞 (a	𝄞:])
:<
                         {
                            a
                        );
                    >𝄞:: ;	<
                        𝄞]ba<
                            ").
Definition c498 : case := (")
(𝄞<b	 éb)é
a<baZ	: [a
>]:;}b;Zé 𝄞	: a

𝄞€a[b	a(ba)][:
>;) }é𝄞}[	<]], >Z(}]];{Z );€,€<<}{;}€a 𝄞)𝄞	é  
>  <€b]Z}})<a𝄞Z]:	𝄞éb	aa [[{(:]:}€b{		𝄞>](:,]a>]𝄞é:;é:>€ a: ;éZ[<><", ")
(𝄞<
    b	 éb)é
a<baZ	: [a
>]:;
}b;Zé 𝄞	: a

𝄞€a[b	a(ba)][:

>;) 
}é𝄞
}[	<]],
 >Z(

}]]; {
Z 
);€,
€<
<

} {
;
}€a 𝄞)𝄞	é  

>  <
€b]Z
}
})<
a𝄞Z]:	𝄞éb	aa [[ {
(
:]:
}€b {
		𝄞
>](
:,
]a
>]𝄞é:;é:
>€ a: ;éZ[<><
").
Definition c499 : case := (">(bZ>𝄞	:{>€€ (
𝄞bZ
[b ];a]<𝄞bé€a;:𝄞;	Z<{
>é]a 𝄞[[a>)Z::é[b([	) <>
;é<é(b)}] a
b€Z;]€([<:(} €a,;[<é  }}		;𝄞<;]a : (:Z,𝄞):({:][
	𝄞€(ba>é)>Zb(b)
b𝄞}]é<)]𝄞€
b,}]a
,{)𝄞)a	a>€:},)}{a{)	{ ;[<é<;€})}
		a}}){[)]}((:	;,
>]𝄞)<a]bé(𝄞:,<>b}	é>	>,𝄞:{{[Z}[:)𝄞 ,)<b{(; 	a		€>()€Zb([>:<}

{", ">(
    bZ>𝄞	: {
        >€€ (
            
𝄞bZ
[b ];a]<
                𝄞bé€a;:𝄞;	Z<
                     {
                        

                    >é]a 𝄞[[a
                >
            )Z::é[b([	) <>
;é<
                é(b)
            }] a
b€Z;]€(
                [<
                    :(
                        
                    } €a,
                    ;[<
                        é  
                    }
                }		;𝄞<
                    ;]a : (:Z, 𝄞):(
                         {
                            :][
	𝄞€(ba
                        >é)
                    >Zb(b)
b𝄞
                }]é<
                    
                )]𝄞€
b,
                
            }]a
,
             {
                
            )𝄞
        )a	a
    >€:
},

)
} {
a {
)	 {
     ;[<
        é<
            ;€
        })
    }
		a
}
}) {
[)]
}(
(:	;, 

>]𝄞)<a]bé(
𝄞:,
<>b
}	é>	
>,
𝄞: {
 {
[Z
}[:
)𝄞 ,

)<
b {
(
; 	a		€
>()€Zb(
[
>:<

}

 {
").
Definition c500 : case := ("Z

;;[Z,
}𝄞
 >{:€,Z𝄞(::[}>,b é[ab]€{€,b
>, ];bZ
>,)a𝄞({;b:	)]€}]€{[<	
];]
bZZé{:{<]€{€é𝄞})
[{[ a€€>,;>}𝄞aa){<éa
])[a<[{{		>((}𝄞
{Z,;Z({(]:{a
b >[ {
bZ>}
𝄞,[<({b  𝄞aé<	))})b}
:	é})]}:]>Z<a[:é𝄞(,}]b𝄞>(],[€[a)  𝄞
:bé<>b;>>,( :
b>Zé𝄞(<:)éb;(<]]{ , ", "Z

;;[Z,


}𝄞
 > {
:€,
Z𝄞(
    ::[
}>,
b é[ab]€ {
    €,
    b
>,
     ];bZ
>,
    
)a𝄞(
     {
        ;b:	
    )]€
}]€ {
    [<
        	
];]
bZZé {
            : {
                <
                    ]€ {
                        €é𝄞
                    })
[ {
                        [ a€€
                    >,
                    ;
                >
            }𝄞aa) {
                <
                    éa
])[a<
                        [ {
                             {
                                		
                            >(
                                (
                                    
                                }𝄞
 {
                                    Z,
                                    ;Z(
                                         {
                                            (
                                                ]: {
                                                    a
b 
                                                >[  {
                                                    
bZ>
                                                }
𝄞,
                                                [<
                                                    (
                                                         {
                                                            b  𝄞aé<	
                                                        )
                                                    )
                                                }
                                            )b
                                        }
:	é
                                    }
                                )]
                            }:]>Z<a[:é𝄞(
                                ,
                                
                            }]b𝄞>(], [€[a)  𝄞
:bé<>b;
                        >>,
                        (
                             :
b>Zé𝄞(<
                                :)éb;(
                                    <
                                        ]] {
                                             ,
                                             ").
Definition c501 : case := ("{ }
} }]:)(: <
<Z
}ab(a	[ <{[<
,(
a<b,){:{,	a{[{𝄞>
;b 	{bZ[€{(),]]a€𝄞<([< b:,€,
 	);]é( >]< ;;a;]é
	[; €

𝄞é<}é (;;>,€a
ba(]€:é]éZ}ab){<}	Z[:(<𝄞ééé[([};>{é𝄞)€],>>,:)b(
><>>{aZ(]>€é", " {
     
}

} 
}]:)(
: <

<
    Z

}ab(
    a	[ <
         {
            [<
                
,
                (
a<
                    b, ) {
                        : {
                            ,
                            	a {
                                [ {
                                    𝄞
                                >
;b 	 {
                                    bZ[€ {
                                        (),
                                        ]]a€𝄞<
                                            ([< b:, €, 
 	);]é(
                                                 >]<
                                                     ;;a;]é
	[; €

𝄞é<
                                                }é (
                                                    ;;>,
                                                    €a
ba(]€:é]éZ
                                                }ab) {
                                                    <
                                                        
                                                    }	Z[:(
                                                        <𝄞ééé[(
                                                            [
                                                        };> {
                                                            é𝄞
                                                        )€],
                                                        
                                                    >
                                                >,
                                                :
                                            )b(
                                                

                                            ><>
                                        > {
                                            aZ(
                                                ]
                                            >€é").
Definition c502 : case := (";", ";").
Definition c503 : case := ("
(},<]Z	€}{(,:b}]]é;Z€, { a])<a	 Z	b}>[>]<[;€([( ([	>])𝄞)Z:>}Z€{éZ} é([;
Z<>{b:} )Z[aZ𝄞<;(,aZ𝄞Z,€Z,€]Z((a,Z	>	};>); ),>	,:𝄞éa,>>>{	; aé<aZ[€,b]}< éZ	
:;b}<bb}:(€}:<é€}	 ]<€ 
(,€)𝄞>{a[]	<€ 	𝄞;{{}})Z,]€[<;	),}>) 	<: ,}a𝄞)]ba	(,:b<
b(Z	[b>)> :€𝄞é)€𝄞>a}{𝄞<

b <)) {[()", "
(
    
},
<
    ]Z	€
} {
    (
        ,
        :b
    }]]é;Z€,
      {
         a]
    )<a	 Z	b
}>[
>]<[;€(
[( ([	>])𝄞)Z:>
}Z€ {
éZ
} é(
[;
Z<> {
    b:
} 
)Z[aZ𝄞<;(
,
aZ𝄞Z,
€Z,
€]Z((a, Z	>	
};>); ),
>	,
:𝄞éa,
>>> {
	; aé<
    aZ[€,
    b]
}<
     éZ	
:;b
}<
    bb
}:(
    €
}:<
    é€
}	 ]<€ 
(, €)𝄞> {
    a[]	<
        € 	𝄞; {
             {
                
            }
        }
    )Z,
    ]€[<;	
),

}>
) 	<: ,

}a𝄞
)]ba	(, :b<
b(Z	[b>)> :€𝄞é)€𝄞
>a
} {
𝄞<


b <
))  {
[()").
Definition c504 : case := ("é{
}ab;<	:<𝄞:],],{<>𝄞 (b:;]aé	a(bZ);b[é	ébZa>[):>(Z{);€𝄞	;𝄞a{a(>ab€}a {
;𝄞:; 
,:) Z€€

€),é[);(€a:(>
(
[>{ b (}>:é	b,€	)a(bé,] ,{:}{,<<>a><{ 
	(<Z:éa))];[<> :;[	é,} ><", "é {
    

}ab;<
    	:<
        𝄞:],
        ],
         {
            <>𝄞 (b:;]aé	a(bZ);b[é	ébZa
        >[):
    >(
        Z {
            
        );€𝄞	;𝄞a {
            a(
                >ab€
            }a  {
                
;𝄞:; 
,
                :
            ) Z€€

€),
            é[);(
                €a:(
                    >
(
                        
[> {
                             b (
                        }>:é	b, €	)a(
                            bé,
                            ] ,
                             {
                                :
                            } {
                                ,
                                <<>a><
                                     {
                                         
	(<Z:éa)
                                    )];[<> :;[	é,
                                    
                                } ><
                                    ").
Definition c505 : case := ("	,)(>,
: ),: }b
( )>} a,;€] é>éa 
;€)Z[}, {}a{é>𝄞[:,[b;a[a[€Z:({é[,𝄞{>	}	>
;{)[é𝄞:€>:[><;:)}b{Z
{;]𝄞	:<))){(a;é}>]b([)>,{};]	ZéZ]é]);Z:<é€,	Z <€(a
{]", "	,
)(>, 
: ),
: 
}b
( )>
} a,
;€] é>éa 
;€)Z[
},
  {

}a {
é>𝄞[:,
[b;a[a[€Z:(
 {
é[,
𝄞 {
    >	
}	>
; {
    
)[é𝄞:€>:[><
    ;:)
}b {
    Z
 {
        ;]𝄞	:<
            ))) {
                (
                    a;é
                }
            >]b([)
        >,
         {
            
        };]	ZéZ]é]
    );Z:<
        é€,
        	Z <
            €(
                a
 {
                    ]").
Definition c506 : case := (" 𝄞bé𝄞	:𝄞
<
;  >a{;Z]𝄞𝄞𝄞;
>𝄞:(b}(:	[Z)
a,€}>))b(	a	€<:{: bé{))
Z,€ {𝄞é
<é{(	]]{<<;(é},€}{:;]](a	<<Z,é𝄞:é< b;,:<<,]Z)<€€)(;;::a


:
é;>
((:<b ,[([;𝄞[	 
  	;,{Z}Zé<{ 

):𝄞
[(é>><;€<	é>{(𝄞[)){	a;::𝄞[€}>]<b[é𝄞>é
<𝄞é>;,€
},[,Z
)", " 𝄞bé𝄞	:𝄞
<
;  >a {
    ;Z]𝄞𝄞𝄞;
>𝄞:(b
}(:	[Z)
a, €
}>))b(
	a	€<
    : {
        : bé {
            
        ))
Z,
        €  {
            𝄞é
<
                é {
                    (
                        	]] {
                            <
                                <
                                    ;(
                                        é
                                    },
                                    €
                                } {
                                    :;]](a	<
                                        <
                                            Z, é𝄞:é<
                                                 b;, :<
                                                    <
                                                        , ]Z)<€€
                                                    )(
                                                        ;;::a


:
é;>
(
                                                            (
                                                                :<
                                                                    b ,
                                                                    [(
                                                                        [;𝄞[	 
  	;,
                                                                         {
                                                                            Z
                                                                        }Zé<
                                                                             {
                                                                                 


                                                                            ):𝄞
[(
                                                                                é
                                                                            >
                                                                        ><
                                                                            ;€<	é> {
                                                                                (𝄞[)
                                                                            ) {
                                                                                	a;::𝄞[€
                                                                            }
                                                                        >]<b[é𝄞>é
<𝄞é>;,
                                                                        €

                                                                    },
                                                                    [,
                                                                    Z

                                                                )").
Definition c507 : case := ("𝄞,<;)(Z{b{Za>a	ab[(]a)<𝄞{Z{:	éé[;b

[}a:]({[€aZéZ€,]({>𝄞;𝄞bé[𝄞	Z>]éZ>;:	€)}>{}<𝄞)]𝄞€,>})Z
 >],	ba:Z
(>,	,][},b;b{]}b
<€	
:<}Za,[(
é€é};€[]é

a]€Z)€}
:)€)}éb{;;	;€{ {Z
Z< :(a>b ,a𝄞	Z 	>Z(𝄞}bZ	}<];", "𝄞,
<
    ;)(
        Z {
            b {
                Za
            >a	ab[(]a)<
                𝄞 {
                    Z {
                        :	éé[;b

[
                    }a:](
                         {
                            [€aZéZ€,
                            ](
                                 {
                                    
                                >𝄞;𝄞bé[𝄞	Z>]éZ>;:	€
                            )
                        }> {
                            
                        }<𝄞
                    )]𝄞€,
                    >
                }
            )Z
 >],
            	ba:Z
(
                >,
                	,
                ][
            },
            b;b {
                ]
            }b
<
                €	
:<
                    
                }Za,
                [(
é€é
            };€[]é

a]€Z)€
        }
:
    )€)
}éb {
    ;;	;€ {
          {
            Z
Z< :(
                a>b ,
                a𝄞	Z 	
            >Z(
                𝄞
            }bZ	
        }<
            ];").
Definition c508 : case := ("€b(:ééa];}[
}	 €;)𝄞[{ €<)a:,>>}€ b: (	é>){𝄞;	{€é}é()[ 𝄞		<a]
[<)>{a<
Z([	;é});:[é}b€b[
é)aZ 	
(
{<,[ébZZ€>b,€
(}>{		a	{Z),𝄞{𝄞)Z	{(>]<]𝄞(€
>a>(b< [𝄞 :a(		[é]	", "€b(:ééa];
}[

}	 €;)𝄞[ {
 €<)a:,
>>
}€ b: (	é>) {
𝄞;	 {
€é
}é()[ 𝄞		<
a]
[<)> {
    a<
        
Z([	;é
    });:[é
}b€b[
é)aZ 	
(
    
 {
        <,
        [ébZZ€>b,
        €
(
            
        }
    > {
        		a	 {
            Z
        ),
        𝄞 {
            𝄞
        )Z	 {
            (
                
            >]<]𝄞(
                €
>a>(
                    b<
                         [𝄞 :a(
                            		[é]	").
Definition c509 : case := ("é[)b:(<}:]]a€Z:),,[{
{:éb(𝄞:	(;𝄞>)a
é<b<,𝄞", "é[)b:(<
    
}:]]a€Z:),
,
[ {
    
 {
        :éb(
            𝄞:	(;𝄞
        >)a
é<
            b<
                ,
                𝄞").
Definition c510 : case := ("enum Bounded<RuntimeCall>{Legacy{hash: struct H256([u8; 32])},Inline(struct BoundedVec<u8,_>(Vec<u8>)),Lookup{hash: H256,len: u32}}", "enum Bounded<RuntimeCall> {
    Legacy {
        hash: struct H256([u8; 32])
    },
    Inline(
        struct BoundedVec<u8,
        _>(Vec<u8>)
    ),
    Lookup {
        hash: H256,
        len: u32
    }
}").
Definition c511 : case := ("enum Event<_,_>{Delegated(struct AccountId32([u8; 32]),AccountId32),Undelegated(AccountId32)}", "enum Event<_,
_> {
    Delegated(
        struct AccountId32([u8; 32]),
        AccountId32
    ),
    Undelegated(AccountId32)
}").
Definition c512 : case := ("struct RawSolution<NposCompactSolution16>{solution: struct NposCompactSolution16{votes1: Vec<(Compact<u32>,Compact<u16>)>,votes2: Vec<(Compact<u32>,(Compact<u16>,Compact<struct PerU16(u16)>),Compact<u16>)>,votes3: Vec<(Compact<u32>,[(Compact<u16>,Compact<struct PerU16(u16)>); 2],Compact<u16>)>,votes4: Vec<(Compact<u32>,[(Compact<u16>,Compact<struct PerU16(u16)>); 3],Compact<u16>)>,votes5: Vec<(Compact<u32>,[(Compact<u16>,Compact<struct PerU16(u16)>); 4],Compact<u16>)>,votes6: Vec<(Compact<u32>,[(Compact<u16>,Compact<struct PerU16(u16)>); 5],Compact<u16>)>,votes7: Vec<(Compact<u32>,[(Compact<u16>,Compact<struct PerU16(u16)>); 6],Compact<u16>)>,votes8: Vec<(Compact<u32>,[(Compact<u16>,Compact<struct PerU16(u16)>); 7],Compact<u16>)>,votes9: Vec<(Compact<u32>,[(Compact<u16>,Compact<struct PerU16(u16)>); 8],Compact<u16>)>,votes10: Vec<(Compact<u32>,[(Compact<u16>,Compact<struct PerU16(u16)>); 9],Compact<u16>)>,votes11: Vec<(Compact<u32>,[(Compact<u16>,Compact<struct PerU16(u16)>); 10],Compact<u16>)>,votes12: Vec<(Compact<u32>,[(Compact<u16>,Compact<struct PerU16(u16)>); 11],Compact<u16>)>,votes13: Vec<(Compact<u32>,[(Compact<u16>,Compact<struct PerU16(u16)>); 12],Compact<u16>)>,votes14: Vec<(Compact<u32>,[(Compact<u16>,Compact<struct PerU16(u16)>); 13],Compact<u16>)>,votes15: Vec<(Compact<u32>,[(Compact<u16>,Compact<struct PerU16(u16)>); 14],Compact<u16>)>,votes16: Vec<(Compact<u32>,[(Compact<u16>,Compact<struct PerU16(u16)>); 15],Compact<u16>)>},score: struct ElectionScore{minimal_stake: u128,sum_stake: u128,sum_stake_squared: u128},round: u32}", "struct RawSolution<NposCompactSolution16> {
    solution: struct NposCompactSolution16 {
        votes1: Vec<(Compact<u32>, Compact<u16>)>,
        votes2: Vec<
            (
                Compact<u32>,
                (
                    Compact<u16>,
                    Compact<struct PerU16(u16)>
                ),
                Compact<u16>
            )
        >,
        votes3: Vec<
            (
                Compact<u32>,
                [(
                    Compact<u16>,
                    Compact<struct PerU16(u16)>
                ); 2],
                Compact<u16>
            )
        >,
        votes4: Vec<
            (
                Compact<u32>,
                [(
                    Compact<u16>,
                    Compact<struct PerU16(u16)>
                ); 3],
                Compact<u16>
            )
        >,
        votes5: Vec<
            (
                Compact<u32>,
                [(
                    Compact<u16>,
                    Compact<struct PerU16(u16)>
                ); 4],
                Compact<u16>
            )
        >,
        votes6: Vec<
            (
                Compact<u32>,
                [(
                    Compact<u16>,
                    Compact<struct PerU16(u16)>
                ); 5],
                Compact<u16>
            )
        >,
        votes7: Vec<
            (
                Compact<u32>,
                [(
                    Compact<u16>,
                    Compact<struct PerU16(u16)>
                ); 6],
                Compact<u16>
            )
        >,
        votes8: Vec<
            (
                Compact<u32>,
                [(
                    Compact<u16>,
                    Compact<struct PerU16(u16)>
                ); 7],
                Compact<u16>
            )
        >,
        votes9: Vec<
            (
                Compact<u32>,
                [(
                    Compact<u16>,
                    Compact<struct PerU16(u16)>
                ); 8],
                Compact<u16>
            )
        >,
        votes10: Vec<
            (
                Compact<u32>,
                [(
                    Compact<u16>,
                    Compact<struct PerU16(u16)>
                ); 9],
                Compact<u16>
            )
        >,
        votes11: Vec<
            (
                Compact<u32>,
                [(
                    Compact<u16>,
                    Compact<struct PerU16(u16)>
                ); 10],
                Compact<u16>
            )
        >,
        votes12: Vec<
            (
                Compact<u32>,
                [(
                    Compact<u16>,
                    Compact<struct PerU16(u16)>
                ); 11],
                Compact<u16>
            )
        >,
        votes13: Vec<
            (
                Compact<u32>,
                [(
                    Compact<u16>,
                    Compact<struct PerU16(u16)>
                ); 12],
                Compact<u16>
            )
        >,
        votes14: Vec<
            (
                Compact<u32>,
                [(
                    Compact<u16>,
                    Compact<struct PerU16(u16)>
                ); 13],
                Compact<u16>
            )
        >,
        votes15: Vec<
            (
                Compact<u32>,
                [(
                    Compact<u16>,
                    Compact<struct PerU16(u16)>
                ); 14],
                Compact<u16>
            )
        >,
        votes16: Vec<
            (
                Compact<u32>,
                [(
                    Compact<u16>,
                    Compact<struct PerU16(u16)>
                ); 15],
                Compact<u16>
            )
        >
    },
    score: struct ElectionScore {
        minimal_stake: u128,
        sum_stake: u128,
        sum_stake_squared: u128
    },
    round: u32
}").
Definition c513 : case := ("enum Event<_>{DisputeInitiated(struct CandidateHash(struct H256([u8; 32])),enum DisputeLocation{Local,Remote}),DisputeConcluded(CandidateHash,enum DisputeResult{Valid,Invalid}),Revert(u32)}", "enum Event<_> {
    DisputeInitiated(
        struct CandidateHash(struct H256([u8; 32])),
        enum DisputeLocation {
            Local,
            Remote
        }
    ),
    DisputeConcluded(
        CandidateHash,
        enum DisputeResult {
            Valid,
            Invalid
        }
    ),
    Revert(u32)
}").
Definition cases : list (case) := [c0; c1; c2; c3; c4; c5; c6; c7; c8; c9; c10; c11; c12; c13; c14; c15; c16; c17; c18; c19; c20; c21; c22; c23; c24; c25; c26; c27; c28; c29; c30; c31; c32; c33; c34; c35; c36; c37; c38; c39; c40; c41; c42; c43; c44; c45; c46; c47; c48; c49; c50; c51; c52; c53; c54; c55; c56; c57; c58; c59; c60; c61; c62; c63; c64; c65; c66; c67; c68; c69; c70; c71; c72; c73; c74; c75; c76; c77; c78; c79; c80; c81; c82; c83; c84; c85; c86; c87; c88; c89; c90; c91; c92; c93; c94; c95; c96; c97; c98; c99; c100; c101; c102; c103; c104; c105; c106; c107; c108; c109; c110; c111; c112; c113; c114; c115; c116; c117; c118; c119; c120; c121; c122; c123; c124; c125; c126; c127; c128; c129; c130; c131; c132; c133; c134; c135; c136; c137; c138; c139; c140; c141; c142; c143; c144; c145; c146; c147; c148; c149; c150; c151; c152; c153; c154; c155; c156; c157; c158; c159; c160; c161; c162; c163; c164; c165; c166; c167; c168; c169; c170; c171; c172; c173; c174; c175; c176; c177; c178; c179; c180; c181; c182; c183; c184; c185; c186; c187; c188; c189; c190; c191; c192; c193; c194; c195; c196; c197; c198; c199; c200; c201; c202; c203; c204; c205; c206; c207; c208; c209; c210; c211; c212; c213; c214; c215; c216; c217; c218; c219; c220; c221; c222; c223; c224; c225; c226; c227; c228; c229; c230; c231; c232; c233; c234; c235; c236; c237; c238; c239; c240; c241; c242; c243; c244; c245; c246; c247; c248; c249; c250; c251; c252; c253; c254; c255; c256; c257; c258; c259; c260; c261; c262; c263; c264; c265; c266; c267; c268; c269; c270; c271; c272; c273; c274; c275; c276; c277; c278; c279; c280; c281; c282; c283; c284; c285; c286; c287; c288; c289; c290; c291; c292; c293; c294; c295; c296; c297; c298; c299; c300; c301; c302; c303; c304; c305; c306; c307; c308; c309; c310; c311; c312; c313; c314; c315; c316; c317; c318; c319; c320; c321; c322; c323; c324; c325; c326; c327; c328; c329; c330; c331; c332; c333; c334; c335; c336; c337; c338; c339; c340; c341; c342; c343; c344; c345; c346; c347; c348; c349; c350; c351; c352; c353; c354; c355; c356; c357; c358; c359; c360; c361; c362; c363; c364; c365; c366; c367; c368; c369; c370; c371; c372; c373; c374; c375; c376; c377; c378; c379; c380; c381; c382; c383; c384; c385; c386; c387; c388; c389; c390; c391; c392; c393; c394; c395; c396; c397; c398; c399; c400; c401; c402; c403; c404; c405; c406; c407; c408; c409; c410; c411; c412; c413; c414; c415; c416; c417; c418; c419; c420; c421; c422; c423; c424; c425; c426; c427; c428; c429; c430; c431; c432; c433; c434; c435; c436; c437; c438; c439; c440; c441; c442; c443; c444; c445; c446; c447; c448; c449; c450; c451; c452; c453; c454; c455; c456; c457; c458; c459; c460; c461; c462; c463; c464; c465; c466; c467; c468; c469; c470; c471; c472; c473; c474; c475; c476; c477; c478; c479; c480; c481; c482; c483; c484; c485; c486; c487; c488; c489; c490; c491; c492; c493; c494; c495; c496; c497; c498; c499; c500; c501; c502; c503; c504; c505; c506; c507; c508; c509; c510; c511; c512; c513].
Eval vm_compute in ("corr_exact"%string, failing (corr_exact) cases).
Eval vm_compute in ("corr_stream"%string, failing (corr_stream) cases).
Eval vm_compute in ("prop_ws"%string, failing (prop_ws) cases).
Eval vm_compute in ("prop_discipline"%string, failing (prop_discipline) cases).
