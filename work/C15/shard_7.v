From Coq Require Import List NArith String.
From V Require Import Base.Util Corr.RunC15.
Import ListNotations. Open Scope string_scope.
Definition c0 : case := (",", ",
").
Definition c1 : case := ("}<", "
}<
").
Definition c2 : case := (")(", ")(
    ").
Definition c3 : case := (">{", "> {
    ").
Definition c4 : case := (",a", ",
a").
Definition c5 : case := (" >", " >").
Definition c6 : case := ("{})", " {
    
})").
Definition c7 : case := ("{)}", " {
    )
}").
Definition c8 : case := ("{< ", " {
    <
         ").
Definition c9 : case := ("{,,", " {
    ,
    ,
    ").
Definition c10 : case := ("{ <", " {
     <
        ").
Definition c11 : case := ("}}(", "
}
}(
").
Definition c12 : case := ("}){", "
}) {
").
Definition c13 : case := ("}<a", "
}<
a").
Definition c14 : case := ("},>", "
},
>").
Definition c15 : case := ("} )", "
} )").
Definition c16 : case := ("(}}", "(
    
}
}").
Definition c17 : case := ("(( ", "(
    (
         ").
Definition c18 : case := ("(<,", "(
    <
        ,
        ").
Definition c19 : case := ("(,<", "(
    ,
    <
        ").
Definition c20 : case := ("( (", "(
     (
        ").
Definition c21 : case := (")}{", ")
} {
").
Definition c22 : case := (")(a", ")(
    a").
Definition c23 : case := (")<>", ")<>").
Definition c24 : case := ("),)", "),
)").
Definition c25 : case := (") }", ") 
}").
Definition c26 : case := ("<{ ", "<
     {
         ").
Definition c27 : case := ("<(,", "<
    (
        ,
        ").
Definition c28 : case := ("<<<", "<
    <
        <
            ").
Definition c29 : case := ("<,(", "<
    ,
    (
        ").
Definition c30 : case := ("< {", "<
      {
        ").
Definition c31 : case := (">{a", "> {
    a").
Definition c32 : case := (">(>", ">(
    >").
Definition c33 : case := ("><)", "><
    )").
Definition c34 : case := (">,}", ">,

}").
Definition c35 : case := (">a ", ">a ").
Definition c36 : case := (",{,", ",
 {
    ,
    ").
Definition c37 : case := (",(<", ",
(
    <
        ").
Definition c38 : case := (",<(", ",
<
    (
        ").
Definition c39 : case := (",,{", ",
,
 {
    ").
Definition c40 : case := (",aa", ",
aa").
Definition c41 : case := ("a{>", "a {
    >").
Definition c42 : case := ("a()", "a()").
Definition c43 : case := ("a<}", "a<
    
}").
Definition c44 : case := ("a> ", "a> ").
Definition c45 : case := ("aa,", "aa,
").
Definition c46 : case := (" {<", "  {
    <
        ").
Definition c47 : case := (" ((", " (
    (
        ").
Definition c48 : case := (" <{", " <
     {
        ").
Definition c49 : case := (" >a", " >a").
Definition c50 : case := (" a>", " a>").
Definition c51 : case := ("{{{)", " {
     {
         {
            )").
Definition c52 : case := ("{{(}", " {
     {
        (
            
        }").
Definition c53 : case := ("{{) ", " {
     {
        ) ").
Definition c54 : case := ("{{>,", " {
     {
        >,
        ").
Definition c55 : case := ("{{a<", " {
     {
        a<
            ").
Definition c56 : case := ("{}{(", " {
    
} {
    (
        ").
Definition c57 : case := ("{}({", " {
    
}(
     {
        ").
Definition c58 : case := ("{})a", " {
    
})a").
Definition c59 : case := ("{}>>", " {
    
}>>").
Definition c60 : case := ("{}a)", " {
    
}a)").
Definition c61 : case := ("{({}", " {
    (
         {
            
        }").
Definition c62 : case := ("{(} ", " {
    (
        
    } ").
Definition c63 : case := ("{(),", " {
    (),
    ").
Definition c64 : case := ("{(><", " {
    (
        ><
            ").
Definition c65 : case := ("{(a(", " {
    (
        a(
            ").
Definition c66 : case := ("{){{", " {
    ) {
         {
            ").
Definition c67 : case := ("{)}a", " {
    )
}a").
Definition c68 : case := ("{))>", " {
    ))>").
Definition c69 : case := ("{)>)", " {
    )>)").
Definition c70 : case := ("{)a}", " {
    )a
}").
Definition c71 : case := ("{)  ", " {
    )  ").
Definition c72 : case := ("{<},", " {
    <
        
    },
    ").
Definition c73 : case := ("{<)<", " {
    <
        )<
            ").
Definition c74 : case := ("{<>(", " {
    <>(
        ").
Definition c75 : case := ("{<a{", " {
    <
        a {
            ").
Definition c76 : case := ("{< a", " {
    <
         a").
Definition c77 : case := ("{>}>", " {
    >
}>").
Definition c78 : case := ("{>))", " {
    >))").
Definition c79 : case := ("{>>}", " {
    >>
}").
Definition c80 : case := ("{>, ", " {
    >,
     ").
Definition c81 : case := ("{> ,", " {
    > ,
    ").
Definition c82 : case := ("{,}<", " {
    ,
    
}<
    ").
Definition c83 : case := ("{,)(", " {
    ,
    )(
        ").
Definition c84 : case := ("{,>{", " {
    ,
    > {
        ").
Definition c85 : case := ("{,,a", " {
    ,
    ,
    a").
Definition c86 : case := ("{, >", " {
    ,
     >").
Definition c87 : case := ("{a})", " {
    a
})").
Definition c88 : case := ("{a)}", " {
    a)
}").
Definition c89 : case := ("{a< ", " {
    a<
         ").
Definition c90 : case := ("{a,,", " {
    a,
    ,
    ").
Definition c91 : case := ("{a <", " {
    a <
        ").
Definition c92 : case := ("{ }(", " {
     
}(
    ").
Definition c93 : case := ("{ ){", " {
     ) {
        ").
Definition c94 : case := ("{ <a", " {
     <
        a").
Definition c95 : case := ("{ ,>", " {
     ,
    >").
Definition c96 : case := ("{  )", " {
      )").
Definition c97 : case := ("}{}}", "
} {

}
}").
Definition c98 : case := ("}{( ", "
} {
(
     ").
Definition c99 : case := ("}{<,", "
} {
<
    ,
    ").
Definition c100 : case := ("}{,<", "
} {
,
<
    ").
Definition c101 : case := ("}{ (", "
} {
 (
    ").
Definition c102 : case := ("}}}{", "
}
}
} {
").
Definition c103 : case := ("}}(a", "
}
}(
a").
Definition c104 : case := ("}}<>", "
}
}<>").
Definition c105 : case := ("}},)", "
}
},
)").
Definition c106 : case := ("}} }", "
}
} 
}").
Definition c107 : case := ("}({ ", "
}(
 {
     ").
Definition c108 : case := ("}((,", "
}(
(
    ,
    ").
Definition c109 : case := ("}(<<", "
}(
<
    <
        ").
Definition c110 : case := ("}(,(", "
}(
,
(
    ").
Definition c111 : case := ("}( {", "
}(
  {
    ").
Definition c112 : case := ("}){a", "
}) {
a").
Definition c113 : case := ("})(>", "
})(
>").
Definition c114 : case := ("})<)", "
})<
)").
Definition c115 : case := ("}),}", "
}),

}").
Definition c116 : case := ("})a ", "
})a ").
Definition c117 : case := ("}<{,", "
}<
 {
    ,
    ").
Definition c118 : case := ("}<(<", "
}<
(
    <
        ").
Definition c119 : case := ("}<<(", "
}<
<
    (
        ").
Definition c120 : case := ("}<,{", "
}<
,
 {
    ").
Definition c121 : case := ("}<aa", "
}<
aa").
Definition c122 : case := ("}>{>", "
}> {
>").
Definition c123 : case := ("}>()", "
}>()").
Definition c124 : case := ("}><}", "
}><

}").
Definition c125 : case := ("}>> ", "
}>> ").
Definition c126 : case := ("}>a,", "
}>a,
").
Definition c127 : case := ("},{<", "
},
 {
<
    ").
Definition c128 : case := ("},((", "
},
(
(
    ").
Definition c129 : case := ("},<{", "
},
<
 {
    ").
Definition c130 : case := ("},>a", "
},
>a").
Definition c131 : case := ("},a>", "
},
a>").
Definition c132 : case := ("}a{)", "
}a {
)").
Definition c133 : case := ("}a(}", "
}a(

}").
Definition c134 : case := ("}a) ", "
}a) ").
Definition c135 : case := ("}a>,", "
}a>,
").
Definition c136 : case := ("}aa<", "
}aa<
").
Definition c137 : case := ("} {(", "
}  {
(
    ").
Definition c138 : case := ("} ({", "
} (
 {
    ").
Definition c139 : case := ("} )a", "
} )a").
Definition c140 : case := ("} >>", "
} >>").
Definition c141 : case := ("} a)", "
} a)").
Definition c142 : case := ("({{}", "(
     {
         {
            
        }").
Definition c143 : case := ("({} ", "(
     {
        
    } ").
Definition c144 : case := ("({),", "(
     {
        
    ),
    ").
Definition c145 : case := ("({><", "(
     {
        ><
            ").
Definition c146 : case := ("({a(", "(
     {
        a(
            ").
Definition c147 : case := ("(}{{", "(
    
} {
     {
        ").
Definition c148 : case := ("(}}a", "(
    
}
}a").
Definition c149 : case := ("(})>", "(
})>").
Definition c150 : case := ("(}>)", "(
}>)").
Definition c151 : case := ("(}a}", "(
    
}a
}").
Definition c152 : case := ("(}  ", "(
    
}  ").
Definition c153 : case := ("((},", "(
    (
        
    },
    ").
Definition c154 : case := ("(()<", "(
    ()<
        ").
Definition c155 : case := ("((>(", "(
    (
        >(
            ").
Definition c156 : case := ("((a{", "(
    (
        a {
            ").
Definition c157 : case := ("(( a", "(
    (
         a").
Definition c158 : case := ("()}>", "()
}>").
Definition c159 : case := ("()))", "()))").
Definition c160 : case := ("()>}", "()>
}").
Definition c161 : case := ("(), ", "(),
 ").
Definition c162 : case := ("() ,", "() ,
").
Definition c163 : case := ("(<}<", "(
    <
        
    }<
        ").
Definition c164 : case := ("(<)(", "(<
    )(
        ").
Definition c165 : case := ("(<>{", "(
    <> {
        ").
Definition c166 : case := ("(<,a", "(
    <
        ,
        a").
Definition c167 : case := ("(< >", "(
    < >").
Definition c168 : case := ("(>})", "(>
})").
Definition c169 : case := ("(>)}", "(>)
}").
Definition c170 : case := ("(>< ", "(
    ><
         ").
Definition c171 : case := ("(>,,", "(
    >,
    ,
    ").
Definition c172 : case := ("(> <", "(
    > <
        ").
Definition c173 : case := ("(,}(", "(
    ,
    
}(
    ").
Definition c174 : case := ("(,){", "(, ) {
    ").
Definition c175 : case := ("(,<a", "(
    ,
    <
        a").
Definition c176 : case := ("(,,>", "(
    ,
    ,
    >").
Definition c177 : case := ("(, )", "(,  )").
Definition c178 : case := ("(a}}", "(
    a
}
}").
Definition c179 : case := ("(a( ", "(
    a(
         ").
Definition c180 : case := ("(a<,", "(
    a<
        ,
        ").
Definition c181 : case := ("(a,<", "(
    a,
    <
        ").
Definition c182 : case := ("(a (", "(
    a (
        ").
Definition c183 : case := ("( }{", "(
     
} {
    ").
Definition c184 : case := ("( (a", "(
     (
        a").
Definition c185 : case := ("( <>", "(
     <>").
Definition c186 : case := ("( ,)", "( , )").
Definition c187 : case := ("(  }", "(
      
}").
Definition c188 : case := ("){{ ", ") {
     {
         ").
Definition c189 : case := ("){(,", ") {
    (
        ,
        ").
Definition c190 : case := ("){<<", ") {
    <
        <
            ").
Definition c191 : case := ("){,(", ") {
    ,
    (
        ").
Definition c192 : case := ("){ {", ") {
      {
        ").
Definition c193 : case := (")}{a", ")
} {
a").
Definition c194 : case := (")}(>", ")
}(
>").
Definition c195 : case := (")}<)", ")
}<
)").
Definition c196 : case := (")},}", ")
},

}").
Definition c197 : case := (")}a ", ")
}a ").
Definition c198 : case := (")({,", ")(
     {
        ,
        ").
Definition c199 : case := (")((<", ")(
    (
        <
            ").
Definition c200 : case := (")(<(", ")(
    <
        (
            ").
Definition c201 : case := (")(,{", ")(
    ,
     {
        ").
Definition c202 : case := (")(aa", ")(
    aa").
Definition c203 : case := (")){>", ")) {
    >").
Definition c204 : case := ("))()", "))()").
Definition c205 : case := ("))<}", "))<
    
}").
Definition c206 : case := ("))> ", "))> ").
Definition c207 : case := ("))a,", "))a,
").
Definition c208 : case := (")<{<", ")<
     {
        <
            ").
Definition c209 : case := (")<((", ")<
    (
        (
            ").
Definition c210 : case := (")<<{", ")<
    <
         {
            ").
Definition c211 : case := (")<>a", ")<>a").
Definition c212 : case := (")<a>", ")<a>").
Definition c213 : case := (")>{)", ")> {
    )").
Definition c214 : case := (")>(}", ")>(
    
}").
Definition c215 : case := (")>) ", ")>) ").
Definition c216 : case := (")>>,", ")>>,
").
Definition c217 : case := (")>a<", ")>a<
    ").
Definition c218 : case := ("),{(", "),
 {
    (
        ").
Definition c219 : case := ("),({", "),
(
     {
        ").
Definition c220 : case := ("),)a", "),
)a").
Definition c221 : case := ("),>>", "),
>>").
Definition c222 : case := ("),a)", "),
a)").
Definition c223 : case := (")a{}", ")a {
    
}").
Definition c224 : case := (")a} ", ")a
} ").
Definition c225 : case := (")a),", ")a),
").
Definition c226 : case := (")a><", ")a><
    ").
Definition c227 : case := (")aa(", ")aa(
    ").
Definition c228 : case := (") {{", ")  {
     {
        ").
Definition c229 : case := (") }a", ") 
}a").
Definition c230 : case := (") )>", ") )>").
Definition c231 : case := (") >)", ") >)").
Definition c232 : case := (") a}", ") a
}").
Definition c233 : case := (")   ", ")   ").
Definition c234 : case := ("<{},", "<
     {
        
    },
    ").
Definition c235 : case := ("<{)<", "<
     {
        )<
            ").
Definition c236 : case := ("<{>(", "<
     {
        
    >(
        ").
Definition c237 : case := ("<{a{", "<
     {
        a {
            ").
Definition c238 : case := ("<{ a", "<
     {
         a").
Definition c239 : case := ("<}}>", "<
}
}>").
Definition c240 : case := ("<}))", "<
    
}))").
Definition c241 : case := ("<}>}", "<
}>
}").
Definition c242 : case := ("<}, ", "<
    
},
 ").
Definition c243 : case := ("<} ,", "<
    
} ,
").
Definition c244 : case := ("<(}<", "<
    (
        
    }<
        ").
Definition c245 : case := ("<()(", "<
    ()(
        ").
Definition c246 : case := ("<(>{", "<(
    > {
        ").
Definition c247 : case := ("<(,a", "<
    (
        ,
        a").
Definition c248 : case := ("<( >", "<(
     >").
Definition c249 : case := ("<)})", "<
    )
})").
Definition c250 : case := ("<))}", "<
    ))
}").
Definition c251 : case := ("<)< ", "<
    )<
         ").
Definition c252 : case := ("<),,", "<
    ),
    ,
    ").
Definition c253 : case := ("<) <", "<
    ) <
        ").
Definition c254 : case := ("<<}(", "<
    <
        
    }(
        ").
Definition c255 : case := ("<<){", "<
    <
        ) {
            ").
Definition c256 : case := ("<<<a", "<
    <
        <
            a").
Definition c257 : case := ("<<,>", "<
    <,
    >").
Definition c258 : case := ("<< )", "<
    <
         )").
Definition c259 : case := ("<>}}", "<>
}
}").
Definition c260 : case := ("<>( ", "<>(
     ").
Definition c261 : case := ("<><,", "<><
    ,
    ").
Definition c262 : case := ("<>,<", "<>,
<
    ").
Definition c263 : case := ("<> (", "<> (
    ").
Definition c264 : case := ("<,}{", "<
    ,
    
} {
    ").
Definition c265 : case := ("<,(a", "<
    ,
    (
        a").
Definition c266 : case := ("<,<>", "<
    ,
    <>").
Definition c267 : case := ("<,,)", "<
    ,
    ,
    )").
Definition c268 : case := ("<, }", "<
    ,
     
}").
Definition c269 : case := ("<a{ ", "<
    a {
         ").
Definition c270 : case := ("<a(,", "<
    a(
        ,
        ").
Definition c271 : case := ("<a<<", "<
    a<
        <
            ").
Definition c272 : case := ("<a,(", "<
    a,
    (
        ").
Definition c273 : case := ("<a {", "<
    a  {
        ").
Definition c274 : case := ("< {a", "<
      {
        a").
Definition c275 : case := ("< (>", "< (
    >").
Definition c276 : case := ("< <)", "<
     <
        )").
Definition c277 : case := ("< ,}", "<
     ,
    
}").
Definition c278 : case := ("< a ", "<
     a ").
Definition c279 : case := (">{{,", "> {
     {
        ,
        ").
Definition c280 : case := (">{(<", "> {
    (
        <
            ").
Definition c281 : case := (">{<(", "> {
    <
        (
            ").
Definition c282 : case := (">{,{", "> {
    ,
     {
        ").
Definition c283 : case := (">{aa", "> {
    aa").
Definition c284 : case := (">}{>", ">
} {
>").
Definition c285 : case := (">}()", ">
}()").
Definition c286 : case := (">}<}", ">
}<

}").
Definition c287 : case := (">}> ", ">
}> ").
Definition c288 : case := (">}a,", ">
}a,
").
Definition c289 : case := (">({<", ">(
     {
        <
            ").
Definition c290 : case := (">(((", ">(
    (
        (
            ").
Definition c291 : case := (">(<{", ">(
    <
         {
            ").
Definition c292 : case := (">(>a", ">(
    >a").
Definition c293 : case := (">(a>", ">(
    a>").
Definition c294 : case := (">){)", ">) {
    )").
Definition c295 : case := (">)(}", ">)(
    
}").
Definition c296 : case := (">)) ", ">)) ").
Definition c297 : case := (">)>,", ">)>,
").
Definition c298 : case := (">)a<", ">)a<
    ").
Definition c299 : case := ("><{(", "><
     {
        (
            ").
Definition c300 : case := ("><({", "><
    (
         {
            ").
Definition c301 : case := ("><)a", "><
    )a").
Definition c302 : case := ("><>>", "><>>").
Definition c303 : case := ("><a)", "><
    a)").
Definition c304 : case := (">>{}", ">> {
    
}").
Definition c305 : case := (">>} ", ">>
} ").
Definition c306 : case := (">>),", ">>),
").
Definition c307 : case := (">>><", ">>><
    ").
Definition c308 : case := (">>a(", ">>a(
    ").
Definition c309 : case := (">,{{", ">,
 {
     {
        ").
Definition c310 : case := (">,}a", ">,

}a").
Definition c311 : case := (">,)>", ">,
)>").
Definition c312 : case := (">,>)", ">,
>)").
Definition c313 : case := (">,a}", ">,
a
}").
Definition c314 : case := (">,  ", ">,
  ").
Definition c315 : case := (">a},", ">a
},
").
Definition c316 : case := (">a)<", ">a)<
    ").
Definition c317 : case := (">a>(", ">a>(
    ").
Definition c318 : case := (">aa{", ">aa {
    ").
Definition c319 : case := (">a a", ">a a").
Definition c320 : case := ("> }>", "> 
}>").
Definition c321 : case := ("> ))", "> ))").
Definition c322 : case := ("> >}", "> >
}").
Definition c323 : case := ("> , ", "> ,
 ").
Definition c324 : case := (">  ,", ">  ,
").
Definition c325 : case := (",{}<", ",
 {
    
}<
    ").
Definition c326 : case := (",{)(", ",
 {
    )(
        ").
Definition c327 : case := (",{>{", ",
 {
    > {
        ").
Definition c328 : case := (",{,a", ",
 {
    ,
    a").
Definition c329 : case := (",{ >", ",
 {
     >").
Definition c330 : case := (",}})", ",

}
})").
Definition c331 : case := (",})}", ",

})
}").
Definition c332 : case := (",}< ", ",

}<
 ").
Definition c333 : case := (",},,", ",

},
,
").
Definition c334 : case := (",} <", ",

} <
").
Definition c335 : case := (",(}(", ",
(
    
}(
    ").
Definition c336 : case := (",(){", ",
() {
    ").
Definition c337 : case := (",(<a", ",
(
    <
        a").
Definition c338 : case := (",(,>", ",
(
    ,
    >").
Definition c339 : case := (",( )", ",
( )").
Definition c340 : case := (",)}}", ",
)
}
}").
Definition c341 : case := (",)( ", ",
)(
     ").
Definition c342 : case := (",)<,", ",
)<
    ,
    ").
Definition c343 : case := (",),<", ",
),
<
    ").
Definition c344 : case := (",) (", ",
) (
    ").
Definition c345 : case := (",<}{", ",
<
    
} {
    ").
Definition c346 : case := (",<(a", ",
<
    (
        a").
Definition c347 : case := (",<<>", ",
<
    <>").
Definition c348 : case := (",<,)", ",
<
    ,
    )").
Definition c349 : case := (",< }", ",
<
     
}").
Definition c350 : case := (",>{ ", ",
> {
     ").
Definition c351 : case := (",>(,", ",
>(
    ,
    ").
Definition c352 : case := (",><<", ",
><
    <
        ").
Definition c353 : case := (",>,(", ",
>,
(
    ").
Definition c354 : case := (",> {", ",
>  {
    ").
Definition c355 : case := (",,{a", ",
,
 {
    a").
Definition c356 : case := (",,(>", ",
,
(
    >").
Definition c357 : case := (",,<)", ",
,
<
    )").
Definition c358 : case := (",,,}", ",
,
,

}").
Definition c359 : case := (",,a ", ",
,
a ").
Definition c360 : case := (",a{,", ",
a {
    ,
    ").
Definition c361 : case := (",a(<", ",
a(
    <
        ").
Definition c362 : case := (",a<(", ",
a<
    (
        ").
Definition c363 : case := (",a,{", ",
a,
 {
    ").
Definition c364 : case := (",aaa", ",
aaa").
Definition c365 : case := (", {>", ",
  {
    >").
Definition c366 : case := (", ()", ",
 ()").
Definition c367 : case := (", <}", ",
 <
    
}").
Definition c368 : case := (", > ", ",
 > ").
Definition c369 : case := (", a,", ",
 a,
").
Definition c370 : case := ("a{{<", "a {
     {
        <
            ").
Definition c371 : case := ("a{((", "a {
    (
        (
            ").
Definition c372 : case := ("a{<{", "a {
    <
         {
            ").
Definition c373 : case := ("a{>a", "a {
    >a").
Definition c374 : case := ("a{a>", "a {
    a>").
Definition c375 : case := ("a}{)", "a
} {
)").
Definition c376 : case := ("a}(}", "a
}(

}").
Definition c377 : case := ("a}) ", "a
}) ").
Definition c378 : case := ("a}>,", "a
}>,
").
Definition c379 : case := ("a}a<", "a
}a<
").
Definition c380 : case := ("a({(", "a(
     {
        (
            ").
Definition c381 : case := ("a(({", "a(
    (
         {
            ").
Definition c382 : case := ("a()a", "a()a").
Definition c383 : case := ("a(>>", "a(
    >>").
Definition c384 : case := ("a(a)", "a(a)").
Definition c385 : case := ("a){}", "a) {
    
}").
Definition c386 : case := ("a)} ", "a)
} ").
Definition c387 : case := ("a)),", "a)),
").
Definition c388 : case := ("a)><", "a)><
    ").
Definition c389 : case := ("a)a(", "a)a(
    ").
Definition c390 : case := ("a<{{", "a<
     {
         {
            ").
Definition c391 : case := ("a<}a", "a<
    
}a").
Definition c392 : case := ("a<)>", "a<)>").
Definition c393 : case := ("a<>)", "a<>)").
Definition c394 : case := ("a<a}", "a<
    a
}").
Definition c395 : case := ("a<  ", "a<
      ").
Definition c396 : case := ("a>},", "a>
},
").
Definition c397 : case := ("a>)<", "a>)<
    ").
Definition c398 : case := ("a>>(", "a>>(
    ").
Definition c399 : case := ("a>a{", "a>a {
    ").
Definition c400 : case := ("a> a", "a> a").
Definition c401 : case := ("a,}>", "a,

}>").
Definition c402 : case := ("a,))", "a,
))").
Definition c403 : case := ("a,>}", "a,
>
}").
Definition c404 : case := ("a,, ", "a,
,
 ").
Definition c405 : case := ("a, ,", "a,
 ,
").
Definition c406 : case := ("aa}<", "aa
}<
").
Definition c407 : case := ("aa)(", "aa)(
    ").
Definition c408 : case := ("aa>{", "aa> {
    ").
Definition c409 : case := ("aa,a", "aa,
a").
Definition c410 : case := ("aa >", "aa >").
Definition c411 : case := ("a })", "a 
})").
Definition c412 : case := ("a )}", "a )
}").
Definition c413 : case := ("a < ", "a <
     ").
Definition c414 : case := ("a ,,", "a ,
,
").
Definition c415 : case := ("a  <", "a  <
    ").
Definition c416 : case := (" {}(", "  {
    
}(
    ").
Definition c417 : case := (" {){", "  {
    ) {
        ").
Definition c418 : case := (" {<a", "  {
    <
        a").
Definition c419 : case := (" {,>", "  {
    ,
    >").
Definition c420 : case := (" { )", "  {
     )").
Definition c421 : case := (" }}}", " 
}
}
}").
Definition c422 : case := (" }( ", " 
}(
 ").
Definition c423 : case := (" }<,", " 
}<
,
").
Definition c424 : case := (" },<", " 
},
<
").
Definition c425 : case := (" } (", " 
} (
").
Definition c426 : case := (" (}{", " (
    
} {
    ").
Definition c427 : case := (" ((a", " (
    (
        a").
Definition c428 : case := (" (<>", " (
    <>").
Definition c429 : case := (" (,)", " (, )").
Definition c430 : case := (" ( }", " (
     
}").
Definition c431 : case := (" ){ ", " ) {
     ").
Definition c432 : case := (" )(,", " )(
    ,
    ").
Definition c433 : case := (" )<<", " )<
    <
        ").
Definition c434 : case := (" ),(", " ),
(
    ").
Definition c435 : case := (" ) {", " )  {
    ").
Definition c436 : case := (" <{a", " <
     {
        a").
Definition c437 : case := (" <(>", " <(
    >").
Definition c438 : case := (" <<)", " <
    <
        )").
Definition c439 : case := (" <,}", " <
    ,
    
}").
Definition c440 : case := (" <a ", " <
    a ").
Definition c441 : case := (" >{,", " > {
    ,
    ").
Definition c442 : case := (" >(<", " >(
    <
        ").
Definition c443 : case := (" ><(", " ><
    (
        ").
Definition c444 : case := (" >,{", " >,
 {
    ").
Definition c445 : case := (" >aa", " >aa").
Definition c446 : case := (" ,{>", " ,
 {
    >").
Definition c447 : case := (" ,()", " ,
()").
Definition c448 : case := (" ,<}", " ,
<
    
}").
Definition c449 : case := (" ,> ", " ,
> ").
Definition c450 : case := (" ,a,", " ,
a,
").
Definition c451 : case := (" a{<", " a {
    <
        ").
Definition c452 : case := (" a((", " a(
    (
        ").
Definition c453 : case := (" a<{", " a<
     {
        ").
Definition c454 : case := (" a>a", " a>a").
Definition c455 : case := (" aa>", " aa>").
Definition c456 : case := ("  {)", "   {
    )").
Definition c457 : case := ("  (}", "  (
    
}").
Definition c458 : case := ("  ) ", "  ) ").
Definition c459 : case := ("  >,", "  >,
").
Definition c460 : case := ("  a<", "  a<
    ").
Definition c461 : case := ("a(ééaéabéabé,ébaa,,bb,é)", "a(ééaéabéabé, ébaa, , bb, é)").
Definition c462 : case := ("x{<<a>bé,,éabébéb,éaaé,ébébéa,,a,bbb,aaé>)", "x {
    <
        <a>bé,
        ,
        éabébéb,
        éaaé,
        ébébéa,
        ,
        a,
        bbb,
        aaé
    >)").
Definition c463 : case := ("a<éé,é{baééébééb,a,aaaa,,ébéé>", "a<
    éé,
    é {
        baééébééb,
        a,
        aaaa,
        ,
        ébéé
    >").
Definition c464 : case := ("x{<aaa,,é,ébabbaa,bébbbé,,é,,bbabéba,éé,,é{ééé>", "x {
    <
        aaa,
        ,
        é,
        ébabbaa,
        bébbbé,
        ,
        é,
        ,
        bbabéba,
        éé,
        ,
        é {
            ééé
        >").
Definition c465 : case := ("a<<a>,,,abé,éb,bé,bbabbaaé,abbaaaa,>}", "a<
    <a>,
    ,
    ,
    abé,
    éb,
    bé,
    bbabbaaé,
    abbaaaa,
    
>
}").
Definition c466 : case := ("<bx;:8a,(]::]8,8:8:]:]b])>,<>,<]x:xb,<<:b8[;,{[,((u,u,u),x;8xa:]],(u),][x]),<<]]b]b][,u,;:],:8]b[8x,:8;:a;:]>,x]:]xaa,8x8[x>,{{u,[:]:8xaa];8;,u,x[]a,[;[x]bbb:;},{u},[]]a:]a[ba}}>>>", "<bx;:8a,
(]::]8, 8:8:]:]b])>,
<>,
<
    ]x:xb,
    <
        <
            :b8[;,
             {
                [,
                ((u, u, u), x;8xa:]], (u), ][x]),
                <
                    <]]b]b][,
                    u,
                    ;:],
                    :8]b[8x,
                    :8;:a;:]>,
                    x]:]xaa,
                    8x8[x
                >,
                 {
                     {
                        u,
                        [:]:8xaa];8;,
                        u,
                        x[]a,
                        [;[x]bbb:;
                    },
                     {
                        u
                    },
                    []]a:]a[ba
                }
            }
        >
    >
>").
Definition c467 : case := ("([]]:8,<(),;ba8;ba8[[>,<>,bb::a;a]),([bb,{a8::8b[[;888},{8;[x::b:,<:,{{]8b[;8;]},<;;8x;ba,[[[xx]xx;;,{::x:x8a,u}>}>})", "(
    []]:8,
    <(),
    ;ba8;ba8[[>,
    <>,
    bb::a;a]
),
(
    [bb,
     {
        a8::8b[[;888
    },
     {
        8;[x::b:,
        <
            :,
             {
                 {
                    ]8b[;8;]
                },
                <
                    ;;8x;ba,
                    [[[xx]xx;;,
                     {
                        ::x:x8a,
                        u
                    }
                >
            }
        >
    }
)").
Definition c468 : case := ("x,{(b[a;:[[,x[;;a,{a8:}),a88xxb}", "x,
 {
    (
        b[a;:[[,
        x[;;a,
         {
            a8:
        }
    ),
    a88xxb
}").
Definition c469 : case := ("{[xx[b[]:a,:[;]x}", " {
    [xx[b[]:a,
    :[;]x
}").
Definition c470 : case := ("]:]x][,<<8[8b,{a[];xbb}>,8;;b8b;;8x,(<8]:x,<[;ax];[[bb:x>>,<>,;a[]8bx:;88,{({a,<u,8,8a]xxx]:;ba,u>,<u,b>,[[a8a;xa[],(:,u,;ba]b;xb:b)},<(u,a:8axx[,b[b[88:,u)>,a),{]];,ab:8;:x8,{[][[8,(u,u,;8;;b[bb:[])}}})>", "]:]x][,
<
    <
        8[8b,
         {
            a[];xbb
        }
    >,
    8;;b8b;;8x,
    (
        <8]:x,
        <[;ax];[[bb:x>>,
        <>,
        ;a[]8bx:;88,
         {
            (
                 {
                    a,
                    <u,
                    8,
                    8a]xxx]:;ba,
                    u>,
                    <u,
                    b>,
                    [[a8a;xa[],
                    (:, u, ;ba]b;xb:b)
                },
                <(u, a:8axx[, b[b[88:, u)>,
                a
            ),
             {
                ]];,
                ab:8;:x8,
                 {
                    [][[8,
                    (u, u, ;8;;b[bb:[])
                }
            }
        }
    )
>").
Definition c471 : case := ("]::[a;]a;,({{]b[a];b,8;:,({},]b:aa:[:x8)}})", "]::[a;]a;,
(
     {
         {
            ]b[a];b,
            8;:,
            (
                 {
                    
                },
                ]b:aa:[:x8
            )
        }
    }
)").
Definition c472 : case := ("{<>,;b;8a[;xx]}", " {
    <>,
    ;b;8a[;xx]
}").
Definition c473 : case := ("{aax];xa;:xb},(<>,<{{<(u)>,[]]]x]xx,()}},<{x:8;x[x,;]bbb,(<u>,(u,u),<8:]]>,{u},<b[a:,u,u,u>),a];]xxxa;8,<]8axa8,x;b8[axa;,{u,8,:},::bb[:]b]>},<xa;[8bxxb:x>>>)", " {
    aax];xa;:xb
},
(
    <>,
    <
         {
             {
                <(u)>,
                []]]x]xx,
                ()
            }
        },
        <
             {
                x:8;x[x,
                ;]bbb,
                (
                    <u>,
                    (u, u),
                    <8:]]>,
                     {
                        u
                    },
                    <b[a:,
                    u,
                    u,
                    u>
                ),
                a];]xxxa;8,
                <
                    ]8axa8,
                    x;b8[axa;,
                     {
                        u,
                        8,
                        :
                    },
                    ::bb[:]b]
                >
            },
            <xa;[8bxxb:x>
        >
    >
)").
Definition c474 : case := ("8;8[8ba],(ba[8:ba),{b8x[]},(),aa]xax]b;]:a", "8;8[8ba],
(ba[8:ba),
 {
    b8x[]
},
(),
aa]xax]b;]:a").
Definition c475 : case := ("::x;[,({bxxx]x:a,;8b;b;ax,({{{},<>,{}},<][x[>,<{u,x[:b:[b]8a8,u},<u,u,8xxb8:,:;bx[:;:x[:b,u>,[8,<u,aab[][ba,u,u>>},<({u,8;];8:[b8,u,[;];x})>)})", "::x;[,
(
     {
        bxxx]x:a,
        ;8b;b;ax,
        (
             {
                 {
                     {
                        
                    },
                    <>,
                     {
                        
                    }
                },
                <][x[>,
                <
                     {
                        u,
                        x[:b:[b]8a8,
                        u
                    },
                    <u,
                    u,
                    8xxb8:,
                    :;bx[:;:x[:b,
                    u>,
                    [8,
                    <u,
                    aab[][ba,
                    u,
                    u>
                >
            },
            <
                (
                     {
                        u,
                        8;];8:[b8,
                        u,
                        [;];x
                    }
                )
            >
        )
    }
)").
Definition c476 : case := ("x],<;:,:b::,<{]:ab},]x[;aa,b8x;]88a>,[::,]:b[8[8xx>,(xb;ax]:x;x]),{{<{{{}}}>}}", "x],
<
    ;:,
    :b::,
    <
         {
            ]:ab
        },
        ]x[;aa,
        b8x;]88a
    >,
    [::,
    ]:b[8[8xx
>,
(xb;ax]:x;x]),
 {
     {
        <
             {
                 {
                     {
                        
                    }
                }
            }
        >
    }
}").
Definition c477 : case := ("<(<:]][bx]a,(8x8xx8:a),(),<>>,aa]:])>,{{(<{<;[]a8;;;a8,][a,b;]bxx[;]x,u,8x8]x[8x:>,{},;b;;}>),(bbb8:a;bba:,<({u,8x],]xx:,8;:},[b,{ba,u},(b]ab,u),{u}),(<u>,(]:8]8,u,u,u,:ab]b),(u,];,u)),aa>),<:8,[b[a;[,(([]b;[:,8[bx[][,;[[a[a]))>}}", "<
    (
        <:]][bx]a,
        (8x8xx8:a),
        (),
        <>>,
        aa]:]
    )
>,
 {
     {
        (
            <
                 {
                    <
                        ;[]a8;;;a8,
                        ][a,
                        b;]bxx[;]x,
                        u,
                        8x8]x[8x:
                    >,
                     {
                        
                    },
                    ;b;;
                }
            >
        ),
        (
            bbb8:a;bba:,
            <
                (
                     {
                        u,
                        8x],
                        ]xx:,
                        8;:
                    },
                    [b,
                     {
                        ba,
                        u
                    },
                    (b]ab, u),
                     {
                        u
                    }
                ),
                (
                    <u>,
                    (]:8]8, u, u, u, :ab]b),
                    (u, ];, u)
                ),
                aa
            >
        ),
        <
            :8,
            [b[a;[,
            (([]b;[:, 8[bx[][, ;[[a[a]))
        >
    }
}").
Definition c478 : case := ("(),{<(ba:8:xa:x])>}", "(),
 {
    <(ba:8:xa:x])>
}").
Definition c479 : case := ("b;];ba,<ab[88,8[]]8a],][;a;b]8,;xaa]]:,((];a,;x[[;;[8;:;[,]8a88;a8,[x;;[:),((:;]8,::a,{(),xb8;]b}),(<(:[[]:b]8ba[,u,][;,]];a;a]x8:,u),a>,(<;8;x][;:,u,b8x,u>))),<::;bab8x8,{((b:a]xa),{u},bbx;bb;,;8[b;;[[)}>,{})>", "b;];ba,
<
    ab[88,
    8[]]8a],
    ][;a;b]8,
    ;xaa]]:,
    (
        (
            ];a,
            ;x[[;;[8;:;[,
            ]8a88;a8,
            [x;;[:
        ),
        (
            (
                :;]8,
                ::a,
                 {
                    (),
                    xb8;]b
                }
            ),
            (
                <
                    (:[[]:b]8ba[, u, ][;, ]];a;a]x8:, u),
                    a
                >,
                (<;8;x][;:, u, b8x, u>)
            )
        ),
        <
            ::;bab8x8,
             {
                (
                    (b:a]xa),
                     {
                        u
                    },
                    bbx;bb;,
                    ;8[b;;[[
                )
            }
        >,
         {
            
        }
    )
>").
Definition c480 : case := (":aa:,<(<;;ba,]]xa,<(<u,:x:>,a[:,(;;bxxb:a;,a8b,u,b]a;:b[a8),{u},<];a[];][b]]8,u,[]b,u>),{(x]a[bxx8,u,:8:a8,u,ab:]]]][b[),bx:[;},[8]]][:;8b]>,{<>},[]b:[axb>),a8a;]x8::a8,{::[]8x8xb8}>", ":aa:,
<
    (
        <
            ;;ba,
            ]]xa,
            <
                (
                    <u,
                    :x:>,
                    a[:,
                    (;;bxxb:a;, a8b, u, b]a;:b[a8),
                     {
                        u
                    },
                    <];a[];][b]]8,
                    u,
                    []b,
                    u>
                ),
                 {
                    (x]a[bxx8, u, :8:a8, u, ab:]]]][b[),
                    bx:[;
                },
                [8]]][:;8b]
            >,
             {
                <>
            },
            []b:[axb
        >
    ),
    a8a;]x8::a8,
     {
        ::[]8x8xb8
    }
>").
Definition c481 : case := ("({<<b]a,<>,({8a8},<::,u,u,]a[:;x>,(u,u,u,];[xa;a,u),<xb8a]b>)>>})", "(
     {
        <
            <
                b]a,
                <>,
                (
                     {
                        8a8
                    },
                    <::,
                    u,
                    u,
                    ]a[:;x>,
                    (u, u, u, ];[xa;a, u),
                    <xb8a]b>
                )
            >
        >
    }
)").
Definition c482 : case := (";[xxbx]bab],((]]b,x8;x[:;:[b,][b[;baa,<<{<u,xa,88x,u,u>,[x8::;b888a;,a[8[a8;b,{]88b8aa;[8];,b8[a[;b:xb,[]bbaxb:aa},b88aabb]},([[],;:;:]];a)>>))", ";[xxbx]bab],
(
    (
        ]]b,
        x8;x[:;:[b,
        ][b[;baa,
        <
            <
                 {
                    <u,
                    xa,
                    88x,
                    u,
                    u>,
                    [x8::;b888a;,
                    a[8[a8;b,
                     {
                        ]88b8aa;[8];,
                        b8[a[;b:xb,
                        []bbaxb:aa
                    },
                    b88aabb]
                },
                ([[], ;:;:]];a)
            >
        >
    )
)").
Definition c483 : case := ("b;::8,a8]:8;bb:::8", "b;::8,
a8]:8;bb:::8").
Definition c484 : case := ("{},a[x;bax:;:,];][:b8x,{b:8,xbaa]8}", " {
    
},
a[x;bax:;:,
];][:b8x,
 {
    b:8,
    xbaa]8
}").
Definition c485 : case := ("<],(),{},bx[a;a8>,<((<b::xx]:8,<{u,u},<bb8]]::b;8x,u,a,u>>,:xb:xx[;a>),({a;:aa;:[b;,[8[ab]8],{;:][bx;8[x[,x:[];b}},<8xabx:]>))>", "<
    ],
    (),
     {
        
    },
    bx[a;a8
>,
<
    (
        (
            <
                b::xx]:8,
                <
                     {
                        u,
                        u
                    },
                    <bb8]]::b;8x,
                    u,
                    a,
                    u>
                >,
                :xb:xx[;a
            >
        ),
        (
             {
                a;:aa;:[b;,
                [8[ab]8],
                 {
                    ;:][bx;8[x[,
                    x:[];b
                }
            },
            <8xabx:]>
        )
    )
>").
Definition c486 : case := ("(baa8::8;x),({:[[][a:x;a[x},<{()},x:]xaab>,<[::,{},{:,<{<u,u,u>},([[bx88,(:a,u,x:]x),<>,<[]];b;bb8b:8,;;8b;x,u,u,u>,(u)),;[xaxaaxa,a>,(;;8xb:8[;[;a,(];]:),];)},{]8;;[b,;b[:;:]]]x;},[a;;axa;][:>),]xxx];]8b:,:]a[", "(baa8::8;x),
(
     {
        :[[][a:x;a[x
    },
    <
         {
            ()
        },
        x:]xaab
    >,
    <
        [::,
         {
            
        },
         {
            :,
            <
                 {
                    <u,
                    u,
                    u>
                },
                (
                    [[bx88,
                    (:a, u, x:]x),
                    <>,
                    <[]];b;bb8b:8,
                    ;;8b;x,
                    u,
                    u,
                    u>,
                    (u)
                ),
                ;[xaxaaxa,
                a
            >,
            (;;8xb:8[;[;a, (];]:), ];)
        },
         {
            ]8;;[b,
            ;b[:;:]]]x;
        },
        [a;;axa;][:
    >
),
]xxx];]8b:,
:]a[").
Definition c487 : case := ("(<]8aa[,]a:,<x[:>,a;x]>,(;xx;b,{},{xb;b,;];axa,{},;bb,{8],:a[x;;,[b:8bba8;x8}}),(::x,;;;a[)),{a[:x[x:},{<<>>}", "(
    <]8aa[,
    ]a:,
    <x[:>,
    a;x]>,
    (
        ;xx;b,
         {
            
        },
         {
            xb;b,
            ;];axa,
             {
                
            },
            ;bb,
             {
                8],
                :a[x;;,
                [b:8bba8;x8
            }
        }
    ),
    (::x, ;;;a[)
),
 {
    a[:x[x:
},
 {
    <<>>
}").
Definition c488 : case := ("<{8:a:]:8,<{}>},{:ba][;8[;ab;}>,xx;aa8;;;;x,b", "<
     {
        8:a:]:8,
        <
             {
                
            }
        >
    },
     {
        :ba][;8[;ab;
    }
>,
xx;aa8;;;;x,
b").
Definition c489 : case := ("<<[a8a[ba:bba,(<({u,]8;8x8x[[x[,u,u},xb,{u,u},{u,u,u},{:;xxbb:[;x],u,u,:,u}),<(u,u,::x[)>,ba:;a[a,:[ba[]x;[x[>)>>", "<
    <
        [a8a[ba:bba,
        (
            <
                (
                     {
                        u,
                        ]8;8x8x[[x[,
                        u,
                        u
                    },
                    xb,
                     {
                        u,
                        u
                    },
                     {
                        u,
                        u,
                        u
                    },
                     {
                        :;xxbb:[;x],
                        u,
                        u,
                        :,
                        u
                    }
                ),
                <(u, u, ::x[)>,
                ba:;a[a,
                :[ba[]x;[x[
            >
        )
    >
>").
Definition c490 : case := (":8xb:]:,::;x[axbx;];,;,;[:;xa,{x;x[]:8[8a,({<(8aa8),<{u},{][:[]:;x]b:,8,a]]b]b;a:ba,:88x]x[[],u}>,{(u,u,u,x[;;b;]b,8x)},{x[8:;;[]]:[:,<]>,[a8:,<xx;[x;][a,b8:]ab[a8a]a>}>})}", ":8xb:]:,
::;x[axbx;];,
;,
;[:;xa,
 {
    x;x[]:8[8a,
    (
         {
            <
                (8aa8),
                <
                     {
                        u
                    },
                     {
                        ][:[]:;x]b:,
                        8,
                        a]]b]b;a:ba,
                        :88x]x[[],
                        u
                    }
                >,
                 {
                    (u, u, u, x[;;b;]b, 8x)
                },
                 {
                    x[8:;;[]]:[:,
                    <]>,
                    [a8:,
                    <xx;[x;][a,
                    b8:]ab[a8a]a>
                }
            >
        }
    )
}").
Definition c491 : case := ("]
 <b)<é >€:<[ (a𝄞é}Z€}}<))< ;é)b𝄞é𝄞(é}
]<é ],:,]é	bZba
{,

;[b)
(,]a ;
), {𝄞b}	[([:]Z<,:)}>[<Z[	}é𝄞>aéa
>}{;€€
[b[(a:()>[)€,{:Z𝄞€
{	€[𝄞 Z>)é,}	><) ( ", "]
 <
    b)<é >€:<
        [ (a𝄞é
    }Z€
}
}<
))<
     ;é)b𝄞é𝄞(
        é
    }
]<
        é ],
        :,
        ]é	bZba
 {
            ,
            

;[b
        )
(, ]a ;
),
          {
            𝄞b
        }	[([:]Z<, :)
    }>[<Z[	
}é𝄞>aéa

>
} {
;€€
[b[(a:()
>[)€,
 {
:Z𝄞€
 {
	€[𝄞 Z
>)é,

}	
><
) (
 ").
Definition c492 : case := (">,	 Z; :[: > (}],Z
}Z<a>	}{){bb	Z>{𝄞Z,):<b{{{)€,(𝄞Z[:;bé;
;}𝄞{]aa>
<[<b}};]:< [	(ba
{>:,,é{b,(
€<b,€,<Z€<,>}}}€{:Z{:) ;:]
b>Z{>}{
}[ Z(𝄞ba:(;{:,],<𝄞)) }	
{)> >€)Z}", ">,
	 Z; :[: > (
    
}],
Z

}Z<a>	
} {

) {
bb	Z> {
𝄞Z,
):<
    b {
         {
             {
                )€,
                (
                    𝄞Z[:;bé;
;
                }𝄞 {
                    ]aa
                >
<
                    [<
                        b
                    }
                };]:<
                     [	(
                        ba
 {
                            
                        >:,
                        ,
                        é {
                            b,
                            (
                                
€<
                                    b,
                                    €,
                                    <
                                        Z€<,
                                        >
                                    }
                                }
                            }€ {
                                :Z {
                                    :
                                ) ;:]
b
                            >Z {
                                
                            >
                        } {
                            

                        }[ Z(
                            𝄞ba:(
                                ; {
                                    :,
                                    ],
                                    <
                                        𝄞
                                    )
                                ) 
                            }	
 {
                                
                            )
                        > 
                    >€
                )Z
            }").
Definition c493 : case := ("		(]Z𝄞;}
)](a[}}€𝄞]}𝄞;]Z:::éZ	 ,𝄞€(𝄞é(,a)[	,b	 [:ab>
b<[𝄞𝄞(:b};(aa}:
]]𝄞
€}a]𝄞b[,)>[	]:é]	<b:))
ab,<a,;>:,)[
𝄞 ](;€Z,Zb{[
é
Zb{{(é<}€𝄞];
<,(€	:{𝄞>({a€b]", "		(]Z𝄞;
}
)](
a[
}
}€𝄞]
}𝄞;]Z:::éZ	 ,
𝄞€(
𝄞é(, a)[	,
b	 [:ab>
b<[𝄞𝄞(
:b
};(aa
}:
]]𝄞
€
}a]𝄞b[, )>[	]:é]	<
b:
)
)
ab,
<a,
;>:,

)[
𝄞 ](
;€Z,
Zb {
[
é
Zb {
 {
(
é<

}€𝄞];
<
,
(
    €	: {
        𝄞
    >(
         {
            a€b]").
Definition c494 : case := ("}𝄞[[{;a((𝄞é{,Z𝄞;b}}[Z(){{ { ,:	:b>Z	}aéa:
]b,€[}; :]𝄞):)é€
(Z)<a{b:[[>[]€;é€}𝄞(	
}b:((;<
 Zéb :	]é(])é€; (>{;Z€;<b	é] <,a (a;Z){b(	;
]	][b]b)
{Zé<<{><:b:[𝄞Z aZ)]>[ a:>;<]
a(é€{;
€é)b
{	a{ [>,;b :]	é,> Z;)]:>;]Zé€[(a>€[(Z (b}:)a	<<:a€	Z{,(]<: ;
]
>}
;}](	;𝄞,(]	Z> ((}]é<,é]€{;<𝄞)
𝄞𝄞b] 𝄞{	> }ébb[
𝄞", "
}𝄞[[ {
;a(
    (
        𝄞é {
            ,
            Z𝄞;b
        }
    }[Z() {
         {
              {
                 ,
                :	:b>Z	
            }aéa:
]b,
            €[
        }; :]𝄞
    ):
)é€
(Z)<
    a {
        b:[[
    >[]€;é€
}𝄞(
    	

}b:(
    (
        ;<
 Zéb :	]é(])é€; (
            > {
                ;Z€;<
                    b	é] <
                        ,
                        a (a;Z) {
                            b(	;
]	][b]b)
 {
                                Zé<
                                    <
                                         {
                                            
                                        ><:b:[𝄞Z aZ
                                    )]>[ a:
                                >;<
                                    ]
a(
                                        é€ {
                                            ;
€é
                                        )b
 {
                                            	a {
                                                 [
                                            >,
                                            ;b :]	é,
                                            
                                        > Z;
                                    )]:
                                >;]Zé€[(
                                    a>€[(
                                        Z (b
                                    }:)a	<
                                        <
                                            :a€	Z {
                                                ,
                                                (
                                                    ]<: ;
]
>
                                                }
;
                                            }](
                                                	;𝄞,
                                                (
                                                    ]	Z
                                                > (
                                                    (
                                                        
                                                    }]é<
                                                        ,
                                                        é]€ {
                                                            ;<
                                                                𝄞
                                                            )
𝄞𝄞b] 𝄞 {
                                                                	
                                                            > 
                                                        }ébb[
𝄞").
Definition c495 : case := ("€]	(€
 :[ ))b)b𝄞é𝄞b ]é𝄞:}a:€,):aZ[,:€)€,
>Z €}€éé
;]:{,]},{;éZ(a	:€𝄞;
é,];Z

aa	{)	>[
	𝄞
;; (€b€;
	:𝄞{:{]{<b,€)(
é(bé>	𝄞 <𝄞;	}Z€b{{éé)]Z{ ><<)Z
<,[é(

 [	}
	,,[,{€{
aZ
:,;b
Z,Zé)[:<}𝄞 

< 𝄞],€€é)[

é€", "€]	(€
 :[ ))b)b𝄞é𝄞b ]é𝄞:
}a:€,
):aZ[,
:€)€,

>Z €
}€éé
;]: {
,
]
},
 {
;éZ(
a	:€𝄞;
é,
];Z

aa	 {
    
)	>[
	𝄞
;; (
    €b€;
	:𝄞 {
        : {
            ] {
                <b,
                €
            )(
                
é(
                    bé>	𝄞 <
                        𝄞;	
                    }Z€b {
                         {
                            éé
                        )]Z {
                             
                        ><
                            <
                                
                            )Z
<
                                ,
                                [é(
                                    

 [	
                                }
	,
                                ,
                                [,
                                 {
                                    € {
                                        
aZ
:,
                                        ;b
Z,
                                        Zé
                                    )[:<
                                        
                                    }𝄞 

<
                                         𝄞],
                                        €€é)[

é€").
Definition c496 : case := ("{([ )[[}}[b<{):
}:[ [}:((a:€ 	> {  𝄞;é]{	b),(];aa;}b,(,é€a:,< ] :
{;𝄞:é(é	𝄞}
𝄞(𝄞:{>b>aé]𝄞; 
	) €()>>; ];{>( €𝄞,>	];,;
(a𝄞 >éé>a	:{[a	{	,
<;,}é:𝄞€>;€;éa]

:(;é,,<{[{éZ>	aba{𝄞(€éb)>b[(
a €}", " {
    ([ )[[
}
}[b<
 {
    ):

}:[ [
}:(
(
    a:€ 	
>  {
      𝄞;é] {
        	b
    ),
    (
        ];aa;
    }b,
    (
        ,
        é€a:,
        <
             ] :
 {
                ;𝄞:é(
                    é	𝄞
                }
𝄞(
                    𝄞: {
                        
                    >b>aé]𝄞; 
	
                ) €()>>; ]; {
                    >(
                         €𝄞,
                        >	];,
                        ;
(
                            a𝄞 >éé>a	: {
                                [a	 {
                                    	,
                                    
<;,
                                    
                                }é:𝄞€>;€;éa]

:(
                                    ;é,
                                    ,
                                    <
                                         {
                                            [ {
                                                éZ
                                            >	aba {
                                                𝄞(€éb)>b[(
                                                    
a €
                                                }").
Definition c497 : case := ("),b𝄞

€𝄞Z )>a€ }𝄞€

>Z)}{	aébZ
é,
a[,		a;a
{[abaZ([,(]𝄞aa(	Z{;}Z;,(:)<(> }	b
€[< >éa;𝄞é€:ZbZ,}[} a:>𝄞a)(,aZ]	({><:	Z}𝄞		>}} ([𝄞	;[[:Z{	},]", "),
b𝄞

€𝄞Z )>a€ 
}𝄞€

>Z)
} {
	aébZ
é,

a[,
		a;a
 {
[abaZ(
    [,
    (
        ]𝄞aa(
            	Z {
                ;
            }Z;,
            (:)<(> 
        }	b
€[< >éa;𝄞é€:ZbZ, 
    }[
} a:>𝄞a)(
    ,
    aZ]	(
         {
            ><:	Z
        }𝄞		>
    }
} (
    [𝄞	;[[:Z {
        	
    },
    ]").
Definition c498 : case := ("
a<}}} {Za𝄞	,({€(,,<
	€,})},𝄞<(	€:a:[<b[ZZ(]>]é]
a]𝄞} 	>𝄞(b,,,<Zbé:(}] 
𝄞 a€Zé
€é[é	[€]>Z}:);Z€{	é)€𝄞Z];;Z:<[(<
]𝄞>𝄞,:{{ZZ,:[< ,;;
𝄞𝄞b𝄞[𝄞aa>[	(>;][€){:€]ZZ:,<[;	 Zb { é(Z(		€(b

:𝄞Z])>>[Z𝄞:{𝄞:};;é<}:;
[ [;Z𝄞):<;b<{;{
) ZZ{>
){é€€: é}Z€)<)<<𝄞𝄞})]é,	éZ<	bZ𝄞  𝄞)𝄞", "
a<
    
}
}
}  {
Za𝄞	,
(
 {
    €(, , <
        
	€, 
    })
},
𝄞<(
    	€:a:[<b[ZZ(
        ]>]é]
a]𝄞
    } 	>𝄞(
        b,
        ,
        ,
        <Zbé:(
    }] 
𝄞 a€Zé
€é[é	[€]>Z
}:);Z€ {
    	é
)€𝄞Z];;Z:<
    [(
        <
]𝄞>𝄞,
        : {
             {
                ZZ,
                :[< ,
                ;;
𝄞𝄞b𝄞[𝄞aa>[	(
            >;][€) {
                :€]ZZ:,
                <
                    [;	 Zb  {
                         é(
                            Z(
                                		€(b

:𝄞Z])
                            >
                        >[Z𝄞: {
                            𝄞:
                        };;é<
                            
                        }:;
[ [;Z𝄞
                    ):<
                        ;b<
                             {
                                ; {
                                    

                                ) ZZ {
                                    
                                >

                            ) {
                                é€€: é
                            }Z€
                        )<
                            
                        )<
                            <
                                𝄞𝄞
                            }
                        )]é,
                        	éZ<
                            	bZ𝄞  𝄞)𝄞").
Definition c499 : case := ("a; 𝄞<	)[);b[	𝄞{ {é([]	b::(:: ({Z𝄞:[>)b€]𝄞
Z𝄞<{b{;}ab€;{,},a:[](<[>bb
 <𝄞>(,)){
€
{>>éZ
", "a; 𝄞<
    	)[);b[	𝄞 {
          {
            é(
                []	b::(
                    :: (
                         {
                            Z𝄞:[
                        >
                    )b€]𝄞
Z𝄞<
                         {
                            b {
                                ;
                            }ab€; {
                                ,
                                
                            },
                            a:[](<[>bb
 <𝄞>(, )) {
                                
€
 {
                                    
                                >>éZ
").
Definition c500 : case := ("€b])] }:
[€):: )
>𝄞]	>):
>a𝄞𝄞(][;)
,b
Z]>;,[,<€Z><;é<,((;€€Z
b}};é}aZa> ,𝄞a𝄞:€(>a<}	[Z{;)}:
éaa:bZ,:}é𝄞(éa€", "€b])] 
}:
[€):: )
>𝄞]	>):
>a𝄞𝄞(][;)
,
b
Z]>;,
[,
<€Z><;é<,
(
(
    ;€€Z
b
}
};é
}aZa> ,
𝄞a𝄞:€(
>a<

}	[Z {
;
)
}:
éaa:bZ,
:
}é𝄞(
éa€").
Definition c501 : case := (";],}<{)	{);:]{[	(<;€);é	€aZ(:aé:]Z);Z;{a
 aab{>€,𝄞é;,<{€b>{}	;
é<	a;[:,::b,𝄞	>
𝄞:€,{a
(,€aa}[>)()}; ,ab;)(Z>	,	}€>a]>,)𝄞}	>é(<;}bbé,a{})𝄞
bbZ[)€:[}]){;(<; 𝄞€€{>a{b;,)a<a€:),, Z);é]]€>,>a:,,:𝄞<(;,a({[ba}({,aa€>}(,Z", ";],

}<
 {
    )	 {
        );:] {
            [	(<
                ;€);é	€aZ(:aé:]Z);Z; {
                    a
 aab {
                        
                    >€,
                    𝄞é;,
                    <
                         {
                            €b
                        > {
                            
                        }	;
é<	a;[:,
                        ::b,
                        𝄞	>
𝄞:€,
                         {
                            a
(, €aa
                        }[
                    >)()
                }; ,
                ab;)(Z>	, 	
            }€>a]>, )𝄞
        }	>é(
            <
                ;
            }bbé,
            a {
                
            }
        )𝄞
bbZ[)€:[
    }]) {
        ;(
            <
                ; 𝄞€€ {
                    
                >a {
                    b;,
                    
                )a<a€:),
                ,
                 Z);é]]€>,
                
            >a:,
            ,
            :𝄞<
                (
                    ;,
                    a(
                         {
                            [ba
                        }(
                             {
                                ,
                                aa€
                            >
                        }(
                            ,
                            Z").
Definition c502 : case := ("Z>](>𝄞
,€)){<	(>b]b(	><<[a
]()aZa  <]€b)

aé<];>é[b)b[	(
	𝄞>
[),Z:b
:éa𝄞}[é;€
]({(b𝄞𝄞€é[𝄞<)b€<:{);)(
)b(é:>ba;,a{Z<𝄞𝄞a():bb	Z
[},b:}é	a𝄞é;(Z)€𝄞:],(Z	é[{a<)a)é𝄞)[𝄞}b(Z>€𝄞,},:a	[Z

):a;bé	
a[<[{a (::{{(a
 (>	€
é,𝄞) { 𝄞a;;>{	𝄞
€;b<béa)(𝄞:)aa	 
Z;][}(bZ,ba]	é[;€:;}(>𝄞[[>
b>𝄞𝄞)Z
𝄞},>{
b]:	[;>€€€<,:{:<", "Z>](>𝄞
, €)) {
    <	(
        >b]b(	><
            <
                [a
]()aZa  <]€b)

aé<];>é[b
            )b[	(
	𝄞>
[),
            Z:b
:éa𝄞
        }[é;€
](
             {
                (b𝄞𝄞€é[𝄞<
                    )b€<
                        : {
                            
                        );)(
)b(
                            é:
                        >ba;,
                        a {
                            Z<
                                𝄞𝄞a():bb	Z
[
                            },
                            b:
                        }é	a𝄞é;(Z)€𝄞:],
                        (
                            Z	é[ {
                                a<
                            )a
                        )é𝄞)[𝄞
                    }b(Z>€𝄞, 
                }, :a	[Z

):a;bé	
a[<
                    [ {
                        a (
                            :: {
                                 {
                                    (
                                        a
 (
                                    >	€
é, 𝄞)  {
                                         𝄞a;;
                                    > {
                                        	𝄞
€;b<
                                            béa
                                        )(𝄞:)aa	 
Z;][
                                    }(
                                        bZ,
                                        ba]	é[;€:;
                                    }(
                                >𝄞[[
                            >
b
                        >𝄞𝄞)Z
𝄞
                    },
                    
                > {
                    
b]:	[;>€€€<
                        ,
                        : {
                            :<
                                ").
Definition c503 : case := ("a](;:}>a>{b{:<	<Z:{ )	é)[b[}𝄞<<;€ b>b(,(,Z,]€( :)€a,)é,>]a
b]))€Z[a>
", "a](
    ;:
}>a> {
    b {
        :<
            	<
                Z: {
                     
                )	é)[b[
            }𝄞<<;€ b>b(, (, Z, ]€( :)€a, )é, >]a
b]))€Z[a
        >
").
Definition c504 : case := ("
)𝄞a]<é}
Z	(:é>é[;>(<()[):€,;	){{,:€]
é:}[<)a},Z:<]<

Z[a	b;>)€𝄞,: b

)(>:<𝄞]	
 € ]", "
)𝄞a]<é
}
Z	(:é>é[;>(<
()[):€, ;	) {
     {
        ,
        :€]
é:
    }[<
        )a
    },
    Z:<]<

Z[a	b;>)€𝄞,
    : b

)(
        >:<
            𝄞]	
 € ]").
Definition c505 : case := (">}bZa)é}}}	
([:	,
{<	b[Z,é)€;(,𝄞€{	]Z<b𝄞[	éé𝄞( >)  >b>;b} 	},
	Z€;<;b):<Z(Z},,a[a(
(,é};𝄞:€a>)) é	:𝄞)(€
}𝄞:
", ">
}bZa)é
}
}
}	
(
[:	,

 {
<
	b[Z,
é
)€;(
,
𝄞€ {
	]Z<b𝄞[	éé𝄞( >)  
>b>;b
} 	
},

	Z€;<
;b
):<Z(Z
}, , a[a(
(, é
};𝄞:€a>)) é	:𝄞)(
€

}𝄞:
").
Definition c506 : case := ("aZ]Z}) ,é[{bé(é};>>		 <
}€,}b	:::b}
[;[]]Zéaé}𝄞	
Zba<{	
{}[
𝄞 <(𝄞Z,>{é( b
>),b[,]:,[:é	}>}{)éa;;Z] {Z: >a<
𝄞<>Z𝄞Z))<<[[€: }:{}((
	 𝄞;𝄞)>Z <		<Z>;>a;}:]>]{>],𝄞((:)
,éZ,
 {𝄞>]a[;;(𝄞, }é𝄞)é<;,:);𝄞", "aZ]Z
}) ,
é[ {
bé(
    é
};>>		 <
    

}€,

}b	:::b
}
[;[]]Zéaé
}𝄞	
Zba<
 {
	
 {

}[
𝄞 <(
𝄞Z,
> {
    é( b

>),
b[,
]:,
[:é	
}
>
} {

)éa;;Z]  {
Z: >a<

𝄞<>Z𝄞Z
))<
<
[[€: 
}: {

}(
(
	 𝄞;𝄞)
>Z <		<Z>;>a;
}:]
>] {

>],
𝄞(
(:)
,
éZ,

  {
𝄞>]a[;;(𝄞,  
}é𝄞)é<
;,
:
);𝄞").
Definition c507 : case := ("}}
:,<{Z{,€€(𝄞],é)€:,é	;{ {][,;€]
)(ba]}[aa>a;a 	)],<}{(a)>	 :>}éba𝄞€}Z [ é}€]€𝄞:;,Z,𝄞}(€
{],{{b	,;]{):{Z::é[,	
><((€,{({𝄞]:b}é,€])[€	𝄞}a[ }; €)<a}
  ;é {a	;{,<𝄞{:,{{)}a𝄞;)<))];é{< }Zé	<é])(
𝄞é](a	,:]€ };,;<a(](:; 𝄞>{bb	<{b(
𝄞ba[(	Z}é:<,:;	 <€𝄞 <Z 
:,:<><< Z{ <	ZéZ ", "
}
}
:,
<
 {
Z {
    ,
    €€(𝄞], é)€:,
    é	; {
          {
            ][,
            ;€]
)(ba]
        }[aa
    >a;a 	)],
    <
        
    } {
        (a)
    >	 :>
}éba𝄞€
}Z [ é
}€]€𝄞:;,
Z,
𝄞
}(
€
 {
],
 {
 {
    b	,
    ;] {
        
    ): {
        Z::é[,
        	
><
            (
                (
                    €,
                     {
                        (
                             {
                                𝄞]:b
                            }é,
                            €]
                        )[€	𝄞
                    }a[ 
                }; €
            )<
                a
            }
  ;é  {
                a	; {
                    ,
                    <
                        𝄞 {
                            :,
                             {
                                 {
                                    
                                )
                            }a𝄞;)<
                                ))];é {
                                    <
                                         
                                    }Zé	<
                                        é])(
                                            
𝄞é](
                                                a	,
                                                :]€ 
                                            };,
                                            ;<a(
                                                ](
                                                    :; 𝄞> {
                                                        bb	<
                                                             {
                                                                b(
                                                                    
𝄞ba[(
                                                                        	Z
                                                                    }é:<
                                                                        ,
                                                                        :;	 <
                                                                            €𝄞 <
                                                                                Z 
:,
                                                                                :<><
                                                                                    <
                                                                                         Z {
                                                                                             <
                                                                                                	ZéZ ").
Definition c508 : case := ("b> 𝄞{(	[Z]};a;Z€[{>	,Z[Z


}]𝄞;{]>)	)]Z, []é	𝄞
]<€	][)Z>):ba€[,Z𝄞:𝄞 é<,𝄞𝄞[aa]{),	, }Z;b,:a]Z),[éb]><a()a >	aa}]:[}	 b>>Z})>(b(><><	;>},𝄞<}𝄞;>{Z<: €Z}€𝄞<é[)
{]€	)]{[,	<(a{(
b:]aa}>€{}{		],])>>a b<<éééab;<;
<,<<
)(,}))éZb)[,", "b> 𝄞 {
    (
        	[Z]
    };a;Z€[ {
        >	,
        Z[Z



    }]𝄞; {
        ]>
    )	)]Z,
     []é	𝄞
]<€	][)Z>):ba€[,
    Z𝄞:𝄞 é<
        ,
        𝄞𝄞[aa] {
            ),
            	,
             
        }Z;b,
        :a]Z),
        [éb]
    ><a()a >	aa
}]:[
}	 b>>Z
})>(
b(
><><	;>
},
𝄞<
}𝄞;> {
Z<
: €Z
}€𝄞<
é[
)
 {
]€	
)] {
[,
	<
    (
        a {
            (
                
b:]aa
            }
        >€ {
            
        } {
            		],
            ]
        )
    >
>a b<
    <
        éééab;<
            ;
<
                ,
                <
                    <
                        

                    )(, 
                }))éZb)[,
                ").
Definition c509 : case := (":	,
	,[
𝄞><a)>𝄞	<])):):aZ<[𝄞	>{({éa>[:}[(Z(a[𝄞<;}	[(b,}bb))b;b<é<éé>{) €b){[]},Z{𝄞b	)𝄞]b, ((>b:aéZb}()", ":	,

	,
[
𝄞><a)>𝄞	<
    ])):):aZ<[𝄞	> {
        (
             {
                éa
            >[:
        }[(
            Z(a[𝄞<
                ;
            }	[(b, 
        }bb))b;b<
            é<éé> {
                
            ) €b
        ) {
            []
        },
        Z {
            𝄞b	)𝄞]b,
             (
                (
                    
                >b:aéZb
            }()").
Definition c510 : case := ("struct PersistedValidationData<H256,u32>{parent_head: struct HeadData(Vec<u8>),relay_parent_number: u32,relay_parent_storage_root: struct H256([u8; 32]),max_pov_size: u32}", "struct PersistedValidationData<H256,
u32> {
    parent_head: struct HeadData(Vec<u8>),
    relay_parent_number: u32,
    relay_parent_storage_root: struct H256([u8; 32]),
    max_pov_size: u32
}").
Definition c511 : case := ("Vec<(u32,u128)>", "Vec<(u32, u128)>").
Definition c512 : case := ("enum Error<_>{MinimumThreshold,AlreadyApproved,NoApprovalsNeeded,TooFewSignatories,TooManySignatories,SignatoriesOutOfOrder,SenderInSignatories,NotFound,NotOwner,NoTimepoint,WrongTimepoint,UnexpectedTimepoint,MaxWeightTooLow,AlreadyStored}", "enum Error<_> {
    MinimumThreshold,
    AlreadyApproved,
    NoApprovalsNeeded,
    TooFewSignatories,
    TooManySignatories,
    SignatoriesOutOfOrder,
    SenderInSignatories,
    NotFound,
    NotOwner,
    NoTimepoint,
    WrongTimepoint,
    UnexpectedTimepoint,
    MaxWeightTooLow,
    AlreadyStored
}").
Definition c513 : case := ("struct UnappliedSlash<AccountId32,u128>{validator: struct AccountId32([u8; 32]),own: u128,others: Vec<(AccountId32,u128)>,reporters: Vec<AccountId32>,payout: u128}", "struct UnappliedSlash<AccountId32,
u128> {
    validator: struct AccountId32([u8; 32]),
    own: u128,
    others: Vec<(AccountId32, u128)>,
    reporters: Vec<AccountId32>,
    payout: u128
}").
Definition cases : list (case) := [c0; c1; c2; c3; c4; c5; c6; c7; c8; c9; c10; c11; c12; c13; c14; c15; c16; c17; c18; c19; c20; c21; c22; c23; c24; c25; c26; c27; c28; c29; c30; c31; c32; c33; c34; c35; c36; c37; c38; c39; c40; c41; c42; c43; c44; c45; c46; c47; c48; c49; c50; c51; c52; c53; c54; c55; c56; c57; c58; c59; c60; c61; c62; c63; c64; c65; c66; c67; c68; c69; c70; c71; c72; c73; c74; c75; c76; c77; c78; c79; c80; c81; c82; c83; c84; c85; c86; c87; c88; c89; c90; c91; c92; c93; c94; c95; c96; c97; c98; c99; c100; c101; c102; c103; c104; c105; c106; c107; c108; c109; c110; c111; c112; c113; c114; c115; c116; c117; c118; c119; c120; c121; c122; c123; c124; c125; c126; c127; c128; c129; c130; c131; c132; c133; c134; c135; c136; c137; c138; c139; c140; c141; c142; c143; c144; c145; c146; c147; c148; c149; c150; c151; c152; c153; c154; c155; c156; c157; c158; c159; c160; c161; c162; c163; c164; c165; c166; c167; c168; c169; c170; c171; c172; c173; c174; c175; c176; c177; c178; c179; c180; c181; c182; c183; c184; c185; c186; c187; c188; c189; c190; c191; c192; c193; c194; c195; c196; c197; c198; c199; c200; c201; c202; c203; c204; c205; c206; c207; c208; c209; c210; c211; c212; c213; c214; c215; c216; c217; c218; c219; c220; c221; c222; c223; c224; c225; c226; c227; c228; c229; c230; c231; c232; c233; c234; c235; c236; c237; c238; c239; c240; c241; c242; c243; c244; c245; c246; c247; c248; c249; c250; c251; c252; c253; c254; c255; c256; c257; c258; c259; c260; c261; c262; c263; c264; c265; c266; c267; c268; c269; c270; c271; c272; c273; c274; c275; c276; c277; c278; c279; c280; c281; c282; c283; c284; c285; c286; c287; c288; c289; c290; c291; c292; c293; c294; c295; c296; c297; c298; c299; c300; c301; c302; c303; c304; c305; c306; c307; c308; c309; c310; c311; c312; c313; c314; c315; c316; c317; c318; c319; c320; c321; c322; c323; c324; c325; c326; c327; c328; c329; c330; c331; c332; c333; c334; c335; c336; c337; c338; c339; c340; c341; c342; c343; c344; c345; c346; c347; c348; c349; c350; c351; c352; c353; c354; c355; c356; c357; c358; c359; c360; c361; c362; c363; c364; c365; c366; c367; c368; c369; c370; c371; c372; c373; c374; c375; c376; c377; c378; c379; c380; c381; c382; c383; c384; c385; c386; c387; c388; c389; c390; c391; c392; c393; c394; c395; c396; c397; c398; c399; c400; c401; c402; c403; c404; c405; c406; c407; c408; c409; c410; c411; c412; c413; c414; c415; c416; c417; c418; c419; c420; c421; c422; c423; c424; c425; c426; c427; c428; c429; c430; c431; c432; c433; c434; c435; c436; c437; c438; c439; c440; c441; c442; c443; c444; c445; c446; c447; c448; c449; c450; c451; c452; c453; c454; c455; c456; c457; c458; c459; c460; c461; c462; c463; c464; c465; c466; c467; c468; c469; c470; c471; c472; c473; c474; c475; c476; c477; c478; c479; c480; c481; c482; c483; c484; c485; c486; c487; c488; c489; c490; c491; c492; c493; c494; c495; c496; c497; c498; c499; c500; c501; c502; c503; c504; c505; c506; c507; c508; c509; c510; c511; c512; c513].
Eval vm_compute in ("corr_exact"%string, failing (corr_exact) cases).
Eval vm_compute in ("corr_stream"%string, failing (corr_stream) cases).
Eval vm_compute in ("prop_ws"%string, failing (prop_ws) cases).
Eval vm_compute in ("prop_discipline"%string, failing (prop_discipline) cases).
