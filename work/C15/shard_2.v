From Coq Require Import List NArith String.
From V Require Import Base.Util Corr.RunC15.
Import ListNotations. Open Scope string_scope.
Definition c0 : case := ("}", "
}").
Definition c1 : case := ("{ ", " {
     ").
Definition c2 : case := ("(,", "(
    ,
    ").
Definition c3 : case := ("<<", "<
    <
        ").
Definition c4 : case := (",(", ",
(
    ").
Definition c5 : case := (" {", "  {
    ").
Definition c6 : case := ("{{a", " {
     {
        a").
Definition c7 : case := ("{(>", " {
    (
        >").
Definition c8 : case := ("{<)", " {
    <
        )").
Definition c9 : case := ("{,}", " {
    ,
    
}").
Definition c10 : case := ("{a ", " {
    a ").
Definition c11 : case := ("}{,", "
} {
,
").
Definition c12 : case := ("}(<", "
}(
<
    ").
Definition c13 : case := ("}<(", "
}<
(
    ").
Definition c14 : case := ("},{", "
},
 {
").
Definition c15 : case := ("}aa", "
}aa").
Definition c16 : case := ("({>", "(
     {
        >").
Definition c17 : case := ("(()", "(
    ()").
Definition c18 : case := ("(<}", "(
    <
        
    }").
Definition c19 : case := ("(> ", "(
    > ").
Definition c20 : case := ("(a,", "(
    a,
    ").
Definition c21 : case := ("){<", ") {
    <
        ").
Definition c22 : case := (")((", ")(
    (
        ").
Definition c23 : case := (")<{", ")<
     {
        ").
Definition c24 : case := (")>a", ")>a").
Definition c25 : case := (")a>", ")a>").
Definition c26 : case := ("<{)", "<
     {
        )").
Definition c27 : case := ("<(}", "<
    (
        
    }").
Definition c28 : case := ("<) ", "<
    ) ").
Definition c29 : case := ("<>,", "<>,
").
Definition c30 : case := ("<a<", "<
    a<
        ").
Definition c31 : case := (">{(", "> {
    (
        ").
Definition c32 : case := (">({", ">(
     {
        ").
Definition c33 : case := (">)a", ">)a").
Definition c34 : case := (">>>", ">>>").
Definition c35 : case := (">a)", ">a)").
Definition c36 : case := (",{}", ",
 {
    
}").
Definition c37 : case := (",} ", ",

} ").
Definition c38 : case := (",),", ",
),
").
Definition c39 : case := (",><", ",
><
    ").
Definition c40 : case := (",a(", ",
a(
    ").
Definition c41 : case := ("a{{", "a {
     {
        ").
Definition c42 : case := ("a}a", "a
}a").
Definition c43 : case := ("a)>", "a)>").
Definition c44 : case := ("a>)", "a>)").
Definition c45 : case := ("aa}", "aa
}").
Definition c46 : case := ("a  ", "a  ").
Definition c47 : case := (" },", " 
},
").
Definition c48 : case := (" )<", " )<
    ").
Definition c49 : case := (" >(", " >(
    ").
Definition c50 : case := (" a{", " a {
    ").
Definition c51 : case := ("  a", "  a").
Definition c52 : case := ("{{}>", " {
     {
        
    }>").
Definition c53 : case := ("{{))", " {
     {
        ))").
Definition c54 : case := ("{{>}", " {
     {
        >
    }").
Definition c55 : case := ("{{, ", " {
     {
        ,
         ").
Definition c56 : case := ("{{ ,", " {
     {
         ,
        ").
Definition c57 : case := ("{}}<", " {
    
}
}<
").
Definition c58 : case := ("{})(", " {
    
})(
    ").
Definition c59 : case := ("{}>{", " {
    
}> {
    ").
Definition c60 : case := ("{},a", " {
    
},
a").
Definition c61 : case := ("{} >", " {
    
} >").
Definition c62 : case := ("{(})", " {
    (
})").
Definition c63 : case := ("{()}", " {
    ()
}").
Definition c64 : case := ("{(< ", " {
    (
        <
             ").
Definition c65 : case := ("{(,,", " {
    (
        ,
        ,
        ").
Definition c66 : case := ("{( <", " {
    (
         <
            ").
Definition c67 : case := ("{)}(", " {
    )
}(
    ").
Definition c68 : case := ("{)){", " {
    )) {
        ").
Definition c69 : case := ("{)<a", " {
    )<
        a").
Definition c70 : case := ("{),>", " {
    ),
    >").
Definition c71 : case := ("{) )", " {
    ) )").
Definition c72 : case := ("{<}}", " {
    <
        
    }
}").
Definition c73 : case := ("{<( ", " {
    <
        (
             ").
Definition c74 : case := ("{<<,", " {
    <
        <
            ,
            ").
Definition c75 : case := ("{<,<", " {
    <
        ,
        <
            ").
Definition c76 : case := ("{< (", " {
    <
         (
            ").
Definition c77 : case := ("{>}{", " {
    >
} {
    ").
Definition c78 : case := ("{>(a", " {
    >(
        a").
Definition c79 : case := ("{><>", " {
    ><>").
Definition c80 : case := ("{>,)", " {
    >,
    )").
Definition c81 : case := ("{> }", " {
    > 
}").
Definition c82 : case := ("{,{ ", " {
    ,
     {
         ").
Definition c83 : case := ("{,(,", " {
    ,
    (
        ,
        ").
Definition c84 : case := ("{,<<", " {
    ,
    <
        <
            ").
Definition c85 : case := ("{,,(", " {
    ,
    ,
    (
        ").
Definition c86 : case := ("{, {", " {
    ,
      {
        ").
Definition c87 : case := ("{a{a", " {
    a {
        a").
Definition c88 : case := ("{a(>", " {
    a(
        >").
Definition c89 : case := ("{a<)", " {
    a<
        )").
Definition c90 : case := ("{a,}", " {
    a,
    
}").
Definition c91 : case := ("{aa ", " {
    aa ").
Definition c92 : case := ("{ {,", " {
      {
        ,
        ").
Definition c93 : case := ("{ (<", " {
     (
        <
            ").
Definition c94 : case := ("{ <(", " {
     <
        (
            ").
Definition c95 : case := ("{ ,{", " {
     ,
     {
        ").
Definition c96 : case := ("{ aa", " {
     aa").
Definition c97 : case := ("}{{>", "
} {
 {
    >").
Definition c98 : case := ("}{()", "
} {
()").
Definition c99 : case := ("}{<}", "
} {
<
    
}").
Definition c100 : case := ("}{> ", "
} {
> ").
Definition c101 : case := ("}{a,", "
} {
a,
").
Definition c102 : case := ("}}{<", "
}
} {
<
").
Definition c103 : case := ("}}((", "
}
}(
(
").
Definition c104 : case := ("}}<{", "
}
}<
 {
").
Definition c105 : case := ("}}>a", "
}
}>a").
Definition c106 : case := ("}}a>", "
}
}a>").
Definition c107 : case := ("}({)", "
}(
 {
    
)").
Definition c108 : case := ("}((}", "
}(
(
    
}").
Definition c109 : case := ("}() ", "
}() ").
Definition c110 : case := ("}(>,", "
}(
>,
").
Definition c111 : case := ("}(a<", "
}(
a<
    ").
Definition c112 : case := ("}){(", "
}) {
(
    ").
Definition c113 : case := ("})({", "
})(
 {
    ").
Definition c114 : case := ("}))a", "
}))a").
Definition c115 : case := ("})>>", "
})>>").
Definition c116 : case := ("})a)", "
})a)").
Definition c117 : case := ("}<{}", "
}<
 {
    
}").
Definition c118 : case := ("}<} ", "
}<

} ").
Definition c119 : case := ("}<),", "
}<
),
").
Definition c120 : case := ("}<><", "
}<><
").
Definition c121 : case := ("}<a(", "
}<
a(
    ").
Definition c122 : case := ("}>{{", "
}> {
 {
    ").
Definition c123 : case := ("}>}a", "
}>
}a").
Definition c124 : case := ("}>)>", "
}>)>").
Definition c125 : case := ("}>>)", "
}>>)").
Definition c126 : case := ("}>a}", "
}>a
}").
Definition c127 : case := ("}>  ", "
}>  ").
Definition c128 : case := ("},},", "
},

},
").
Definition c129 : case := ("},)<", "
},
)<
").
Definition c130 : case := ("},>(", "
},
>(
").
Definition c131 : case := ("},a{", "
},
a {
").
Definition c132 : case := ("}, a", "
},
 a").
Definition c133 : case := ("}a}>", "
}a
}>").
Definition c134 : case := ("}a))", "
}a))").
Definition c135 : case := ("}a>}", "
}a>
}").
Definition c136 : case := ("}a, ", "
}a,
 ").
Definition c137 : case := ("}a ,", "
}a ,
").
Definition c138 : case := ("} }<", "
} 
}<
").
Definition c139 : case := ("} )(", "
} )(
").
Definition c140 : case := ("} >{", "
} > {
").
Definition c141 : case := ("} ,a", "
} ,
a").
Definition c142 : case := ("}  >", "
}  >").
Definition c143 : case := ("({})", "(
     {
        
    }
)").
Definition c144 : case := ("({)}", "(
     {
        
    )
}").
Definition c145 : case := ("({< ", "(
     {
        <
             ").
Definition c146 : case := ("({,,", "(
     {
        ,
        ,
        ").
Definition c147 : case := ("({ <", "(
     {
         <
            ").
Definition c148 : case := ("(}}(", "(
    
}
}(
").
Definition c149 : case := ("(}){", "(
}) {
").
Definition c150 : case := ("(}<a", "(
    
}<
    a").
Definition c151 : case := ("(},>", "(
    
},
>").
Definition c152 : case := ("(} )", "(
} )").
Definition c153 : case := ("((}}", "(
    (
        
    }
}").
Definition c154 : case := ("((( ", "(
    (
        (
             ").
Definition c155 : case := ("((<,", "(
    (
        <
            ,
            ").
Definition c156 : case := ("((,<", "(
    (
        ,
        <
            ").
Definition c157 : case := ("(( (", "(
    (
         (
            ").
Definition c158 : case := ("()}{", "()
} {
").
Definition c159 : case := ("()(a", "()(
    a").
Definition c160 : case := ("()<>", "()<>").
Definition c161 : case := ("(),)", "(),
)").
Definition c162 : case := ("() }", "() 
}").
Definition c163 : case := ("(<{ ", "(
    <
         {
             ").
Definition c164 : case := ("(<(,", "(
    <
        (
            ,
            ").
Definition c165 : case := ("(<<<", "(
    <
        <
            <
                ").
Definition c166 : case := ("(<,(", "(
    <
        ,
        (
            ").
Definition c167 : case := ("(< {", "(
    <
          {
            ").
Definition c168 : case := ("(>{a", "(
    > {
        a").
Definition c169 : case := ("(>(>", "(
    >(
        >").
Definition c170 : case := ("(><)", "(><
    )").
Definition c171 : case := ("(>,}", "(
    >,
    
}").
Definition c172 : case := ("(>a ", "(
    >a ").
Definition c173 : case := ("(,{,", "(
    ,
     {
        ,
        ").
Definition c174 : case := ("(,(<", "(
    ,
    (
        <
            ").
Definition c175 : case := ("(,<(", "(
    ,
    <
        (
            ").
Definition c176 : case := ("(,,{", "(
    ,
    ,
     {
        ").
Definition c177 : case := ("(,aa", "(
    ,
    aa").
Definition c178 : case := ("(a{>", "(
    a {
        >").
Definition c179 : case := ("(a()", "(
    a()").
Definition c180 : case := ("(a<}", "(
    a<
        
    }").
Definition c181 : case := ("(a> ", "(
    a> ").
Definition c182 : case := ("(aa,", "(
    aa,
    ").
Definition c183 : case := ("( {<", "(
      {
        <
            ").
Definition c184 : case := ("( ((", "(
     (
        (
            ").
Definition c185 : case := ("( <{", "(
     <
         {
            ").
Definition c186 : case := ("( >a", "(
     >a").
Definition c187 : case := ("( a>", "(
     a>").
Definition c188 : case := ("){{)", ") {
     {
        )").
Definition c189 : case := ("){(}", ") {
    (
        
    }").
Definition c190 : case := ("){) ", ") {
    ) ").
Definition c191 : case := ("){>,", ") {
    >,
    ").
Definition c192 : case := ("){a<", ") {
    a<
        ").
Definition c193 : case := (")}{(", ")
} {
(
    ").
Definition c194 : case := (")}({", ")
}(
 {
    ").
Definition c195 : case := (")})a", ")
})a").
Definition c196 : case := (")}>>", ")
}>>").
Definition c197 : case := (")}a)", ")
}a)").
Definition c198 : case := (")({}", ")(
     {
        
    }").
Definition c199 : case := (")(} ", ")(
    
} ").
Definition c200 : case := (")(),", ")(),
").
Definition c201 : case := (")(><", ")(
    ><
        ").
Definition c202 : case := (")(a(", ")(
    a(
        ").
Definition c203 : case := (")){{", ")) {
     {
        ").
Definition c204 : case := ("))}a", "))
}a").
Definition c205 : case := (")))>", ")))>").
Definition c206 : case := ("))>)", "))>)").
Definition c207 : case := ("))a}", "))a
}").
Definition c208 : case := ("))  ", "))  ").
Definition c209 : case := (")<},", ")<
    
},
").
Definition c210 : case := (")<)<", ")<
    )<
        ").
Definition c211 : case := (")<>(", ")<>(
    ").
Definition c212 : case := (")<a{", ")<
    a {
        ").
Definition c213 : case := (")< a", ")<
     a").
Definition c214 : case := (")>}>", ")>
}>").
Definition c215 : case := (")>))", ")>))").
Definition c216 : case := (")>>}", ")>>
}").
Definition c217 : case := (")>, ", ")>,
 ").
Definition c218 : case := (")> ,", ")> ,
").
Definition c219 : case := ("),}<", "),

}<
").
Definition c220 : case := ("),)(", "),
)(
    ").
Definition c221 : case := ("),>{", "),
> {
    ").
Definition c222 : case := ("),,a", "),
,
a").
Definition c223 : case := ("), >", "),
 >").
Definition c224 : case := (")a})", ")a
})").
Definition c225 : case := (")a)}", ")a)
}").
Definition c226 : case := (")a< ", ")a<
     ").
Definition c227 : case := (")a,,", ")a,
,
").
Definition c228 : case := (")a <", ")a <
    ").
Definition c229 : case := (") }(", ") 
}(
").
Definition c230 : case := (") ){", ") ) {
    ").
Definition c231 : case := (") <a", ") <
    a").
Definition c232 : case := (") ,>", ") ,
>").
Definition c233 : case := (")  )", ")  )").
Definition c234 : case := ("<{}}", "<
     {
        
    }
}").
Definition c235 : case := ("<{( ", "<
     {
        (
             ").
Definition c236 : case := ("<{<,", "<
     {
        <
            ,
            ").
Definition c237 : case := ("<{,<", "<
     {
        ,
        <
            ").
Definition c238 : case := ("<{ (", "<
     {
         (
            ").
Definition c239 : case := ("<}}{", "<
    
}
} {
").
Definition c240 : case := ("<}(a", "<
    
}(
    a").
Definition c241 : case := ("<}<>", "<
    
}<>").
Definition c242 : case := ("<},)", "<
    
},
)").
Definition c243 : case := ("<} }", "<
    
} 
}").
Definition c244 : case := ("<({ ", "<
    (
         {
             ").
Definition c245 : case := ("<((,", "<
    (
        (
            ,
            ").
Definition c246 : case := ("<(<<", "<
    (
        <
            <
                ").
Definition c247 : case := ("<(,(", "<
    (
        ,
        (
            ").
Definition c248 : case := ("<( {", "<
    (
          {
            ").
Definition c249 : case := ("<){a", "<
    ) {
        a").
Definition c250 : case := ("<)(>", "<)(
    >").
Definition c251 : case := ("<)<)", "<
    )<
        )").
Definition c252 : case := ("<),}", "<
    ),
    
}").
Definition c253 : case := ("<)a ", "<
    )a ").
Definition c254 : case := ("<<{,", "<
    <
         {
            ,
            ").
Definition c255 : case := ("<<(<", "<
    <
        (
            <
                ").
Definition c256 : case := ("<<<(", "<
    <
        <
            (
                ").
Definition c257 : case := ("<<,{", "<
    <
        ,
         {
            ").
Definition c258 : case := ("<<aa", "<
    <
        aa").
Definition c259 : case := ("<>{>", "<> {
    >").
Definition c260 : case := ("<>()", "<>()").
Definition c261 : case := ("<><}", "<><
    
}").
Definition c262 : case := ("<>> ", "<>> ").
Definition c263 : case := ("<>a,", "<>a,
").
Definition c264 : case := ("<,{<", "<
    ,
     {
        <
            ").
Definition c265 : case := ("<,((", "<
    ,
    (
        (
            ").
Definition c266 : case := ("<,<{", "<
    ,
    <
         {
            ").
Definition c267 : case := ("<,>a", "<,
>a").
Definition c268 : case := ("<,a>", "<,
a>").
Definition c269 : case := ("<a{)", "<
    a {
        )").
Definition c270 : case := ("<a(}", "<
    a(
        
    }").
Definition c271 : case := ("<a) ", "<
    a) ").
Definition c272 : case := ("<a>,", "<a>,
").
Definition c273 : case := ("<aa<", "<
    aa<
        ").
Definition c274 : case := ("< {(", "<
      {
        (
            ").
Definition c275 : case := ("< ({", "<
     (
         {
            ").
Definition c276 : case := ("< )a", "<
     )a").
Definition c277 : case := ("< >>", "< >>").
Definition c278 : case := ("< a)", "<
     a)").
Definition c279 : case := (">{{}", "> {
     {
        
    }").
Definition c280 : case := (">{} ", "> {
    
} ").
Definition c281 : case := (">{),", "> {
    ),
    ").
Definition c282 : case := (">{><", "> {
    ><
        ").
Definition c283 : case := (">{a(", "> {
    a(
        ").
Definition c284 : case := (">}{{", ">
} {
 {
    ").
Definition c285 : case := (">}}a", ">
}
}a").
Definition c286 : case := (">})>", ">
})>").
Definition c287 : case := (">}>)", ">
}>)").
Definition c288 : case := (">}a}", ">
}a
}").
Definition c289 : case := (">}  ", ">
}  ").
Definition c290 : case := (">(},", ">(
    
},
").
Definition c291 : case := (">()<", ">()<
    ").
Definition c292 : case := (">(>(", ">(
    >(
        ").
Definition c293 : case := (">(a{", ">(
    a {
        ").
Definition c294 : case := (">( a", ">(
     a").
Definition c295 : case := (">)}>", ">)
}>").
Definition c296 : case := (">)))", ">)))").
Definition c297 : case := (">)>}", ">)>
}").
Definition c298 : case := (">), ", ">),
 ").
Definition c299 : case := (">) ,", ">) ,
").
Definition c300 : case := ("><}<", "><
    
}<
    ").
Definition c301 : case := ("><)(", "><
    )(
        ").
Definition c302 : case := ("><>{", "><> {
    ").
Definition c303 : case := ("><,a", "><
    ,
    a").
Definition c304 : case := (">< >", ">< >").
Definition c305 : case := (">>})", ">>
})").
Definition c306 : case := (">>)}", ">>)
}").
Definition c307 : case := (">>< ", ">><
     ").
Definition c308 : case := (">>,,", ">>,
,
").
Definition c309 : case := (">> <", ">> <
    ").
Definition c310 : case := (">,}(", ">,

}(
").
Definition c311 : case := (">,){", ">,
) {
    ").
Definition c312 : case := (">,<a", ">,
<
    a").
Definition c313 : case := (">,,>", ">,
,
>").
Definition c314 : case := (">, )", ">,
 )").
Definition c315 : case := (">a}}", ">a
}
}").
Definition c316 : case := (">a( ", ">a(
     ").
Definition c317 : case := (">a<,", ">a<
    ,
    ").
Definition c318 : case := (">a,<", ">a,
<
    ").
Definition c319 : case := (">a (", ">a (
    ").
Definition c320 : case := ("> }{", "> 
} {
").
Definition c321 : case := ("> (a", "> (
    a").
Definition c322 : case := ("> <>", "> <>").
Definition c323 : case := ("> ,)", "> ,
)").
Definition c324 : case := (">  }", ">  
}").
Definition c325 : case := (",{{ ", ",
 {
     {
         ").
Definition c326 : case := (",{(,", ",
 {
    (
        ,
        ").
Definition c327 : case := (",{<<", ",
 {
    <
        <
            ").
Definition c328 : case := (",{,(", ",
 {
    ,
    (
        ").
Definition c329 : case := (",{ {", ",
 {
      {
        ").
Definition c330 : case := (",}{a", ",

} {
a").
Definition c331 : case := (",}(>", ",

}(
>").
Definition c332 : case := (",}<)", ",

}<
)").
Definition c333 : case := (",},}", ",

},

}").
Definition c334 : case := (",}a ", ",

}a ").
Definition c335 : case := (",({,", ",
(
     {
        ,
        ").
Definition c336 : case := (",((<", ",
(
    (
        <
            ").
Definition c337 : case := (",(<(", ",
(
    <
        (
            ").
Definition c338 : case := (",(,{", ",
(
    ,
     {
        ").
Definition c339 : case := (",(aa", ",
(
    aa").
Definition c340 : case := (",){>", ",
) {
    >").
Definition c341 : case := (",)()", ",
)()").
Definition c342 : case := (",)<}", ",
)<
    
}").
Definition c343 : case := (",)> ", ",
)> ").
Definition c344 : case := (",)a,", ",
)a,
").
Definition c345 : case := (",<{<", ",
<
     {
        <
            ").
Definition c346 : case := (",<((", ",
<
    (
        (
            ").
Definition c347 : case := (",<<{", ",
<
    <
         {
            ").
Definition c348 : case := (",<>a", ",
<>a").
Definition c349 : case := (",<a>", ",
<a>").
Definition c350 : case := (",>{)", ",
> {
    )").
Definition c351 : case := (",>(}", ",
>(
    
}").
Definition c352 : case := (",>) ", ",
>) ").
Definition c353 : case := (",>>,", ",
>>,
").
Definition c354 : case := (",>a<", ",
>a<
    ").
Definition c355 : case := (",,{(", ",
,
 {
    (
        ").
Definition c356 : case := (",,({", ",
,
(
     {
        ").
Definition c357 : case := (",,)a", ",
,
)a").
Definition c358 : case := (",,>>", ",
,
>>").
Definition c359 : case := (",,a)", ",
,
a)").
Definition c360 : case := (",a{}", ",
a {
    
}").
Definition c361 : case := (",a} ", ",
a
} ").
Definition c362 : case := (",a),", ",
a),
").
Definition c363 : case := (",a><", ",
a><
    ").
Definition c364 : case := (",aa(", ",
aa(
    ").
Definition c365 : case := (", {{", ",
  {
     {
        ").
Definition c366 : case := (", }a", ",
 
}a").
Definition c367 : case := (", )>", ",
 )>").
Definition c368 : case := (", >)", ",
 >)").
Definition c369 : case := (", a}", ",
 a
}").
Definition c370 : case := (",   ", ",
   ").
Definition c371 : case := ("a{},", "a {
    
},
").
Definition c372 : case := ("a{)<", "a {
    )<
        ").
Definition c373 : case := ("a{>(", "a {
    >(
        ").
Definition c374 : case := ("a{a{", "a {
    a {
        ").
Definition c375 : case := ("a{ a", "a {
     a").
Definition c376 : case := ("a}}>", "a
}
}>").
Definition c377 : case := ("a}))", "a
}))").
Definition c378 : case := ("a}>}", "a
}>
}").
Definition c379 : case := ("a}, ", "a
},
 ").
Definition c380 : case := ("a} ,", "a
} ,
").
Definition c381 : case := ("a(}<", "a(
    
}<
    ").
Definition c382 : case := ("a()(", "a()(
    ").
Definition c383 : case := ("a(>{", "a(
    > {
        ").
Definition c384 : case := ("a(,a", "a(
    ,
    a").
Definition c385 : case := ("a( >", "a(
     >").
Definition c386 : case := ("a)})", "a)
})").
Definition c387 : case := ("a))}", "a))
}").
Definition c388 : case := ("a)< ", "a)<
     ").
Definition c389 : case := ("a),,", "a),
,
").
Definition c390 : case := ("a) <", "a) <
    ").
Definition c391 : case := ("a<}(", "a<
    
}(
    ").
Definition c392 : case := ("a<){", "a<
    ) {
        ").
Definition c393 : case := ("a<<a", "a<
    <
        a").
Definition c394 : case := ("a<,>", "a<,
>").
Definition c395 : case := ("a< )", "a<
     )").
Definition c396 : case := ("a>}}", "a>
}
}").
Definition c397 : case := ("a>( ", "a>(
     ").
Definition c398 : case := ("a><,", "a><
    ,
    ").
Definition c399 : case := ("a>,<", "a>,
<
    ").
Definition c400 : case := ("a> (", "a> (
    ").
Definition c401 : case := ("a,}{", "a,

} {
").
Definition c402 : case := ("a,(a", "a,
(
    a").
Definition c403 : case := ("a,<>", "a,
<>").
Definition c404 : case := ("a,,)", "a,
,
)").
Definition c405 : case := ("a, }", "a,
 
}").
Definition c406 : case := ("aa{ ", "aa {
     ").
Definition c407 : case := ("aa(,", "aa(
    ,
    ").
Definition c408 : case := ("aa<<", "aa<
    <
        ").
Definition c409 : case := ("aa,(", "aa,
(
    ").
Definition c410 : case := ("aa {", "aa  {
    ").
Definition c411 : case := ("a {a", "a  {
    a").
Definition c412 : case := ("a (>", "a (
    >").
Definition c413 : case := ("a <)", "a <
    )").
Definition c414 : case := ("a ,}", "a ,

}").
Definition c415 : case := ("a a ", "a a ").
Definition c416 : case := (" {{,", "  {
     {
        ,
        ").
Definition c417 : case := (" {(<", "  {
    (
        <
            ").
Definition c418 : case := (" {<(", "  {
    <
        (
            ").
Definition c419 : case := (" {,{", "  {
    ,
     {
        ").
Definition c420 : case := (" {aa", "  {
    aa").
Definition c421 : case := (" }{>", " 
} {
>").
Definition c422 : case := (" }()", " 
}()").
Definition c423 : case := (" }<}", " 
}<

}").
Definition c424 : case := (" }> ", " 
}> ").
Definition c425 : case := (" }a,", " 
}a,
").
Definition c426 : case := (" ({<", " (
     {
        <
            ").
Definition c427 : case := (" (((", " (
    (
        (
            ").
Definition c428 : case := (" (<{", " (
    <
         {
            ").
Definition c429 : case := (" (>a", " (
    >a").
Definition c430 : case := (" (a>", " (
    a>").
Definition c431 : case := (" ){)", " ) {
    )").
Definition c432 : case := (" )(}", " )(
    
}").
Definition c433 : case := (" )) ", " )) ").
Definition c434 : case := (" )>,", " )>,
").
Definition c435 : case := (" )a<", " )a<
    ").
Definition c436 : case := (" <{(", " <
     {
        (
            ").
Definition c437 : case := (" <({", " <
    (
         {
            ").
Definition c438 : case := (" <)a", " <
    )a").
Definition c439 : case := (" <>>", " <>>").
Definition c440 : case := (" <a)", " <
    a)").
Definition c441 : case := (" >{}", " > {
    
}").
Definition c442 : case := (" >} ", " >
} ").
Definition c443 : case := (" >),", " >),
").
Definition c444 : case := (" >><", " >><
    ").
Definition c445 : case := (" >a(", " >a(
    ").
Definition c446 : case := (" ,{{", " ,
 {
     {
        ").
Definition c447 : case := (" ,}a", " ,

}a").
Definition c448 : case := (" ,)>", " ,
)>").
Definition c449 : case := (" ,>)", " ,
>)").
Definition c450 : case := (" ,a}", " ,
a
}").
Definition c451 : case := (" ,  ", " ,
  ").
Definition c452 : case := (" a},", " a
},
").
Definition c453 : case := (" a)<", " a)<
    ").
Definition c454 : case := (" a>(", " a>(
    ").
Definition c455 : case := (" aa{", " aa {
    ").
Definition c456 : case := (" a a", " a a").
Definition c457 : case := ("  }>", "  
}>").
Definition c458 : case := ("  ))", "  ))").
Definition c459 : case := ("  >}", "  >
}").
Definition c460 : case := ("  , ", "  ,
 ").
Definition c461 : case := ("   ,", "   ,
").
Definition c462 : case := ("(<<a>éaéaéébéabbéb,aaé,a,aabb,aébb>}", "(
    <
        <a>éaéaéébéabbéb,
        aaé,
        a,
        aabb,
        aébb
    >
}").
Definition c463 : case := ("(,aaé,,é,baaééébé,a,,éb)}", "(, aaé, , é, baaééébé, a, , éb)
}").
Definition c464 : case := ("<(béa,é,,a,é,,b,aéabbéa,a,,,,aé,abb,ébaa),a", "<
    (
        béa,
        é,
        ,
        a,
        é,
        ,
        b,
        aéabbéa,
        a,
        ,
        ,
        ,
        aé,
        abb,
        ébaa
    ),
    a").
Definition c465 : case := ("<<éb,,é,ab,aéaaéaéébéba,ééaaaa>", "<
    <éb,
    ,
    é,
    ab,
    aéaaéaéébéba,
    ééaaaa>").
Definition c466 : case := ("(<éé,b,b,,bab,abbbb,é,éa,bééaaaaéa,,,,a,é,aééb>}", "(
    <
        éé,
        b,
        b,
        ,
        bab,
        abbbb,
        é,
        éa,
        bééaaaaéa,
        ,
        ,
        ,
        a,
        é,
        aééb
    >
}").
Definition c467 : case := ("(:;b]a8]x8xa:,{(<<{];:;},(),{},{},b];8;xx>>)})", "(
    :;b]a8]x8xa:,
     {
        (
            <
                <
                     {
                        ];:;
                    },
                    (),
                     {
                        
                    },
                     {
                        
                    },
                    b];8;xx
                >
            >
        )
    }
)").
Definition c468 : case := (";;:[8a;,;xaa;:;", ";;:[8a;,
;xaa;:;").
Definition c469 : case := ("{8xbbbba]aa:},{(a,8::[:[baxx,b]8b],{{((8,u,a[b[]bb,u,u))}}),ba]8,(b;]8xb8x,<>),[]8[:];bx[8},[,{[a;8];x[8,()}", " {
    8xbbbba]aa:
},
 {
    (
        a,
        8::[:[baxx,
        b]8b],
         {
             {
                ((8, u, a[b[]bb, u, u))
            }
        }
    ),
    ba]8,
    (b;]8xb8x, <>),
    []8[:];bx[8
},
[,
 {
    [a;8];x[8,
    ()
}").
Definition c470 : case := ("b88[b[][aa[x,{]bx]]x:,<>,<()>,<;aabx,8;]:;:]:8,<>,8][bbx[a;]:,:x]ax8[8[b:x>}", "b88[b[][aa[x,
 {
    ]bx]]x:,
    <>,
    <()>,
    <
        ;aabx,
        8;]:;:]:8,
        <>,
        8][bbx[a;]:,
        :x]ax8[8[b:x
    >
}").
Definition c471 : case := ("bb8a8]x,::[],<(:;::x:[bxb),(),:][;bxax>,<{a]a,{({},;8:x][:b8;;,a],((;xa:[:[]a8x:))),<(<u,u>,{aa:bxx8]8,u})>,<<{:8aa]8x]],u,u,u},x]a8:xba]8x>,{<u,];xxaa8ba],u>,<8>},][x:aa[;b;;>,<<{}>>}}>", "bb8a8]x,
::[],
<(:;::x:[bxb),
(),
:][;bxax>,
<
     {
        a]a,
         {
            (
                 {
                    
                },
                ;8:x][:b8;;,
                a],
                ((;xa:[:[]a8x:))
            ),
            <
                (
                    <u,
                    u>,
                     {
                        aa:bxx8]8,
                        u
                    }
                )
            >,
            <
                <
                     {
                        :8aa]8x]],
                        u,
                        u,
                        u
                    },
                    x]a8:xba]8x
                >,
                 {
                    <u,
                    ];xxaa8ba],
                    u>,
                    <8>
                },
                ][x:aa[;b;;
            >,
            <
                <
                     {
                        
                    }
                >
            >
        }
    }
>").
Definition c472 : case := ("(<<<8]],;:>,;x,8;;bax;8axb]>,:a[,<({})>>)", "(
    <
        <<8]],
        ;:>,
        ;x,
        8;;bax;8axb]>,
        :a[,
        <
            (
                 {
                    
                }
            )
        >
    >
)").
Definition c473 : case := ("8,:a,:8:8]a]b]::,{(<]a[:a]a;,a:x]b:,{}>)}", "8,
:a,
:8:8]a]b]::,
 {
    (
        <
            ]a[:a]a;,
            a:x]b:,
             {
                
            }
        >
    )
}").
Definition c474 : case := ("{xa},x;;]:", " {
    xa
},
x;;]:").
Definition c475 : case := ("]8,:aa;]bb;x;;,:b],<<{b8:8xa:ab]}>>", "]8,
:aa;]bb;x;;,
:b],
<
    <
         {
            b8:8xa:ab]
        }
    >
>").
Definition c476 : case := (";b[8][]b8bab,a;];x:b],8aa8]8]", ";b[8][]b8bab,
a;];x:b],
8aa8]8]").
Definition c477 : case := ("(;[8x,{{<a[;;,<{u},{;xx::;b8[::,bx8][]b,:;;a[]a,u,b8x:;8;[x},{[8,a;8,u},88]b;>>}})", "(
    ;[8x,
     {
         {
            <
                a[;;,
                <
                     {
                        u
                    },
                     {
                        ;xx::;b8[::,
                        bx8][]b,
                        :;;a[]a,
                        u,
                        b8x:;8;[x
                    },
                     {
                        [8,
                        a;8,
                        u
                    },
                    88]b;
                >
            >
        }
    }
)").
Definition c478 : case := ("<>,8b,<xb,{b;:;x[,][ax8xba,<<]8:;]]]8;xba>>,{<<a]8;x]8a;,<>>>}}>", "<>,
8b,
<
    xb,
     {
        b;:;x[,
        ][ax8xba,
        <<]8:;]]]8;xba>>,
         {
            <<a]8;x]8a;,
            <>>>
        }
    }
>").
Definition c479 : case := ("(((xbx;:[,:b8a[b;,<xx:;;[:]8bx8,a;];::;]::xb,<(u,u,b],u),<u,[b8b][:;,u,u>,[xx:[b[b;>,:];[,a>,<((]x),:8ax,{];a,8[a;a]8,:8::a;})>)))", "(
    (
        (
            xbx;:[,
            :b8a[b;,
            <
                xx:;;[:]8bx8,
                a;];::;]::xb,
                <
                    (u, u, b], u),
                    <u,
                    [b8b][:;,
                    u,
                    u>,
                    [xx:[b[b;
                >,
                :];[,
                a
            >,
            <
                (
                    (]x),
                    :8ax,
                     {
                        ];a,
                        8[a;a]8,
                        :8::a;
                    }
                )
            >
        )
    )
)").
Definition c480 : case := (":]:b[,aa,{<(8xa;a]:;:[[;,]8::;[,{},b88;]a:8]x,];8[a8)>,(;[x[,(ax8x:]:,(<<:xa:[x;,aa8:;bxb,u,8baa:>>)))}", ":]:b[,
aa,
 {
    <
        (
            8xa;a]:;:[[;,
            ]8::;[,
             {
                
            },
            b88;]a:8]x,
            ];8[a8
        )
    >,
    (
        ;[x[,
        (
            ax8x:]:,
            (<<:xa:[x;, aa8:;bxb, u, 8baa:>>)
        )
    )
}").
Definition c481 : case := ("xb;x]::a:,<x][[,(),x[aab8;x,(]xa;a8x;a;),<<>,(<(8:8]8a,<>,<x;x[b:b,u,u,8:bx]xxax[8>,bx:88[;,<u,u,;]ax;,u>),ba[;[,]x8b8:];x,[a][bx:a;;,({[],u,;x8a;x[},{},;;];]:,a:;bxb)>)>>", "xb;x]::a:,
<
    x][[,
    (),
    x[aab8;x,
    (]xa;a8x;a;),
    <
        <>,
        (
            <
                (
                    8:8]8a,
                    <>,
                    <x;x[b:b,
                    u,
                    u,
                    8:bx]xxax[8>,
                    bx:88[;,
                    <u,
                    u,
                    ;]ax;,
                    u>
                ),
                ba[;[,
                ]x8b8:];x,
                [a][bx:a;;,
                (
                     {
                        [],
                        u,
                        ;x8a;x[
                    },
                     {
                        
                    },
                    ;;];]:,
                    a:;bxb
                )
            >
        )
    >
>").
Definition c482 : case := ("{]b;b8[b];[::},<<b;]bb[];x8],[[,<x:aa:,x8x,8;;,(),(xx;;bx8][)>,][;;x:;x]a:>,{;::8}>,{((;];8x88x,8ab[]b,<{<;88];8,a8x,]x,u,;x;8b>,[][;b[}>))}", " {
    ]b;b8[b];[::
},
<
    <
        b;]bb[];x8],
        [[,
        <x:aa:,
        x8x,
        8;;,
        (),
        (xx;;bx8][)>,
        ][;;x:;x]a:
    >,
     {
        ;::8
    }
>,
 {
    (
        (
            ;];8x88x,
            8ab[]b,
            <
                 {
                    <;88];8,
                    a8x,
                    ]x,
                    u,
                    ;x;8b>,
                    [][;b[
                }
            >
        )
    )
}").
Definition c483 : case := ("<>,{{<;x[8]b:x,<{xa[;88:[bab,:]b,{:xxx[]}},({u,x];[8b:b:88;,u,u,u},(u,b),]bax,<u,];xbb;ba];:,:,u>)>,88[xx]ax:a[;,8[:xa;]a,<{},]b;[,;88[]x>>,[,b[8ba[[;x:},{<]bb]]xx[,axaa[b,b[[[x8,<>>},];,<{ba;b:},(((],{a},{}),(),(xa;;xa])),<8][>)>}", "<>,
 {
     {
        <
            ;x[8]b:x,
            <
                 {
                    xa[;88:[bab,
                    :]b,
                     {
                        :xxx[]
                    }
                },
                (
                     {
                        u,
                        x];[8b:b:88;,
                        u,
                        u,
                        u
                    },
                    (u, b),
                    ]bax,
                    <u,
                    ];xbb;ba];:,
                    :,
                    u>
                )
            >,
            88[xx]ax:a[;,
            8[:xa;]a,
            <
                 {
                    
                },
                ]b;[,
                ;88[]x
            >
        >,
        [,
        b[8ba[[;x:
    },
     {
        <]bb]]xx[,
        axaa[b,
        b[[[x8,
        <>>
    },
    ];,
    <
         {
            ba;b:
        },
        (
            (
                (
                    ],
                     {
                        a
                    },
                     {
                        
                    }
                ),
                (),
                (xa;;xa])
            ),
            <8][>
        )
    >
}").
Definition c484 : case := ("{<{{axa[:],{{},;[ab]:x},{<u,]b8[;,abax[xb,u>,(u,]ab,8x[b[x]x,;x;a[),888][:xb:[;},{b[},::[:x:xxb]}},];b:x[8::x,{},8[8,<<<ba;,{},<;x,[;:b,8x,]bb;b[[a>>>>>}", " {
    <
         {
             {
                axa[:],
                 {
                     {
                        
                    },
                    ;[ab]:x
                },
                 {
                    <u,
                    ]b8[;,
                    abax[xb,
                    u>,
                    (u, ]ab, 8x[b[x]x, ;x;a[),
                    888][:xb:[;
                },
                 {
                    b[
                },
                ::[:x:xxb]
            }
        },
        ];b:x[8::x,
         {
            
        },
        8[8,
        <
            <
                <
                    ba;,
                     {
                        
                    },
                    <;x,
                    [;:b,
                    8x,
                    ]bb;b[[a>
                >
            >
        >
    >
}").
Definition c485 : case := (";[]", ";[]").
Definition c486 : case := ("axb;[;]b8,([a;]]]x],{(xb:a;;:x:x,{<{u,u,u},axaa]a:>,::;][8::,<x8;]a];a]a,(8ax:a:];88xx,u,u),8:x,a[;bxx[:a[],{u}>,<(u,u,b]bxaba,[aa8ba)>,{(x:x],u,u)}},((<::8,u,u>,<u,x8[;;88xb;ba,u,u>),;xa]x8:8;:8))})", "axb;[;]b8,
(
    [a;]]]x],
     {
        (
            xb:a;;:x:x,
             {
                <
                     {
                        u,
                        u,
                        u
                    },
                    axaa]a:
                >,
                ::;][8::,
                <
                    x8;]a];a]a,
                    (8ax:a:];88xx, u, u),
                    8:x,
                    a[;bxx[:a[],
                     {
                        u
                    }
                >,
                <(u, u, b]bxaba, [aa8ba)>,
                 {
                    (x:x], u, u)
                }
            },
            (
                (<::8, u, u>, <u, x8[;;88xb;ba, u, u>),
                ;xa]x8:8;:8
            )
        )
    }
)").
Definition c487 : case := ("(),;[b;8a[],([bx;;::8a[x;,{]x:b8,{<<>>,{}},axba]][8:x[],{{:xbb:xxb,:[ax]:[],{a;]8xa[bb,(u,u,a:aa:]b[),()}}}})", "(),
;[b;8a[],
(
    [bx;;::8a[x;,
     {
        ]x:b8,
         {
            <<>>,
             {
                
            }
        },
        axba]][8:x[],
         {
             {
                :xbb:xxb,
                :[ax]:[],
                 {
                    a;]8xa[bb,
                    (u, u, a:aa:]b[),
                    ()
                }
            }
        }
    }
)").
Definition c488 : case := ("[8b][]x][8;a,(<>,;]b;:[aa:),{{]b8b8xa,:x]:][b;:,x:]x][b8;]}},]],8:8", "[8b][]x][8;a,
(<>, ;]b;:[aa:),
 {
     {
        ]b8b8xa,
        :x]:][b;:,
        x:]x][b8;]
    }
},
]],
8:8").
Definition c489 : case := (";x[a;]],:,ba8]a]8,[[,a[xxx8xa[", ";x[a;]],
:,
ba8]a]8,
[[,
a[xxx8xa[").
Definition c490 : case := ("<x;b;,({})>", "<
    x;b;,
    (
         {
            
        }
    )
>").
Definition c491 : case := ("ab;][8ba8", "ab;][8ba8").
Definition c492 : case := ("(	)a:>	<[>]{;)€€(Z", "(	)a:>	<[>] {
    ;)€€(
        Z").
Definition c493 : case := ("] €
Z	b	}b {(€€;:
	b	€,}Z,}[,", "] €
Z	b	
}b  {
(
    €€;:
	b	€,
    
}Z,

}[,
").
Definition c494 : case := ("[é:}{}(𝄞[	b(	)a(		{
)
)}é,[ 
€](Za>]Z
>(<(a
<	)é;:Z:(Z(	}Z;)>b<[<a,]:Z𝄞:[b[b[>	;𝄞é", "[é:
} {

}(
𝄞[	b(	)a(
    		 {
        

    )

)
}é,
[ 
€](
Za>]Z
>(
    <
        (a
<	)é;:Z:(
            Z(	
        }Z;)>b<
            [<a,
            ]:Z𝄞:[b[b[>	;𝄞é").
Definition c495 : case := ("€ >[𝄞b}{(éZ(]{} b{}> ([,,
 € ,;Z𝄞<Z]]{>Z;}a
)[€:}:Z(
{[;
(
	>(:) 𝄞 
][Zé€:𝄞<Z𝄞𝄞(b
€ ]é€
	)b}{ ([b)ébaé	Zb€<,Z<:)		}a()
Z:>𝄞<;<𝄞]Z;𝄞;[<b€é;}	a (éZ	ba", "€ >[𝄞b
} {
(
    éZ(
        ] {
            
        } b {
            
        }> (
            [,
            ,
            
 € ,
            ;Z𝄞<
                Z]] {
                    
                >Z;
            }a

        )[€:
    }:Z(
        
 {
            [;
(
                
	>(:) 𝄞 
][Zé€:𝄞<
                    Z𝄞𝄞(b
€ ]é€
	)b
                } {
                     ([b)ébaé	Zb€<
                        ,
                        Z<:
                    )		
                }a()
Z:>𝄞<
                    ;<
                        𝄞]Z;𝄞;[<
                            b€é;
                        }	a (
                            éZ	ba").
Definition c496 : case := (",>Za{)Z;<Z,>[;,{	[{]Z}]𝄞,[𝄞,[€:),[	
>€},
;]}Z
{<Z}}:b

é<é:)>	}b𝄞
]a,b(é[	é):)	{])Z;}Z},;]bZ}é{)€[(éb>a
]𝄞[𝄞} b€::€
>{a>,),<é)} Z;aa,aa{éa )})b]
a;}]	}€𝄞,>,é{ZZ]a:<[>}{𝄞,(<,;; )	}
][(;(	 [	€𝄞{:	{);b𝄞)é[(}}{ 	}}[Z>	€ bb;)]€	:;{[:𝄞< b;]:ab<𝄞𝄞;", ",
>Za {
    )Z;<Z,
    >[;,
     {
        	[ {
            ]Z
        }]𝄞,
        [𝄞,
        [€:),
        [	
>€
    },
    
;]
}Z
 {
    <
        Z
    }
}:b

é<é:)>	
}b𝄞
]a,
b(é[	é):)	 {
])Z;
}Z
},
;]bZ
}é {
)€[(
éb
>a
]𝄞[𝄞
} b€::€
> {
a>,

),
<
é)
} Z;aa,
aa {
éa )
})b]
a;
}]	
}€𝄞,

>,
é {
ZZ]a:<[>
} {
𝄞,
(<
, ;; )	
}
][(
;(
	 [	€𝄞 {
:	 {

);b𝄞
)é[(

}
} {
 	
}
}[Z
>	€ bb;
)]€	:; {
[:𝄞<
 b;]:ab<
𝄞𝄞;").
Definition c497 : case := ("	b{[ZZ{:;ZZ[ >b;,(b)(Z€	b
]é[}};
;	 ]:[b>
[é{ <{)éé	;€>[< {)a	€[;€
;<[) )));(é;(€;[€Z
[	𝄞,a(bb}
Z
Z)éa(a){é(Z𝄞{{,𝄞<€>   {𝄞<€ (>	;[b<;	>€(
[Z
,a éé]}[)€}€€𝄞Z€<a>a;)

{;Z;}{()(,]é}:	<]];€
,)<;:b])	é;>
{Z[€	]a]> €); <(𝄞éZa<,ééé[:
()}é};]>[;	€b€{b𝄞Z<[é{", "	b {
    [ZZ {
        :;ZZ[ >b;,
        (b)(
            Z€	b
]é[
        }
    };
;	 ]:[b>
[é {
         <
             {
                
            )éé	;€
        >[<
              {
                )a	€[;€
;<
                    [) )));(
                        é;(
                            €;[€Z
[	𝄞,
                            a(bb
                        }
Z
Z)éa(a) {
                            é(
                                Z𝄞 {
                                     {
                                        ,
                                        𝄞<€>    {
                                            𝄞<€ (
                                                >	;[b<;	>€(
[Z
, a éé]
                                            }[)€
                                        }€€𝄞Z€<a>a;
                                    )

 {
                                        ;Z;
                                    } {
                                        ()(, ]é
                                    }:	<
                                        ]];€
, )<;:b]
                                    )	é;>
 {
                                        Z[€	]a]
                                    > €
                                ); <
                                    (
                                        𝄞éZa<,
                                        ééé[:
()
                                    }é
                                };]>[;	€b€ {
                                    b𝄞Z<
                                        [é {
                                            ").
Definition c498 : case := ("a)}]baé} [<<}€𝄞b:[ b)<Z)Z{,ZZ(>>)[{::[(<€{; ,a[
𝄞;<€€;}{[]a{[():é:>;b< 𝄞	[:	€{,(𝄞
(Z	Zé:
;é :", "a)
}]baé
} [<
<

}€𝄞b:[ b)<
Z)Z {
    ,
    ZZ(
>
>)[ {
::[(
    <
        € {
            ; ,
            a[
𝄞;<
                €€;
            } {
                []a {
                    [():é:
                >;b<
                     𝄞	[:	€ {
                        ,
                        (
                            𝄞
(
                                Z	Zé:
;é :").
Definition c499 : case := ("<,(]€;,𝄞<a€{)[{<>:;]; [Zé

[:}[ 	<
:[{:;{<<:[][}	<Z	([>;(a		€
éa€({,Z(]Zb[ {	:	,	<(:€><}{}	[:<a[<>}ba;ab;;( 
Z:a][𝄞{𝄞]{é ><;b€a ;:( [;[é ,}	:
;	()<𝄞]𝄞 (𝄞€)
> ]é:,}a<€a)	Z,
(aé{[
b€};éZ<}]()€,é}{Z:;,	bé€b)
)€{ (€𝄞,);{é𝄞(𝄞", "<
    ,
    (
        ]€;,
        𝄞<
            a€ {
                
            )[ {
                <>:;]; [Zé

[:
            }[ 	<
                
:[ {
                    :; {
                        <
                            <
                                :[][
                            }	<Z	(
                                [>;(
                                    a		€
éa€(
                                         {
                                            ,
                                            Z(
                                                ]Zb[  {
                                                    	:	,
                                                    	<(
                                                        :€><
                                                            
                                                        } {
                                                            
                                                        }	[:<
                                                            a[<>
                                                        }ba;ab;;(
                                                             
Z:a][𝄞 {
                                                                𝄞] {
                                                                    é 
                                                                ><
                                                                    ;b€a ;:(
                                                                         [;[é ,
                                                                        
                                                                    }	:
;	()<𝄞]𝄞 (𝄞€)
> ]é:,
                                                                    
                                                                }a<
                                                                    €a
                                                                )	Z,
                                                                
(
                                                                    aé {
                                                                        [
b€
                                                                    };éZ<
                                                                        
                                                                    }]()€,
                                                                    é
                                                                } {
                                                                    Z:;,
                                                                    	bé€b
                                                                )

                                                            )€ {
                                                                 (€𝄞, ); {
                                                                    é𝄞(
                                                                        𝄞").
Definition c500 : case := ("
é}]b ([ 	:bZ€𝄞[]}€€,b
;é<𝄞é]; 	
bZZ	}})𝄞{	€	𝄞Z)<,:[<[;>>>", "
é
}]b (
[ 	:bZ€𝄞[]
}€€,
b
;é<
𝄞é]; 	
bZZ	
}
}
)𝄞 {
	€	𝄞Z)<,
:[<[;>>
>").
Definition c501 : case := (")>a]€aa),}}
}𝄞{ bZb<	(((bZZ]:<,:𝄞) 𝄞

<a:aa:>
b(bb;(
]𝄞}€]]Z<:[
Z[[}:]	Z
,,}€(],", ")>a]€aa),

}
}

}𝄞 {
 bZb<
	(
(
    (bZZ]:<
        , :𝄞) 𝄞

<a:aa:>
b(
            bb;(
                
]𝄞
            }€]]Z<
                :[
Z[[
            }:]	Z
,
            ,
            
        }€(
            ],
            ").
Definition c502 : case := (")a}{,{ >𝄞b>{,𝄞€:𝄞Z
}(€é:€;é 	><[b};{	<  :<>(}: ,€})(>< 	]	 >, 	;;:	:	𝄞,é<€ ><é]	;<] { 	", ")a
} {
,
 {
     >𝄞b> {
        ,
        𝄞€:𝄞Z

    }(
        €é:€;é 	><
            [b
        }; {
            	<  :<>(
        }: , €
    })(
        >< 	]	 >,
         	;;:	:	𝄞,
        é<€ ><
            é]	;<
                ]  {
                     	").
Definition c503 : case := (":>] Za[€;
<,{}] ;> €€€)𝄞	€,}€€𝄞;[é:;𝄞>[>a,<b)}>[b€€	Z<Z}	{€Z€] 
é}	
(,)𝄞bé[b}))𝄞b< b[aa;(ba{€];Z;Z,({],]Z
a>𝄞(])(<>;éb(	
𝄞>Z,	[[𝄞b>])Z<b][b ]: {;]>	𝄞 [€b	a] b
é>]€𝄞(𝄞;(:b([:<]<€ bb,};(:;€[:(<:{ :;[};
[[(𝄞𝄞[
)b;{	b𝄞 :
>)(ZZ  {b
:[Z;{	 𝄞 <}b[:)€)€a)<:(𝄞[]a>𝄞", ":>] Za[€;
<
    ,
     {
        
    }] ;
> €€€)𝄞	€,

}€€𝄞;[é:;𝄞>[>a,
<b)
}>[b€€	Z<
Z
}	 {
€Z€] 
é
}	
(, )𝄞bé[b
}))𝄞b<
 b[aa;(
ba {
€];Z;Z,
(
     {
        ],
        ]Z
a
    >𝄞(])(
        <>;éb(	
𝄞
    >Z, 	[[𝄞b>])Z<
        b][b ]:  {
            ;]
        >	𝄞 [€b	a] b
é>]€𝄞(
            𝄞;(
                :b(
                    [:<
                        ]<
                            € bb,
                            
                        };(
                            :;€[:(
                                <
                                    : {
                                         :;[
                                    };
[[(𝄞𝄞[
)b; {
                                        	b𝄞 :

                                    >
                                )(
                                    ZZ   {
                                        b
:[Z; {
                                            	 𝄞 <
                                                
                                            }b[:
                                        )€
                                    )€a
                                )<:(
                                    𝄞[]a>𝄞").
Definition c504 : case := ("a]éZ", "a]éZ").
Definition c505 : case := ("[
€Z)a{<[ )bZ)Z)é
a[𝄞a:[	€(b(€;	][:
{(;
𝄞}{(;)𝄞𝄞€{>€b))<<:]	)a]b>𝄞:€<[>a}b<;]€𝄞,{{é([,aa[ a},
Z,>ab);,	<<é[]:
><> 
Z>é<a>𝄞]	]𝄞𝄞𝄞) >)[<
;>é
€)<[(<}Z, ;𝄞
[(", "[
€Z)a {
    <
        [ )bZ)Z)é
a[𝄞a:[	€(
            b(
                €;	][:
 {
                    (
                        ;
𝄞
                    } {
                        (;)𝄞𝄞€ {
                            
                        >€b
                    )
                )<
                    <:]	
                )a]b>𝄞:€<[>a
            }b<
                ;]€𝄞,
                 {
                     {
                        é([, aa[ a
                    }, 
Z, 
                >ab);,
                	<<é[]:
><> 
Z>é<a>𝄞]	]𝄞𝄞𝄞) 
            >)[<
;>é
€)<
                [(
                    <
                        
                    }Z,
                     ;𝄞
[(
                        ").
Definition c506 : case := ("éb	b𝄞𝄞a
é€])[:{𝄞
a]a{]	€<[;: (>]€[}}, é:b(	;]
}]b	))𝄞;,
a	𝄞€;[é}}{	(({:Z
Z:}	}
> 	, €a;𝄞a:[<ba é{€[)}a,ZZ,a<))>)}𝄞{{[;a€,,𝄞[é:é>({)€)>}](", "éb	b𝄞𝄞a
é€])[: {
    𝄞
a]a {
        ]	€<[;: (>]€[
    }
},  é:b(	;]

}]b	))𝄞;,

a	𝄞€;[é
}
} {
	(
(
 {
    :Z
Z:
}	
}
> 	,
 €a;𝄞a:[<
ba é {
    €[
)
}a,
ZZ,
a<
))>)
}𝄞 {
 {
[;a€,
,
𝄞[é:é
>(
 {

)€)>
}](
").
Definition c507 : case := ("
€bb𝄞Z𝄞[[{;€<))é,𝄞<<é[(](a
𝄞
}Z€<::é	:<[::()>Z€;€ [€
;€
}	>}(<a<𝄞:<€;<€;éaa(", "
€bb𝄞Z𝄞[[ {
    ;€<
        ))é,
        𝄞<
            <
                é[(
                    ](
                        a
𝄞

                    }Z€<::é	:<[::()>Z€;€ [€
;€

                }	>
            }(
                <
                    a<
                        𝄞:<
                            €;<
                                €;éaa(
                                    ").
Definition c508 : case := ("Zab; [a:} 	 } bZ	€{,[	𝄞)ba>
€b(<,]𝄞,éé:;Z:€, )<{ €{€{ €a:){Z}Z{Z]{,;
>éb𝄞)<>bé ,Z ;Z[];;]a)𝄞<é€𝄞éé𝄞éZé>bb<:€],:}€>[€	b}Z€𝄞{)]	;béé,
b{<,é€€𝄞;ZZ
a:]b> 
];}}]
{€", "Zab; [a:
} 	 
} bZ	€ {
,
[	𝄞)ba>
€b(<
, ]𝄞, éé:;Z:€,  )<
     {
         € {
            € {
                 €a:) {
                    Z
                }Z {
                    Z] {
                        ,
                        ;

                    >éb𝄞)<>bé ,
                    Z ;Z[];;]a)𝄞<é€𝄞éé𝄞éZé>bb<:€],
                    :
                }€>[€	b
            }Z€𝄞 {
                )]	;béé,
                
b {
                    <,
                    é€€𝄞;ZZ
a:]b> 
];
                }
            }]
 {
                €").
Definition c509 : case := ("Z(é>𝄞	}𝄞,bé[[
𝄞:[a(ab)<>>(𝄞
Z[a𝄞	}b€:𝄞bé:; ;(€a€,[b[b[) {),}
],(a>)([é(𝄞(;b{ < 𝄞a{<b é([€𝄞(€:éaZ[b[,],a(<é},[<a Z,[ba::a;,
[),éé)<Z(Zb:b

	]))
 a	;,<Zb)bé	ééba))<,)𝄞b)]
Z,}:<>]<]>ab {a	,é:;	 
>,<}é{}𝄞[b<[[}", "Z(
    é>𝄞	
}𝄞,
bé[[
𝄞:[a(ab)<>>(
    𝄞
Z[a𝄞	
}b€:𝄞bé:; ;(€a€, [b[b[)  {
    
),

}
],
(a>)(
[é(
    𝄞(
        ;b {
             <
                 𝄞a {
                    <
                        b é(
                            [€𝄞(
                                €:éaZ[b[,
                                ],
                                a(<
                                    é
                                }, [<
                                    a Z, [ba::a;, 
[),
                                    éé
                                )<
                                    Z(Zb:b

	])
                                )
 a	;,
                                <
                                    Zb
                                )bé	ééba
                            )
                        )<
                            ,
                            
                        )𝄞b)]
Z,
                        
                    }:<>]<]>ab  {
                        a	,
                        é:;	 

                    >,
                    <
                        
                    }é {
                        
                    }𝄞[b<
                        [[
                    }").
Definition c510 : case := ("enum Option<RegistrarInfo<u128,AccountId32>>{None,Some(struct RegistrarInfo<u128,AccountId32>{account: struct AccountId32([u8; 32]),fee: u128,fields: struct BitFlags<IdentityField>(u64)})}", "enum Option<RegistrarInfo<u128,
AccountId32>> {
    None,
    Some(
        struct RegistrarInfo<u128,
        AccountId32> {
            account: struct AccountId32([u8; 32]),
            fee: u128,
            fields: struct BitFlags<IdentityField>(u64)
        }
    )
}").
Definition c511 : case := ("struct Perbill(u32)", "struct Perbill(u32)").
Definition c512 : case := ("struct InboundDownwardMessage<u32>{sent_at: u32,msg: Vec<u8>}", "struct InboundDownwardMessage<u32> {
    sent_at: u32,
    msg: Vec<u8>
}").
Definition c513 : case := ("struct InherentData{data: struct BTreeMap<[u8;8],Vec<u8>>(Vec<([u8; 8],Vec<u8>)>)}", "struct InherentData {
    data: struct BTreeMap<[u8;8],
    Vec<u8>>(Vec<([u8; 8], Vec<u8>)>)
}").
Definition cases : list (case) := [c0; c1; c2; c3; c4; c5; c6; c7; c8; c9; c10; c11; c12; c13; c14; c15; c16; c17; c18; c19; c20; c21; c22; c23; c24; c25; c26; c27; c28; c29; c30; c31; c32; c33; c34; c35; c36; c37; c38; c39; c40; c41; c42; c43; c44; c45; c46; c47; c48; c49; c50; c51; c52; c53; c54; c55; c56; c57; c58; c59; c60; c61; c62; c63; c64; c65; c66; c67; c68; c69; c70; c71; c72; c73; c74; c75; c76; c77; c78; c79; c80; c81; c82; c83; c84; c85; c86; c87; c88; c89; c90; c91; c92; c93; c94; c95; c96; c97; c98; c99; c100; c101; c102; c103; c104; c105; c106; c107; c108; c109; c110; c111; c112; c113; c114; c115; c116; c117; c118; c119; c120; c121; c122; c123; c124; c125; c126; c127; c128; c129; c130; c131; c132; c133; c134; c135; c136; c137; c138; c139; c140; c141; c142; c143; c144; c145; c146; c147; c148; c149; c150; c151; c152; c153; c154; c155; c156; c157; c158; c159; c160; c161; c162; c163; c164; c165; c166; c167; c168; c169; c170; c171; c172; c173; c174; c175; c176; c177; c178; c179; c180; c181; c182; c183; c184; c185; c186; c187; c188; c189; c190; c191; c192; c193; c194; c195; c196; c197; c198; c199; c200; c201; c202; c203; c204; c205; c206; c207; c208; c209; c210; c211; c212; c213; c214; c215; c216; c217; c218; c219; c220; c221; c222; c223; c224; c225; c226; c227; c228; c229; c230; c231; c232; c233; c234; c235; c236; c237; c238; c239; c240; c241; c242; c243; c244; c245; c246; c247; c248; c249; c250; c251; c252; c253; c254; c255; c256; c257; c258; c259; c260; c261; c262; c263; c264; c265; c266; c267; c268; c269; c270; c271; c272; c273; c274; c275; c276; c277; c278; c279; c280; c281; c282; c283; c284; c285; c286; c287; c288; c289; c290; c291; c292; c293; c294; c295; c296; c297; c298; c299; c300; c301; c302; c303; c304; c305; c306; c307; c308; c309; c310; c311; c312; c313; c314; c315; c316; c317; c318; c319; c320; c321; c322; c323; c324; c325; c326; c327; c328; c329; c330; c331; c332; c333; c334; c335; c336; c337; c338; c339; c340; c341; c342; c343; c344; c345; c346; c347; c348; c349; c350; c351; c352; c353; c354; c355; c356; c357; c358; c359; c360; c361; c362; c363; c364; c365; c366; c367; c368; c369; c370; c371; c372; c373; c374; c375; c376; c377; c378; c379; c380; c381; c382; c383; c384; c385; c386; c387; c388; c389; c390; c391; c392; c393; c394; c395; c396; c397; c398; c399; c400; c401; c402; c403; c404; c405; c406; c407; c408; c409; c410; c411; c412; c413; c414; c415; c416; c417; c418; c419; c420; c421; c422; c423; c424; c425; c426; c427; c428; c429; c430; c431; c432; c433; c434; c435; c436; c437; c438; c439; c440; c441; c442; c443; c444; c445; c446; c447; c448; c449; c450; c451; c452; c453; c454; c455; c456; c457; c458; c459; c460; c461; c462; c463; c464; c465; c466; c467; c468; c469; c470; c471; c472; c473; c474; c475; c476; c477; c478; c479; c480; c481; c482; c483; c484; c485; c486; c487; c488; c489; c490; c491; c492; c493; c494; c495; c496; c497; c498; c499; c500; c501; c502; c503; c504; c505; c506; c507; c508; c509; c510; c511; c512; c513].
Eval vm_compute in ("corr_exact"%string, failing (corr_exact) cases).
Eval vm_compute in ("corr_stream"%string, failing (corr_stream) cases).
Eval vm_compute in ("prop_ws"%string, failing (prop_ws) cases).
Eval vm_compute in ("prop_discipline"%string, failing (prop_discipline) cases).
