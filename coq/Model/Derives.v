(** typegen/src/typegen/settings/derives.rs: reachability traversal,
    flattening of recursive derives, resolution per type, sorted emission. *)
From Coq Require Import List NArith String Bool.
From V Require Import Base.Strings Base.Result Model.Registry Model.Settings.
Import ListNotations.
Open Scope string_scope. Open Scope list_scope.

Definition mem_N (x : N) (l : list N) : bool := existsb (N.eqb x) l.

(** ids visited by [collect_type_ids] after a type: params, then structure
    (bit sequences contribute nothing) *)
Definition collect_children (t : ty) : list N :=
  param_ids t ++
  match t_def t with
  | TDBitSeq _ _ => []
  | d => def_ids d
  end.

(** depth-first traversal with the visited set threaded through; a missing id
    is the [expect] panic. *)
Fixpoint collect_ids (fuel : nat) (r : registry) (id : N) (visited : list N)
  : result (list N) :=
  match fuel with
  | O => Err EOutOfFuel
  | S fuel' =>
      if mem_N id visited then Ok visited
      else
        match resolve r id with
        | None => Panic "Should contain this id, if Registry not corrupted"
        | Some t =>
            (fix go (l : list N) (vis : list N) : result (list N) :=
               match l with
               | [] => Ok vis
               | c :: l' => let* vis' := collect_ids fuel' r c vis in go l' vis'
               end) (collect_children t) (id :: visited)
        end
  end.

Definition collect_type_ids (r : registry) (id : N) : result (list N) :=
  collect_ids (S (List.length r)) r id [].

(** [syn_type_path]: parse the joined path as a [syn::TypePath]; its identity
    is its token string *)
Definition path_key (p : list string) : string := join " :: " p.
Definition syn_type_path_key (p : list string) : result string :=
  match p with
  | [] => Err ESynParse
  | "" :: ((_ :: _) as p') =>   (* "::a::B" parses, as a type path with a leading colon; such an
                                    entry makes generation panic at [Ident::new ""] later, its key
                                    is never looked up successfully *)
      if forallb path_seg_okb p' then Ok (path_key p) else Err ESynParse
  | _ => if forallb path_seg_okb p then Ok (path_key p) else Err ESynParse
  end.

(** flat registry: default derives + map from type-path key to derives *)
Record flat_registry := mk_flat { fl_default : derives; fl_specific : list (string * derives) }.

Fixpoint smap_extend (m : list (string * derives)) (k : string) (d : derives) :=
  match m with
  | [] => [(k, d)]
  | (k', d') :: m' => if String.eqb k' k then (k', derives_union d' d) :: m'
                      else (k', d') :: smap_extend m' k d
  end.

Fixpoint smap_get (m : list (string * derives)) (k : string) : option derives :=
  match m with
  | [] => None
  | (k', d') :: m' => if String.eqb k' k then Some d' else smap_get m' k
  end.

Definition flat_of_specific (m : kmap) : list (string * derives) :=
  map (fun '(k, d) => (k_key k, d)) m.

(** [flatten_recursive_derives] *)
Definition flatten (dr : derives_registry) (r : registry) : result flat_registry :=
  match dr_recursive dr with
  | [] => Ok (mk_flat (dr_default dr) (flat_of_specific (dr_specific dr)))
  | _ =>
    (* syn_path_for_id, in registry order (first parse error wins) *)
    let* keys := mapM (fun '(id, t) =>
                         match t_path t with
                         | [] => Ok (id, None)
                         | p => let* k := syn_type_path_key p in Ok (id, Some k)
                         end) r in
    let key_of (id : N) : option string :=
      match find (fun e => N.eqb (fst e) id) keys with Some (_, k) => k | None => None end in
    (* per type in registry order: every type whose path has a recursive entry is a root
       (after the F13 repair the entry is no longer removed after its first use) *)
    let* acc :=
      (fix go (l : list (N * option string)) (acc : list (N * derives))
         : result (list (N * derives)) :=
         match l with
         | [] => Ok acc
         | (id, None) :: l' => go l' acc
         | (id, Some k) :: l' =>
             match kmap_get (dr_recursive dr) k with
             | None => go l' acc
             | Some d =>
                 let* ids := collect_type_ids r id in
                 go l' (acc ++ map (fun i => (i, d)) ids)
             end
         end) keys [] in
    (* merge per id into the specific derives of that id's path *)
    let spec :=
      fold_left (fun m '(id, d) =>
                   match key_of id with
                   | Some k => smap_extend m k d
                   | None => m
                   end) acc (flat_of_specific (dr_specific dr)) in
    Ok (mk_flat (dr_default dr) spec)
  end.

Definition resolve_derives (f : flat_registry) (key : string) : derives :=
  match smap_get (fl_specific f) key with
  | Some d => derives_union (fl_default f) d
  | None => fl_default f
  end.

Definition resolve_derives_for_type (f : flat_registry) (t : ty) : result derives :=
  let* k := syn_type_path_key (t_path t) in Ok (resolve_derives f k).

(** ** sorted, duplicate-free emission *)
Fixpoint insert_sorted (x : kt) (l : list kt) : list kt :=
  match l with
  | [] => [x]
  | y :: l' =>
      match String.compare (fst x) (fst y) with
      | Lt => x :: l
      | Eq => l            (* same key = same element of the hash set *)
      | Gt => y :: insert_sorted x l'
      end
  end.

Definition sort_dedup (l : list kt) : list kt := fold_right insert_sorted [] l.

Definition derives_tokens (d : derives) : tokens :=
  let ds := sort_dedup (d_derives d) in
  let ats := sort_dedup (d_attrs d) in
  (match ds with
   | [] => []
   | _ => ["#"; "["; "derive"; "("] ++
          (fix go (l : list kt) := match l with
                                   | [] => []
                                   | [x] => snd x
                                   | x :: l' => snd x ++ [","] ++ go l'
                                   end) ds ++ [")"; "]"]
   end) ++ flat_map snd ats.
