(** Source-level programs (C05): generic struct / enum definitions in nested
    modules and closed instantiations, as the harness generates them
    (harness/src/reggen.rs), and the item a definition is expected to be
    generated as ([expected_item]: generic over its non-skipped parameters,
    field types = source field types up to the documented normalisations). *)
From Coq Require Import List NArith String Bool.
From V Require Import Base.Util Base.Strings Base.Result Model.Registry Model.Settings Model.TypePath
  Checkers.Parse.
Import ListNotations.
Open Scope string_scope. Open Scope list_scope.

Inductive src :=
| SParam (i : nat)
| SApp (d : nat) (args : list src)
| SVec (t : src) | SVecDeque (t : src)
| SArray (n : N) (t : src)
| STup (ts : list src)
| SPrimT (p : prim)
| SCompactT (t : src)
| SBox (t : src)
| SOpt (t : src) | SRes (a b : src)
| SBTreeMap (k v : src) | SBTreeSet (t : src)
| SCow (t : src) | SRange (t : src)
| SBitVec (store : prim) (lsb : bool).

Record sfield := mk_sfield {
  sf_name : option string; sf_ty : src; sf_compact_attr : bool; sf_type_name : bool }.

Inductive sbody :=
| SBStruct (fs : list sfield)
| SBEnum (vs : list (string * N * list sfield)).

Record sdef := mk_sdef {
  sd_path : list string;
  sd_params : list (string * bool);     (* (name, skipped) *)
  sd_body : sbody }.

Record program := mk_program { pg_defs : list sdef; pg_roots : list src }.

(** does the source type mention [Box] anywhere (scale-info's recorded type name then contains "Box<") *)
Fixpoint has_box (t : src) : bool :=
  match t with
  | SBox _ => true
  | SApp _ args => (fix go (l : list src) := match l with [] => false | x :: l' => has_box x || go l' end) args
  | STup ts => (fix go (l : list src) := match l with [] => false | x :: l' => has_box x || go l' end) ts
  | SVec t | SVecDeque t | SArray _ t | SCompactT t | SOpt t | SBTreeSet t | SCow t | SRange t => has_box t
  | SRes a b | SBTreeMap a b => has_box a || has_box b
  | SParam _ | SPrimT _ | SBitVec _ _ => false
  end.

(** arguments at the non-skipped parameter positions of definition [d] *)
Definition live_args (defs : list sdef) (d : nat) (args : list src) : list src :=
  let skipped := match nth_error defs d with Some sd => map snd (sd_params sd) | None => [] end in
  (fix go (l : list src) (sk : list bool) : list src :=
     match l, sk with
     | x :: l', false :: sk' => x :: go l' sk'
     | _ :: l', true :: sk' => go l' sk'
     | x :: l', [] => x :: go l' []
     | [], _ => []
     end) args skipped.

(** parameters (positions) mentioned by a source type, as far as the registry can see them:
    an argument for a SKIPPED parameter of another definition leaves no trace *)
Fixpoint src_params_fuel (fuel : nat) (defs : list sdef) (t : src) : list nat :=
  match fuel with
  | O => []
  | S fuel' =>
      let rec := src_params_fuel fuel' defs in
      match t with
      | SParam i => [i]
      | SApp d args => flat_map rec (live_args defs d args)
      | STup ts => flat_map rec ts
      | SVec t | SVecDeque t | SArray _ t | SCompactT t | SBox t | SOpt t | SBTreeSet t | SCow t | SRange t => rec t
      | SRes a b | SBTreeMap a b => rec a ++ rec b
      | SPrimT _ | SBitVec _ _ => []
      end
  end.

Fixpoint src_size (t : src) : nat :=
  S match t with
    | SApp _ args => (fix go (l : list src) := match l with [] => O | x :: l' => (src_size x + go l')%nat end) args
    | STup ts => (fix go (l : list src) := match l with [] => O | x :: l' => (src_size x + go l')%nat end) ts
    | SVec t | SVecDeque t | SArray _ t | SCompactT t | SBox t | SOpt t | SBTreeSet t | SCow t | SRange t => src_size t
    | SRes a b | SBTreeMap a b => (src_size a + src_size b)%nat
    | _ => O
    end.

Definition src_params (defs : list sdef) (t : src) : list nat := src_params_fuel (src_size t) defs t.

Section Expected.
  Variable defs : list sdef.
  Variable root : string.
  Variable alloc : list string.            (* alloc crate path segments (leading ::) *)
  Variable compact : list string * bool.   (* compact path segments, leading :: ? *)
  Variable bits : list string * bool.
  Variable order_path : bool -> pty.       (* what the bit-order marker types are substituted by *)

  Definition abs_p (segs : list string) (args : list pty) : pty :=
    PPath true (map (fun s => (s, [])) (removelast segs) ++ [(last segs "", args)]).

  Definition prim_pty (p : prim) : pty :=
    match p with
    | PStr => abs_p (alloc ++ ["string"; "String"]) []
    | PBool => abs_p ["core"; "primitive"; "bool"] [] | PChar => abs_p ["core"; "primitive"; "char"] []
    | PU8 => abs_p ["core"; "primitive"; "u8"] [] | PU16 => abs_p ["core"; "primitive"; "u16"] []
    | PU32 => abs_p ["core"; "primitive"; "u32"] [] | PU64 => abs_p ["core"; "primitive"; "u64"] []
    | PU128 => abs_p ["core"; "primitive"; "u128"] [] | PU256 => PBad
    | PI8 => abs_p ["core"; "primitive"; "i8"] [] | PI16 => abs_p ["core"; "primitive"; "i16"] []
    | PI32 => abs_p ["core"; "primitive"; "i32"] [] | PI64 => abs_p ["core"; "primitive"; "i64"] []
    | PI128 => abs_p ["core"; "primitive"; "i128"] [] | PI256 => PBad
    end.

  (** the generated type expression for a source type inside a definition: parameters become
      [_i] (declared position), Box / Cow erased, VecDeque = Vec, explicit Compact<T> = the
      compact wrapper *)
  Fixpoint src_pty (t : src) : pty :=
    match t with
    | SParam i => PPath false [(String.append "_" (N_to_string (N.of_nat i)), [])]
    | SApp d args =>
        let p := match nth_error defs d with Some sd => sd_path sd | None => [] end in
        let skipped := match nth_error defs d with Some sd => map snd (sd_params sd) | None => [] end in
        let args' := (fix go (l : list src) (sk : list bool) : list pty :=
                        match l, sk with
                        | x :: l', false :: sk' => src_pty x :: go l' sk'
                        | _ :: l', true :: sk' => go l' sk'
                        | x :: l', [] => src_pty x :: go l' []
                        | [], _ => []
                        end) args skipped in
        PPath false (map (fun s => (s, [])) (root :: removelast p) ++ [(last p "", args')])
    | SVec t | SVecDeque t => abs_p (alloc ++ ["vec"; "Vec"]) [src_pty t]
    | SArray n t => PArray (src_pty t) (String.append (N_to_string n) "usize")
    | STup ts => PTuple ((fix go (l : list src) := match l with [] => [] | x :: l' => src_pty x :: go l' end) ts)
    | SPrimT p => prim_pty p
    | SCompactT t => PPath (snd compact) (map (fun s => (s, [])) (removelast (fst compact)) ++
                                          [(last (fst compact) "", [src_pty t])])
    | SBox t => src_pty t
    | SOpt t => abs_p ["core"; "option"; "Option"] [src_pty t]
    | SRes a b => abs_p ["core"; "result"; "Result"] [src_pty a; src_pty b]
    | SBTreeMap k v => abs_p (alloc ++ ["collections"; "BTreeMap"]) [src_pty k; src_pty v]
    | SBTreeSet t => abs_p (alloc ++ ["collections"; "BTreeSet"]) [src_pty t]
    | SCow t => src_pty t
    | SRange t => abs_p ["core"; "ops"; "Range"] [src_pty t]
    | SBitVec st lsb => PPath (snd bits) (map (fun s => (s, [])) (removelast (fst bits)) ++
                                          [(last (fst bits) "", [prim_pty st; order_path lsb])])
    end.

  (** field level: compact attribute fields print the inner type with the attribute (an explicit
      top-level [Compact<T>] field too); a type name mentioning Box wraps the whole field *)
  Definition field_compact (f : sfield) : bool :=
    sf_compact_attr f || match sf_ty f with SCompactT _ => true | SCow (SCompactT _) => true | _ => false end.

  Definition field_pty (f : sfield) : pty :=
    let inner := match sf_ty f with
                 | SCompactT t => src_pty t
                 | SCow (SCompactT t) => src_pty t
                 | t => src_pty t
                 end in
    if has_box (sf_ty f) && sf_type_name f then abs_p (alloc ++ ["boxed"; "Box"]) [inner] else inner.

  Definition expected_fields (codec : bool) (pub : bool) (fs : list sfield) : list pfield :=
    map (fun f => mk_pfield (if field_compact f && codec then [["codec"; "("; "compact"; ")"]] else [])
                            pub (sf_name f) (field_pty f)) fs.

  Definition body_params (b : sbody) : list nat :=
    match b with
    | SBStruct fs => flat_map (fun f => src_params defs (sf_ty f)) fs
    | SBEnum vs => flat_map (fun v => flat_map (fun f => src_params defs (sf_ty f)) (snd v)) vs
    end.

  (** declared generics: non-skipped parameters by declared position; unused = not mentioned *)
  Definition generics_of (d : sdef) : list nat :=
    flat_map (fun ip : nat * (string * bool) => if snd (snd ip) then [] else [fst ip])
             (combine (seq 0 (List.length (sd_params d))) (sd_params d)).

  Definition gname (i : nat) : string := String.append "_" (N_to_string (N.of_nat i)).

  Definition marker_pty (unused : list nat) : option pty :=
    match unused with
    | [] => None
    | [i] => Some (abs_p ["core"; "marker"; "PhantomData"] [PPath false [(gname i, [])]])
    | l => Some (abs_p ["core"; "marker"; "PhantomData"] [PTuple (map (fun i => PPath false [(gname i, [])]) l)])
    end.

  Definition body_of (named : bool) (fs : list pfield) : pbody :=
    match fs with [] => BUnit | _ => if named then BNamed fs else BTuple fs end.

  (** the item a definition is expected to be generated as (attributes other than codec ones,
      i.e. derives and docs, are not part of C05 and are left empty) *)
  Definition expected_item (codec : bool) (d : sdef) : pitem :=
    let gens := generics_of d in
    let unused := filter (fun i => negb (existsb (Nat.eqb i) (body_params (sd_body d)))) gens in
    let marker := marker_pty unused in
    let name := last (sd_path d) "" in
    match sd_body d with
    | SBStruct fs =>
        let named := match fs with f :: _ => match sf_name f with Some _ => true | None => false end | [] => false end in
        let pfs := expected_fields codec true fs in
        let mk := match marker with
                  | Some m => [mk_pfield (if codec && negb (match fs with [] => true | _ => false end)
                                          then [["codec"; "("; "skip"; ")"]] else [])
                                         true (if named then Some "__ignore" else None) m]
                  | None => []
                  end in
        let all := pfs ++ mk in
        let body := match fs, marker with
                    | [], Some _ => BTuple all
                    | [], None => BUnit
                    | _, _ => if named then BNamed all else BTuple all
                    end in
        mk_pitem [] false name (map gname gens) body []
                 (match body with BNamed _ => false | _ => true end)
    | SBEnum vs =>
        let pvs := map (fun v : string * N * list sfield =>
                          let fs := snd v in
                          let named := match fs with f :: _ => match sf_name f with Some _ => true | None => false end | [] => false end in
                          mk_pvariant (if codec then [["codec"; "("; "index"; "="; N_to_string (snd (fst v)); ")"]] else [])
                                      (fst (fst v)) (body_of named (expected_fields codec false fs))) vs in
        let ign := match marker with
                   | Some m => [mk_pvariant [] "__Ignore" (BTuple [mk_pfield [] false None m])]
                   | None => []
                   end in
        mk_pitem [] true name (map gname gens) BUnit (pvs ++ ign) false
    end.
End Expected.

(** ** coincidence-freeness of an instantiation (the three conditions of C05's quantifier),
    on closed source types: no argument equals a non-parameter component nested in the
    definition (after substitution), arguments pairwise distinct, no parameter directly under
    a transparent wrapper (Box / Cow). *)
Fixpoint src_eqb (a b : src) : bool :=
  match a, b with
  | SParam i, SParam j => Nat.eqb i j
  | SApp d x, SApp e y =>
      Nat.eqb d e &&
      (fix go (p q : list src) := match p, q with
                                  | [], [] => true
                                  | u :: p', v :: q' => src_eqb u v && go p' q'
                                  | _, _ => false
                                  end) x y
  | STup x, STup y =>
      (fix go (p q : list src) := match p, q with
                                  | [], [] => true
                                  | u :: p', v :: q' => src_eqb u v && go p' q'
                                  | _, _ => false
                                  end) x y
  | SVec x, SVec y | SVecDeque x, SVecDeque y | SCompactT x, SCompactT y | SBox x, SBox y
  | SOpt x, SOpt y | SBTreeSet x, SBTreeSet y | SCow x, SCow y | SRange x, SRange y => src_eqb x y
  | SArray n x, SArray m y => N.eqb n m && src_eqb x y
  | SPrimT p, SPrimT q => prim_eqb p q
  | SRes a1 b1, SRes a2 b2 | SBTreeMap a1 b1, SBTreeMap a2 b2 => src_eqb a1 a2 && src_eqb b1 b2
  | SBitVec s l, SBitVec s' l' => prim_eqb s s' && Bool.eqb l l'
  | _, _ => false
  end.

(** scale-info identifies types up to Box (transparent) and Vec = VecDeque *)
Fixpoint canon (t : src) : src :=
  match t with
  | SBox x => canon x
  | SVecDeque x => SVec (canon x)
  | SApp d args => SApp d ((fix go (l : list src) := match l with [] => [] | x :: l' => canon x :: go l' end) args)
  | STup ts => STup ((fix go (l : list src) := match l with [] => [] | x :: l' => canon x :: go l' end) ts)
  | SVec x => SVec (canon x) | SArray n x => SArray n (canon x) | SCompactT x => SCompactT (canon x)
  | SOpt x => SOpt (canon x) | SBTreeSet x => SBTreeSet (canon x) | SCow x => SCow (canon x)
  | SRange x => SRange (canon x)
  | SRes a b => SRes (canon a) (canon b) | SBTreeMap a b => SBTreeMap (canon a) (canon b)
  | other => other
  end.

Fixpoint subst_src (args : list src) (t : src) : src :=
  match t with
  | SParam i => nth i args (SParam i)
  | SApp d xs => SApp d ((fix go (l : list src) := match l with [] => [] | x :: l' => subst_src args x :: go l' end) xs)
  | STup ts => STup ((fix go (l : list src) := match l with [] => [] | x :: l' => subst_src args x :: go l' end) ts)
  | SVec x => SVec (subst_src args x) | SVecDeque x => SVecDeque (subst_src args x)
  | SArray n x => SArray n (subst_src args x) | SCompactT x => SCompactT (subst_src args x)
  | SBox x => SBox (subst_src args x) | SOpt x => SOpt (subst_src args x)
  | SBTreeSet x => SBTreeSet (subst_src args x) | SCow x => SCow (subst_src args x)
  | SRange x => SRange (subst_src args x)
  | SRes a b => SRes (subst_src args a) (subst_src args b)
  | SBTreeMap a b => SBTreeMap (subst_src args a) (subst_src args b)
  | other => other
  end.

(** all sub-terms of an (open) source type as they are reached by path resolution from a field:
    the type itself, generic arguments at non-skipped positions, elements *)
Fixpoint components_fuel (fuel : nat) (defs : list sdef) (t : src) : list src :=
  match fuel with
  | O => []
  | S fuel' =>
      let rec := components_fuel fuel' defs in
      t :: match t with
           | SApp d xs => flat_map rec (live_args defs d xs)
           | STup ts => flat_map rec ts
           | SVec x | SVecDeque x | SArray _ x | SCompactT x | SBox x | SOpt x | SBTreeSet x | SCow x | SRange x => rec x
           | SRes a b | SBTreeMap a b => rec a ++ rec b
           | SBitVec st _ => [SPrimT st]
           | _ => []
           end
  end.
Definition components (defs : list sdef) (t : src) : list src := components_fuel (src_size t) defs t.

Definition is_param (t : src) : bool := match t with SParam _ => true | _ => false end.

Definition wrapper_on_param (defs : list sdef) (t : src) : bool :=
  existsb (fun c => match c with SBox (SParam _) | SCow (SParam _) => true | _ => false end) (components defs t).

Definition def_field_types (d : sdef) : list src :=
  match sd_body d with
  | SBStruct fs => map sf_ty fs
  | SBEnum vs => flat_map (fun v => map sf_ty (snd v)) vs
  end.

(** a parameter whose type scale-info was told to skip cannot occur in a field type
    (the field type would need its [TypeInfo]) *)
Definition skipped_unused (defs : list sdef) (d : sdef) : bool :=
  forallb (fun i => match nth_error (sd_params d) i with
                    | Some (_, true) => false
                    | _ => true
                    end) (flat_map (src_params defs) (def_field_types d)).

Definition instantiation_cf (defs : list sdef) (d : sdef) (args : list src) : bool :=
  skipped_unused defs d &&
  let cargs := map canon args in
  (* arguments of non-skipped parameters pairwise distinct *)
  let live := flat_map (fun ap : src * (string * bool) => if snd (snd ap) then [] else [fst ap])
                       (combine cargs (sd_params d)) in
  (fix nodup (l : list src) := match l with
                               | [] => true
                               | x :: l' => negb (existsb (src_eqb x) l') && nodup l'
                               end) live &&
  forallb (fun ft =>
             negb (wrapper_on_param defs ft) &&
             forallb (fun c => is_param c ||
                               negb (existsb (src_eqb (canon (subst_src args c))) live))
                     (components defs ft)) (def_field_types d).
