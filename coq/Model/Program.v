(** Source-level programs (C05): generic struct / enum definitions in nested
    modules and closed instantiations, as the harness generates them
    (harness/src/reggen.rs), and the item a definition is expected to be
    generated as ([expected_item]: generic over its non-skipped parameters,
    field types = source field types up to the documented normalisations). *)
From Coq Require Import List NArith String Bool.
From V Require Import Base.Util Base.Strings Base.Result Model.Registry Model.Settings Model.TypePath
  Checkers.Parse.
Import ListNotations.
Open Scope string_scope. Open Scope list_scope.

Inductive src :=
| SParam (i : nat)
| SApp (d : nat) (args : list src)
| SVec (t : src) | SVecDeque (t : src)
| SArray (n : N) (t : src)
| STup (ts : list src)
| SPrimT (p : prim)
| SCompactT (t : src)
| SBox (t : src)
| SOpt (t : src) | SRes (a b : src)
| SBTreeMap (k v : src) | SBTreeSet (t : src)
| SCow (t : src) | SRange (t : src)
| SBitVec (store : prim) (lsb : bool).

Record sfield := mk_sfield {
  sf_name : option string; sf_ty : src; sf_compact_attr : bool; sf_type_name : bool }.

Inductive sbody :=
| SBStruct (fs : list sfield)
| SBEnum (vs : list (string * N * list sfield)).

Record sdef := mk_sdef {
  sd_path : list string;
  sd_params : list (string * bool);     (* (name, skipped) *)
  sd_body : sbody }.

Record program := mk_program { pg_defs : list sdef; pg_roots : list src }.

(** does the source type mention [Box] anywhere (scale-info's recorded type name then contains "Box<") *)
Fixpoint has_box (t : src) : bool :=
  match t with
  | SBox _ => true
  | SApp _ args => (fix go (l : list src) := match l with [] => false | x :: l' => has_box x || go l' end) args
  | STup ts => (fix go (l : list src) := match l with [] => false | x :: l' => has_box x || go l' end) ts
  | SVec t | SVecDeque t | SArray _ t | SCompactT t | SOpt t | SBTreeSet t | SCow t | SRange t => has_box t
  | SRes a b | SBTreeMap a b => has_box a || has_box b
  | SParam _ | SPrimT _ | SBitVec _ _ => false
  end.

(** arguments at the non-skipped parameter positions of definition [d] *)
Definition live_args (defs : list sdef) (d : nat) (args : list src) : list src :=
  let skipped := match nth_error defs d with Some sd => map snd (sd_params sd) | None => [] end in
  (fix go (l : list src) (sk : list bool) : list src :=
     match l, sk with
     | x :: l', false :: sk' => x :: go l' sk'
     | _ :: l', true :: sk' => go l' sk'
     | x :: l', [] => x :: go l' []
     | [], _ => []
     end) args skipped.

(** parameters (positions) mentioned by a source type, as far as the registry can see them:
    an argument for a SKIPPED parameter of another definition leaves no trace *)
Fixpoint src_params_fuel (fuel : nat) (defs : list sdef) (t : src) : list nat :=
  match fuel with
  | O => []
  | S fuel' =>
      let rec := src_params_fuel fuel' defs in
      match t with
      | SParam i => [i]
      | SApp d args => flat_map rec (live_args defs d args)
      | STup ts => flat_map rec ts
      | SVec t | SVecDeque t | SArray _ t | SCompactT t | SBox t | SOpt t | SBTreeSet t | SCow t | SRange t => rec t
      | SRes a b | SBTreeMap a b => rec a ++ rec b
      | SPrimT _ | SBitVec _ _ => []
      end
  end.

Fixpoint src_size (t : src) : nat :=
  S match t with
    | SApp _ args => (fix go (l : list src) := match l with [] => O | x :: l' => (src_size x + go l')%nat end) args
    | STup ts => (fix go (l : list src) := match l with [] => O | x :: l' => (src_size x + go l')%nat end) ts
    | SVec t | SVecDeque t | SArray _ t | SCompactT t | SBox t | SOpt t | SBTreeSet t | SCow t | SRange t => src_size t
    | SRes a b | SBTreeMap a b => (src_size a + src_size b)%nat
    | _ => O
    end.

Definition src_params (defs : list sdef) (t : src) : list nat := src_params_fuel (src_size t) defs t.

Section Expected.
  Variable defs : list sdef.
  Variable root : string.
  Variable alloc : list string.            (* alloc crate path segments (leading ::) *)
  Variable compact : list string * bool.   (* compact path segments, leading :: ? *)
  Variable bits : list string * bool.
  Variable order_path : bool -> pty.       (* what the bit-order marker types are substituted by *)

  Definition abs_p (segs : list string) (args : list pty) : pty :=
    PPath true (map (fun s => (s, [])) (removelast segs) ++ [(last segs "", args)]).

  Definition prim_pty (p : prim) : pty :=
    match p with
    | PStr => abs_p (alloc ++ ["string"; "String"]) []
    | PBool => abs_p ["core"; "primitive"; "bool"] [] | PChar => abs_p ["core"; "primitive"; "char"] []
    | PU8 => abs_p ["core"; "primitive"; "u8"] [] | PU16 => abs_p ["core"; "primitive"; "u16"] []
    | PU32 => abs_p ["core"; "primitive"; "u32"] [] | PU64 => abs_p ["core"; "primitive"; "u64"] []
    | PU128 => abs_p ["core"; "primitive"; "u128"] [] | PU256 => PBad
    | PI8 => abs_p ["core"; "primitive"; "i8"] [] | PI16 => abs_p ["core"; "primitive"; "i16"] []
    | PI32 => abs_p ["core"; "primitive"; "i32"] [] | PI64 => abs_p ["core"; "primitive"; "i64"] []
    | PI128 => abs_p ["core"; "primitive"; "i128"] [] | PI256 => PBad
    end.

  (** the generated type expression for a source type inside a definition: parameters become
      [_i] (declared position), Box / Cow erased, VecDeque = Vec, explicit Compact<T> = the
      compact wrapper *)
  Fixpoint src_pty (t : src) : pty :=
    match t with
    | SParam i => PPath false [(String.append "_" (N_to_string (N.of_nat i)), [])]
    | SApp d args =>
        let p := match nth_error defs d with Some sd => sd_path sd | None => [] end in
        let skipped := match nth_error defs d with Some sd => map snd (sd_params sd) | None => [] end in
        let args' := (fix go (l : list src) (sk : list bool) : list pty :=
                        match l, sk with
                        | x :: l', false :: sk' => src_pty x :: go l' sk'
                        | _ :: l', true :: sk' => go l' sk'
                        | x :: l', [] => src_pty x :: go l' []
                        | [], _ => []
                        end) args skipped in
        PPath false (map (fun s => (s, [])) (root :: removelast p) ++ [(last p "", args')])
    | SVec t | SVecDeque t => abs_p (alloc ++ ["vec"; "Vec"]) [src_pty t]
    | SArray n t => PArray (src_pty t) (String.append (N_to_string n) "usize")
    | STup ts => PTuple ((fix go (l : list src) := match l with [] => [] | x :: l' => src_pty x :: go l' end) ts)
    | SPrimT p => prim_pty p
    | SCompactT t => PPath (snd compact) (map (fun s => (s, [])) (removelast (fst compact)) ++
                                          [(last (fst compact) "", [src_pty t])])
    | SBox t => src_pty t
    | SOpt t => abs_p ["core"; "option"; "Option"] [src_pty t]
    | SRes a b => abs_p ["core"; "result"; "Result"] [src_pty a; src_pty b]
    | SBTreeMap k v => abs_p (alloc ++ ["collections"; "BTreeMap"]) [src_pty k; src_pty v]
    | SBTreeSet t => abs_p (alloc ++ ["collections"; "BTreeSet"]) [src_pty t]
    | SCow t => src_pty t
    | SRange t => abs_p ["core"; "ops"; "Range"] [src_pty t]
    | SBitVec st lsb => PPath (snd bits) (map (fun s => (s, [])) (removelast (fst bits)) ++
                                          [(last (fst bits) "", [prim_pty st; order_path lsb])])
    end.

  (** field level: compact attribute fields print the inner type with the attribute (an explicit
      top-level [Compact<T>] field too); a type name mentioning Box wraps the whole field *)
  Definition field_compact (f : sfield) : bool :=
    sf_compact_attr f || match sf_ty f with SCompactT _ => true | SCow (SCompactT _) => true | _ => false end.

  Definition field_pty (f : sfield) : pty :=
    let inner := match sf_ty f with
                 | SCompactT t => src_pty t
                 | SCow (SCompactT t) => src_pty t
                 | t => src_pty t
                 end in
    if has_box (sf_ty f) && sf_type_name f then abs_p (alloc ++ ["boxed"; "Box"]) [inner] else inner.

  Definition expected_fields (codec : bool) (pub : bool) (fs : list sfield) : list pfield :=
    map (fun f => mk_pfield (if field_compact f && codec then [["codec"; "("; "compact"; ")"]] else [])
                            pub (sf_name f) (field_pty f)) fs.

  Definition body_params (b : sbody) : list nat :=
    match b with
    | SBStruct fs => flat_map (fun f => src_params defs (sf_ty f)) fs
    | SBEnum vs => flat_map (fun v => flat_map (fun f => src_params defs (sf_ty f)) (snd v)) vs
    end.

  (** declared generics: non-skipped parameters by declared position; unused = not mentioned *)
  Definition generics_of (d : sdef) : list nat :=
    flat_map (fun ip : nat * (string * bool) => if snd (snd ip) then [] else [fst ip])
             (combine (seq 0 (List.length (sd_params d))) (sd_params d)).

  Definition gname (i : nat) : string := String.append "_" (N_to_string (N.of_nat i)).

  Definition marker_pty (unused : list nat) : option pty :=
    match unused with
    | [] => None
    | [i] => Some (abs_p ["core"; "marker"; "PhantomData"] [PPath false [(gname i, [])]])
    | l => Some (abs_p ["core"; "marker"; "PhantomData"] [PTuple (map (fun i => PPath false [(gname i, [])]) l)])
    end.

  Definition body_of (named : bool) (fs : list pfield) : pbody :=
    match fs with [] => BUnit | _ => if named then BNamed fs else BTuple fs end.

  (** the item a definition is expected to be generated as (attributes other than codec ones,
      i.e. derives and docs, are not part of C05 and are left empty) *)
  Definition expected_item (codec : bool) (d : sdef) : pitem :=
    let gens := generics_of d in
    let unused := filter (fun i => negb (existsb (Nat.eqb i) (body_params (sd_body d)))) gens in
    let marker := marker_pty unused in
    let name := last (sd_path d) "" in
    match sd_body d with
    | SBStruct fs =>
        let named := match fs with f :: _ => match sf_name f with Some _ => true | None => false end | [] => false end in
        let pfs := expected_fields codec true fs in
        let mk := match marker with
                  | Some m => [mk_pfield (if codec && negb (match fs with [] => true | _ => false end)
                                          then [["codec"; "("; "skip"; ")"]] else [])
                                         true (if named then Some "__ignore" else None) m]
                  | None => []
                  end in
        let all := pfs ++ mk in
        let body := match fs, marker with
                    | [], Some _ => BTuple all
                    | [], None => BUnit
                    | _, _ => if named then BNamed all else BTuple all
                    end in
        mk_pitem [] false name (map gname gens) body []
                 (match body with BNamed _ => false | _ => true end)
    | SBEnum vs =>
        let pvs := map (fun v : string * N * list sfield =>
                          let fs := snd v in
                          let named := match fs with f :: _ => match sf_name f with Some _ => true | None => false end | [] => false end in
                          mk_pvariant (if codec then [["codec"; "("; "index"; "="; N_to_string (snd (fst v)); ")"]] else [])
                                      (fst (fst v)) (body_of named (expected_fields codec false fs))) vs in
        let ign := match marker with
                   | Some m => [mk_pvariant [] "__Ignore" (BTuple [mk_pfield [] false None m])]
                   | None => []
                   end in
        mk_pitem [] true name (map gname gens) BUnit (pvs ++ ign) false
    end.
End Expected.

(** ** coincidence-freeness of an instantiation (the three conditions of C05's quantifier),
    on closed source types: no argument equals a non-parameter component nested in the
    definition (after substitution), arguments pairwise distinct, no parameter directly under
    a transparent wrapper (Box / Cow). *)
Fixpoint src_eqb (a b : src) : bool :=
  match a, b with
  | SParam i, SParam j => Nat.eqb i j
  | SApp d x, SApp e y =>
      Nat.eqb d e &&
      (fix go (p q : list src) := match p, q with
                                  | [], [] => true
                                  | u :: p', v :: q' => src_eqb u v && go p' q'
                                  | _, _ => false
                                  end) x y
  | STup x, STup y =>
      (fix go (p q : list src) := match p, q with
                                  | [], [] => true
                                  | u :: p', v :: q' => src_eqb u v && go p' q'
                                  | _, _ => false
                                  end) x y
  | SVec x, SVec y | SVecDeque x, SVecDeque y | SCompactT x, SCompactT y | SBox x, SBox y
  | SOpt x, SOpt y | SBTreeSet x, SBTreeSet y | SCow x, SCow y | SRange x, SRange y => src_eqb x y
  | SArray n x, SArray m y => N.eqb n m && src_eqb x y
  | SPrimT p, SPrimT q => prim_eqb p q
  | SRes a1 b1, SRes a2 b2 | SBTreeMap a1 b1, SBTreeMap a2 b2 => src_eqb a1 a2 && src_eqb b1 b2
  | SBitVec s l, SBitVec s' l' => prim_eqb s s' && Bool.eqb l l'
  | _, _ => false
  end.

(** scale-info identifies types up to Box (transparent) and Vec = VecDeque *)
Fixpoint canon (t : src) : src :=
  match t with
  | SBox x => canon x
  | SVecDeque x => SVec (canon x)
  | SApp d args => SApp d ((fix go (l : list src) := match l with [] => [] | x :: l' => canon x :: go l' end) args)
  | STup ts => STup ((fix go (l : list src) := match l with [] => [] | x :: l' => canon x :: go l' end) ts)
  | SVec x => SVec (canon x) | SArray n x => SArray n (canon x) | SCompactT x => SCompactT (canon x)
  | SOpt x => SOpt (canon x) | SBTreeSet x => SBTreeSet (canon x) | SCow x => SCow (canon x)
  | SRange x => SRange (canon x)
  | SRes a b => SRes (canon a) (canon b) | SBTreeMap a b => SBTreeMap (canon a) (canon b)
  | other => other
  end.

Fixpoint subst_src (args : list src) (t : src) : src :=
  match t with
  | SParam i => nth i args (SParam i)
  | SApp d xs => SApp d ((fix go (l : list src) := match l with [] => [] | x :: l' => subst_src args x :: go l' end) xs)
  | STup ts => STup ((fix go (l : list src) := match l with [] => [] | x :: l' => subst_src args x :: go l' end) ts)
  | SVec x => SVec (subst_src args x) | SVecDeque x => SVecDeque (subst_src args x)
  | SArray n x => SArray n (subst_src args x) | SCompactT x => SCompactT (subst_src args x)
  | SBox x => SBox (subst_src args x) | SOpt x => SOpt (subst_src args x)
  | SBTreeSet x => SBTreeSet (subst_src args x) | SCow x => SCow (subst_src args x)
  | SRange x => SRange (subst_src args x)
  | SRes a b => SRes (subst_src args a) (subst_src args b)
  | SBTreeMap a b => SBTreeMap (subst_src args a) (subst_src args b)
  | other => other
  end.

(** all sub-terms of an (open) source type as they are reached by path resolution from a field:
    the type itself, generic arguments at non-skipped positions, elements *)
Fixpoint components_fuel (fuel : nat) (defs : list sdef) (t : src) : list src :=
  match fuel with
  | O => []
  | S fuel' =>
      let rec := components_fuel fuel' defs in
      t :: match t with
           | SApp d xs => flat_map rec (live_args defs d xs)
           | STup ts => flat_map rec ts
           | SVec x | SVecDeque x | SArray _ x | SCompactT x | SBox x | SOpt x | SBTreeSet x | SCow x | SRange x => rec x
           | SRes a b | SBTreeMap a b => rec a ++ rec b
           | SBitVec st _ => [SPrimT st]
           | _ => []
           end
  end.
Definition components (defs : list sdef) (t : src) : list src := components_fuel (src_size t) defs t.

Definition is_param (t : src) : bool := match t with SParam _ => true | _ => false end.

Definition wrapper_on_param (defs : list sdef) (t : src) : bool :=
  existsb (fun c => match c with SBox (SParam _) | SCow (SParam _) => true | _ => false end) (components defs t).

Definition def_field_types (d : sdef) : list src :=
  match sd_body d with
  | SBStruct fs => map sf_ty fs
  | SBEnum vs => flat_map (fun v => map sf_ty (snd v)) vs
  end.

(** a parameter whose type scale-info was told to skip cannot occur in a field type
    (the field type would need its [TypeInfo]) *)
Definition skipped_unused (defs : list sdef) (d : sdef) : bool :=
  forallb (fun i => match nth_error (sd_params d) i with
                    | Some (_, true) => false
                    | _ => true
                    end) (flat_map (src_params defs) (def_field_types d)).

Definition instantiation_cf (defs : list sdef) (d : sdef) (args : list src) : bool :=
  skipped_unused defs d &&
  let cargs := map canon args in
  (* arguments of non-skipped parameters pairwise distinct *)
  let live := flat_map (fun ap : src * (string * bool) => if snd (snd ap) then [] else [fst ap])
                       (combine cargs (sd_params d)) in
  (fix nodup (l : list src) := match l with
                               | [] => true
                               | x :: l' => negb (existsb (src_eqb x) l') && nodup l'
                               end) live &&
  forallb (fun ft =>
             negb (wrapper_on_param defs ft) &&
             forallb (fun c => is_param c ||
                               negb (existsb (src_eqb (canon (subst_src args c))) live))
                     (components defs ft)) (def_field_types d).

(** * C05 as theorems: the registry of a program, the normalised type path of a source type *)
From V Require Import Model.Subst Model.Generate Checkers.Sem.

Definition toks_leading (t : tokens) : bool :=
  match t with ":" :: ":" :: _ => true | _ => false end.

(** a printed path [toks] with generic arguments [args] on its last segment, as the parser
    ([Checkers/Parse.v]) reads it back *)
Definition toks_pty (toks : tokens) (args : list pty) : pty :=
  let segs := toks_to_segs toks in
  PPath (toks_leading toks) (map (fun s => (s, [])) (removelast segs) ++ [(last segs "", args)]).

(** the obvious rendering of a [tpath] as a parsed type, following [tp_tokens] (a field-level
    compact prints its inner type); [alloc] = segments of the alloc crate path, which is
    printed with a leading [::] *)
Fixpoint tpath_pty (alloc : list string) (t : tpath) : pty :=
  match t with
  | TParam p => PPath false [(tpi_name p, [])]
  | TPath ptoks params =>
      toks_pty ptoks ((fix go (l : list tpath) := match l with [] => [] | x :: l' => tpath_pty alloc x :: go l' end) params)
  | TVec o => abs_p (alloc ++ ["vec"; "Vec"]) [tpath_pty alloc o]
  | TArray len o => PArray (tpath_pty alloc o) (String.append (N_to_string len) "usize")
  | TTuple els => PTuple ((fix go (l : list tpath) := match l with [] => [] | x :: l' => tpath_pty alloc x :: go l' end) els)
  | TPrim p => prim_pty alloc p
  | TCompact inner is_field cpath =>
      if is_field then tpath_pty alloc inner else toks_pty cpath [tpath_pty alloc inner]
  | TBitVec order store bpath => toks_pty bpath [tpath_pty alloc store; tpath_pty alloc order]
  end.

Section Normal.
  Variable defs : list sdef.
  Variable s : settings.
  Variable order_tp : bool -> tpath.     (* what the bit-order marker types resolve to *)

  Definition opt_toks (o : option tokens) : tokens := match o with Some c => c | None => [] end.

  (** the normalised type path of a source type inside a definition ([normalise] of DESIGN 6):
      parameters are [Param] nodes that only carry their declared position, Box / Cow are
      transparent, VecDeque is Vec, arguments of skipped parameters are dropped; [is_field]:
      the type of a field (a compact there is printed as an attribute) *)
  Fixpoint src_tpath (is_field : bool) (t : src) : tpath :=
    match t with
    | SParam i => TParam (mk_tpi 0 "" (N.of_nat i))
    | SApp d args =>
        let p := match nth_error defs d with Some sd => sd_path sd | None => [] end in
        let skipped := match nth_error defs d with Some sd => map snd (sd_params sd) | None => [] end in
        TPath (rel_path (s_root s :: p))
              ((fix go (l : list src) (sk : list bool) : list tpath :=
                  match l, sk with
                  | x :: l', false :: sk' => src_tpath false x :: go l' sk'
                  | _ :: l', true :: sk' => go l' sk'
                  | x :: l', [] => src_tpath false x :: go l' []
                  | [], _ => []
                  end) args skipped)
    | SVec x | SVecDeque x => TVec (src_tpath false x)
    | SArray n x => TArray n (src_tpath false x)
    | STup ts => TTuple ((fix go (l : list src) := match l with [] => [] | x :: l' => src_tpath false x :: go l' end) ts)
    | SPrimT p => TPrim p
    | SCompactT x => TCompact (src_tpath false x) is_field (opt_toks (s_compact s))
    | SBox x => src_tpath is_field x
    | SCow x => src_tpath is_field x
    | SOpt x => TPath (abs_path ["core"; "option"; "Option"]) [src_tpath false x]
    | SRes a b => TPath (abs_path ["core"; "result"; "Result"]) [src_tpath false a; src_tpath false b]
    | SBTreeMap k v => TPath (alloc_tokens (s_alloc s) ++ abs_path ["collections"; "BTreeMap"])
                             [src_tpath false k; src_tpath false v]
    | SBTreeSet x => TPath (alloc_tokens (s_alloc s) ++ abs_path ["collections"; "BTreeSet"]) [src_tpath false x]
    | SRange x => TPath (abs_path ["core"; "ops"; "Range"]) [src_tpath false x]
    | SBitVec st lsb => TBitVec (order_tp lsb) (TPrim st) (opt_toks (s_bits s))
    end.

  (** the normalised field: path, compact flag, boxed flag *)
  Definition normal_field (f : sfield) : field_ir :=
    let t := src_tpath true (if sf_compact_attr f then SCompactT (sf_ty f) else sf_ty f) in
    mk_fi t (is_compact t) (has_box (sf_ty f) && sf_type_name f).
End Normal.

Definition def_sfields (d : sdef) : list sfield :=
  match sd_body d with
  | SBStruct fs => fs
  | SBEnum vs => flat_map (fun v => snd v) vs
  end.

(** ** recorded type names (harness/src/reggen.rs [type_name]): scale-info-derive's
    [clean_type_string] of the token string of the source type.  Its rules are not symmetric: the
    blank after a comma is kept before an identifier and before [(], but not before [[]
    ([(Option<T>,[U; 2])]); a one-element tuple keeps its comma ([(T,)]).  Validated against the real
    derive by the derive tier (harness/src/dtier.rs). *)
Definition render_sep (t : src) : string := match t with SArray _ _ => "," | _ => ", " end.

Fixpoint render (defs : list sdef) (pnames : list string) (t : src) : string :=
  let args l := (fix go (l : list src) (first : bool) : string :=
                   match l with
                   | [] => ""%string
                   | x :: l' => String.append (if first then ""%string else render_sep x)
                                              (String.append (render defs pnames x) (go l' false))
                   end) l true in
  match t with
  | SParam i => nth i pnames (String.append "P" (N_to_string (N.of_nat i)))
  | SApp d a =>
      let n := match nth_error defs d with Some sd => last (sd_path sd) "" | None => "" end in
      match a with [] => n | _ => n ++ "<" ++ args a ++ ">" end
  | SVec x => "Vec<" ++ render defs pnames x ++ ">"
  | SVecDeque x => "VecDeque<" ++ render defs pnames x ++ ">"
  | SArray n x => "[" ++ render defs pnames x ++ "; " ++ N_to_string n ++ "]"
  | STup [x] => "(" ++ render defs pnames x ++ ",)"
  | STup ts => "(" ++ args ts ++ ")"
  | SPrimT p => prim_name p
  | SCompactT x => "Compact<" ++ render defs pnames x ++ ">"
  | SBox x => "Box<" ++ render defs pnames x ++ ">"
  | SOpt x => "Option<" ++ render defs pnames x ++ ">"
  | SRes a b => "Result<" ++ render defs pnames a ++ render_sep b ++ render defs pnames b ++ ">"
  | SBTreeMap a b => "BTreeMap<" ++ render defs pnames a ++ render_sep b ++ render defs pnames b ++ ">"
  | SBTreeSet x => "BTreeSet<" ++ render defs pnames x ++ ">"
  | SCow x => "Cow<'static" ++ render_sep x ++ render defs pnames x ++ ">"
  | SRange x => "Range<" ++ render defs pnames x ++ ">"
  | SBitVec st lsb => "BitVec<" ++ prim_name st ++ ", " ++ (if lsb then "Lsb0" else "Msb0") ++ ">"
  end.

(** ** [RegistryOf prog L r]: [r] is the registry scale-info derives from [prog].
    [L] labels ids with closed canonical source types ([canon]: Box erased, VecDeque = Vec; the
    unit structs [bitvec::order::{Lsb0,Msb0}] are the only unlabelled entries), is injective
    (scale-info interns by type identity) and every entry is LOCALLY what the derive produces
    for its label (one level of ids; docs are unconstrained). *)
Section RegistryOf.
  Variable defs : list sdef.
  Variable L : N -> option src.
  Variable r : registry.

  Definition lab (id : N) (c : src) : Prop := L id = Some c.

  Definition field_of (pnames : list string) (args : list src) (sf : sfield) (f : field) : Prop :=
    f_name f = sf_name sf /\
    lab (f_ty f) (let c := canon (subst_src args (sf_ty sf)) in if sf_compact_attr sf then SCompactT c else c) /\
    f_type_name f = (if sf_type_name sf then Some (render defs pnames (sf_ty sf)) else None).

  Definition param_of (pa : (string * bool) * src) (tp : tparam) : Prop :=
    tp_name tp = fst (fst pa) /\
    if snd (fst pa) then tp_ty tp = None else exists id, tp_ty tp = Some id /\ lab id (snd pa).

  Definition plain_field (id : N) : field := mk_field None id None [].

  Definition order_marker (lsb : bool) (t : ty) : Prop :=
    t_path t = ["bitvec"; "order"; if lsb then "Lsb0" else "Msb0"] /\ t_params t = [] /\
    t_def t = TDComposite [].

  Definition builtin (t : ty) (d : typedef) : Prop := t_path t = [] /\ t_params t = [] /\ t_def t = d.

  Definition entry_of (c : src) (t : ty) : Prop :=
    match c with
    | SParam _ | SBox _ | SVecDeque _ => False
    | SApp d args =>
        exists sd, nth_error defs d = Some sd /\
        t_path t = sd_path sd /\
        List.length args = List.length (sd_params sd) /\
        Forall2 param_of (combine (sd_params sd) args) (t_params t) /\
        let pnames := map fst (sd_params sd) in
        match sd_body sd with
        | SBStruct fs => exists fl, t_def t = TDComposite fl /\ Forall2 (field_of pnames args) fs fl
        | SBEnum vs =>
            exists vl, t_def t = TDVariant vl /\
            Forall2 (fun (v : string * N * list sfield) (vr : variant) =>
                       v_name vr = fst (fst v) /\ v_index vr = snd (fst v) /\
                       Forall2 (field_of pnames args) (snd v) (v_fields vr)) vs vl
        end
    | SVec x => exists e, builtin t (TDSequence e) /\ lab e x
    | SArray n x => exists e, builtin t (TDArray n e) /\ lab e x
    | STup xs => exists es, builtin t (TDTuple es) /\ Forall2 lab es xs
    | SPrimT p => builtin t (TDPrimitive p)
    | SCompactT x => exists e, builtin t (TDCompact e) /\ lab e x
    | SOpt x =>
        exists e, lab e x /\ t_path t = ["Option"] /\ t_params t = [mk_tparam "T" (Some e)] /\
        t_def t = TDVariant [mk_variant "None" [] 0 []; mk_variant "Some" [plain_field e] 1 []]
    | SRes a b =>
        exists x y, lab x a /\ lab y b /\ t_path t = ["Result"] /\
        t_params t = [mk_tparam "T" (Some x); mk_tparam "E" (Some y)] /\
        t_def t = TDVariant [mk_variant "Ok" [plain_field x] 0 []; mk_variant "Err" [plain_field y] 1 []]
    | SBTreeMap k v =>
        exists ik iv iseq, lab ik k /\ lab iv v /\ lab iseq (SVec (STup [k; v])) /\
        t_path t = ["BTreeMap"] /\ t_params t = [mk_tparam "K" (Some ik); mk_tparam "V" (Some iv)] /\
        t_def t = TDComposite [plain_field iseq]
    | SBTreeSet x =>
        exists e iseq, lab e x /\ lab iseq (SVec x) /\ t_path t = ["BTreeSet"] /\
        t_params t = [mk_tparam "T" (Some e)] /\ t_def t = TDComposite [plain_field iseq]
    | SCow x =>
        exists e, lab e x /\ t_path t = ["Cow"] /\ t_params t = [mk_tparam "T" (Some e)] /\
        t_def t = TDComposite [plain_field e]
    | SRange x =>
        exists e, lab e x /\ t_path t = ["Range"] /\ t_params t = [mk_tparam "Idx" (Some e)] /\
        t_def t = TDComposite [mk_field (Some "start") e (Some "Idx") [];
                               mk_field (Some "end") e (Some "Idx") []]
    | SBitVec st lsb =>
        exists ist io ot, builtin t (TDBitSeq ist io) /\ lab ist (SPrimT st) /\
        L io = None /\ resolve r io = Some ot /\ order_marker lsb ot
    end.

  Definition RegistryOf : Prop :=
    (* every labelled id has an entry, and it is the derive's entry for the label *)
    (forall id c, L id = Some c -> exists t, resolve r id = Some t /\ entry_of c t) /\
    (* unlabelled entries are the bit-order markers *)
    (forall id t, resolve r id = Some t -> L id = None -> exists lsb, order_marker lsb t) /\
    (* one id per type *)
    (forall i j c, L i = Some c -> L j = Some c -> i = j).
End RegistryOf.

(** *** the same as a boolean, with the labelling given as a list (position = id) *)
Fixpoint forall2b {A B} (f : A -> B -> bool) (la : list A) (lb : list B) : bool :=
  match la, lb with
  | [], [] => true
  | a :: la', b :: lb' => f a b && forall2b f la' lb'
  | _, _ => false
  end.

Definition label_at (labels : list (option src)) (id : N) : option src :=
  match nth_error labels (N.to_nat id) with Some o => o | None => None end.

Section RegistryOfB.
  Variable defs : list sdef.
  Variable labels : list (option src).
  Variable r : registry.

  Definition labb (id : N) (c : src) : bool :=
    match label_at labels id with Some y => src_eqb y c | None => false end.

  Definition ostr_eqb : option string -> option string -> bool := option_eqb String.eqb.
  Definition path_is_b (p q : list string) : bool := list_eqb String.eqb p q.

  Definition field_ofb (pnames : list string) (args : list src) (sf : sfield) (f : field) : bool :=
    ostr_eqb (f_name f) (sf_name sf) &&
    labb (f_ty f) (let c := canon (subst_src args (sf_ty sf)) in if sf_compact_attr sf then SCompactT c else c) &&
    ostr_eqb (f_type_name f) (if sf_type_name sf then Some (render defs pnames (sf_ty sf)) else None).

  Definition param_ofb (pa : (string * bool) * src) (tp : tparam) : bool :=
    String.eqb (tp_name tp) (fst (fst pa)) &&
    match tp_ty tp with
    | None => snd (fst pa)
    | Some id => negb (snd (fst pa)) && labb id (snd pa)
    end.

  Definition tparam_eqb (a b : tparam) : bool :=
    String.eqb (tp_name a) (tp_name b) && option_eqb N.eqb (tp_ty a) (tp_ty b).
  Definition field_eqb0 (a b : field) : bool :=
    ostr_eqb (f_name a) (f_name b) && N.eqb (f_ty a) (f_ty b) && ostr_eqb (f_type_name a) (f_type_name b).
  Definition variant_eqb0 (a b : variant) : bool :=
    String.eqb (v_name a) (v_name b) && N.eqb (v_index a) (v_index b) && forall2b field_eqb0 (v_fields a) (v_fields b).

  Definition shape_b (t : ty) (path : list string) (params : list tparam) : bool :=
    path_is_b (t_path t) path && forall2b tparam_eqb (t_params t) params.
  Definition composite_b (t : ty) (fs : list field) : bool :=
    match t_def t with TDComposite l => forall2b field_eqb0 l fs | _ => false end.
  Definition variant_b (t : ty) (vs : list variant) : bool :=
    match t_def t with TDVariant l => forall2b variant_eqb0 l vs | _ => false end.

  Definition order_markerb (lsb : bool) (t : ty) : bool :=
    shape_b t ["bitvec"; "order"; if lsb then "Lsb0" else "Msb0"] [] && composite_b t [].

  Definition entry_ofb (c : src) (t : ty) : bool :=
    match c with
    | SParam _ | SBox _ | SVecDeque _ => false
    | SApp d args =>
        match nth_error defs d with
        | None => false
        | Some sd =>
            path_is_b (t_path t) (sd_path sd) &&
            Nat.eqb (List.length args) (List.length (sd_params sd)) &&
            forall2b param_ofb (combine (sd_params sd) args) (t_params t) &&
            let pnames := map fst (sd_params sd) in
            match sd_body sd, t_def t with
            | SBStruct fs, TDComposite fl => forall2b (field_ofb pnames args) fs fl
            | SBEnum vs, TDVariant vl =>
                forall2b (fun (v : string * N * list sfield) (vr : variant) =>
                            String.eqb (v_name vr) (fst (fst v)) && N.eqb (v_index vr) (snd (fst v)) &&
                            forall2b (field_ofb pnames args) (snd v) (v_fields vr)) vs vl
            | _, _ => false
            end
        end
    | SVec x => shape_b t [] [] && match t_def t with TDSequence e => labb e x | _ => false end
    | SArray n x => shape_b t [] [] && match t_def t with TDArray m e => N.eqb m n && labb e x | _ => false end
    | STup xs => shape_b t [] [] && match t_def t with TDTuple es => forall2b labb es xs | _ => false end
    | SPrimT p => shape_b t [] [] && match t_def t with TDPrimitive q => prim_eqb q p | _ => false end
    | SCompactT x => shape_b t [] [] && match t_def t with TDCompact e => labb e x | _ => false end
    | SOpt x =>
        match t_params t with
        | [tp] => match tp_ty tp with
                  | Some e => labb e x && shape_b t ["Option"] [mk_tparam "T" (Some e)] &&
                              variant_b t [mk_variant "None" [] 0 []; mk_variant "Some" [plain_field e] 1 []]
                  | None => false end
        | _ => false
        end
    | SRes a b =>
        match map tp_ty (t_params t) with
        | [Some x; Some y] =>
            labb x a && labb y b && shape_b t ["Result"] [mk_tparam "T" (Some x); mk_tparam "E" (Some y)] &&
            variant_b t [mk_variant "Ok" [plain_field x] 0 []; mk_variant "Err" [plain_field y] 1 []]
        | _ => false
        end
    | SBTreeMap k v =>
        match map tp_ty (t_params t), t_def t with
        | [Some ik; Some iv], TDComposite [f] =>
            labb ik k && labb iv v && labb (f_ty f) (SVec (STup [k; v])) &&
            shape_b t ["BTreeMap"] [mk_tparam "K" (Some ik); mk_tparam "V" (Some iv)] &&
            composite_b t [plain_field (f_ty f)]
        | _, _ => false
        end
    | SBTreeSet x =>
        match map tp_ty (t_params t), t_def t with
        | [Some e], TDComposite [f] =>
            labb e x && labb (f_ty f) (SVec x) && shape_b t ["BTreeSet"] [mk_tparam "T" (Some e)] &&
            composite_b t [plain_field (f_ty f)]
        | _, _ => false
        end
    | SCow x =>
        match map tp_ty (t_params t) with
        | [Some e] => labb e x && shape_b t ["Cow"] [mk_tparam "T" (Some e)] && composite_b t [plain_field e]
        | _ => false
        end
    | SRange x =>
        match map tp_ty (t_params t) with
        | [Some e] => labb e x && shape_b t ["Range"] [mk_tparam "Idx" (Some e)] &&
                      composite_b t [mk_field (Some "start") e (Some "Idx") []; mk_field (Some "end") e (Some "Idx") []]
        | _ => false
        end
    | SBitVec st lsb =>
        shape_b t [] [] &&
        match t_def t with
        | TDBitSeq ist io =>
            labb ist (SPrimT st) &&
            match label_at labels io, resolve r io with
            | None, Some ot => order_markerb lsb ot
            | _, _ => false
            end
        | _ => false
        end
    end.

  (** every entry is locally the derive's entry for its label (the first two clauses of [RegistryOf]) *)
  Definition registry_entries_ofb : bool :=
    Nat.eqb (List.length labels) (List.length r) &&
    forall2b (fun (o : option src) (e : N * ty) =>
                match o with
                | Some c => entry_ofb c (snd e)
                | None => order_markerb true (snd e) || order_markerb false (snd e)
                end) labels r.

  (** one id per label (the third clause).  scale-info interns by the TypeId of ONE step of
      [Identity] (Box<T> -> T, Vec<T> / VecDeque<T> -> [T], String -> str): a program that mentions
      [Vec<Box<T>>] and [Vec<T>], or [Box<Vec<T>>] and [Vec<T>], gets two entries with one [canon]
      label, and this clause fails (harness/src/reggen.rs [tid_key], validated by the derive tier) *)
  Definition labels_injectiveb : bool :=
    (fix nodup (l : list (option src)) : bool :=
       match l with
       | [] => true
       | None :: l' => nodup l'
       | Some c :: l' => negb (existsb (fun o => match o with Some c' => src_eqb c c' | None => false end) l') && nodup l'
       end) labels.

  Definition registry_ofb : bool := registry_entries_ofb && labels_injectiveb.
End RegistryOfB.
Arguments labels_injectiveb labels : clear implicits.

(** ** the fragment of source types covered by [C05_skeleton_is_source_partial]: parameters,
    applications of definitions, Vec / VecDeque, arrays, tuples, primitives, Compact, Box *)
Fixpoint src_fragment (t : src) : bool :=
  match t with
  | SParam _ | SPrimT _ => true
  | SApp _ args => forallb src_fragment args
  | STup ts => forallb src_fragment ts
  | SVec x | SVecDeque x | SArray _ x | SCompactT x | SBox x => src_fragment x
  | _ => false
  end.

(** [Box<Compact<T>>] as a field type is outside [expected_item]'s conventions *)
Fixpoint unbox (t : src) : src := match t with SBox x => unbox x | _ => t end.
Definition field_fragment (f : sfield) : bool :=
  src_fragment (sf_ty f) &&
  match sf_ty f with
  | SBox _ => match unbox (sf_ty f) with SCompactT _ => false | _ => true end
  | _ => true
  end.

(** what the settings must provide for a definition of the fragment: an item path that is not
    substituted, is namespaced, made of identifiers, and not called [Cow] *)
Definition def_okb (s : settings) (d : sdef) : bool :=
  match subs_get (s_subs s) (sd_path d) with Some _ => false | None => true end &&
  match sd_path d with _ :: _ :: _ => true | _ => false end &&
  forallb path_seg_okb (sd_path d) &&
  negb (String.eqb (last (sd_path d) "") "Cow").

(** a [#[codec(compact)]] field whose Compact<..> type coincides with an argument is told apart
    from the parameter only by its recorded type name *)
Definition compact_fields_okb (defs : list sdef) (d : sdef) (args : list src) : bool :=
  forallb (fun f : sfield =>
             negb (sf_compact_attr f) ||
             forallb (fun ap : src * (string * bool) =>
                        snd (snd ap) ||
                        negb (src_eqb (SCompactT (canon (subst_src args (sf_ty f)))) (fst ap)) ||
                        (sf_type_name f &&
                         negb (String.eqb (fst (snd ap)) (render defs (map fst (sd_params d)) (sf_ty f)))))
                     (combine args (sd_params d)))
          (def_sfields d).

(** the recorded type name mentions [Box<] exactly when the source type does (true of every
    program whose identifiers do not contain the characters [Box<]; decidable per definition) *)
Definition box_names_okb (defs : list sdef) (d : sdef) : bool :=
  forallb (fun f : sfield =>
             let n := render defs (map fst (sd_params d)) (sf_ty f) in
             Bool.eqb (contains "Box<" n) (has_box (sf_ty f)) &&
             (* no identifier of the program ends in [Rc] / [Arc] and carries generics: the source
                language has no such pointers, the generator boxes on these names as well (F20) *)
             negb (contains "Rc<" n) && negb (contains "Arc<" n))
          (def_sfields d).
