(** Concrete inputs for the [Example]s of C09 / C17: a registry with a generic
    struct (two instantiations) and a generic enum in nested modules, a
    sequence, a compact field; a permutation of its ids; settings. *)
From Coq Require Import List NArith String Bool.
From V Require Import Base.Strings Base.Result Model.Registry Model.Settings Model.Subst
  Model.TypePath Model.Derives Model.Generate Model.Emit Model.Equal Model.Switches Model.Renumber
  Model.Inputs.
Import ListNotations.
Open Scope string_scope. Open Scope list_scope. Open Scope N_scope.

(** a renumbering given by the list of images of 0, 1, ..; identity elsewhere *)
Definition pi_of_list (l : list N) (i : N) : N := nth (N.to_nat i) l i.
(** decidable sufficient condition: the list is duplicate-free with all images in range *)
Definition perm_listb (l : list N) : bool :=
  forallb (fun x => N.ltb x (N.of_nat (List.length l))) l &&
  (fix nodup (l : list N) : bool :=
     match l with [] => true | x :: l' => negb (existsb (N.eqb x) l') && nodup l' end) l.

Definition ex_fld (n : string) (ty : N) (tn : string) : field := mk_field (Some n) ty (Some tn) ["field doc"].
Definition ex_ufld (ty : N) (tn : string) : field := mk_field None ty (Some tn) [].

Definition ex_reg : registry :=
  [ (0, mk_ty [] [] (TDPrimitive PU8) []);
    (1, mk_ty [] [] (TDPrimitive PU32) []);
    (2, mk_ty ["a"; "b"; "Wrap"] [mk_tparam "T" (Some 0)]
              (TDComposite [ex_fld "v" 0 "T"; ex_fld "n" 1 "u32"]) ["wrap doc"]);
    (3, mk_ty ["a"; "b"; "Wrap"] [mk_tparam "T" (Some 1)]
              (TDComposite [ex_fld "v" 1 "T"; ex_fld "n" 1 "u32"]) ["wrap doc"]);
    (4, mk_ty ["a"; "c"; "E"] [mk_tparam "T" (Some 0)]
              (TDVariant [mk_variant "A" [ex_ufld 2 "Wrap<T>"] 0 ["variant A"];
                          mk_variant "B" [ex_fld "x" 0 "T"; ex_fld "c" 7 "Compact<u32>"] 3 []])
              ["enum doc"; "line 2"]);
    (5, mk_ty [] [] (TDSequence 3) []);
    (6, mk_ty ["a"; "Top"] [] (TDComposite [ex_fld "w" 5 "Vec<Wrap<u32>>"; ex_fld "e" 4 "E<u8>"]) []);
    (7, mk_ty [] [] (TDCompact 1) []) ].

(** the same graph with one instantiation of [Wrap] only (every item path has one entry) *)
Definition ex_reg1 : registry :=
  [ (0, mk_ty [] [] (TDPrimitive PU8) []);
    (1, mk_ty [] [] (TDPrimitive PU32) []);
    (2, mk_ty ["a"; "b"; "Wrap"] [mk_tparam "T" (Some 0)]
              (TDComposite [ex_fld "v" 0 "T"; ex_fld "n" 1 "u32"]) ["wrap doc"]);
    (3, mk_ty ["a"; "c"; "E"] [mk_tparam "T" (Some 0)]
              (TDVariant [mk_variant "A" [ex_ufld 2 "Wrap<T>"] 0 ["variant A"];
                          mk_variant "B" [ex_fld "x" 0 "T"; ex_fld "c" 6 "Compact<u32>"] 3 []])
              ["enum doc"; "line 2"]);
    (4, mk_ty [] [] (TDSequence 2) []);
    (5, mk_ty ["a"; "Top"] [] (TDComposite [ex_fld "w" 4 "Vec<Wrap<u8>>"; ex_fld "e" 3 "E<u8>"]) []);
    (6, mk_ty [] [] (TDCompact 1) []) ].

Definition ex_pi_list : list N := [3; 0; 5; 7; 6; 2; 4; 1].
Definition ex_pi : N -> N := pi_of_list ex_pi_list.
Definition ex_pi1_list : list N := [3; 0; 5; 6; 2; 4; 1].
Definition ex_pi1 : N -> N := pi_of_list ex_pi1_list.

Definition ex_set : settings :=
  mk_settings "root" true
              (mk_dreg (mk_derives [("Debug", ["Debug"]); ("Clone", ["Clone"])] []) [] [])
              [] None None (Some [":"; ":"; "parity"; ":"; ":"; "Compact"]) true
              (ACustom [":"; ":"; "alloc"]).

Definition ex_teq : N -> N -> result bool := types_equal ex_reg.
Definition has (w : string) (t : tokens) : bool := existsb (String.eqb w) t.
Definition ex_flat : flat_registry := mk_flat (dr_default (s_dreg ex_set)) [].
