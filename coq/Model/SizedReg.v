(** C02, indirection clause: the by-value containment graph of the REGISTRY, a decidable
    acyclicity check on it and the rank the check computes.  New definitions only; the
    proofs are in Proofs/SizedRegProofs.v.

    Nodes are the paths of the item-eligible entries ([item_eligible], Model/Shape.v: struct /
    enum entries that are not substituted and have a non-empty namespace).  The generation loop
    builds the item of a path from the FIRST item-eligible entry with that path
    ([first_eligible]); there is an edge [pa -> pb] when that entry for [pa] has a field [f]
    with [is_boxed_gen f = false] (the recorded type name mentions none of [Box<], [Rc<],
    [Arc<]) whose type reaches, BY VALUE, a struct / enum entry with path [pb] that is
    printed as an item path (not substituted, at least two segments).

    "By value" ([bv_targets]) follows the resolver [resolve_rec] step by step:
    - a type id that the resolver prints as a generic parameter of the enclosing item
      ([find_parent]: the id of a declared parameter, at the field itself additionally the
      recorded type name equals the parameter's name) CUTS: the generated item mentions
      [_i], not the instance.  Generic parameters are opaque exactly as in [item_edge] /
      [C02_sized_partial]: a cycle that only exists after instantiation
      ([A<T> { x: T }], [B { a: A<B> }]) is not a cycle of this graph;
    - an entry named [Cow] is looked through to its first parameter (the resolver prints
      [T] for [Cow<T>]);
    - tuples, arrays and compact wrappers are traversed;
    - a struct / enum entry is a target when it is printed as an item path; its parameters
      are traversed exactly when [bv_subpaths] (Model/Sized.v) traverses the arguments of
      the path printed for it ([args_by_value]): the prelude entries [Option], [Result],
      [Range], [RangeInclusive], and a path substituted (pass-through) by one of these four;
    - the parameters of every other struct / enum entry are cut: the heap prelude
      collections [BTreeMap], [BTreeSet], [BinaryHeap], [VecDeque], [LinkedList], the
      [NonZero*] entries, every other substituted path (its layout is unknown; as in
      [item_edge]), and every generated item (its own fields are its own edges);
    - sequences ([TDSequence], printed [Vec]) cut; bit sequences and primitives have no
      by-value children. *)
From Coq Require Import List NArith String Bool.
From V Require Import Base.Util Base.Strings Base.Result Model.Registry Model.Settings Model.Subst
  Model.TypePath Model.Derives Model.Generate Model.WellFormed Model.Shape Model.Sized.
Import ListNotations.
Open Scope string_scope. Open Scope list_scope. Open Scope nat_scope.

Section RegGraph.
  Variable r : registry.
  Variable s : settings.

  (** the entry the resolver continues with ([None]: the resolver fails) *)
  Definition cow_through (t0 : ty) : option ty :=
    if is_cow_name (path_ident (t_path t0)) then
      match t_params t0 with
      | [] => None
      | p0 :: _ => match tp_ty p0 with Some inner => resolve r inner | None => None end
      end
    else Some t0.

  (** a struct / enum entry whose path is printed [root :: path] *)
  Definition item_node (t : ty) : bool :=
    match subs_get (s_subs s) (t_path t) with
    | Some _ => false
    | None => match t_path t with _ :: _ :: _ => true | _ => false end
    end.

  (** the arguments printed for a struct / enum entry with path [p] are by-value nodes of the
      printed path: what [bv_subpaths] does on the result of [type_path_maybe_with_substitutes] *)
  Definition args_by_value (p : list string) : bool :=
    match subs_get (s_subs s) p with
    | Some sub =>
        match su_map sub with
        | PassThrough => transparent_toksb (print_spath (su_path sub))
        | Specified _ => false
        end
    | None =>
        match from_type_def_path p (s_root s) (alloc_tokens (s_alloc s)) with
        | Ok toks => transparent_toksb toks
        | _ => false
        end
    end.

  Fixpoint bv_targets (fuel : nat) (parents : list tparam_ir) (orig : option string) (id : N)
    : list (list string) :=
    match fuel with
    | O => []
    | S fuel' =>
      match find_parent parents id orig with
      | Some _ => []
      | None =>
        match resolve r id with
        | None => []
        | Some t0 =>
          match cow_through t0 with
          | None => []
          | Some t =>
            match t_def t with
            | TDComposite _ | TDVariant _ =>
                (if item_node t then [t_path t] else []) ++
                (if args_by_value (t_path t)
                 then flat_map (bv_targets fuel' parents None) (param_ids t) else [])
            | TDArray _ e => bv_targets fuel' parents None e
            | TDCompact e => bv_targets fuel' parents None e
            | TDTuple es => flat_map (bv_targets fuel' parents None) es
            | TDSequence _ | TDPrimitive _ | TDBitSeq _ _ => []
            end
          end
        end
      end
    end.

  (** the by-value successors of one entry: over its fields that the generator does not box,
      with the fuel and the parent parameters the generator resolves the field with *)
  Definition entry_succs (t : ty) : list (list string) :=
    flat_map (fun f => if is_boxed_gen f then []
                       else bv_targets (fuel0 r) (params_from_scale_info (t_params t))
                                       (f_type_name f) (f_ty f))
             (def_fields (t_def t)).

  Definition reg_bv_edge (pa pb : list string) : Prop :=
    exists id t, first_eligible r s pa = Some (id, t) /\ In pb (entry_succs t).

  (** the same graph as data: one row per item-eligible entry, carrying the successors of the
      first item-eligible entry with its path (entries with one path give equal rows) *)
  Definition bv_graph : list (list string * list (list string)) :=
    flat_map (fun e => if item_eligible s (snd e)
                       then match first_eligible r s (t_path (snd e)) with
                            | Some (_, t) => [(t_path (snd e), entry_succs t)]
                            | None => []
                            end
                       else []) r.
End RegGraph.

(** ** longest-path rank of a graph given by rows [(node, successors)]
    [tab_get tab p]: the largest value of a row of [tab] with key [p] (0 if none).
    [rank_step]: one round of  rank p := max over rows of p, over successors q, of 1 + rank q.
    After [k] rounds the value of [p] is the length of the longest walk of at most [k] edges
    that starts at [p]; with [length g] rounds (there are at most [length g] distinct nodes
    with successors) the table is the longest-path rank whenever the graph has no cycle. *)
Definition rank_table := list (list string * nat).

Definition tab_get (tab : rank_table) (p : list string) : nat :=
  fold_right (fun e acc => if path_eqb (fst e) p then Nat.max (snd e) acc else acc) 0 tab.

Definition rank_step (g : list (list string * list (list string))) (tab : rank_table) : rank_table :=
  map (fun e => (fst e, fold_right (fun q acc => Nat.max (S (tab_get tab q)) acc) 0 (snd e))) g.

Fixpoint rank_iter (n : nat) (g : list (list string * list (list string))) (tab : rank_table)
  : rank_table :=
  match n with
  | O => tab
  | S n' => rank_iter n' g (rank_step g tab)
  end.

(** [rk] strictly decreases along every edge of [g] *)
Definition rank_okb (g : list (list string * list (list string))) (rk : list string -> nat) : bool :=
  forallb (fun e => forallb (fun q => Nat.ltb (rk q) (rk (fst e))) (snd e)) g.

Definition bv_rank_table (r : registry) (s : settings) : rank_table :=
  let g := bv_graph r s in rank_iter (List.length g) g [].

(** the computed rank of an item path *)
Definition bv_rank_of (r : registry) (s : settings) : list string -> nat :=
  tab_get (bv_rank_table r s).

(** the decidable condition: the computed rank is a rank, i.e. strictly decreases along every
    edge of the registry's by-value graph (so the graph has no cycle; conversely, on a graph
    without cycles the computed table is the longest-path rank and the check succeeds) *)
Definition by_value_acyclicb (r : registry) (s : settings) : bool :=
  let tab := bv_rank_table r s in rank_okb (bv_graph r s) (tab_get tab).
