(** Concrete inputs for the [Example]s of the C09 list-switch frames: a registry in which the
    alloc path occurs at top level (String field), nested (Vec), and INSIDE the path tokens of a
    Specified substitute (the argument [Vec<u8>] of [a::b::Wrap<T>] is spliced into
    [::ext::W<T>]); a compact field and a bit sequence. *)
From Coq Require Import List NArith String Bool.
From V Require Import Base.Strings Base.Result Model.Registry Model.Settings Model.Subst
  Model.TypePath Model.Derives Model.Generate Model.Emit Model.Equal Model.Switches Model.Inputs.
Import ListNotations.
Open Scope string_scope. Open Scope list_scope. Open Scope N_scope.

Definition exf_reg : registry :=
  [ (0, mk_ty [] [] (TDPrimitive PU8) []);
    (1, mk_ty [] [] (TDSequence 0) []);
    (2, mk_ty ["a"; "b"; "Wrap"] [mk_tparam "T" (Some 1)]
              (TDComposite [mk_field (Some "v") 1 (Some "T") []]) []);
    (3, mk_ty ["a"; "Top"] []
              (TDComposite [mk_field (Some "w") 2 (Some "Wrap<Vec<u8>>") [];
                            mk_field (Some "s") 4 (Some "String") [];
                            mk_field (Some "c") 5 (Some "Compact<u8>") [];
                            mk_field (Some "b") 6 (Some "BitVec<u8, Lsb0>") [];
                            mk_field (Some "x") 1 (Some "Box<Vec<u8>>") [];
                            mk_field (Some "vc") 8 (Some "Vec<Compact<u8>>") []]) []);
    (4, mk_ty [] [] (TDPrimitive PStr) []);
    (5, mk_ty [] [] (TDCompact 0) []);
    (6, mk_ty [] [] (TDBitSeq 0 7) []);
    (7, mk_ty ["bitvec"; "order"; "Lsb0"] [] (TDComposite []) []);
    (8, mk_ty [] [] (TDSequence 5) []) ].

Definition exf_set : settings :=
  mk_settings "root" false dreg_empty
              [(["a"; "b"; "Wrap"],
                mk_subst (mk_spath true [("ext", ANone);
                                         ("W", AAngle [GType (GTPath false false [("T", ANone)])])])
                         (Specified [("T", 0%nat)]))]
              (Some [":"; ":"; "bits"; ":"; ":"; "DecodedBits"]) None
              (Some [":"; ":"; "parity"; ":"; ":"; "Compact"]) true AStd.

Definition exf_alloc2 : alloc_path := ACustom [":"; ":"; "my"; ":"; ":"; "alloc"].
Definition exf_compact2 : tokens := ["Cmp"].
Definition exf_bits2 : tokens := [":"; ":"; "other"; ":"; ":"; "Bits"].

(** a contiguous occurrence of [needle] *)
Fixpoint is_prefix (a l : tokens) : bool :=
  match a, l with
  | [], _ => true
  | x :: a', y :: l' => String.eqb x y && is_prefix a' l'
  | _, [] => false
  end.
Fixpoint occurs (needle l : tokens) : bool :=
  is_prefix needle l || match l with [] => false | _ :: l' => occurs needle l' end.
