(** Shape semantics (DESIGN.md section 4) at the level of the IR: the SCALE shape of a
    registry id ([shape_reg], read off the registry and the settings only - it never
    calls the generator) and the shape of a generated type expression read against the
    generated items ([shape_rust]).  Definitions only; proofs in Proofs/Fidelity*.v.

    Depth: both readings count EVERY type constructor they cross (one unit per registry
    definition / per [tpath] node), so that "equal at every depth" is bisimilarity of
    the possibly cyclic shapes.  The prelude [Cow] is transparent on the registry side
    and has no node on the Rust side, so it costs no depth. *)
From Coq Require Import List NArith String Bool.
From V Require Import Base.Util Base.Strings Base.Result Model.Registry Model.Settings Model.Subst
  Model.TypePath Model.Derives Model.Generate.
Import ListNotations.
Open Scope string_scope. Open Scope list_scope.

Inductive shape :=
| SPrim (p : prim)
| SCompact (of : shape)
| SSeq (of : shape)
| SArr (len : N) (of : shape)
| STuple (els : list shape)
| SBits (store order : shape)
| SStruct (fs : list (option string * bool * shape))               (* name, boxed, type *)
| SEnum (vs : list (string * N * list (option string * bool * shape)))  (* name, index, fields *)
| SOpaque (head : tokens) (args : list shape)   (* external type (substituted / prelude) *)
| SCut.                                         (* depth exhausted / dangling *)

Definition fshape := (option string * bool * shape)%type.

(** the tokens of an external path up to its first generic argument list: the part of a
    substitute target that the parameter replacement never touches *)
Fixpoint until_lt (t : tokens) : tokens :=
  match t with
  | [] => []
  | x :: t' => if String.eqb x "<" then [] else x :: until_lt t'
  end.

(** the one place where the generator looks through a type: an entry whose last path
    segment is [Cow] stands for the definition of its first type parameter *)
Definition cow_case {A} (p : list string) (a b : A) : A :=
  match path_ident p with
  | Some "Cow" => a
  | _ => b
  end.

Definition entry_body (r : registry) (id : N) : option ty :=
  match resolve r id with
  | None => None
  | Some t0 =>
      cow_case (t_path t0)
        (match t_params t0 with
         | [] => None
         | p0 :: _ => match tp_ty p0 with
                      | None => None
                      | Some inner => resolve r inner
                      end
         end)
        (Some t0)
  end.

(** ** the registry side *)
Section Reg.
  Variable r : registry.
  Variable s : settings.

  (** a Composite / Variant entry with path [p] and non-skipped parameter shapes [args]:
      external when the settings substitute the path or the path is a prelude name,
      otherwise its own body *)
  Definition named_shape (p : list string) (args : list shape) (body : shape) : shape :=
    match subs_get (s_subs s) p with
    | Some sub =>
        SOpaque (until_lt (print_spath (su_path sub)))
                match su_map sub with PassThrough => args | Specified _ => [] end
    | None =>
        match p with
        | [] => SCut
        | [ident] =>
            match assoc_str (prelude_table (alloc_tokens (s_alloc s))) ident with
            | Some tk => SOpaque (until_lt tk) args
            | None => SCut
            end
        | _ => body
        end
    end.

  Fixpoint shape_reg (n : nat) (id : N) : shape :=
    match n with
    | O => SCut
    | S n' =>
        match entry_body r id with
        | None => SCut
        | Some t =>
            let fld (f : field) : fshape := (f_name f, is_boxed_gen f, shape_reg n' (f_ty f)) in
            match t_def t with
            | TDComposite fs =>
                named_shape (t_path t) (map (shape_reg n') (param_ids t)) (SStruct (map fld fs))
            | TDVariant vs =>
                named_shape (t_path t) (map (shape_reg n') (param_ids t))
                  (SEnum (map (fun v => (v_name v, v_index v, map fld (v_fields v))) vs))
            | TDSequence e => SSeq (shape_reg n' e)
            | TDArray len e => SArr len (shape_reg n' e)
            | TDTuple es => STuple (map (shape_reg n') es)
            | TDPrimitive p => SPrim p
            | TDCompact e => SCompact (shape_reg n' e)
            | TDBitSeq store order => SBits (shape_reg n' store) (shape_reg n' order)
            end
        end
    end.

  (** the registry's reading of one field *)
  Definition field_shape_reg (n : nat) (f : field) : fshape :=
    (f_name f, is_boxed_gen f, shape_reg n (f_ty f)).
End Reg.

(** ** the Rust side *)

(** substitution of actual arguments for the declared parameters of an item; a
    parameter is identified by its POSITION [tpi_idx] only *)
Definition sigma := list (N * tpath).

Fixpoint sigma_get (sg : sigma) (i : N) : option tpath :=
  match sg with
  | [] => None
  | (j, a) :: sg' => if N.eqb j i then Some a else sigma_get sg' i
  end.

Definition mk_sigma (declared : list tparam_ir) (actual : list tpath) : sigma :=
  combine (map tpi_idx declared) actual.

Fixpoint subst_tpath (sg : sigma) (t : tpath) : tpath :=
  match t with
  | TParam p => match sigma_get sg (tpi_idx p) with Some a => a | None => TParam p end
  | TPath ptoks params => TPath ptoks (map (subst_tpath sg) params)
  | TVec of => TVec (subst_tpath sg of)
  | TArray len of => TArray len (subst_tpath sg of)
  | TTuple els => TTuple (map (subst_tpath sg) els)
  | TPrim p => TPrim p
  | TCompact inner f c => TCompact (subst_tpath sg inner) f c
  | TBitVec order store b => TBitVec (subst_tpath sg order) (subst_tpath sg store) b
  end.

Definition toks_eqb : tokens -> tokens -> bool := list_eqb String.eqb.

Section Rust.
  Variable m : items.
  Variable s : settings.

  (** a path expression names a generated item iff it is the root ident followed by the
      item's path (what rustc resolves inside the generated module) *)
  Definition find_item (ptoks : tokens) : option type_ir :=
    match find (fun e => toks_eqb ptoks (rel_path (s_root s :: fst e))) m with
    | Some (_, (_, ir)) => Some ir
    | None => None
    end.

  Definition field_shapes (sh : tpath -> shape) (k : ckind) : list fshape :=
    match k with
    | CNoFields => []
    | CNamed fs => map (fun x => (Some (fst x), fi_boxed (snd x), sh (fi_path (snd x)))) fs
    | CUnnamed fs => map (fun x => (None, fi_boxed x, sh (fi_path x))) fs
    end.

  Definition kind_shape (sh : tpath -> shape) (k : kind_ir) : shape :=
    match k with
    | KStruct c => SStruct (field_shapes sh (ci_kind c))
    | KEnum _ _ vs =>
        SEnum (map (fun x => (ci_name (snd x), fst x, field_shapes sh (ci_kind (snd x)))) vs)
    end.

  (** an item applied to actual arguments, its field types read by [sh] *)
  Definition item_shape_with (sh : tpath -> shape) (ir : type_ir) (args : list tpath) : shape :=
    kind_shape (fun fp => sh (subst_tpath (mk_sigma (ti_params ir) args) fp)) (ti_kind ir).

  Fixpoint shape_rust (n : nat) (t : tpath) : shape :=
    match n with
    | O => SCut
    | S n' =>
        match t with
        | TParam _ => SCut                           (* an unbound parameter *)
        | TPath ptoks params =>
            match find_item ptoks with
            | Some ir => item_shape_with (shape_rust n') ir params
            | None => SOpaque (until_lt ptoks) (map (shape_rust n') params)
            end
        | TVec of => SSeq (shape_rust n' of)
        | TArray len of => SArr len (shape_rust n' of)
        | TTuple els => STuple (map (shape_rust n') els)
        | TPrim p => SPrim p
        | TCompact inner _ _ => SCompact (shape_rust n' inner)
        | TBitVec order store _ => SBits (shape_rust n' store) (shape_rust n' order)
        end
    end.

  (** the shape of an item (generated or standalone) applied to [args], to depth [S n] *)
  Definition item_shape (n : nat) (ir : type_ir) (args : list tpath) : shape :=
    item_shape_with (shape_rust n) ir args.
End Rust.

(** ** fidelity *)
Definition Faithful (r : registry) (s : settings) (m : items) : Prop :=
  forall n id t, resolve_type_path r s id = Ok t -> shape_rust m s n t = shape_reg r s n id.

(** ** skeletons (DESIGN.md 3.3) *)

(** what the generation loop turns into an item *)
Definition item_eligible (s : settings) (t : ty) : bool :=
  is_composite_or_variant (t_def t) && negb (subs_contains (s_subs s) (t_path t)) &&
  match namespace (t_path t) with [] => false | _ => true end.

(** the first item-eligible entry carrying path [p] *)
Definition first_eligible (r : registry) (s : settings) (p : list string) : option (N * ty) :=
  find (fun e => path_eqb (t_path (snd e)) p && item_eligible s (snd e)) r.

(** forget the concrete ids and original names stored in parameters, the docs and the
    derives: what remains of a parameter is its position *)
Definition erase_tpi (p : tparam_ir) : tparam_ir := mk_tpi 0 "" (tpi_idx p).

Fixpoint erase_tpath (t : tpath) : tpath :=
  match t with
  | TParam p => TParam (erase_tpi p)
  | TPath ptoks params => TPath ptoks (map erase_tpath params)
  | TVec of => TVec (erase_tpath of)
  | TArray len of => TArray len (erase_tpath of)
  | TTuple els => TTuple (map erase_tpath els)
  | TPrim p => TPrim p
  | TCompact inner f c => TCompact (erase_tpath inner) f c
  | TBitVec order store b => TBitVec (erase_tpath order) (erase_tpath store) b
  end.

Definition erase_fi (f : field_ir) : field_ir :=
  mk_fi (erase_tpath (fi_path f)) (fi_compact f) (fi_boxed f).

Definition erase_ckind (k : ckind) : ckind :=
  match k with
  | CNoFields => CNoFields
  | CNamed fs => CNamed (map (fun x => (fst x, erase_fi (snd x))) fs)
  | CUnnamed fs => CUnnamed (map erase_fi fs)
  end.

Definition erase_ci (c : composite_ir) : composite_ir :=
  mk_ci (ci_name c) (erase_ckind (ci_kind c)) [].

Definition erase_kind (k : kind_ir) : kind_ir :=
  match k with
  | KStruct c => KStruct (erase_ci c)
  | KEnum nm _ vs => KEnum nm [] (map (fun x => (fst x, erase_ci (snd x))) vs)
  end.

Definition erase_ids (ir : type_ir) : type_ir :=
  mk_ti (map erase_tpi (ti_params ir)) (map erase_tpi (ti_unused ir)) derives_empty
        (ti_codec ir) (erase_kind (ti_kind ir)).

Definition flat0 : flat_registry := mk_flat derives_empty [].

(** the skeleton of an entry: its own IR with the ids erased *)
Definition skeleton (r : registry) (s : settings) (t : ty) : option type_ir :=
  match create_type_ir r s t flat0 with
  | Ok (Some ir) => Some (erase_ids ir)
  | _ => None
  end.

Definition skeleton_consistent (r : registry) (s : settings) : Prop :=
  forall id X id0 X0,
    In (id, X) r -> item_eligible s X = true ->
    first_eligible r s (t_path X) = Some (id0, X0) ->
    skeleton r s X = skeleton r s X0.

(** *** boolean equality on IRs (derives ignored) *)
Fixpoint tpath_eqb (a b : tpath) {struct a} : bool :=
  match a, b with
  | TParam p, TParam q => tpi_eqb p q
  | TPath ta pa, TPath tb pb =>
      toks_eqb ta tb &&
      (fix go (la lb : list tpath) {struct la} : bool :=
         match la, lb with
         | [], [] => true
         | x :: la', y :: lb' => tpath_eqb x y && go la' lb'
         | _, _ => false
         end) pa pb
  | TVec x, TVec y => tpath_eqb x y
  | TArray n x, TArray k y => N.eqb n k && tpath_eqb x y
  | TTuple pa, TTuple pb =>
      (fix go (la lb : list tpath) {struct la} : bool :=
         match la, lb with
         | [], [] => true
         | x :: la', y :: lb' => tpath_eqb x y && go la' lb'
         | _, _ => false
         end) pa pb
  | TPrim p, TPrim q => prim_eqb p q
  | TCompact x f c, TCompact y g d => tpath_eqb x y && Bool.eqb f g && toks_eqb c d
  | TBitVec o1 s1 b1, TBitVec o2 s2 b2 => tpath_eqb o1 o2 && tpath_eqb s1 s2 && toks_eqb b1 b2
  | _, _ => false
  end.

Definition fi_eqb (a b : field_ir) : bool :=
  tpath_eqb (fi_path a) (fi_path b) && Bool.eqb (fi_compact a) (fi_compact b)
  && Bool.eqb (fi_boxed a) (fi_boxed b).

Definition ckind_eqb (a b : ckind) : bool :=
  match a, b with
  | CNoFields, CNoFields => true
  | CNamed x, CNamed y =>
      list_eqb (fun p q => String.eqb (fst p) (fst q) && fi_eqb (snd p) (snd q)) x y
  | CUnnamed x, CUnnamed y => list_eqb fi_eqb x y
  | _, _ => false
  end.

Definition ci_eqb (a b : composite_ir) : bool :=
  String.eqb (ci_name a) (ci_name b) && ckind_eqb (ci_kind a) (ci_kind b)
  && list_eqb String.eqb (ci_docs a) (ci_docs b).

Definition kind_eqb (a b : kind_ir) : bool :=
  match a, b with
  | KStruct x, KStruct y => ci_eqb x y
  | KEnum n1 d1 v1, KEnum n2 d2 v2 =>
      String.eqb n1 n2 && list_eqb String.eqb d1 d2 &&
      list_eqb (fun p q => N.eqb (fst p) (fst q) && ci_eqb (snd p) (snd q)) v1 v2
  | _, _ => false
  end.

(** equality of two ERASED IRs (whose derives are both empty) *)
Definition skel_eqb (a b : type_ir) : bool :=
  list_eqb tpi_eqb (ti_params a) (ti_params b) && list_eqb tpi_eqb (ti_unused a) (ti_unused b)
  && Bool.eqb (ti_codec a) (ti_codec b) && kind_eqb (ti_kind a) (ti_kind b).

Definition skeleton_consistentb (r : registry) (s : settings) : bool :=
  forallb (fun e =>
             if item_eligible s (snd e) then
               match first_eligible r s (t_path (snd e)) with
               | Some e0 =>
                   match create_type_ir r s (snd e) flat0, create_type_ir r s (snd e0) flat0 with
                   | Ok (Some a), Ok (Some b) => skel_eqb (erase_ids a) (erase_ids b)
                   | _, _ => false
                   end
               | None => false
               end
             else true) r.

(** *** boolean equality on shapes and the bounded fidelity check *)
Fixpoint shape_eqb (a b : shape) {struct a} : bool :=
  let fs_eqb :=
    fix go (la lb : list fshape) {struct la} : bool :=
      match la, lb with
      | [], [] => true
      | (n1, b1, x) :: la', (n2, b2, y) :: lb' =>
          option_eqb String.eqb n1 n2 && Bool.eqb b1 b2 && shape_eqb x y && go la' lb'
      | _, _ => false
      end in
  let l_eqb :=
    fix go (la lb : list shape) {struct la} : bool :=
      match la, lb with
      | [], [] => true
      | x :: la', y :: lb' => shape_eqb x y && go la' lb'
      | _, _ => false
      end in
  match a, b with
  | SPrim p, SPrim q => prim_eqb p q
  | SCompact x, SCompact y => shape_eqb x y
  | SSeq x, SSeq y => shape_eqb x y
  | SArr n x, SArr k y => N.eqb n k && shape_eqb x y
  | STuple x, STuple y => l_eqb x y
  | SBits s1 o1, SBits s2 o2 => shape_eqb s1 s2 && shape_eqb o1 o2
  | SStruct x, SStruct y => fs_eqb x y
  | SEnum x, SEnum y =>
      (fix go (la lb : list (string * N * list fshape)) {struct la} : bool :=
         match la, lb with
         | [], [] => true
         | (n1, i1, f1) :: la', (n2, i2, f2) :: lb' =>
             String.eqb n1 n2 && N.eqb i1 i2 && fs_eqb f1 f2 && go la' lb'
         | _, _ => false
         end) x y
  | SOpaque t1 x, SOpaque t2 y => toks_eqb t1 t2 && l_eqb x y
  | SCut, SCut => true
  | _, _ => false
  end.

(** [Faithful] evaluated for every entry id and every depth below [depth] *)
Definition faithful_upto (r : registry) (s : settings) (m : items) (depth : nat) : bool :=
  forallb (fun e =>
             match resolve_type_path r s (fst e) with
             | Ok t => forallb (fun n => shape_eqb (shape_rust m s n t) (shape_reg r s n (fst e)))
                               (seq 0 depth)
             | _ => true
             end) r.

(** hypotheses on the settings under which a path expression can be read back
    (DESIGN.md 3.2: no user token equals the root ident): the root ident is not the
    first token of any external path *)
Definition root_fresh (s : settings) : Prop :=
  s_root s <> ":" /\ s_root s <> "<" /\
  hd_error (alloc_tokens (s_alloc s)) <> Some (s_root s) /\
  forall k sub, In (k, sub) (s_subs s) -> hd_error (print_spath (su_path sub)) <> Some (s_root s).

Definition hd_isb (t : tokens) (x : string) : bool :=
  match t with y :: _ => String.eqb y x | [] => false end.

Definition root_freshb (s : settings) : bool :=
  negb (String.eqb (s_root s) ":") && negb (String.eqb (s_root s) "<") &&
  negb (hd_isb (alloc_tokens (s_alloc s)) (s_root s)) &&
  forallb (fun e => negb (hd_isb (print_spath (su_path (snd e))) (s_root s))) (s_subs s).
