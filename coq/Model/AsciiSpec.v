(** ASCII-only texts and registries, and the translation of byte tokens into code-point tokens
    (C13 bridge between [tokens] on the bytes of a text and [ctokens] on its code points).
    Definitions only; proofs in Proofs/DescribeAscii.v. *)
From Coq Require Import List NArith String Bool Ascii.
From V Require Import Base.Util Base.Strings Model.Registry Model.DescribeSpec.
Import ListNotations.

(** every byte of the text is below 128 *)
Definition ascii_charb (c : ascii) : bool := (N_of_ascii c <? 128)%N.
Definition asciib (s : string) : bool := all_chars ascii_charb s.

Definition fields_asciib (fs : list field) : bool :=
  forallb (fun f => match f_name f with Some n => asciib n | None => true end) fs.

(** the names a description prints -- path segments, field names, variant names -- are ASCII *)
Definition ascii_regb (r : registry) : bool :=
  forallb (fun e : N * ty =>
    let t := snd e in
    forallb asciib (t_path t) &&
    match t_def t with
    | TDComposite fs => fields_asciib fs
    | TDVariant vs => forallb (fun v => asciib (v_name v) && fields_asciib (v_fields v)) vs
    | _ => true
    end) r.

(** a byte token read as a code-point token (the identity on ASCII words) *)
Definition ctok_of_tok (t : tok) : ctok :=
  match t with
  | W s => CW (bytes_of_string s)
  | P c => CP (N_of_ascii c)
  end.
