(** C09, token level: what the two BOOLEAN switches ([s_docs], [s_codec]) govern in the output.

    - [erase_doc_attrs], [erase_codec_attrs]: explicit functions on token lists that delete the
      attribute groups a switch governs (scan left to right; at the head of a governed group the
      whole group is skipped and scanning resumes behind its closing bracket, so every deleted
      group is maximal and groups never overlap);
    - [ins_rel G on off]: the alignment "[on] is [off] with groups of [G] inserted";
    - [has_open kw l]: the token list contains the contiguous tokens  # [ kw .

    Nothing here changes a definition of the validated model.

    The codec switch: with codec OFF the model (and the implementation, ir/type_ir.rs:227-287,
    type_path.rs:329-343) prints a compact FIELD exactly as with codec on - as the bare inner
    type, [is_field = true] does not depend on the switch - and only omits the
    [#[codec(compact)]] attribute.  So the codec frame is a pure erasure as well; the groups are
    [#[codec(index = k)]] (every variant), [#[codec(compact)]] (compact fields) and
    [#[codec(skip)]] (the phantom marker field of a struct). *)
From Coq Require Import List NArith String Bool Ascii.
From V Require Import Base.Strings Base.Result Model.Registry Model.Settings Model.Subst
  Model.TypePath Model.Derives Model.Generate Model.Emit Model.Switches Model.Inputs.
Import ListNotations.
Open Scope string_scope. Open Scope list_scope.

(** ** generic eraser *)

(** a group pattern: one test per token *)
Definition pattern := list (string -> bool).

Fixpoint matchb (pat : pattern) (l : tokens) : bool :=
  match pat with
  | [] => true
  | p :: pat' => match l with [] => false | t :: l' => p t && matchb pat' l' end
  end.

(** length of the governed group at the head of [l]; 0 when there is none *)
Fixpoint group_len (pats : list pattern) (l : tokens) : nat :=
  match pats with
  | [] => 0%nat
  | pat :: pats' => if matchb pat l then List.length pat else group_len pats' l
  end.

(** [skip] = number of tokens of the current group still to be dropped *)
Fixpoint erase_from (grp : tokens -> nat) (skip : nat) (l : tokens) : tokens :=
  match l with
  | [] => []
  | t :: l' =>
      match skip with
      | S k => erase_from grp k l'
      | O => match grp l with
             | S k => erase_from grp k l'
             | O => t :: erase_from grp 0%nat l'
             end
      end
  end.

Definition erase_groups (pats : list pattern) (l : tokens) : tokens :=
  erase_from (group_len pats) 0%nat l.

Definition tok (x : string) : string -> bool := String.eqb x.
Definition any_tok : string -> bool := fun _ => true.
(** a string literal token starts with the double quote *)
Definition is_str_lit (x : string) : bool :=
  match x with String c _ => (N_of_ascii c =? 34)%N | EmptyString => false end.

(** ** the docs switch:  # [ doc = "..." ] *)
Definition pat_doc : pattern := [tok "#"; tok "["; tok "doc"; tok "="; is_str_lit; tok "]"].
Definition erase_doc_attrs : tokens -> tokens := erase_groups [pat_doc].

(** ** the codec switch:  # [ codec ( compact ) ]   # [ codec ( skip ) ]   # [ codec ( index = k ) ] *)
Definition pat_codec_compact : pattern :=
  [tok "#"; tok "["; tok "codec"; tok "("; tok "compact"; tok ")"; tok "]"].
Definition pat_codec_skip : pattern :=
  [tok "#"; tok "["; tok "codec"; tok "("; tok "skip"; tok ")"; tok "]"].
Definition pat_codec_index : pattern :=
  [tok "#"; tok "["; tok "codec"; tok "("; tok "index"; tok "="; any_tok; tok ")"; tok "]"].
Definition erase_codec_attrs : tokens -> tokens :=
  erase_groups [pat_codec_compact; pat_codec_skip; pat_codec_index].

(** ** the groups the generator itself emits *)
Definition doc_group (g : tokens) : Prop :=
  exists d, g = ["#"; "["; "doc"; "="; lit_string d; "]"].
Definition codec_group (g : tokens) : Prop :=
  g = compact_attr \/ g = codec_skip \/ exists i, g = codec_index i.

(** ** alignment: [on] is [off] with groups of [G] inserted (equal tokens align, a group aligns
    with nothing, alignments concatenate) *)
Inductive ins_rel (G : tokens -> Prop) : tokens -> tokens -> Prop :=
| ins_same l : ins_rel G l l
| ins_grp g : G g -> ins_rel G g []
| ins_app x1 x2 y1 y2 : ins_rel G x1 x2 -> ins_rel G y1 y2 -> ins_rel G (x1 ++ y1) (x2 ++ y2).

(** the same as a sequence of blocks: a kept token or an inserted group *)
Inductive block := BKeep (t : string) | BGrp (g : tokens).
Definition on_of (bs : list block) : tokens :=
  flat_map (fun b => match b with BKeep t => [t] | BGrp g => g end) bs.
Definition off_of (bs : list block) : tokens :=
  flat_map (fun b => match b with BKeep t => [t] | BGrp _ => [] end) bs.

(** ** the contiguous tokens  # [ kw  occur in [l] *)
Fixpoint has_open (kw : string) (l : tokens) : bool :=
  match l with
  | [] => false
  | a :: l' =>
      (tok "#" a && match l' with b :: c :: _ => tok "[" b && tok kw c | _ => false end)
      || has_open kw l'
  end.

(** the decidable hypothesis of the end-to-end erasure theorems: the word does not occur among
    the caller's inputs (root, alloc path, user tokens of the settings - derives, attributes,
    substitute / compact / bits paths -, identifiers of the registry) *)
Definition word_free_inputs (kw : string) (r : registry) (s : settings) : bool :=
  negb (existsb (String.eqb kw) (gen_inputs r s)).
