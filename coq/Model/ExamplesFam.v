(** Concrete inputs for the [Example]s of the full C17 theorem: a renumbering that SWAPS the
    two members of the same-path family [a::b::Wrap] of [ex_reg], settings with a recursive
    derive rooted at [a::Top] plus a specific derive for [a::b::Wrap], and a registry whose
    family members differ in their docs only (the counterexample to dropping
    [docs_consistent]). *)
From Coq Require Import List NArith String Bool.
From V Require Import Base.Strings Base.Result Model.Registry Model.Settings Model.Subst
  Model.TypePath Model.Derives Model.Generate Model.Emit Model.Equal Model.Switches Model.Renumber
  Model.Inputs Model.ExamplesTG.
Import ListNotations.
Open Scope string_scope. Open Scope list_scope. Open Scope N_scope.

(** 2 -> 7 and 3 -> 5: in the renumbered registry [Wrap<u32>] precedes [Wrap<u8>] *)
Definition ex_pi_swap_list : list N := [3; 0; 7; 5; 6; 2; 4; 1].
Definition ex_pi_swap : N -> N := pi_of_list ex_pi_swap_list.

Definition ex_key (segs : list string) : tykey :=
  mk_tykey (join " :: " segs) segs (sep_by [":"; ":"] (map (fun x => [x]) segs)).

Definition ex_set_rec : settings :=
  mk_settings "root" true
              (mk_dreg (mk_derives [("Debug", ["Debug"]); ("Clone", ["Clone"])] [])
                       [(ex_key ["a"; "b"; "Wrap"], mk_derives [("Eq", ["Eq"]); ("Debug", ["Debug"])] [])]
                       [(ex_key ["a"; "Top"],
                         mk_derives [("PartialEq", ["PartialEq"]); ("Clone", ["Clone"])]
                                    [("# [serde]", ["#"; "["; "serde"; "]"])]);
                        (ex_key ["a"; "c"; "E"], mk_derives [("Hash", ["Hash"])] [])])
              [] None (Some ("CompactAs", ["CompactAs"])) (Some [":"; ":"; "parity"; ":"; ":"; "Compact"]) true
              (ACustom [":"; ":"; "alloc"]).

(** [ex_reg] with different docs on the second member of the family *)
Definition ex_reg_docs : registry :=
  map (fun e => if N.eqb (fst e) 3
                then (fst e, mk_ty (t_path (snd e)) (t_params (snd e)) (t_def (snd e)) ["other doc"])
                else e) ex_reg.

(** restriction: retain the entries reachable from [a::c::E] (ids 4, 2, 0, 1, 7); the
    renumbering moves them to the front in their original order, the first 5 entries are kept;
    dropped: [Wrap<u32>], the sequence and [a::Top] *)
Definition ex_pi_keep_list : list N := [0; 1; 2; 5; 3; 6; 7; 4].
Definition ex_pi_keep : N -> N := pi_of_list ex_pi_keep_list.
Definition ex_keep_k : nat := 5.

(** a recursive rule rooted at the retained [a::c::E] and a specific one for [a::b::Wrap] *)
Definition ex_set_rec2 : settings :=
  mk_settings "root" true
              (mk_dreg (mk_derives [("Debug", ["Debug"]); ("Clone", ["Clone"])] [])
                       [(ex_key ["a"; "b"; "Wrap"], mk_derives [("Eq", ["Eq"])] [])]
                       [(ex_key ["a"; "c"; "E"], mk_derives [("Hash", ["Hash"])] [("# [x]", ["#"; "["; "x"; "]"])])])
              [] None None (Some [":"; ":"; "parity"; ":"; ":"; "Compact"]) true
              (ACustom [":"; ":"; "alloc"]).
