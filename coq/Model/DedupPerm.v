(** C17, de-duplication under renumbering: the hypothesis "[types_equal] is an equivalence relation
    on every same-path family of namespaced entries", as a Prop and as a boolean checker, and the
    example inputs.  Definitions only; proofs in Proofs/DedupPerm.v. *)
From Coq Require Import List NArith String Bool.
From V Require Import Base.Strings Base.Result Model.Registry Model.Derives Model.Equal
  Model.DedupSpec Model.Renumber Model.ExamplesTG.
Import ListNotations.
Open Scope list_scope.

(** [types_equal] restricted to the positions that carry one namespaced path (the entries
    [ensure_unique_type_paths] compares with each other) always answers ([Ok]), symmetrically and
    transitively.  Reflexivity holds unconditionally (the [a == b] shortcut).  F3 (unsound
    shortcuts) and F18 (incomplete on coincidences) are exactly the ways this fails. *)
Definition teq_equiv_on_families (r : registry) : Prop :=
  forall p i j, entry_at r i p -> entry_at r j p -> namespace p <> [] ->
    (exists b, types_equal_res r i j = Ok b) /\
    (types_equal_res r i j = Ok true -> types_equal_res r j i = Ok true) /\
    (forall k, entry_at r k p ->
               types_equal_res r i j = Ok true -> types_equal_res r j k = Ok true ->
               types_equal_res r i k = Ok true).

(** (position, path) of every namespaced entry *)
Definition fam_positions (r : registry) : list (N * list string) :=
  filter (fun ip => match namespace (snd ip) with [] => false | _ => true end)
         (combine (seqN (List.length r)) (map (fun e => t_path (snd e)) r)).

Definition is_ok_true (x : result bool) : bool := match x with Ok true => true | _ => false end.

Definition teq_equiv_on_familiesb (r : registry) : bool :=
  let ps := fam_positions r in
  forallb (fun ip : N * list string =>
    forallb (fun jq : N * list string =>
      if path_eqb (snd ip) (snd jq) then
        match types_equal_res r (fst ip) (fst jq) with
        | Ok true =>
            is_ok_true (types_equal_res r (fst jq) (fst ip)) &&
            forallb (fun kq : N * list string =>
                       if path_eqb (snd jq) (snd kq) then
                         implb (is_ok_true (types_equal_res r (fst jq) (fst kq)))
                               (is_ok_true (types_equal_res r (fst ip) (fst kq)))
                       else true) ps
        | Ok false => true
        | _ => false
        end
      else true) ps) ps.

(** the family of path [p] contains two members judged different *)
Definition fam_split (r : registry) (p : list string) : Prop :=
  exists j k, entry_at r j p /\ entry_at r k p /\ types_equal_res r j k = Ok false.

(** new paths after the pass, by position *)
Definition new_paths (r : registry) : result (list (list string)) :=
  match ensure_unique r with
  | Ok r' => Ok (map (fun e => t_path (snd e)) r')
  | Err e => Err e
  | Panic m => Panic m
  end.

(** ** example inputs *)
Open Scope string_scope. Open Scope N_scope.

(** [dedup_example_reg] (Model/DedupSpec.v): a::Foo(u8), b::Bar(u8), a::Foo(u16), a::Foo(u8), Foo,
    u8, u16.  The renumbering exchanges positions 0 and 2 (so a::Foo(u16) comes first) and 5 and 6. *)
Definition dedup_perm_list : list N := [2; 1; 0; 3; 4; 6; 5].
Definition dedup_perm : N -> N := pi_of_list dedup_perm_list.

(** corpus/families/F03_split_instantiations.json, transcribed: a::F<T = u8> { x: u16 } first,
    then the instantiations of a::F<T> { x: T } at u16 and at u8.  [types_equal] merges the
    instantiation at u16 with the first entry (same-id shortcut, F3) and judges the instantiation
    at u8 different from the first entry but equal to the instantiation at u16: not transitive. *)
Definition f3_split_reg : registry :=
  [ (0, mk_ty ["a"; "F"] [mk_tparam "T" (Some 1)] (TDComposite [mk_field (Some "x") 2 (Some "u16") []]) []);
    (1, mk_ty [] [] (TDPrimitive PU8) []);
    (2, mk_ty [] [] (TDPrimitive PU16) []);
    (3, mk_ty ["a"; "F"] [mk_tparam "T" (Some 2)] (TDComposite [mk_field (Some "x") 2 (Some "T") []]) []);
    (4, mk_ty ["a"; "F"] [mk_tparam "T" (Some 1)] (TDComposite [mk_field (Some "x") 1 (Some "T") []]) []) ].
(** positions 0 and 3 exchanged: the instantiation at u16 comes first *)
Definition f3_split_perm_list : list N := [3; 1; 2; 0; 4].
Definition f3_split_perm : N -> N := pi_of_list f3_split_perm_list.
