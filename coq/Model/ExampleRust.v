(** C14: example Rust expressions ([description/src/type_example/rust_value.rs],
    [example_from_seed(type_id, types, settings, seed, None, None)]) on top of
    the [Transformer] cache ([description/src/transformer.rs]) and the type
    generator model ([resolve_type_path], [create_type_ir]).

    The result is the FLATTENED token list of the returned [TokenStream]
    (idents, single punctuation characters, literal texts, group delimiters;
    the flattening of harness/src/tok.rs), a documented error, or a panic.
    The model is a deterministic function of (registry, settings, id, word
    stream): the random generator is the word stream of [Model/RngWords.v].

    Transformer: [resolve(id)] looks the id up (error if absent); if the cache
    holds [Recursive] for it the recurse policy [error_on_recurse] returns an
    error; if it holds [Computed v] the cache-hit policy
    [compute_another_example] returns [None], so the transformer *continues*:
    it overwrites the entry with [Recursive], runs the policy [ty_example]
    (fresh randomness) and stores [Computed] again.  Every error is propagated
    with [?] up to the caller.

    IMPORTANT asymmetry (rust_value.rs:207-230): the Sequence and Array arms
    call [ty_example] on the element DIRECTLY -- no cache lookup, no
    in-progress marker -- whereas tuples, fields and compact go through
    [transformer.resolve].  Hence two fuels: [fo] bounds the nesting of
    [resolve] (every nested call marks a new id), [fi] bounds a chain of
    direct sequence/array descents between two [resolve]s.

    Panic sites of the Rust code, each an explicit [XPanic]:
    - [format_ident!("{}", variant.name)] / [format_ident!("{name}")] on a
      string that is not lexically an identifier;
    - [name.expect("safe because of check above; qed")] (unreachable);
    - [choose(..).unwrap()] on the constant slices (unreachable);
    - every panic of the path resolver / IR construction ("Unknown prelude
      type", "not a rust primitive", ...), inherited from the typegen model.
    Unbounded recursion is [XErr XOutOfFuel], distinct from every real outcome. *)
From Coq Require Import List NArith ZArith Bool String Ascii.
From V Require Import Base.Util Base.Strings Base.Result Model.Registry Model.Settings Model.Subst
  Model.TypePath Model.Derives Model.Generate Model.RngWords.
Import ListNotations.
Open Scope string_scope. Open Scope list_scope. Open Scope N_scope.

(** [PortableRegistry::resolve] with a bound test (keeps evaluation from
    converting an out-of-range id such as u32::MAX to a unary number) *)
Definition lookup (r : registry) (id : N) : option ty :=
  if id <? N.of_nat (List.length r) then resolve r id else None.

(** ** outcomes *)
Inductive xerr :=
| XRecursive (id : N)      (* "Cannot generate rust type example for recursive type: .." *)
| XEmptyEnum               (* "Variant type should have at least one variant" *)
| XMixedFields             (* "mixed fields in struct def" *)
| XNotFound (id : N)       (* transformer: "Type with id {} not found in registry" *)
| XTypegen (e : err)       (* a [TypegenError] of the type generator, [map_err(anyhow!)] *)
| XOutOfWords              (* the supplied word list was too short (an artefact of finite lists) *)
| XOutOfFuel.              (* unbounded recursion in the code *)

Inductive xres (A : Type) :=
| XOk (a : A)
| XErr (e : xerr)
| XPanic (msg : string).
Arguments XOk {A} a.
Arguments XErr {A} e.
Arguments XPanic {A} msg.

(** ** the transformer's cache: HashMap<u32, Cached<TokenStream>> (only get / insert) *)
Inductive cached :=
| CRecursive
| CComputed (v : tokens).

Definition cache := list (N * cached).

Fixpoint cache_get (c : cache) (id : N) : option cached :=
  match c with
  | [] => None
  | (k, e) :: c' => if k =? id then Some e else cache_get c' id
  end.

Fixpoint cache_set (id : N) (e : cached) (c : cache) : cache :=
  match c with
  | [] => [(id, e)]
  | (k, e') :: c' => if k =? id then (k, e) :: c' else (k, e') :: cache_set id e c'
  end.

(** ** state monad over (cache, remaining words) *)
Definition st := (cache * words)%type.
Definition M (A : Type) := st -> xres (A * st).

Definition mret {A} (a : A) : M A := fun s => XOk (a, s).
Definition mfail {A} (e : xerr) : M A := fun _ => XErr e.
Definition mpanic {A} (m : string) : M A := fun _ => XPanic m.
Definition mbind {A B} (x : M A) (f : A -> M B) : M B :=
  fun s => match x s with
           | XOk (a, s') => f a s'
           | XErr e => XErr e
           | XPanic m => XPanic m
           end.

Declare Scope m_scope.
Notation "'let!' x ':=' c1 'in' c2" := (mbind c1 (fun x => c2))
  (at level 61, x pattern, c1 at next level, right associativity) : m_scope.
Open Scope m_scope.

Definition mdraw {A} (d : rng A) : M A :=
  fun s => match d (snd s) with
           | Drawn a ws' => XOk (a, (fst s, ws'))
           | NoWords => XErr XOutOfWords
           end.

Fixpoint mmapM {A B} (f : A -> M B) (l : list A) : M (list B) :=
  match l with
  | [] => mret []
  | x :: l' => let! y := f x in let! ys := mmapM f l' in mret (y :: ys)
  end.

(** a call into the type generator: [.map_err(|e| anyhow!("{e}"))?] *)
Definition lift {A} (x : result A) : M A :=
  fun s => match x with
           | Ok a => XOk (a, s)
           | Err EOutOfFuel => XErr XOutOfFuel
           | Err e => XErr (XTypegen e)
           | Panic m => XPanic m
           end.

(** ** token helpers *)
Definition tok_open (t : string) : bool := String.eqb t "(" || String.eqb t "[" || String.eqb t "{".
Definition tok_close (t : string) : bool := String.eqb t ")" || String.eqb t "]" || String.eqb t "}".

(** [omit_generics]: [take_while] over the top-level token TREES, stopping at
    the first punct '<'.  On the flattened list: a '<' inside a group (depth >
    0) belongs to a group tree and does not stop the iteration. *)
Fixpoint omit_generics_go (depth : nat) (ts : tokens) : tokens :=
  match ts with
  | [] => []
  | t :: rest =>
      if tok_open t then t :: omit_generics_go (S depth) rest
      else if tok_close t then t :: omit_generics_go (Nat.pred depth) rest
      else if String.eqb t "<" && Nat.eqb depth 0 then []
      else t :: omit_generics_go depth rest
  end.
Definition omit_generics (ts : tokens) : tokens := omit_generics_go 0 ts.

(** [Literal::uN_suffixed]: one literal token, e.g. [227u8].  [Literal::iN_suffixed]
    of a negative number enters a [TokenStream] as the punct '-' followed by the
    positive suffixed literal (proc-macro2's [push_negative_literal]): [-; 5i16] *)
Definition lit_u (suffix : string) (n : N) : string := String.append (N_to_string n) suffix.
Definition lit_i (suffix : string) (z : Z) : tokens :=
  if (z <? 0)%Z then ["-"; String.append (N_to_string (Z.abs_N z)) suffix]
  else [String.append (N_to_string (Z.to_N z)) suffix].

Definition marker_path : tokens := abs_path ["core"; "marker"; "PhantomData"].

Definition example_chars : list string := ["a"; "b"; "c"; "d"; "e"; "f"; "g"].
Definition example_strings : list string := ["Foo"; "Bar"; "Fizz"; "Buzz"].
Definition quote_with (q : string) (s : string) : string := String.append q (String.append s q).

Definition choose_unwrap {A} (l : list A) : M A :=
  let! o := mdraw (choose l) in
  match o with
  | Some a => mret a
  | None => mpanic "called `Option::unwrap()` on a `None` value"
  end.

(** [primitive_example] *)
Definition u256_tokens (b : list N) : tokens :=
  ["["] ++ sep_by [","] (map (fun n => [lit_u "u8" n]) b) ++ ["]"].

Definition prim_example (p : prim) : M tokens :=
  match p with
  | PBool => let! b := mdraw gen_bool in mret [if b : bool then "true" else "false"]
  | PChar => let! c := choose_unwrap example_chars in mret [quote_with "'" c]
  | PStr => let! s := choose_unwrap example_strings in mret [quote_with """" s; "."; "into"; "("; ")"]
  | PU8 => let! n := mdraw gen_u8 in mret [lit_u "u8" n]
  | PU16 => let! n := mdraw gen_u16 in mret [lit_u "u16" n]
  | PU32 => let! n := mdraw gen_u32 in mret [lit_u "u32" n]
  | PU64 => let! n := mdraw gen_u64 in mret [lit_u "u64" n]
  | PU128 => let! n := mdraw gen_u128 in mret [lit_u "u128" n]
  | PU256 => let! b := mdraw gen_bytes32 in mret (u256_tokens b)
  | PI8 => let! z := mdraw gen_i8 in mret (lit_i "i8" z)
  | PI16 => let! z := mdraw gen_i16 in mret (lit_i "i16" z)
  | PI32 => let! z := mdraw gen_i32 in mret (lit_i "i32" z)
  | PI64 => let! z := mdraw gen_i64 in mret (lit_i "i64" z)
  | PI128 => let! z := mdraw gen_i128 in mret (lit_i "i128" z)
  | PI256 => let! b := mdraw gen_bytes32 in mret (u256_tokens b)
  end.

(** [format_ident!]: [Ident::new] panics on a string that is not lexically an identifier *)
Definition format_ident (x : string) : M string :=
  if ident_lexb x then mret x else mpanic "format_ident: not a valid Ident".

(** [field_is_explicit_compact] *)
Definition explicit_compact (f : field) : bool :=
  match f_type_name f with Some n => starts_with "Compact<" n | None => false end.
Definition wrap_compact (f : field) (v : tokens) : tokens :=
  if explicit_compact f then ["Compact"; "("] ++ v ++ [")"] else v.

Definition named_field (rec : N -> M tokens) (f : field) : M tokens :=
  match f_name f with
  | None => mpanic "safe because of check above; qed"
  | Some n =>
      let! id := format_ident n in
      let! v := rec (f_ty f) in
      mret ([id; ":"] ++ wrap_compact f v ++ [","])
  end.

Definition unnamed_field (rec : N -> M tokens) (f : field) : M tokens :=
  let! v := rec (f_ty f) in mret (wrap_compact f v ++ [","]).

(** [fields_example]; [rec] is [transformer.resolve] *)
Definition fields_example (rec : N -> M tokens) (fs : list field) (needs_phantom : bool) : M tokens :=
  match all_named fs, all_unnamed fs with
  | true, false =>
      let! l := mmapM (named_field rec) fs in
      mret (["{"] ++ List.concat l ++ (if needs_phantom then ["__ignore"; ":"] ++ marker_path else []) ++ ["}"])
  | false, true =>
      let! l := mmapM (unnamed_field rec) fs in
      mret (["("] ++ List.concat l ++ (if needs_phantom then marker_path else []) ++ [")"])
  | true, true =>
      mret (if needs_phantom then ["("] ++ marker_path ++ [")"] else [])
  | false, false => mfail XMixedFields
  end.

(** [n] copies of [x] joined by commas ([#(#item_iter),*]) *)
Definition copies (len : N) (x : tokens) : tokens :=
  sep_by [","] (N.iter len (fun acc => x :: acc) []).

Definition bits_example : tokens :=
  ["subxt"; ":"; ":"; "utils"; ":"; ":"; "bits"; ":"; ":"; "DecodedBits"; ":"; ":"; "from_iter";
   "("; "["; "true"; ","; "false"; ","; "false"; "]"; ")"].

Section Example.
  Variable r : registry.
  Variable s : settings.

  (** [resolve_type_path_omit_generics] (no path middleware) *)
  Definition path_omit_generics (id : N) : result tokens :=
    let* p := resolve_type_path r s id in
    let* t := tp_tokens (alloc_tokens (s_alloc s)) p in
    Ok (omit_generics t).

  (** [has_unused_type_params]: [create_type_ir(ty, &Default::default())] *)
  Definition has_unused_type_params (t : ty) : result bool :=
    let* o := create_type_ir r s t (mk_flat derives_empty []) in
    Ok (match o with
        | Some ir => match ti_unused ir with [] => false | _ => true end
        | None => false
        end).

  (** [CodeTransformer::resolve_type] = [TypeGenerator::resolve_type] *)
  Definition resolve_type_m (id : N) : M ty :=
    match lookup r id with
    | Some t => mret t
    | None => mfail (XTypegen (ETypeNotFound id))
    end.

  (** [type_def_is_copy] (recursion over array / tuple / compact edges) *)
  Fixpoint is_copy (fuel : nat) (d : typedef) : M bool :=
    match fuel with
    | O => mfail XOutOfFuel
    | S fuel' =>
        match d with
        | TDPrimitive p => mret (negb (prim_eqb p PStr))
        | TDArray len e =>
            let! t := resolve_type_m e in
            if len <=? 32 then is_copy fuel' (t_def t) else mret false
        | TDTuple ts =>
            (fix go (l : list N) : M bool :=
               match l with
               | [] => mret true
               | i :: l' =>
                   let! t := resolve_type_m i in
                   let! b := is_copy fuel' (t_def t) in
                   if b : bool then go l' else mret false
               end) ts
        | TDCompact e => let! t := resolve_type_m e in is_copy fuel' (t_def t)
        | _ => mret false
        end
    end.

  Definition copy_fuel : nat := S (List.length r).

  (** [ty_example] without middleware.  [rec] = [transformer.resolve];
      [fi] bounds the DIRECT recursion of the sequence / array arms. *)
  Fixpoint ty_go (rec : N -> M tokens) (fi : nat) (id : N) (t : ty) : M tokens :=
    match fi with
    | O => mfail XOutOfFuel
    | S fi' =>
        match t_def t with
        | TDComposite fs =>
            (* F14 repair: [Cow<T>] is exemplified as an example of [T] *)
            match (match path_ident (t_path t), t_params t with
                   | Some "Cow", p0 :: _ => tp_ty p0
                   | _, _ => None
                   end) with
            | Some inner => rec inner
            | None =>
                let! p := lift (path_omit_generics id) in
                let! u := lift (has_unused_type_params t) in
                let! f := fields_example rec fs u in
                mret (p ++ f)
            end
        | TDVariant vs =>
            let! p := lift (path_omit_generics id) in
            let! o := mdraw (choose vs) in
            match o with
            | None => mfail XEmptyEnum
            | Some v =>
                let! vi := format_ident (v_name v) in
                let! f := fields_example rec (v_fields v) false in
                let ex := p ++ [":"; ":"; vi] ++ f in
                (* [example.to_string() == "Option :: None"] *)
                mret (if list_eqb String.eqb ex ["Option"; ":"; ":"; "None"] then ["None"] else ex)
            end
        | TDSequence e =>
            let! te := resolve_type_m e in
            let! a := ty_go rec fi' e te in
            let! b := ty_go rec fi' e te in
            mret (["vec"; "!"; "["] ++ a ++ [","] ++ b ++ ["]"])
        | TDArray len e =>
            let! te := resolve_type_m e in
            let! item := ty_go rec fi' e te in
            let! cp := is_copy copy_fuel (t_def te) in
            mret (if cp : bool
                  then ["["] ++ item ++ [";"; lit_u "usize" len; "]"]
                  else ["["] ++ copies len item ++ ["]"])
        | TDTuple ts =>
            let! l := mmapM rec ts in
            mret (["("] ++ flat_map (fun v => v ++ [","]) l ++ [")"])
        | TDPrimitive p => prim_example p
        | TDCompact e => rec e
        | TDBitSeq _ _ => mret bits_example
        end
    end.

  Definition inner_fuel : nat := S (List.length r).

  (** [Transformer::resolve] *)
  Fixpoint resolve_go (fo : nat) (id : N) : M tokens :=
    fun st0 =>
      match fo with
      | O => XErr XOutOfFuel
      | S fo' =>
          match lookup r id with
          | None => XErr (XNotFound id)
          | Some t =>
              match cache_get (fst st0) id with
              | Some CRecursive => XErr (XRecursive id)
              | _ =>
                  (* absent, or [Computed]: the cache-hit policy returns None, the example is recomputed *)
                  match ty_go (resolve_go fo') inner_fuel id t (cache_set id CRecursive (fst st0), snd st0) with
                  | XOk (v, s') => XOk (v, (cache_set id (CComputed v) (fst s'), snd s'))
                  | XErr e => XErr e
                  | XPanic m => XPanic m
                  end
              end
          end
      end.

  (** a nested [resolve] of an in-progress id is an error: nesting depth <= number of entries *)
  Definition outer_fuel : nat := S (List.length r).

  Definition example_run (id : N) (ws : words) : xres (tokens * st) :=
    resolve_go outer_fuel id ([], ws).

  (** [example_from_seed(id, types, settings, seed, None, None)], [ws] = word stream of [seed] *)
  Definition example_rust (id : N) (ws : words) : xres tokens :=
    match example_run id ws with
    | XOk (v, _) => XOk v
    | XErr e => XErr e
    | XPanic m => XPanic m
    end.

  Definition example_consumed (id : N) (ws : words) : option N :=
    match example_run id ws with
    | XOk (_, (_, rest)) => Some (N.of_nat (List.length ws - List.length rest))
    | _ => None
    end.
End Example.
