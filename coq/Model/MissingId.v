(** C10, global form of the missing-id clause: the class "well-formed except that references to ONE
    id [m] outside the registry may occur anywhere", and the descent of [resolve_type_path_recurse]
    (typegen/src/typegen/mod.rs:327-454) as an inductive reachability relation.  Definitions only;
    proofs in Proofs/MissingId.v. *)
From Coq Require Import List NArith String Bool.
From V Require Import Base.Strings Base.Result Model.Registry Model.Settings Model.Subst
  Model.TypePath Model.Derives Model.Generate Model.WellFormed.
Import ListNotations.
Open Scope string_scope. Open Scope list_scope.

(** every referenced id is an id of the registry or the missing id [m] *)
Definition closed_but (r : registry) (m : N) : Prop :=
  forall id t c, resolve r id = Some t -> In c (param_ids t ++ def_ids (t_def t)) -> in_reg r c \/ c = m.

(** [resolvable] (Model/WellFormed.v, the class of [C10_resolve_total]) with "closed" replaced by
    "closed except for references to [m]", [m] not an id of the registry; [ranked_but]: [rank]
    strictly decreases along the non-field edges (the edge to [m] included) and is bounded by the
    size on the ids of the registry *)
Definition ranked_but (r : registry) (rank : N -> nat) : Prop :=
  (forall id t c, resolve r id = Some t -> In c (nonfield_ids t) -> rank c < rank id) /\
  (forall id, in_reg r id -> rank id <= List.length r).

Definition resolvable_but (r : registry) (s : settings) (rank : N -> nat) (m : N) : Prop :=
  ~ in_reg r m /\ closed_but r m /\ ranked_but r rank /\ entries_ok resolvable_entryb r /\
  settings_ok r s /\ entries_ok (compact_inner_ok_at r) r.

(** the id a [Cow] entry is looked through to *)
Definition cow_inner (t0 : ty) : option N :=
  match path_ident (t_path t0) with
  | Some "Cow" => match t_params t0 with p0 :: _ => tp_ty p0 | [] => None end
  | _ => None
  end.

(** [reaches_missing r parents id orig m]: the call [resolve_rec _ id _ parents orig] reaches a
    reference to the unresolvable id [m].  Mirrors [resolve_rec]:
    - a position answered by a parent parameter ([find_parent]) is not expanded;
    - the id itself may be unresolvable;
    - an entry named [Cow] is replaced by the entry of its first parameter (one level), which may be
      unresolvable as well;
    - then the typed parameters and the structural children ([nonfield_ids]: element of a sequence /
      array, members of a tuple, inner type of a compact, store and order of a bit sequence) of the
      looked-through entry are visited, with no recorded name ([None]); the fields of a Composite /
      Variant entry are NOT visited. *)
Inductive reaches_missing (r : registry) (parents : list tparam_ir) : N -> option string -> N -> Prop :=
| RM_here id orig :
    find_parent parents id orig = None -> resolve r id = None ->
    reaches_missing r parents id orig id
| RM_cow id orig t0 m :
    find_parent parents id orig = None -> resolve r id = Some t0 ->
    cow_inner t0 = Some m -> resolve r m = None ->
    reaches_missing r parents id orig m
| RM_child id orig t0 t c m :
    find_parent parents id orig = None -> resolve r id = Some t0 -> cow_target r t0 = Some t ->
    In c (nonfield_ids t) -> reaches_missing r parents c None m ->
    reaches_missing r parents id orig m.

(** the fields of an entry, in the order [create_type_ir] visits them *)
Definition entry_fields (t : ty) : list field :=
  match t_def t with
  | TDComposite fs => fs
  | TDVariant vs => flat_map v_fields vs
  | _ => []
  end.

(** some field of the entry reaches [m] (parents = the entry's typed parameters, recorded type name
    of the field at the root: [resolve_field_type_path]) *)
Definition entry_reaches_missing (r : registry) (t : ty) (m : N) : Prop :=
  exists f, In f (entry_fields t) /\
            reaches_missing r (params_from_scale_info (t_params t)) (f_ty f) (f_type_name f) m.

(** [generable] (the class of [C10_total]) with the same replacement *)
Definition generable_but (r : registry) (s : settings) (rank : N -> nat) (m : N) : Prop :=
  ids_consistent r = true /\ resolvable_but r s rank m /\
  entries_ok item_entryb r /\ entries_ok flat_entryb r.
