(** Renumbering of a registry (C17): every id reference is renamed by [pi] and
    the entry that was at position [i] moves to position [pi i].  New
    definitions only; nothing of the validated model is changed. *)
From Coq Require Import List NArith String Bool Sorted.
From V Require Import Base.Strings Base.Result Model.Registry Model.Settings Model.Subst
  Model.TypePath Model.Derives Model.Generate Model.Emit.
Import ListNotations.
Open Scope string_scope. Open Scope list_scope.

(** [pi] is a renumbering of the ids [0, n): injective everywhere, maps
    [0, n) onto [0, n) and everything else outside (e.g. a permutation of
    [0, n) extended by the identity). *)
Definition renumbering (n : N) (pi : N -> N) : Prop :=
  (forall i j, pi i = pi j -> i = j) /\
  (forall i, (i < n)%N <-> (pi i < n)%N) /\
  (forall j, (j < n)%N -> exists i, pi i = j).

Section Rename.
  Variable pi : N -> N.

  Definition rename_field (f : field) : field :=
    mk_field (f_name f) (pi (f_ty f)) (f_type_name f) (f_docs f).
  Definition rename_variant (v : variant) : variant :=
    mk_variant (v_name v) (map rename_field (v_fields v)) (v_index v) (v_docs v).
  Definition rename_def (d : typedef) : typedef :=
    match d with
    | TDComposite fs => TDComposite (map rename_field fs)
    | TDVariant vs => TDVariant (map rename_variant vs)
    | TDSequence t => TDSequence (pi t)
    | TDArray len t => TDArray len (pi t)
    | TDTuple ts => TDTuple (map pi ts)
    | TDPrimitive p => TDPrimitive p
    | TDCompact t => TDCompact (pi t)
    | TDBitSeq st o => TDBitSeq (pi st) (pi o)
    end.
  Definition rename_tparam (p : tparam) : tparam := mk_tparam (tp_name p) (option_map pi (tp_ty p)).
  Definition rename_ty (t : ty) : ty :=
    mk_ty (t_path t) (map rename_tparam (t_params t)) (rename_def (t_def t)) (t_docs t).
  Definition rename_entry (e : N * ty) : N * ty := (pi (fst e), rename_ty (snd e)).

  (** the IR with the concrete ids inside parameters renamed *)
  Definition rename_tpi (p : tparam_ir) : tparam_ir := mk_tpi (pi (tpi_id p)) (tpi_orig p) (tpi_idx p).
  Fixpoint map_ids (t : tpath) : tpath :=
    match t with
    | TParam p => TParam (rename_tpi p)
    | TPath ptoks params => TPath ptoks (map map_ids params)
    | TVec o => TVec (map_ids o)
    | TArray len o => TArray len (map_ids o)
    | TTuple els => TTuple (map map_ids els)
    | TPrim p => TPrim p
    | TCompact i f c => TCompact (map_ids i) f c
    | TBitVec o st b => TBitVec (map_ids o) (map_ids st) b
    end.
  Definition rename_fi (f : field_ir) : field_ir :=
    mk_fi (map_ids (fi_path f)) (fi_compact f) (fi_boxed f).
  Definition rename_ckind (k : ckind) : ckind :=
    match k with
    | CNoFields => CNoFields
    | CNamed fs => CNamed (map (fun x => (fst x, rename_fi (snd x))) fs)
    | CUnnamed fs => CUnnamed (map rename_fi fs)
    end.
  Definition rename_ci (c : composite_ir) : composite_ir :=
    mk_ci (ci_name c) (rename_ckind (ci_kind c)) (ci_docs c).
  Definition rename_kind (k : kind_ir) : kind_ir :=
    match k with
    | KStruct c => KStruct (rename_ci c)
    | KEnum name docs vs => KEnum name docs (map (fun x => (fst x, rename_ci (snd x))) vs)
    end.
  Definition rename_ir (ir : type_ir) : type_ir :=
    mk_ti (map rename_tpi (ti_params ir)) (map rename_tpi (ti_unused ir)) (ti_derives ir)
          (ti_codec ir) (rename_kind (ti_kind ir)).

  (** the only error that mentions an id *)
  Definition rename_err (e : err) : err :=
    match e with ETypeNotFound id => ETypeNotFound (pi id) | _ => e end.
  Definition rmap_e {A B} (f : A -> B) (x : result A) : result B :=
    match x with Ok a => Ok (f a) | Err e => Err (rename_err e) | Panic m => Panic m end.

  (** positions [0, n) *)
  Definition seqN (n : nat) : list N := map N.of_nat (seq 0 n).
  (** the old position of new position [j] (search; total) *)
  Definition inv_on (n : nat) (j : N) : N :=
    match find (fun i => N.eqb (pi i) j) (seqN n) with Some i => i | None => 0%N end.

  Definition dummy_entry : N * ty := (0%N, mk_ty [] [] (TDTuple []) []).

  (** new position [j] holds the renamed entry of old position [inv_on j] *)
  Definition renumber (r : registry) : registry :=
    map (fun j => rename_entry (nth (N.to_nat (inv_on (List.length r) j)) r dummy_entry))
        (seqN (List.length r)).
End Rename.

(** entries the generation loop turns into items *)
Definition item_entry (s : settings) (t : ty) : bool :=
  negb (subs_contains (s_subs s) (t_path t)) &&
  match namespace (t_path t) with [] => false | _ => true end &&
  is_composite_or_variant (t_def t).

(** every item path has exactly one item-eligible entry *)
Definition unique_item_paths (r : registry) (s : settings) : Prop :=
  forall e1 e2, In e1 r -> In e2 r ->
    item_entry s (snd e1) = true -> item_entry s (snd e2) = true ->
    t_path (snd e1) = t_path (snd e2) -> e1 = e2.

(** ** the ordered map of items (C17: the output is ordered by path, not by id) *)
Definition path_lt (a b : list string) : Prop := path_compare a b = Lt.
Definition items_sorted (m : items) : Prop := StronglySorted path_lt (map fst m).
(** insertion of a list of (path, item) pairs, in list order *)
Definition insert_all (l : list (list string * (N * type_ir))) (acc : items) : items :=
  fold_left (fun m e => items_insert m (fst e) (snd e)) l acc.

(** ** restriction (C17, second half).  scale-info's [retain] keeps the entries reachable from
    a set of ids and renumbers them densely.  Modelled in two steps: a renumbering [pi] that
    moves the retained entries to the front (in their new order) - the id map [mu] of the
    retained entries is [pi] - followed by cutting the registry after the first [k] entries. *)
Definition restrict (pi : N -> N) (k : nat) (r : registry) : registry := firstn k (renumber pi r).
(** what is cut off *)
Definition dropped (pi : N -> N) (k : nat) (r : registry) : registry := skipn k (renumber pi r).
