(** C05 (continued): the emission step.  Definitions used by the statements
    [C05_expected_item_of_ir] / [C05_source_roundtrip] (Properties/C05.v):
    the expected item of a source definition with the token-level parameters of [expected_item]
    read off the settings ([expected_of_source]: what the theorems of Proofs/SourceReading.v
    produce; [expected_of_settings]: the instantiation the run-time checker
    [prop_source_roundtrip] uses, Corr/RunC05.v [expected_of]), and the one condition on source
    definitions the statement needs beyond those of [C05_skeleton_is_source]: the fields of one
    struct / variant are all named or all unnamed ([names_uniformb]; true of every Rust
    definition, the type [sbody] is wider).  Definitions only; proofs in Proofs/SourceEmission.v. *)
From Coq Require Import List NArith String Bool.
From V Require Import Base.Util Base.Strings Base.Result Model.Registry Model.Settings Model.TypePath
  Model.Generate Model.Program Model.ProgramSkel Checkers.Parse Checkers.Sem.
Import ListNotations.
Open Scope string_scope. Open Scope list_scope.

(** all fields named or all fields unnamed *)
Definition fields_uniformb (fs : list sfield) : bool :=
  forallb sf_named fs || forallb (fun f => negb (sf_named f)) fs.

Definition names_uniformb (d : sdef) : bool :=
  match sd_body d with
  | SBStruct fs => fields_uniformb fs
  | SBEnum vs => forallb (fun v : string * N * list sfield => fields_uniformb (snd v)) vs
  end.

(** [expected_item] with its token-level parameters read off the settings: root ident, segments of
    the alloc path, segments / leading [::] of the compact and bits wrapper paths, the bit-order
    markers read as parsed types ([order_tp]: what the settings resolve them to), codec switch *)
Definition expected_of_source (defs : list sdef) (s : settings) (order_tp : bool -> tpath) (d : sdef) : pitem :=
  expected_item defs (s_root s) (alloc_segs s)
                (segs_lead_of (opt_toks (s_compact s))) (segs_lead_of (opt_toks (s_bits s)))
                (fun lsb => tpath_pty (alloc_segs s) (order_tp lsb)) (s_codec s) d.

(** what the harness substitutes the bit-order markers by *)
Definition bits_order_pty (lsb : bool) : pty :=
  PPath true [("bits", []); ("order", []); (if lsb then "Lsb0" else "Msb0", [])].

(** the instantiation of [expected_item] used by the checker ([expected_of c d] of Corr/RunC05.v is
    this at the program and the settings of the case, by conversion) *)
Definition expected_of_settings (defs : list sdef) (s : settings) (d : sdef) : pitem :=
  expected_item defs (s_root s)
                (toks_to_segs (alloc_tokens (s_alloc s)))
                (match s_compact s with Some t => segs_lead_of t | None => ([], false) end)
                (match s_bits s with Some t => segs_lead_of t | None => ([], false) end)
                bits_order_pty (s_codec s) d.
