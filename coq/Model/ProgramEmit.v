(** C05 (continued): the emission step.  Definitions used by the statements
    [C05_expected_item_of_ir] / [C05_source_roundtrip] (Properties/C05.v):
    the expected item of a source definition with the token-level parameters of [expected_item]
    read off the settings ([expected_of_source]: what the theorems of Proofs/SourceReading.v
    produce; [expected_of_settings]: the instantiation the run-time checker
    [prop_source_roundtrip] uses, Corr/RunC05.v [expected_of]), and the one condition on source
    definitions the statement needs beyond those of [C05_skeleton_is_source]: the fields of one
    struct / variant are all named or all unnamed ([names_uniformb]; true of every Rust
    definition, the type [sbody] is wider).  Further: which bit orders a definition mentions
    ([def_mentions_order]), the model's output read back as the checker reads the observed one
    ([model_item_at]) and two example programs (ex8, ex9).
    Definitions only; proofs in Proofs/SourceEmission.v. *)
From Coq Require Import List NArith String Bool.
From V Require Import Base.Util Base.Strings Base.Result Model.Registry Model.Settings Model.TypePath
  Model.Generate Model.Emit Model.Equal Model.Program Model.ProgramSkel Model.ProgramExamples
  Checkers.Parse Checkers.Sem.
Import ListNotations.
Open Scope string_scope. Open Scope list_scope.

(** all fields named or all fields unnamed *)
Definition fields_uniformb (fs : list sfield) : bool :=
  forallb sf_named fs || forallb (fun f => negb (sf_named f)) fs.

Definition names_uniformb (d : sdef) : bool :=
  match sd_body d with
  | SBStruct fs => fields_uniformb fs
  | SBEnum vs => forallb (fun v : string * N * list sfield => fields_uniformb (snd v)) vs
  end.

(** [expected_item] with its token-level parameters read off the settings: root ident, segments of
    the alloc path, segments / leading [::] of the compact and bits wrapper paths, the bit-order
    markers read as parsed types ([order_tp]: what the settings resolve them to), codec switch *)
Definition expected_of_source (defs : list sdef) (s : settings) (order_tp : bool -> tpath) (d : sdef) : pitem :=
  expected_item defs (s_root s) (alloc_segs s)
                (segs_lead_of (opt_toks (s_compact s))) (segs_lead_of (opt_toks (s_bits s)))
                (fun lsb => tpath_pty (alloc_segs s) (order_tp lsb)) (s_codec s) d.

(** what the harness substitutes the bit-order markers by *)
Definition bits_order_pty (lsb : bool) : pty :=
  PPath true [("bits", []); ("order", []); (if lsb then "Lsb0" else "Msb0", [])].

(** the instantiation of [expected_item] used by the checker ([expected_of c d] of Corr/RunC05.v is
    this at the program and the settings of the case, by conversion) *)
Definition expected_of_settings (defs : list sdef) (s : settings) (d : sdef) : pitem :=
  expected_item defs (s_root s)
                (toks_to_segs (alloc_tokens (s_alloc s)))
                (match s_compact s with Some t => segs_lead_of t | None => ([], false) end)
                (match s_bits s with Some t => segs_lead_of t | None => ([], false) end)
                bits_order_pty (s_codec s) d.

(** does a source type mention a bit sequence of bit order [lsb] (only then does [expected_item]
    look at [order_path lsb]; conservative: arguments of skipped parameters count) *)
Fixpoint mentions_order (lsb : bool) (t : src) : bool :=
  match t with
  | SBitVec _ l => Bool.eqb l lsb
  | SApp _ args => existsb (mentions_order lsb) args
  | STup ts => existsb (mentions_order lsb) ts
  | SVec x | SVecDeque x | SArray _ x | SCompactT x | SBox x | SOpt x | SBTreeSet x | SCow x | SRange x =>
      mentions_order lsb x
  | SRes a b | SBTreeMap a b => mentions_order lsb a || mentions_order lsb b
  | SParam _ | SPrimT _ => false
  end.

Definition def_mentions_order (d : sdef) (lsb : bool) : bool :=
  existsb (fun f => mentions_order lsb (sf_ty f)) (def_sfields d).

(** the MODEL's output read back as the checker [prop_source_roundtrip] reads the observed one:
    generate, emit the module, parse the tokens with Checkers/Parse.v, look the item up by path *)
Definition model_item_at (r : registry) (s : settings) (p : list string) : option pitem :=
  match generate r s (types_equal r) with
  | Ok m =>
      match emit_module s m with
      | Ok toks => match parse_module toks with Some pm => lookup_item pm p | None => None end
      | _ => None
      end
  | _ => None
  end.

(** ** ex8: a struct with unused (non-skipped) parameters - the marker field:
    [a::Ph<T, U, V> { x: Vec<T>, #[codec(compact)] n: u32 }] at [(u16, bool, u8)] and [(bool, u8, u16)] *)
Open Scope N_scope.
Definition ex8_defs : list sdef :=
  [mk_sdef ["a"; "Ph"] [("T", false); ("U", false); ("V", false)]
     (SBStruct [mk_sfield (Some "x") (SVec (SParam 0)) false true;
                mk_sfield (Some "n") (SPrimT PU32) true true])].
Definition ex8_sd : sdef := nth 0 ex8_defs pe_default.
Definition ex8_ph (t u v x : N) : ty :=
  mk_ty ["a"; "Ph"] [mk_tparam "T" (Some t); mk_tparam "U" (Some u); mk_tparam "V" (Some v)]
        (TDComposite [pe_fld "x" x "Vec<T>"; pe_fld "n" 5 "u32"]) [].
Definition ex8_reg : registry :=
  [(0, ex8_ph 1 2 3 4); (1, pe_prim PU16); (2, pe_prim PBool); (3, pe_prim PU8); (4, pe_seq 1);
   (5, mk_ty [] [] (TDCompact 6) []); (6, pe_prim PU32); (7, ex8_ph 2 3 1 8); (8, pe_seq 2)].
Definition ex8_labels : list (option src) :=
  [Some (SApp 0 [SPrimT PU16; SPrimT PBool; SPrimT PU8]); Some (SPrimT PU16); Some (SPrimT PBool); Some (SPrimT PU8);
   Some (SVec (SPrimT PU16)); Some (SCompactT (SPrimT PU32)); Some (SPrimT PU32);
   Some (SApp 0 [SPrimT PBool; SPrimT PU8; SPrimT PU16]); Some (SVec (SPrimT PBool))].
Definition ex8_s : settings :=
  mk_settings "root" false dreg_empty [] None None (Some [":"; ":"; "codec"; ":"; ":"; "Compact"]) true AStd.
Definition ex8_otp : bool -> tpath := order_tp_of ex8_s.

(** ** ex9: an enum with an unused parameter - the [__Ignore] variant; tuple / named / unit variants,
    an explicit [Compact<u32>] field, a boxed field:
    [a::En<T, U> { A(T, Box<Vec<T>>) = 0, B { n: Compact<u32> } = 1, C = 5 }] at [(u16, bool)] and [(bool, u16)] *)
Definition ex9_defs : list sdef :=
  [mk_sdef ["a"; "En"] [("T", false); ("U", false)]
     (SBEnum [("A", 0, [mk_sfield None (SParam 0) false true;
                         mk_sfield None (SBox (SVec (SParam 0))) false true]);
              ("B", 1, [mk_sfield (Some "n") (SCompactT (SPrimT PU32)) false true]);
              ("C", 5, [])])].
Definition ex9_sd : sdef := nth 0 ex9_defs pe_default.
Definition ex9_en (t u v : N) : ty :=
  mk_ty ["a"; "En"] [mk_tparam "T" (Some t); mk_tparam "U" (Some u)]
        (TDVariant [mk_variant "A" [pe_ufld t "T"; pe_ufld v "Box<Vec<T>>"] 0 [];
                    mk_variant "B" [pe_fld "n" 3 "Compact<u32>"] 1 [];
                    mk_variant "C" [] 5 []]) [].
Definition ex9_reg : registry :=
  [(0, ex9_en 1 2 5); (1, pe_prim PU16); (2, pe_prim PBool); (3, mk_ty [] [] (TDCompact 4) []); (4, pe_prim PU32);
   (5, pe_seq 1); (6, ex9_en 2 1 7); (7, pe_seq 2)].
Definition ex9_labels : list (option src) :=
  [Some (SApp 0 [SPrimT PU16; SPrimT PBool]); Some (SPrimT PU16); Some (SPrimT PBool);
   Some (SCompactT (SPrimT PU32)); Some (SPrimT PU32); Some (SVec (SPrimT PU16));
   Some (SApp 0 [SPrimT PBool; SPrimT PU16]); Some (SVec (SPrimT PBool))].
