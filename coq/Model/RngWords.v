(** The random generator as a *word stream* (shared by C12 and C14).

    [ChaCha8Rng::seed_from_u64(seed)] (rand_chacha 0.3.1) is an oracle: the
    harness calls [next_u32()] K times on a freshly seeded generator and hands
    the K words to the model.  Everything *above* [next_u32] -- how rand 0.8.5
    turns words into typed values -- is modelled here exactly:

    - [Standard] for u8/u16/u32: one word, truncated ([rng.next_u32() as u8] ...)
    - [Standard] for u64: [BlockRng::next_u64] = two consecutive words, low first
      (also across a block boundary: the three branches of rand_core 0.6.4
      block.rs:197-219 all read consecutive words of the stream)
    - [Standard] for u128: [x = next_u64; y = next_u64; (y << 64) | x]
    - signed: [rng.gen::<uN>() as iN]   (integer.rs, [impl_int_from_uint])
    - bool: [(rng.next_u32() as i32) < 0] = the top bit of one word
    - [[u8; 32]]: 32 successive [gen::<u8>()] (other.rs, array impl)
    - [gen_range(lo..hi)] for u32/i32 and [slice.choose] ([gen_index] ->
      [gen_range(0..len as u32)]): [UniformInt::sample_single_inclusive] with
      the widening multiply and the rejection loop (uniform.rs:519-554).

    Running out of supplied words is the explicit outcome [NoWords]; the
    rejection loop recurses structurally on the word list (no fuel). *)
From Coq Require Import List NArith ZArith Bool.
Import ListNotations.
Open Scope N_scope.

Definition words := list N.

Inductive draw (A : Type) :=
| Drawn (a : A) (rest : words)
| NoWords.
Arguments Drawn {A} a rest.
Arguments NoWords {A}.

Definition rng (A : Type) := words -> draw A.

Definition rng_ret {A} (a : A) : rng A := fun ws => Drawn a ws.
Definition rng_bind {A B} (x : rng A) (f : A -> rng B) : rng B :=
  fun ws => match x ws with
            | Drawn a ws' => f a ws'
            | NoWords => NoWords
            end.
Definition rng_map {A B} (f : A -> B) (x : rng A) : rng B := rng_bind x (fun a => rng_ret (f a)).

Declare Scope rng_scope.
Notation "'let+' x ':=' c1 'in' c2" := (rng_bind c1 (fun x => c2))
  (at level 61, x pattern, c1 at next level, right associativity) : rng_scope.
Open Scope rng_scope.

Definition two32 : N := 4294967296.
Definition two31 : N := 2147483648.
Definition two64 : N := 18446744073709551616.

(** [RngCore::next_u32]: the next word.  Words are reduced mod 2^32 so that
    every range statement holds for an arbitrary list of numbers (the harness
    only supplies genuine 32-bit words, on which this is the identity). *)
Definition next_u32 : rng N :=
  fun ws => match ws with
            | w :: rest => Drawn (w mod two32) rest
            | [] => NoWords
            end.

(** two's-complement reinterpretation [x as iN] of an unsigned [bits]-bit number *)
Definition to_signed (bits : N) (n : N) : Z :=
  if n <? 2 ^ (bits - 1) then Z.of_N n else (Z.of_N n - Z.of_N (2 ^ bits))%Z.

Definition gen_u8 : rng N := rng_map (fun w => w mod 256) next_u32.
Definition gen_u16 : rng N := rng_map (fun w => w mod 65536) next_u32.
Definition gen_u32 : rng N := next_u32.
Definition gen_u64 : rng N :=
  let+ lo := next_u32 in let+ hi := next_u32 in rng_ret (lo + hi * two32).
Definition gen_u128 : rng N :=
  let+ x := gen_u64 in let+ y := gen_u64 in rng_ret (x + y * two64).

Definition gen_i8 : rng Z := rng_map (to_signed 8) gen_u8.
Definition gen_i16 : rng Z := rng_map (to_signed 16) gen_u16.
Definition gen_i32 : rng Z := rng_map (to_signed 32) gen_u32.
Definition gen_i64 : rng Z := rng_map (to_signed 64) gen_u64.
Definition gen_i128 : rng Z := rng_map (to_signed 128) gen_u128.

Definition gen_bool : rng bool := rng_map (fun w => two31 <=? w) next_u32.

(** [n] successive draws, in order ([n] is a small constant at every use) *)
Fixpoint gen_repeat {A} (n : nat) (g : rng A) : rng (list A) :=
  match n with
  | O => rng_ret []
  | S n' => let+ x := g in let+ xs := gen_repeat n' g in rng_ret (x :: xs)
  end.

(** [Standard] for [[u8; 32]] *)
Definition gen_bytes32 : rng (list N) := gen_repeat 32 gen_u8.

(** the rejection loop of [sample_single_inclusive] for [$u_large = u32]:
    [v = rng.gen::<u32>(); (hi, lo) = v.wmul(range); if lo <= zone return hi] *)
Fixpoint sample_loop (range zone : N) (ws : words) : draw N :=
  match ws with
  | [] => NoWords
  | w :: rest =>
      let m := (w mod two32) * range in
      let hi := m / two32 in
      let lo := m mod two32 in
      if lo <=? zone then Drawn hi rest else sample_loop range zone rest
  end.

(** [(range << range.leading_zeros()).wrapping_sub(1)] for a 32-bit [range > 0] *)
Definition zone32 (range : N) : N := N.shiftl range (32 - N.size range) - 1.

(** [UniformInt<u32>::sample_single_inclusive(low, high)] with
    [range = high - low + 1] (mod 2^32) given directly; [range = 0] is the
    full 32-bit range.  Returns the offset [hi] to be added to [low]. *)
Definition sample_u32 (range : N) : rng N :=
  if range =? 0 then gen_u32 else sample_loop range (zone32 range).

(** [seq::gen_index(rng, ubound)] for [0 < ubound <= u32::MAX]:
    [rng.gen_range(0..ubound as u32)].  (For [ubound > u32::MAX] rand samples a
    [usize]; no slice in this code base is that long -- the constant slices
    have 4 and 7 elements and a registry's variant list lives in memory.) *)
Definition gen_index (ubound : N) : rng N := sample_u32 (ubound mod two32).

(** [slice.choose(rng)]: [None] on the empty slice (no word consumed) *)
Definition choose {A} (l : list A) : rng (option A) :=
  match l with
  | [] => rng_ret None
  | _ => let+ i := gen_index (N.of_nat (length l)) in rng_ret (nth_error l (N.to_nat i))
  end.

(** [rng.gen_range(lo..hi)] at type i32 ([lo < hi], both in the i32 range;
    Rust asserts [lo < hi] -- callers here pass constants).
    [range = (hi - 1).wrapping_sub(lo).wrapping_add(1) as u32]; result
    [lo.wrapping_add(hi_part as i32)]. *)
Definition wrap_i32 (z : Z) : Z := to_signed 32 (Z.to_N (z mod Z.of_N two32)).
Definition gen_range_i32 (lo hi : Z) : rng Z :=
  let range := Z.to_N ((hi - lo) mod Z.of_N two32) in
  let+ off := sample_u32 range in rng_ret (wrap_i32 (lo + Z.of_N off)).

(** [rng.gen_range(lo..hi)] at type u32 ([lo < hi < 2^32]) *)
Definition gen_range_u32 (lo hi : N) : rng N :=
  let+ off := sample_u32 ((hi - lo) mod two32) in rng_ret ((lo + off) mod two32).

(** ** Scripted draws, used by the correspondence harness to validate this
    file directly against the real crates (tag [corr_rng]) *)
Inductive rng_op :=
| OpU8 | OpU16 | OpU32 | OpU64 | OpU128
| OpI8 | OpI16 | OpI32 | OpI64 | OpI128
| OpBool | OpBytes32
| OpChoose (len : N)          (* index chosen by [slice.choose] on a slice of [len] elements; -1 for None *)
| OpRangeI32 (lo hi : Z)
| OpRangeU32 (lo hi : N).

Definition run_op (o : rng_op) : rng (list Z) :=
  match o with
  | OpU8 => rng_map (fun n => [Z.of_N n]) gen_u8
  | OpU16 => rng_map (fun n => [Z.of_N n]) gen_u16
  | OpU32 => rng_map (fun n => [Z.of_N n]) gen_u32
  | OpU64 => rng_map (fun n => [Z.of_N n]) gen_u64
  | OpU128 => rng_map (fun n => [Z.of_N n]) gen_u128
  | OpI8 => rng_map (fun z => [z]) gen_i8
  | OpI16 => rng_map (fun z => [z]) gen_i16
  | OpI32 => rng_map (fun z => [z]) gen_i32
  | OpI64 => rng_map (fun z => [z]) gen_i64
  | OpI128 => rng_map (fun z => [z]) gen_i128
  | OpBool => rng_map (fun b : bool => [if b then 1%Z else 0%Z]) gen_bool
  | OpBytes32 => rng_map (map Z.of_N) gen_bytes32
  | OpChoose len =>
      if len =? 0 then rng_ret [(-1)%Z] else rng_map (fun n => [Z.of_N n]) (gen_index len)
  | OpRangeI32 lo hi => rng_map (fun z => [z]) (gen_range_i32 lo hi)
  | OpRangeU32 lo hi => rng_map (fun n => [Z.of_N n]) (gen_range_u32 lo hi)
  end.

Fixpoint run_script (ops : list rng_op) : rng (list (list Z)) :=
  match ops with
  | [] => rng_ret []
  | o :: ops' => let+ x := run_op o in let+ xs := run_script ops' in rng_ret (x :: xs)
  end.

(** number of words a computation consumed *)
Definition consumed {A} (ws : words) (d : draw A) : option N :=
  match d with
  | Drawn _ rest => Some (N.of_nat (length ws - length rest))
  | NoWords => None
  end.
