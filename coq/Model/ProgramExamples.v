(** Concrete programs and their registries for the C05 / C04 theorems (definitions only). *)
From Coq Require Import List NArith String Bool.
From V Require Import Base.Result Model.Registry Model.Settings Model.Subst Model.TypePath Model.Generate
  Model.Program Model.ProgramSkel Model.ProgramTeq.
Import ListNotations.
Open Scope string_scope. Open Scope N_scope.

Definition pe_default : sdef := mk_sdef [] [] (SBStruct []).
Definition pe_fld (n : string) (ty : N) (tn : string) : field := mk_field (Some n) ty (Some tn) [].
Definition pe_ufld (ty : N) (tn : string) : field := mk_field None ty (Some tn) [].
Definition pe_prim (p : prim) : ty := mk_ty [] [] (TDPrimitive p) [].

(** ** ex6: an enum over Option / BTreeMap / a bit sequence / Cow:
    [a::Bar<T> { A(Option<T>, BTreeMap<u8, T>), B { bits: BitVec<u8, Lsb0>, c: Cow<'static, Vec<T>> } }]
    at [u16] and at [bool] *)
Definition ex6_defs : list sdef :=
  [mk_sdef ["a"; "Bar"] [("T", false)]
     (SBEnum [("A", 0, [mk_sfield None (SOpt (SParam 0)) false true;
                         mk_sfield None (SBTreeMap (SPrimT PU8) (SParam 0)) false true]);
              ("B", 1, [mk_sfield (Some "bits") (SBitVec PU8 true) false true;
                         mk_sfield (Some "c") (SCow (SVec (SParam 0))) false true])])].
Definition ex6_sd : sdef := nth 0 ex6_defs pe_default.

Definition ex6_bar (a o m c : N) : ty :=
  mk_ty ["a"; "Bar"] [mk_tparam "T" (Some a)]
        (TDVariant [mk_variant "A" [pe_ufld o "Option<T>"; pe_ufld m "BTreeMap<u8, T>"] 0 [];
                    mk_variant "B" [pe_fld "bits" 7 "BitVec<u8, Lsb0>"; pe_fld "c" c "Cow<'static, Vec<T>>"] 1 []]) [].
Definition ex6_opt (e : N) : ty :=
  mk_ty ["Option"] [mk_tparam "T" (Some e)]
        (TDVariant [mk_variant "None" [] 0 []; mk_variant "Some" [plain_field e] 1 []]) [].
Definition ex6_map (k v sq : N) : ty :=
  mk_ty ["BTreeMap"] [mk_tparam "K" (Some k); mk_tparam "V" (Some v)] (TDComposite [plain_field sq]) [].
Definition ex6_cow (e : N) : ty := mk_ty ["Cow"] [mk_tparam "T" (Some e)] (TDComposite [plain_field e]) [].

Definition ex6_reg : registry :=
  [(0, ex6_bar 1 2 3 10); (1, pe_prim PU16); (2, ex6_opt 1); (3, ex6_map 4 1 5); (4, pe_prim PU8);
   (5, mk_ty [] [] (TDSequence 6) []); (6, mk_ty [] [] (TDTuple [4; 1]) []);
   (7, mk_ty [] [] (TDBitSeq 4 8) []); (8, mk_ty ["bitvec"; "order"; "Lsb0"] [] (TDComposite []) []);
   (9, mk_ty [] [] (TDSequence 1) []); (10, ex6_cow 9);
   (11, ex6_bar 12 13 14 18); (12, pe_prim PBool); (13, ex6_opt 12); (14, ex6_map 4 12 15);
   (15, mk_ty [] [] (TDSequence 16) []); (16, mk_ty [] [] (TDTuple [4; 12]) []);
   (17, mk_ty [] [] (TDSequence 12) []); (18, ex6_cow 17)].

Definition ex6_labels : list (option src) :=
  [Some (SApp 0 [SPrimT PU16]); Some (SPrimT PU16); Some (SOpt (SPrimT PU16));
   Some (SBTreeMap (SPrimT PU8) (SPrimT PU16)); Some (SPrimT PU8);
   Some (SVec (STup [SPrimT PU8; SPrimT PU16])); Some (STup [SPrimT PU8; SPrimT PU16]);
   Some (SBitVec PU8 true); None; Some (SVec (SPrimT PU16)); Some (SCow (SVec (SPrimT PU16)));
   Some (SApp 0 [SPrimT PBool]); Some (SPrimT PBool); Some (SOpt (SPrimT PBool));
   Some (SBTreeMap (SPrimT PU8) (SPrimT PBool));
   Some (SVec (STup [SPrimT PU8; SPrimT PBool])); Some (STup [SPrimT PU8; SPrimT PBool]);
   Some (SVec (SPrimT PBool)); Some (SCow (SVec (SPrimT PBool)))].

Definition ex6_s : settings :=
  mk_settings "root" false dreg_empty [] (Some [":"; ":"; "bits"; ":"; ":"; "DecodedBits"]) None
              (Some [":"; ":"; "codec"; ":"; ":"; "Compact"]) true AStd.
Definition ex6_otp : bool -> tpath := order_tp_of ex6_s.

(** ** ex7: a definition of the [types_equal] completeness fragment:
    [a::Pt<T> { x: T, ys: Vec<T>, p: (T, u8), o: Option<u32>, m: Option<T>, e: Result<T, u8>, g: Range<T> }]
    at [u16] and at [bool] *)
Definition ex7_defs : list sdef :=
  [mk_sdef ["a"; "Pt"] [("T", false)]
     (SBStruct [mk_sfield (Some "x") (SParam 0) false true;
                mk_sfield (Some "ys") (SVec (SParam 0)) false true;
                mk_sfield (Some "p") (STup [SParam 0; SPrimT PU8]) false true;
                mk_sfield (Some "o") (SOpt (SPrimT PU32)) false true;
                mk_sfield (Some "m") (SOpt (SParam 0)) false true;
                mk_sfield (Some "e") (SRes (SParam 0) (SPrimT PU8)) false true;
                mk_sfield (Some "g") (SRange (SParam 0)) false true])].
Definition ex7_sd : sdef := nth 0 ex7_defs pe_default.
Definition ex7_pt (a v p m e g : N) : ty :=
  mk_ty ["a"; "Pt"] [mk_tparam "T" (Some a)]
        (TDComposite [pe_fld "x" a "T"; pe_fld "ys" v "Vec<T>"; pe_fld "p" p "(T, u8)"; pe_fld "o" 5 "Option<u32>";
                      pe_fld "m" m "Option<T>"; pe_fld "e" e "Result<T, u8>"; pe_fld "g" g "Range<T>"]) [].
Definition ex7_res (a b : N) : ty :=
  mk_ty ["Result"] [mk_tparam "T" (Some a); mk_tparam "E" (Some b)]
        (TDVariant [mk_variant "Ok" [plain_field a] 0 []; mk_variant "Err" [plain_field b] 1 []]) [].
Definition ex7_range (a : N) : ty :=
  mk_ty ["Range"] [mk_tparam "Idx" (Some a)]
        (TDComposite [mk_field (Some "start") a (Some "Idx") []; mk_field (Some "end") a (Some "Idx") []]) [].
Definition ex7_reg : registry :=
  [(0, ex7_pt 1 2 3 7 8 9); (1, pe_prim PU16); (2, mk_ty [] [] (TDSequence 1) []); (3, mk_ty [] [] (TDTuple [1; 4]) []);
   (4, pe_prim PU8); (5, ex6_opt 6); (6, pe_prim PU32); (7, ex6_opt 1); (8, ex7_res 1 4); (9, ex7_range 1);
   (10, ex7_pt 11 12 13 14 15 16); (11, pe_prim PBool); (12, mk_ty [] [] (TDSequence 11) []);
   (13, mk_ty [] [] (TDTuple [11; 4]) []); (14, ex6_opt 11); (15, ex7_res 11 4); (16, ex7_range 11)].
Definition ex7_labels : list (option src) :=
  [Some (SApp 0 [SPrimT PU16]); Some (SPrimT PU16); Some (SVec (SPrimT PU16)); Some (STup [SPrimT PU16; SPrimT PU8]);
   Some (SPrimT PU8); Some (SOpt (SPrimT PU32)); Some (SPrimT PU32); Some (SOpt (SPrimT PU16));
   Some (SRes (SPrimT PU16) (SPrimT PU8)); Some (SRange (SPrimT PU16));
   Some (SApp 0 [SPrimT PBool]); Some (SPrimT PBool); Some (SVec (SPrimT PBool)); Some (STup [SPrimT PBool; SPrimT PU8]);
   Some (SOpt (SPrimT PBool)); Some (SRes (SPrimT PBool) (SPrimT PU8)); Some (SRange (SPrimT PBool))].

(** ** f19: [types_equal] is incomplete on instantiations that are coincidence-free in the sense
    of [instantiation_cf] (which looks at the source field types of ONE definition only):
    [a::D<T, U> { a: Wrap<T>, b: U }], [a::Wrap<X> { v: Vec<X> }] at [(u8, Vec<u8>)] and
    [(u16, Vec<u16>)] - inside [Wrap<u8>] the field type [Vec<u8>] is the id bound to the OUTER
    parameter [U] on both sides, its recorded name ["Vec<X>"] is no parameter name *)
Definition f19_defs : list sdef :=
  [mk_sdef ["a"; "D"] [("T", false); ("U", false)]
     (SBStruct [mk_sfield (Some "a") (SApp 1 [SParam 0]) false true; mk_sfield (Some "b") (SParam 1) false true]);
   mk_sdef ["a"; "Wrap"] [("X", false)] (SBStruct [mk_sfield (Some "v") (SVec (SParam 0)) false true])].
Definition f19_d (t u w : N) : ty :=
  mk_ty ["a"; "D"] [mk_tparam "T" (Some t); mk_tparam "U" (Some u)] (TDComposite [pe_fld "a" w "Wrap<T>"; pe_fld "b" u "U"]) [].
Definition f19_w (x v : N) : ty := mk_ty ["a"; "Wrap"] [mk_tparam "X" (Some x)] (TDComposite [pe_fld "v" v "Vec<X>"]) [].
Definition f19_reg : registry :=
  [(0, f19_d 1 2 3); (1, pe_prim PU8); (2, mk_ty [] [] (TDSequence 1) []); (3, f19_w 1 2);
   (4, f19_d 5 6 7); (5, pe_prim PU16); (6, mk_ty [] [] (TDSequence 5) []); (7, f19_w 5 6)].
Definition f19_labels : list (option src) :=
  [Some (SApp 0 [SPrimT PU8; SVec (SPrimT PU8)]); Some (SPrimT PU8); Some (SVec (SPrimT PU8)); Some (SApp 1 [SPrimT PU8]);
   Some (SApp 0 [SPrimT PU16; SVec (SPrimT PU16)]); Some (SPrimT PU16); Some (SVec (SPrimT PU16)); Some (SApp 1 [SPrimT PU16])].
Definition f19_s : settings := mk_settings "root" false dreg_empty [] None None None true AStd.

(** ** f19b: a second way [types_equal] is incomplete on coincidence-free instantiations, without
    nested definitions: the registry entry of [BTreeMap<K, V>] has a hidden field of type
    [Vec<(K, V)>], which is no component of the source field type.
    [a::D<T, U> { m: BTreeMap<u8, T>, w: Vec<U> }] at [(u16, Vec<(u8, u16)>)] and [(bool, Vec<u32>)]:
    while comparing the two maps the id of [Vec<(u8, u16)>] enters the left visited set; at
    [w: Vec<U>] the element ids are (argument U on the left = that id: seen) and ([Vec<u32>]: not
    seen), and the both-or-neither-visited rule answers "different" *)
Definition f19b_defs : list sdef :=
  [mk_sdef ["a"; "D"] [("T", false); ("U", false)]
     (SBStruct [mk_sfield (Some "m") (SBTreeMap (SPrimT PU8) (SParam 0)) false true;
                mk_sfield (Some "w") (SVec (SParam 1)) false true])].
Definition f19b_d (t u m w : N) : ty :=
  mk_ty ["a"; "D"] [mk_tparam "T" (Some t); mk_tparam "U" (Some u)]
        (TDComposite [pe_fld "m" m "BTreeMap<u8, T>"; pe_fld "w" w "Vec<U>"]) [].
Definition pe_seq (e : N) : ty := mk_ty [] [] (TDSequence e) [].
Definition f19b_reg : registry :=
  [(0, f19b_d 1 2 3 6); (1, pe_prim PU16); (2, pe_seq 4); (3, ex6_map 5 1 2); (4, mk_ty [] [] (TDTuple [5; 1]) []);
   (5, pe_prim PU8); (6, pe_seq 2);
   (7, f19b_d 8 9 10 13); (8, pe_prim PBool); (9, pe_seq 14); (10, ex6_map 5 8 11); (11, pe_seq 12);
   (12, mk_ty [] [] (TDTuple [5; 8]) []); (13, pe_seq 9); (14, pe_prim PU32)].
Definition f19b_args1 : list src := [SPrimT PU16; SVec (STup [SPrimT PU8; SPrimT PU16])].
Definition f19b_args2 : list src := [SPrimT PBool; SVec (SPrimT PU32)].
Definition f19b_labels : list (option src) :=
  [Some (SApp 0 f19b_args1); Some (SPrimT PU16); Some (SVec (STup [SPrimT PU8; SPrimT PU16]));
   Some (SBTreeMap (SPrimT PU8) (SPrimT PU16)); Some (STup [SPrimT PU8; SPrimT PU16]); Some (SPrimT PU8);
   Some (SVec (SVec (STup [SPrimT PU8; SPrimT PU16])));
   Some (SApp 0 f19b_args2); Some (SPrimT PBool); Some (SVec (SPrimT PU32));
   Some (SBTreeMap (SPrimT PU8) (SPrimT PBool)); Some (SVec (STup [SPrimT PU8; SPrimT PBool]));
   Some (STup [SPrimT PU8; SPrimT PBool]); Some (SVec (SVec (SPrimT PU32))); Some (SPrimT PU32)].
