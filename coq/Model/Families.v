(** C17 for same-path families and recursive derives: the hypotheses of the
    theorem (definitions only; nothing of the validated model is changed).

    [skeleton_consistent] (Model/Shape.v) compares IRs with ids AND docs erased.
    The kept item of a same-path family carries the docs of whichever member is
    FIRST, so token identity under renumbering additionally needs the members'
    docs to agree (or docs off): [docs_consistent].  The derive sets of a path are
    unions of lists accumulated in registry order; emission sorts them by key, so
    token identity needs equal keys to carry equal tokens: [derives_functional]. *)
From Coq Require Import List NArith String Bool.
From V Require Import Base.Util Base.Strings Base.Result Model.Registry Model.Settings Model.Subst
  Model.TypePath Model.Derives Model.Generate Model.Shape.
Import ListNotations.
Open Scope string_scope. Open Scope list_scope.

(** the doc strings the generator copies into an item: the type's and, per variant, the variant's *)
Definition entry_docs (t : ty) : list string * list (list string) :=
  (t_docs t, match t_def t with TDVariant vs => map v_docs vs | _ => [] end).

(** with docs on, every item-eligible entry has the docs of the first entry with its path *)
Definition docs_consistent (r : registry) (s : settings) : Prop :=
  s_docs s = true ->
  forall id X id0 X0,
    In (id, X) r -> item_eligible s X = true ->
    first_eligible r s (t_path X) = Some (id0, X0) ->
    entry_docs X = entry_docs X0.

Definition entry_docs_eqb (a b : ty) : bool :=
  list_eqb String.eqb (fst (entry_docs a)) (fst (entry_docs b)) &&
  list_eqb (list_eqb String.eqb) (snd (entry_docs a)) (snd (entry_docs b)).

Definition docs_consistentb (r : registry) (s : settings) : bool :=
  negb (s_docs s) ||
  forallb (fun e =>
             if item_eligible s (snd e) then
               match first_eligible r s (t_path (snd e)) with
               | Some e0 => entry_docs_eqb (snd e) (snd e0)
               | None => false
               end
             else true) r.

(** the docs recorded in an IR *)
Definition ir_docs (ir : type_ir) : list string * list (list string) :=
  match ti_kind ir with
  | KStruct c => (ci_docs c, [])
  | KEnum _ d vs => (d, map (fun x => ci_docs (snd x)) vs)
  end.

(** every derive path / attribute the settings can hand to a type *)
Definition kmap_all (proj : derives -> list kt) (m : kmap) : list kt := flat_map (fun e => proj (snd e)) m.

Definition all_of (proj : derives -> list kt) (s : settings) : list kt :=
  proj (dr_default (s_dreg s)) ++ kmap_all proj (dr_specific (s_dreg s)) ++
  kmap_all proj (dr_recursive (s_dreg s)).

Definition all_derives (s : settings) : list kt :=
  all_of d_derives s ++ match s_compact_as s with Some k => [k] | None => [] end.
Definition all_attrs (s : settings) : list kt := all_of d_attrs s.

(** equal keys carry equal tokens, over everything the settings contain
    ([key_functional] of Proofs/SortDedup.v, restated here on the two lists) *)
Definition kt_functional (l : list kt) : Prop :=
  forall x y, In x l -> In y l -> fst x = fst y -> x = y.
Definition derives_functional (s : settings) : Prop :=
  kt_functional (all_derives s) /\ kt_functional (all_attrs s).

Definition kt_eqb (x y : kt) : bool := String.eqb (fst x) (fst y) && list_eqb String.eqb (snd x) (snd y).
Definition kt_functionalb (l : list kt) : bool :=
  forallb (fun x => forallb (fun y => negb (String.eqb (fst x) (fst y)) || kt_eqb x y) l) l.
Definition derives_functionalb (s : settings) : bool :=
  kt_functionalb (all_derives s) && kt_functionalb (all_attrs s).
