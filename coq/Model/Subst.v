(** typegen/src/typegen/settings/substitutes.rs: printing of user paths,
    [parse_path_param_mapping], [replace_path_params_recursively]. *)
From Coq Require Import List NArith String Bool.
From V Require Import Base.Strings Model.Settings.
Import ListNotations.
Open Scope string_scope. Open Scope list_scope.

Definition colon2 : tokens := [":"; ":"].

(** [syn] printing of a path ([Path::to_tokens]); paths come from the harness
    without lifetimes, turbofish or trailing commas.  A [qself] is not printed
    (the generators never produce one). *)
Fixpoint print_gtype (t : gtype) : tokens :=
  match t with
  | GTPath _ lead segs =>
      (if lead then colon2 else []) ++
      (fix go (l : list (string * pargs)) (first : bool) : tokens :=
         match l with
         | [] => []
         | (id, a) :: l' => (if first then [] else colon2) ++ id :: print_pargs a ++ go l' false
         end) segs true
  | GTOther toks => toks
  end
with print_pargs (a : pargs) : tokens :=
  match a with
  | ANone => []
  | AAngle args =>
      "<" :: (fix go (l : list garg) (first : bool) : tokens :=
                match l with
                | [] => []
                | g :: l' => (if first then [] else [","]) ++ print_garg g ++ go l' false
                end) args true ++ [">"]
  | AParen toks => toks
  end
with print_garg (g : garg) : tokens :=
  match g with
  | GType t => print_gtype t
  | GOther toks => toks
  end.

Definition print_spath (p : spath) : tokens := print_gtype (GTPath false (sp_leading p) (sp_segs p)).

Definition pargs_is_empty (a : pargs) : bool :=
  match a with ANone => true | AAngle [] => true | _ => false end.

(** [get_ident_from_type_path] *)
Definition get_ident (t : gtype) : option string :=
  match t with
  | GTPath false false [(id, a)] => if pargs_is_empty a then Some id else None
  | _ => None
  end.

Inductive suberr :=
| SEmptySubstitutePath | SExpectedAngleBracketGenerics | SInvalidFromType | SInvalidToType
| SExpectedAbsolutePath.

Definition suberr_eqb (a b : suberr) : bool :=
  match a, b with
  | SEmptySubstitutePath, SEmptySubstitutePath
  | SExpectedAngleBracketGenerics, SExpectedAngleBracketGenerics
  | SInvalidFromType, SInvalidFromType | SInvalidToType, SInvalidToType
  | SExpectedAbsolutePath, SExpectedAbsolutePath => true
  | _, _ => false
  end.

Definition last_args (p : spath) : option pargs :=
  match sp_segs p with [] => None | l => Some (snd (last l ("", ANone))) end.

(** first failing element wins ([collect::<Result<Vec<_>,_>>]) *)
Fixpoint from_args (l : list garg) : option (list string) :=
  match l with
  | [] => Some []
  | GType t :: l' =>
      match get_ident t with
      | Some id => match from_args l' with Some r => Some (id :: r) | None => None end
      | None => None
      end
  | GOther _ :: _ => None
  end.

Definition to_arg_valid (g : garg) : bool :=
  match g with GType (GTPath _ _ _) => true | _ => false end.

Fixpoint enumerate {A} (i : nat) (l : list A) : list (A * nat) :=
  match l with [] => [] | x :: l' => (x, i) :: enumerate (S i) l' end.

Definition parse_mapping (src tgt : spath) : sum suberr mapping :=
  match last_args src with
  | None => inl SEmptySubstitutePath
  | Some sa =>
    match last_args tgt with
    | None => inl SEmptySubstitutePath
    | Some ta =>
      let source_args :=
        match sa with
        | ANone => inr []
        | AAngle args => match from_args args with Some l => inr l | None => inl SInvalidFromType end
        | AParen _ => inl SExpectedAngleBracketGenerics
        end in
      match source_args with
      | inl e => inl e
      | inr sargs =>
        let target_args :=
          match ta with
          | ANone => inr 0%nat
          | AAngle args => if forallb to_arg_valid args then inr (List.length args) else inl SInvalidToType
          | AParen _ => inl SExpectedAngleBracketGenerics
          end in
        match target_args with
        | inl e => inl e
        | inr ntargs =>
            match sargs, ntargs with
            | [], O => inr PassThrough
            | _, _ => inr (Specified (enumerate 0 sargs))
            end
        end
      end
    end
  end.

Definition path_segments (p : spath) : list string := map fst (sp_segs p).

Definition is_absolute (p : spath) : bool :=
  sp_leading p || match sp_segs p with (id, _) :: _ => String.eqb id "crate" | [] => false end.

(** [replace_path_params_recursively]: [params] maps a source parameter name
    to the token rendering of the resolved argument; first match wins. *)
Fixpoint assoc_str {A} (l : list (string * A)) (k : string) : option A :=
  match l with
  | [] => None
  | (k', v) :: l' => if String.eqb k k' then Some v else assoc_str l' k
  end.

Fixpoint replace_gtype_segs (params : list (string * tokens)) (t : gtype) : gtype :=
  match t with
  | GTPath q lead segs =>
      GTPath q lead
        ((fix go (l : list (string * pargs)) : list (string * pargs) :=
            match l with
            | [] => []
            | (id, a) :: l' => (id, replace_pargs params a) :: go l'
            end) segs)
  | GTOther toks => GTOther toks
  end
with replace_pargs (params : list (string * tokens)) (a : pargs) : pargs :=
  match a with
  | AAngle args =>
      AAngle ((fix go (l : list garg) : list garg :=
                 match l with
                 | [] => []
                 | g :: l' => replace_garg params g :: go l'
                 end) args)
  | _ => a
  end
with replace_garg (params : list (string * tokens)) (g : garg) : garg :=
  match g with
  | GType t =>
      match t with
      | GTPath _ _ _ =>
          match match get_ident t with
                | Some id => assoc_str params id
                | None => None
                end with
          | Some repl => GType (GTOther repl)
          | None => GType (replace_gtype_segs params t)
          end
      | GTOther _ => g
      end
  | GOther _ => g
  end.

Definition replace_segs (params : list (string * tokens)) (segs : list (string * pargs))
  : list (string * pargs) :=
  match replace_gtype_segs params (GTPath false false segs) with
  | GTPath _ _ segs' => segs'
  | GTOther _ => segs
  end.

Definition replace_spath (params : list (string * tokens)) (p : spath) : spath :=
  mk_spath (sp_leading p) (replace_segs params (sp_segs p)).
