(** Independent reading of a description text (C13): a tokenizer of the text
    and a description *tree* read off the registry -- the lockstep relation as
    a function over tokens.  Written without reference to Model/Describe.v's
    string functions; used by the run-time checkers on the OBSERVED texts
    (Corr/RunC13.v) and by the lockstep theorem (Proofs/DescribeLockstep.v). *)
From Coq Require Import List NArith String Bool Ascii.
From V Require Import Base.Util Base.Strings Model.Registry.
Import ListNotations.
Open Scope string_scope.

(** ** tokens of a description text: words and single punctuation characters;
    spaces and newlines only separate *)
Inductive tok := W (s : string) | P (c : ascii).

Definition tok_eqb (a b : tok) : bool :=
  match a, b with
  | W x, W y => String.eqb x y
  | P x, P y => Ascii.eqb x y
  | _, _ => false
  end.

Definition is_punct (c : ascii) : bool :=
  existsb (Ascii.eqb c) ["{"; "}"; "("; ")"; "<"; ">"; "["; "]"; ","; ":"; ";"]%char.
Definition is_space (c : ascii) : bool := Ascii.eqb c " "%char || Ascii.eqb c "010"%char.

Definition rev_string (l : list ascii) : string :=
  fold_left (fun s c => String c s) l EmptyString.
Definition flush (w : list ascii) (acc : list tok) : list tok :=
  match w with [] => acc | _ => W (rev_string w) :: acc end.

(** [w]: current word, reversed; [acc]: tokens so far, reversed *)
Fixpoint tokens_from (s : string) (w : list ascii) (acc : list tok) : list tok :=
  match s with
  | EmptyString => rev (flush w acc)
  | String c s' =>
      if is_space c then tokens_from s' [] (flush w acc)
      else if is_punct c then tokens_from s' [] (P c :: flush w acc)
      else tokens_from s' (c :: w) acc
  end.
Definition tokens (s : string) : list tok := tokens_from s [] [].

(** ** the description tree, read off the registry (lockstep relation) *)
Inductive dtree :=
| DPrim (p : prim)
| DVec (e : dtree)
| DArr (len : N) (e : dtree)
| DTuple (es : list dtree)
| DCompact (e : dtree)
| DBits (order store : dtree)
| DRef (name : list tok)
| DStruct (name : list tok) (fs : list (option string * bool * dtree))
| DEnum (name : list tok) (vs : list (string * list (option string * bool * dtree))).

Fixpoint sep_by {A} (sep : list A) (l : list (list A)) : list A :=
  match l with
  | [] => []
  | [x] => x
  | x :: l' => x ++ sep ++ sep_by sep l'
  end.

Definition comma : list tok := [P ","%char].
Definition angle (l : list tok) : list tok := P "<"%char :: l ++ [P ">"%char].
Definition paren (l : list tok) : list tok := P "("%char :: l ++ [P ")"%char].
Definition brace (l : list tok) : list tok := P "{"%char :: l ++ [P "}"%char].

Definition tuple_atoms (es : list (list tok)) : list tok :=
  match es with
  | [e] => paren (e ++ comma)               (* one-element tuples keep the comma *)
  | _ => paren (sep_by comma es)
  end.

Definition prim_word (p : prim) : string :=
  match p with
  | PBool => "bool" | PChar => "char" | PStr => "String"
  | PU8 => "u8" | PU16 => "u16" | PU32 => "u32" | PU64 => "u64" | PU128 => "u128" | PU256 => "u256"
  | PI8 => "i8" | PI16 => "i16" | PI32 => "i32" | PI64 => "i64" | PI128 => "i128" | PI256 => "i256"
  end.

Definition field_atoms (atoms : dtree -> list tok) (f : option string * bool * dtree) : list tok :=
  let '(n, boxed, t) := f in
  let ty := if boxed then W "Box" :: angle (atoms t) else atoms t in
  match n with Some x => W x :: P ":"%char :: ty | None => ty end.

Definition fields_atoms (atoms : dtree -> list tok) (fs : list (option string * bool * dtree))
  : list tok :=
  match fs with
  | [] => paren []
  | (Some _, _, _) :: _ => brace (sep_by comma (map (field_atoms atoms) fs))
  | (None, _, _) :: _ => paren (sep_by comma (map (field_atoms atoms) fs))
  end.

Fixpoint atoms (t : dtree) : list tok :=
  match t with
  | DPrim p => [W (prim_word p)]
  | DVec e => W "Vec" :: angle (atoms e)
  | DArr len e => P "["%char :: atoms e ++ [P ";"%char; W (N_to_string len); P "]"%char]
  | DTuple es => tuple_atoms (map atoms es)
  | DCompact e => W "Compact" :: angle (atoms e)
  | DBits o s => W "BitSequence" :: paren (atoms o ++ comma ++ atoms s)
  | DRef name => name
  | DStruct name fs => W "struct" :: name ++ fields_atoms atoms fs
  | DEnum name vs =>
      W "enum" :: name ++
      brace (sep_by comma
               (map (fun v : string * list (option string * bool * dtree) =>
                       W (fst v) :: match snd v with
                                    | [] => []           (* field-less: the name only *)
                                    | fs => fields_atoms atoms fs
                                    end) vs))
  end.

Definition opt_map {A B} (f : A -> option B) : list A -> option (list B) :=
  fix go l := match l with
              | [] => Some []
              | x :: l' => match f x, go l' with
                           | Some y, Some ys => Some (y :: ys)
                           | _, _ => None
                           end
              end.

Section Spec.
  Variable r : registry.

  Definition has_path (t : ty) : bool := match t_path t with [] => false | _ => true end.

  (** the name with generic arguments of a type, as tokens ([_] for a skipped
      parameter and for a path-less struct/enum) *)
  Fixpoint name_atoms (fuel : nat) (id : N) : option (list tok) :=
    match fuel with
    | O => None
    | S f =>
      match resolve r id with
      | None => None
      | Some t =>
        match t_def t with
        | TDPrimitive p => Some [W (prim_word p)]
        | TDSequence e => option_map (fun a => W "Vec" :: angle a) (name_atoms f e)
        | TDCompact e => option_map (fun a => W "Compact" :: angle a) (name_atoms f e)
        | TDArray len e =>
            option_map (fun a => P "["%char :: a ++ [P ";"%char; W (N_to_string len); P "]"%char])
                       (name_atoms f e)
        | TDTuple ts => option_map tuple_atoms (opt_map (name_atoms f) ts)
        | TDBitSeq _ _ => Some [W "BitSequence"]
        | TDComposite _ | TDVariant _ =>
          match rev (t_path t) with
          | [] => Some [W "_"]
          | ident :: _ =>
            match t_params t with
            | [] => Some [W ident]
            | ps =>
              option_map (fun args => W ident :: angle (sep_by comma args))
                (opt_map (fun p => match tp_ty p with
                                   | None => Some [W "_"]
                                   | Some i => name_atoms f i
                                   end) ps)
            end
          end
        end
      end
    end.

  (** reader state: named ids whose expansion has started; the subtree of
      every unnamed id that has been completed (latest first) *)
  Definition sstate := (list N * list (N * dtree))%type.

  Fixpoint find_tree (l : list (N * dtree)) (id : N) : option dtree :=
    match l with
    | [] => None
    | (k, t) :: l' => if N.eqb k id then Some t else find_tree l' id
    end.

  Section Children.
    Variable visit : sstate -> N -> option (dtree * sstate).

    Fixpoint visit_list (st : sstate) (ids : list N) : option (list dtree * sstate) :=
      match ids with
      | [] => Some ([], st)
      | i :: ids' =>
          match visit st i with
          | None => None
          | Some (t, st1) =>
              match visit_list st1 ids' with
              | None => None
              | Some (ts, st2) => Some (t :: ts, st2)
              end
          end
      end.

    Definition visit_fields (st : sstate) (fs : list field)
      : option (list (option string * bool * dtree) * sstate) :=
      if negb (all_named fs || all_unnamed fs) then None
      else
        match visit_list st (map f_ty fs) with
        | None => None
        | Some (ts, st') =>
            Some (map (fun '(f, t) => (f_name f, is_boxed f, t)) (combine fs ts), st')
        end.

    Fixpoint visit_variants (st : sstate) (vs : list variant)
      : option (list (string * list (option string * bool * dtree)) * sstate) :=
      match vs with
      | [] => Some ([], st)
      | v :: vs' =>
          match visit_fields st (v_fields v) with
          | None => None
          | Some (fs, st1) =>
              match visit_variants st1 vs' with
              | None => None
              | Some (rest, st2) => Some ((v_name v, fs) :: rest, st2)
              end
          end
      end.
  End Children.

  Fixpoint spec_tree (nfuel fuel : nat) (st : sstate) (id : N) : option (dtree * sstate) :=
    match fuel with
    | O => None
    | S f =>
      match resolve r id with
      | None => None
      | Some t =>
        let named := has_path t in
        let started := existsb (N.eqb id) (fst st) in
        if named && started then
          (* a struct/enum (or any type with a path) already written out or being
             written out: referred to by name and generic arguments *)
          option_map (fun n => (DRef n, st)) (name_atoms nfuel id)
        else
          match (if named then None else find_tree (snd st) id) with
          | Some tr => Some (tr, st)    (* a completed unnamed id: the same subtree again *)
          | None =>
            let st0 : sstate := (if named then id :: fst st else fst st, snd st) in
            let name := if named then name_atoms nfuel id else Some [] in
            let visit := spec_tree nfuel f in
            let result :=
              match name with
              | None => None
              | Some nm =>
                match t_def t with
                | TDPrimitive p => Some (DPrim p, st0)
                | TDSequence e =>
                    option_map (fun '(x, s) => (DVec x, s))
                               (visit st0 e)
                | TDArray len e =>
                    option_map (fun '(x, s) => (DArr len x, s))
                               (visit st0 e)
                | TDCompact e =>
                    option_map (fun '(x, s) => (DCompact x, s))
                               (visit st0 e)
                | TDTuple ts =>
                    option_map (fun '(xs, s) => (DTuple xs, s))
                               (visit_list visit st0 ts)
                | TDBitSeq store order =>
                    match visit st0 order with
                    | None => None
                    | Some (o, s1) =>
                        match visit s1 store with
                        | None => None
                        | Some (s, s2) => Some (DBits o s, s2)
                        end
                    end
                | TDComposite fs =>
                    option_map (fun '(xs, s) => (DStruct nm xs, s)) (visit_fields visit st0 fs)
                | TDVariant vs =>
                    option_map (fun '(xs, s) => (DEnum nm xs, s)) (visit_variants visit st0 vs)
                end
              end in
            match result with
            | None => None
            | Some (tr, (started', done')) => Some (tr, (started', (id, tr) :: done'))
            end
          end
      end
    end.
End Spec.

(** identifiers of the registry are words for the tokenizer (otherwise the
    token reading of a text is ambiguous and the checkers stay silent) *)
Definition word_okb (s : string) : bool :=
  negb (String.eqb s "") && all_chars (fun c => negb (is_punct c || is_space c)) s.

Definition fields_words_okb (fs : list field) : bool :=
  forallb (fun f => match f_name f with Some n => word_okb n | None => true end) fs.

Definition words_okb (r : registry) : bool :=
  forallb (fun e : N * ty =>
    let t := snd e in
    match rev (t_path t) with [] => true | i :: _ => word_okb i end &&
    match t_def t with
    | TDComposite fs => fields_words_okb fs
    | TDVariant vs => forallb (fun v => word_okb (v_name v) && fields_words_okb (v_fields v)) vs
    | _ => true
    end) r.

(** a type with a path whose definition is not a struct/enum is out of the
    property's scope ("every struct or enum ..."); the tree reader above
    prints it as the pair (name, definition) glued together, which is not a
    token sequence -> such registries are excluded from the lockstep check *)
Definition paths_only_on_items (r : registry) : bool :=
  forallb (fun e : N * ty =>
    match t_path (snd e) with [] => true | _ => is_composite_or_variant (t_def (snd e)) end) r.


(** ** the same tokenizer on code points (for the formatted text, which the
    model produces as a list of code points) *)
Inductive ctok := CW (w : list N) | CP (c : N).

Definition ctok_eqb (a b : ctok) : bool :=
  match a, b with
  | CW x, CW y => list_eqb N.eqb x y
  | CP x, CP y => N.eqb x y
  | _, _ => false
  end.

(** { } ( ) < > [ ] , : ; *)
Definition is_cpunct (c : N) : bool :=
  existsb (N.eqb c) [123; 125; 40; 41; 60; 62; 91; 93; 44; 58; 59]%N.
Definition is_cspace (c : N) : bool := (N.eqb c 32 || N.eqb c 10)%N.

Definition cflush (w : list N) (acc : list ctok) : list ctok :=
  match w with [] => acc | _ => CW (rev w) :: acc end.

Definition cstate := (list N * list ctok)%type.
Definition cstep (st : cstate) (c : N) : cstate :=
  if is_cspace c then ([], cflush (fst st) (snd st))
  else if is_cpunct c then ([], CP c :: cflush (fst st) (snd st))
  else (c :: fst st, snd st).
Definition crun (l : list N) (st : cstate) : cstate := fold_left cstep l st.
Definition ctokens (l : list N) : list ctok :=
  let st := crun l ([], []) in rev (cflush (fst st) (snd st)).
