(** Token emission: ir/type_ir.rs:140-305, ir/module_ir.rs:25-48,
    type_params.rs:44-74.  Tokens are the flattened [TokenStream]
    (idents, single punctuation characters, literal texts, group delimiters). *)
From Coq Require Import List NArith String Bool Ascii.
From V Require Import Base.Strings Base.Result Model.Registry Model.Settings Model.Subst
  Model.TypePath Model.Derives Model.Generate.
Import ListNotations.
Open Scope string_scope. Open Scope list_scope.

(** [proc_macro2::Literal::string]: escape_debug except for the single quote *)
Fixpoint escape_str (s : string) : string :=
  match s with
  | EmptyString => EmptyString
  | String c s' =>
      let n := N_of_ascii c in
      if (n =? 34)%N then String "\" (String """" (escape_str s'))
      else if (n =? 92)%N then String "\" (String "\" (escape_str s'))
      else if (n =? 10)%N then String "\" (String "n" (escape_str s'))
      else if (n =? 13)%N then String "\" (String "r" (escape_str s'))
      else if (n =? 9)%N then String "\" (String "t" (escape_str s'))
      else String c (escape_str s')
  end.
Definition lit_string (s : string) : string := String """" (String.append (escape_str s) """").

Definition doc_tokens (docs : list string) : tokens :=
  flat_map (fun d => ["#"; "["; "doc"; "="; lit_string d; "]"]) docs.

Definition compact_attr : tokens := ["#"; "["; "codec"; "("; "compact"; ")"; "]"].
Definition codec_skip : tokens := ["#"; "["; "codec"; "("; "skip"; ")"; "]"].
Definition codec_index (i : N) : tokens :=
  ["#"; "["; "codec"; "("; "index"; "="; N_to_string i; ")"; "]"].

(** [unused_params_phantom_data] *)
Definition phantom_tokens (unused : list tparam_ir) : option tokens :=
  match unused with
  | [] => None
  | [p] => Some (abs_path ["core"; "marker"; "PhantomData"] ++ ["<"; tpi_name p; ">"])
  | _ => Some (abs_path ["core"; "marker"; "PhantomData"] ++
               ["<"; "("] ++ sep_by [","] (map (fun p => [tpi_name p]) unused) ++ [")"; ">"])
  end.

(** [TypeParameters::to_tokens] *)
Definition type_params_tokens (ps : list tparam_ir) : tokens :=
  match ps with
  | [] => []
  | _ => ["<"] ++ sep_by [","] (map (fun p => [tpi_name p]) ps) ++ [">"]
  end.

Section Emit.
  Variable s : settings.
  Let alloc := alloc_tokens (s_alloc s).

  (** [CompositeFieldIR::to_tokens] *)
  Definition field_tokens (f : field_ir) : result tokens :=
    let* t := tp_tokens alloc (fi_path f) in
    if fi_emit_boxed f then Ok (alloc ++ abs_path ["boxed"; "Box"] ++ ["<"] ++ t ++ [">"])
    else Ok t.

  Definition compact_attr_of (codec : bool) (f : field_ir) : tokens :=
    if fi_compact f && codec then compact_attr else [].

  (** [struct_field_tokens] *)
  Definition struct_field_tokens (k : ckind) (phantom : option tokens) (codec : bool)
    : result tokens :=
    match k with
    | CNoFields =>
        match phantom with
        | Some ph => Ok (["("; "pub"] ++ ph ++ [")"])
        | None => Ok []
        end
    | CNamed fs =>
        let* l := mapM (fun '(name, f) =>
                          let* t := field_tokens f in
                          Ok (compact_attr_of codec f ++ ["pub"; name; ":"] ++ t ++ [","])) fs in
        let marker := match phantom with
                      | Some ph => (if codec then codec_skip else []) ++ ["pub"; "__ignore"; ":"] ++ ph
                      | None => []
                      end in
        Ok (["{"] ++ List.concat l ++ marker ++ ["}"])
    | CUnnamed fs =>
        let* l := mapM (fun f =>
                          let* t := field_tokens f in
                          Ok (compact_attr_of codec f ++ ["pub"] ++ t ++ [","])) fs in
        let marker := match phantom with
                      | Some ph => (if codec then codec_skip else []) ++ ["pub"] ++ ph
                      | None => []
                      end in
        Ok (["("] ++ List.concat l ++ marker ++ [")"])
    end.

  (** [enum_field_tokens] *)
  Definition enum_field_tokens (k : ckind) (codec : bool) : result tokens :=
    match k with
    | CNoFields => Ok []
    | CNamed fs =>
        let* l := mapM (fun '(name, f) =>
                          let* t := field_tokens f in
                          Ok (compact_attr_of codec f ++ [name; ":"] ++ t ++ [","])) fs in
        Ok (["{"] ++ List.concat l ++ ["}"])
    | CUnnamed fs =>
        let* l := mapM (fun f =>
                          let* t := field_tokens f in
                          Ok (compact_attr_of codec f ++ t ++ [","])) fs in
        Ok (["("] ++ List.concat l ++ [")"])
    end.

  (** [TypeIR::to_tokens] *)
  Definition type_ir_tokens (ir : type_ir) : result tokens :=
    let d := derives_tokens (ti_derives ir) in
    let tps := type_params_tokens (ti_params ir) in
    let phantom := phantom_tokens (ti_unused ir) in
    match ti_kind ir with
    | KStruct c =>
        let* fields := struct_field_tokens (ci_kind c) phantom (ti_codec ir) in
        let semi := match ci_kind c with CNoFields | CUnnamed _ => [";"] | CNamed _ => [] end in
        Ok (d ++ doc_tokens (ci_docs c) ++ ["pub"; "struct"; ci_name c] ++ tps ++ fields ++ semi)
    | KEnum name docs vs =>
        let* l := mapM (fun '(idx, c) =>
                          let* fields := enum_field_tokens (ci_kind c) (ti_codec ir) in
                          Ok ((if ti_codec ir then codec_index idx else []) ++
                              doc_tokens (ci_docs c) ++ [ci_name c] ++ fields ++ [","])) vs in
        let ignore := match phantom with
                      | Some ph => ["__Ignore"; "("] ++ ph ++ [")"; ","]
                      | None => []
                      end in
        Ok (d ++ doc_tokens docs ++ ["pub"; "enum"; name] ++ tps ++ ["{"] ++ List.concat l ++ ignore ++ ["}"])
    end.

  (** ** the module tree, rebuilt from the ordered map.
      [sub] = remaining namespace below the current module. *)
  Definition entry := (list string * (list string * type_ir))%type.   (* remaining path, full path, item *)

  Fixpoint insert_str (x : string) (l : list string) : list string :=
    match l with
    | [] => [x]
    | y :: l' => match String.compare x y with
                 | Lt => x :: l | Eq => l | Gt => y :: insert_str x l'
                 end
    end.

  Definition child_names (es : list entry) : list string :=
    fold_right (fun e acc => match fst e with
                             | h :: _ :: _ => insert_str h acc
                             | _ => acc
                             end) [] es.

  Definition under (h : string) (es : list entry) : list entry :=
    flat_map (fun e => match fst e with
                       | h' :: (_ :: _) as tl => if String.eqb h h' then [(tl, snd e)] else []
                       | _ => []
                       end) es.

  Definition here (es : list entry) : list entry :=
    filter (fun e => match fst e with [_] => true | _ => false end) es.

  Fixpoint module_tokens (fuel : nat) (name : string) (es : list entry) : result tokens :=
    match fuel with
    | O => Err EOutOfFuel
    | S fuel' =>
        let* mods := mapM (fun h => module_tokens fuel' h (under h es)) (child_names es) in
        let* tys := mapM (fun e => type_ir_tokens (snd (snd e))) (here es) in
        Ok (["pub"; "mod"; name; "{"; "use"; "super"; ":"; ":"; s_root s; ";"] ++
            List.concat mods ++ List.concat tys ++ ["}"])
    end.

  Definition max_depth (m : items) : nat :=
    fold_right (fun e acc => Nat.max (List.length (fst e)) acc) 0%nat m.

  Definition emit_module (m : items) : result tokens :=
    module_tokens (S (max_depth m)) (s_root s)
                  (map (fun e => (fst e, (fst e, snd (snd e)))) m).
End Emit.
