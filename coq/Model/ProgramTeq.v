(** C04 / C03 completeness of [types_equal] on instantiations of one definition: the fragment of
    definitions covered by [C04_instantiations_stay_partial].  Definitions only. *)
From Coq Require Import List NArith String Bool.
From V Require Import Base.Util Base.Strings Model.Registry Model.Program.
Import ListNotations.
Open Scope list_scope.

(** no parameter anywhere *)
Fixpoint closed_src (t : src) : bool :=
  match t with
  | SParam _ => false
  | SApp _ args => forallb closed_src args
  | STup ts => forallb closed_src ts
  | SVec x | SVecDeque x | SArray _ x | SCompactT x | SBox x | SOpt x | SBTreeSet x | SCow x | SRange x => closed_src x
  | SRes a b | SBTreeMap a b => closed_src a && closed_src b
  | SPrimT _ | SBitVec _ _ => true
  end.

(** no Box and no VecDeque anywhere (the source type is its own canonical form) *)
Fixpoint plain_src (t : src) : bool :=
  match t with
  | SBox _ | SVecDeque _ => false
  | SApp _ args => forallb plain_src args
  | STup ts => forallb plain_src ts
  | SVec x | SArray _ x | SCompactT x | SOpt x | SBTreeSet x | SCow x | SRange x => plain_src x
  | SRes a b | SBTreeMap a b => plain_src a && plain_src b
  | SParam _ | SPrimT _ | SBitVec _ _ => true
  end.

(** parameters occur only directly or under Vec / array / tuple / Compact / Option / Result /
    Range / Cow; everything else (applications of definitions, BTreeMap / BTreeSet - whose entries
    hide a [Vec] -, bit sequences) is closed *)
Fixpoint teq_frag (t : src) : bool :=
  closed_src t ||
  match t with
  | SParam _ => true
  | SVec x | SArray _ x | SCompactT x | SOpt x | SRange x | SCow x => teq_frag x
  | SRes a b => teq_frag a && teq_frag b
  | STup ts => forallb teq_frag ts
  | _ => false
  end.

(** sub-terms reached through Vec / array / tuple / Compact / Option / Result / Range / Cow *)
Fixpoint spine (t : src) : list src :=
  t :: match t with
       | SVec x | SArray _ x | SCompactT x | SOpt x | SRange x | SCow x => spine x
       | SRes a b => spine a ++ spine b
       | STup ts => flat_map spine ts
       | _ => []
       end.

(** no field is [#[codec(compact)]], every field has a plain type of the fragment (recorded type
    names may be present or absent) *)
Definition teq_field_okb (f : sfield) : bool :=
  negb (sf_compact_attr f) && plain_src (sf_ty f) && teq_frag (sf_ty f).

Definition teq_def_okb (d : sdef) : bool := forallb teq_field_okb (def_sfields d).

(** every parameter mentioned is a declared, non-skipped parameter of the definition *)
Fixpoint params_live (pl : list (string * bool)) (t : src) : bool :=
  match t with
  | SParam i => match nth_error pl i with Some (_, false) => true | _ => false end
  | SApp _ args => forallb (params_live pl) args
  | STup ts => forallb (params_live pl) ts
  | SVec x | SVecDeque x | SArray _ x | SCompactT x | SBox x | SOpt x | SBTreeSet x | SCow x | SRange x => params_live pl x
  | SRes a b | SBTreeMap a b => params_live pl a && params_live pl b
  | SPrimT _ | SBitVec _ _ => true
  end.

Definition teq_program_okb (d : sdef) : bool :=
  teq_def_okb d && forallb (fun f => params_live (sd_params d) (sf_ty f)) (def_sfields d).

Definition spine_head (c : src) : bool :=
  match c with
  | SVec _ | SArray _ _ | SCompactT _ | STup _ | SOpt _ | SRes _ _ | SRange _ | SCow _ => true
  | _ => false
  end.

(** ** [registry_ofb] (Model/Program.v) compares fields and variants of the prelude entries up to
    their docs; [RegistryOf] fixes them (no docs, as scale-info produces them) *)
Definition field_nodocs (f : field) : bool := match f_docs f with [] => true | _ => false end.
Definition def_nodocs (d : typedef) : bool :=
  match d with
  | TDComposite fs => forallb field_nodocs fs
  | TDVariant vs => forallb (fun v => match v_docs v with [] => true | _ => false end && forallb field_nodocs (v_fields v)) vs
  | _ => true
  end.
Definition prelude_nodocs_b (r : registry) : bool :=
  forallb (fun e : N * ty => match t_path (snd e) with [_] => def_nodocs (t_def (snd e)) | _ => true end) r.
