(** The tokens a caller of the generator supplies (C09): user tokens of the
    settings and identifiers of the registry.  These two definitions are the
    ones the run-time checker [switches_case] (Corr/CheckTG.v) uses, restated
    here so that proofs need not depend on the checker. *)
From Coq Require Import List NArith String Bool.
From V Require Import Base.Strings Base.Result Model.Registry Model.Settings Model.Subst
  Model.TypePath Model.Derives Model.Generate Model.Emit Model.Switches.
Import ListNotations.
Open Scope string_scope. Open Scope list_scope.

Definition derives_list (dr : derives_registry) : list derives :=
  dr_default dr :: map snd (dr_specific dr) ++ map snd (dr_recursive dr).

Definition user_tokens (s : settings) : tokens :=
  flat_map derives_inputs (derives_list (s_dreg s)) ++
  flat_map (fun kv => print_spath (su_path (snd kv))) (s_subs s) ++
  match s_compact s with Some t => t | None => [] end ++
  match s_bits s with Some t => t | None => [] end ++
  match s_compact_as s with Some k => snd k | None => [] end.

Definition fields_idents (fs : list field) : list string :=
  flat_map (fun f => match f_name f with Some n => [n] | None => [] end) fs.

Definition registry_idents (r : registry) : list string :=
  flat_map (fun e =>
              t_path (snd e) ++
              match t_def (snd e) with
              | TDComposite fs => fields_idents fs
              | TDVariant vs => flat_map (fun v => v_name v :: fields_idents (v_fields v)) vs
              | _ => []
              end) r.

(** everything the caller supplies, as one list *)
Definition gen_inputs (r : registry) (s : settings) : tokens :=
  s_root s :: alloc_tokens (s_alloc s) ++ user_tokens s ++ registry_idents r.

(** generation followed by emission *)
Definition gen_emit (r : registry) (s : settings) (teq : N -> N -> result bool) : result tokens :=
  let* m := generate r s teq in emit_module s m.

(** ** frame hypotheses of the C09 commutation theorems: what a token renaming
    [phi] between two settings [s1], [s2] must satisfy *)
(** for path resolution *)
Definition resolve_frame (phi : string -> string) (r : registry) (s1 s2 : settings) : Prop :=
  phi_ok phi false false /\
  s_subs s2 = s_subs s1 /\
  s_root s2 = phi (s_root s1) /\
  alloc_tokens (s_alloc s2) = map phi (alloc_tokens (s_alloc s1)) /\
  s_compact s2 = option_map (map phi) (s_compact s1) /\
  s_bits s2 = option_map (map phi) (s_bits s1) /\
  (forall e seg, In e r -> In seg (t_path (snd e)) -> phi seg = seg) /\
  (forall k v x, In (k, v) (s_subs s1) -> In x (print_spath (su_path v)) -> phi x = x).

(** for the whole generation *)
Definition gen_frame (phi : string -> string) (r : registry) (s1 s2 : settings) : Prop :=
  resolve_frame phi r s1 s2 /\
  s_docs s2 = s_docs s1 /\ s_codec s2 = s_codec s1 /\ s_dreg s2 = s_dreg s1 /\
  s_compact_as s2 = s_compact_as s1 /\
  (forall w, In w (registry_idents r) -> phi w = w) /\
  (forall w, In w (flat_map derives_inputs (derives_list (s_dreg s1))) -> phi w = w) /\
  (forall w, In w (match s_compact_as s1 with Some k => snd k | None => [] end) -> phi w = w).

