(** The tokens a caller of the generator supplies (C09): user tokens of the
    settings and identifiers of the registry.  These two definitions are the
    ones the run-time checker [switches_case] (Corr/CheckTG.v) uses, restated
    here so that proofs need not depend on the checker. *)
From Coq Require Import List NArith String Bool.
From V Require Import Base.Strings Base.Result Model.Registry Model.Settings Model.Subst
  Model.TypePath Model.Derives Model.Generate Model.Emit Model.Switches.
Import ListNotations.
Open Scope string_scope. Open Scope list_scope.

Definition derives_list (dr : derives_registry) : list derives :=
  dr_default dr :: map snd (dr_specific dr) ++ map snd (dr_recursive dr).

Definition user_tokens (s : settings) : tokens :=
  flat_map derives_inputs (derives_list (s_dreg s)) ++
  flat_map (fun kv => print_spath (su_path (snd kv))) (s_subs s) ++
  match s_compact s with Some t => t | None => [] end ++
  match s_bits s with Some t => t | None => [] end ++
  match s_compact_as s with Some k => snd k | None => [] end.

Definition fields_idents (fs : list field) : list string :=
  flat_map (fun f => match f_name f with Some n => [n] | None => [] end) fs.

Definition registry_idents (r : registry) : list string :=
  flat_map (fun e =>
              t_path (snd e) ++
              match t_def (snd e) with
              | TDComposite fs => fields_idents fs
              | TDVariant vs => flat_map (fun v => v_name v :: fields_idents (v_fields v)) vs
              | _ => []
              end) r.

(** everything the caller supplies, as one list *)
Definition gen_inputs (r : registry) (s : settings) : tokens :=
  s_root s :: alloc_tokens (s_alloc s) ++ user_tokens s ++ registry_idents r.

(** generation followed by emission *)
Definition gen_emit (r : registry) (s : settings) (teq : N -> N -> result bool) : result tokens :=
  let* m := generate r s teq in emit_module s m.
