(** Vocabulary for "validation errors equal as sets" (C06 / C11 [validation_as_sets]).
    Definitions only; proofs in Proofs/ValidateSets.v. *)
From Coq Require Import List NArith String Bool Permutation.
From V Require Import Base.Strings Model.Registry Model.Settings Model.Subst Model.Builders Model.Reach.
Import ListNotations.

(** the token string of a key determines its ident segments (both are read off one [syn] path) *)
Definition segs_functional (l : kmap) : Prop :=
  forall ka da kb db, In (ka, da) l -> In (kb, db) l -> k_key ka = k_key kb -> k_segs ka = k_segs kb.

(** two keyed error lists equal as finite maps of finite sets: distinct keys on both sides,
    the same keys, set-equal values under the same key *)
Definition ve_list_same (a b : list (string * list kt)) : Prop :=
  NoDup (map fst a) /\ NoDup (map fst b) /\
  (forall K, In K (map fst a) <-> In K (map fst b)) /\
  (forall K x y, In (K, x) a -> In (K, y) b -> same_set x y).

Definition verror_same (e1 e2 : verror) : Prop :=
  ve_list_same (ve_derives e1) (ve_derives e2) /\
  ve_list_same (ve_attrs e1) (ve_attrs e2) /\
  Permutation (ve_subs e1) (ve_subs e2).

(** example: the same settings in two hash orders, keys [a::X] (unknown), [b::Y] (unknown) *)
Definition vs_kx : tykey := mk_tykey "a :: X" ["a"; "X"]%string [].
Definition vs_ky : tykey := mk_tykey "b :: Y" ["b"; "Y"]%string [].
Definition vs_d1 : kt := ("Clone"%string, []).
Definition vs_d2 : kt := ("Debug"%string, []).
Definition vs_dr1 : derives_registry :=
  mk_dreg derives_empty [(vs_kx, mk_derives [vs_d1; vs_d2] []); (vs_ky, mk_derives [vs_d1] [vs_d2])]
          [(vs_kx, mk_derives [vs_d2] [])].
Definition vs_dr2 : derives_registry :=
  mk_dreg derives_empty [(vs_ky, mk_derives [vs_d1] [vs_d2; vs_d2]); (vs_kx, mk_derives [vs_d2; vs_d1] [])]
          [(vs_kx, mk_derives [vs_d2] [])].
