(** scale-info's PortableRegistry as data (DESIGN.md 2.1).  [resolve] is by
    *position*, exactly as scale-info 2.11 ([types.get(id as usize)]). *)
From Coq Require Import List NArith String Bool.
From V Require Import Base.Strings.
Import ListNotations.
Open Scope string_scope. Open Scope list_scope.

Inductive prim :=
| PBool | PChar | PStr | PU8 | PU16 | PU32 | PU64 | PU128 | PU256
| PI8 | PI16 | PI32 | PI64 | PI128 | PI256.

Definition prim_eqb (a b : prim) : bool :=
  match a, b with
  | PBool, PBool | PChar, PChar | PStr, PStr | PU8, PU8 | PU16, PU16 | PU32, PU32
  | PU64, PU64 | PU128, PU128 | PU256, PU256 | PI8, PI8 | PI16, PI16 | PI32, PI32
  | PI64, PI64 | PI128, PI128 | PI256, PI256 => true
  | _, _ => false
  end.

Lemma prim_eqb_eq a b : prim_eqb a b = true <-> a = b.
Proof. destruct a, b; cbn; split; congruence. Qed.

Record field := mk_field {
  f_name : option string;
  f_ty : N;
  f_type_name : option string;
  f_docs : list string }.

Record variant := mk_variant {
  v_name : string;
  v_fields : list field;
  v_index : N;
  v_docs : list string }.

Inductive typedef :=
| TDComposite (fs : list field)
| TDVariant (vs : list variant)
| TDSequence (t : N)
| TDArray (len : N) (t : N)
| TDTuple (ts : list N)
| TDPrimitive (p : prim)
| TDCompact (t : N)
| TDBitSeq (store order : N).

Record tparam := mk_tparam { tp_name : string; tp_ty : option N }.

Record ty := mk_ty {
  t_path : list string;
  t_params : list tparam;
  t_def : typedef;
  t_docs : list string }.

(** entries: (id field, type); a well-formed registry has id = position *)
Definition registry := list (N * ty).

Definition resolve (r : registry) (id : N) : option ty :=
  match nth_error r (N.to_nat id) with
  | Some (_, t) => Some t
  | None => None
  end.

(** [scale_info::Path::ident] / [namespace] *)
Definition path_ident (p : list string) : option string :=
  match p with [] => None | _ => Some (last p "") end.
Definition namespace (p : list string) : list string := removelast p.

Definition is_composite_or_variant (d : typedef) : bool :=
  match d with TDComposite _ | TDVariant _ => true | _ => false end.

Definition all_named (fs : list field) : bool :=
  forallb (fun f => match f_name f with Some _ => true | None => false end) fs.
Definition all_unnamed (fs : list field) : bool :=
  forallb (fun f => match f_name f with Some _ => false | None => true end) fs.

Definition is_boxed (f : field) : bool :=
  match f_type_name f with Some n => contains "Box<" n | None => false end.

(** the type generator's rule after the F20 repair (typegen/src/typegen/mod.rs,
    [type_name_is_boxed]): [Box<], [Rc<] and [Arc<] - the pointers scale-info registers as their
    pointee - all make the field boxed.  [is_boxed] above stays the rule of the description crate
    (description.rs:280), which only looks for [Box<]. *)
Definition is_boxed_gen (f : field) : bool :=
  match f_type_name f with
  | Some n => contains "Box<" n || contains "Rc<" n || contains "Arc<" n
  | None => false
  end.

(** ids referenced by one type, in the order the code visits them *)
Definition param_ids (t : ty) : list N :=
  flat_map (fun p => match tp_ty p with Some i => [i] | None => [] end) (t_params t).

Definition def_ids (d : typedef) : list N :=
  match d with
  | TDComposite fs => map f_ty fs
  | TDVariant vs => flat_map (fun v => map f_ty (v_fields v)) vs
  | TDSequence t => [t]
  | TDArray _ t => [t]
  | TDTuple ts => ts
  | TDPrimitive _ => []
  | TDCompact t => [t]
  | TDBitSeq s o => [s; o]
  end.

Definition ids_consistent (r : registry) : bool :=
  (fix go (i : N) (l : registry) : bool :=
     match l with
     | [] => true
     | (id, _) :: l' => N.eqb id i && go (i + 1)%N l'
     end) 0%N r.

Definition closed_reg (r : registry) : bool :=
  let n := N.of_nat (List.length r) in
  forallb (fun e => forallb (fun i => N.ltb i n) (param_ids (snd e) ++ def_ids (t_def (snd e)))) r.
