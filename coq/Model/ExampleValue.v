(** C12: example SCALE values ([description/src/type_example/scale_value.rs])
    on top of the [Transformer] cache ([description/src/transformer.rs]).

    The model is a deterministic function of (registry, id, word stream): the
    random generator is the word stream of [Model/RngWords.v].

    Transformer: [resolve(id)] looks the id up (error if absent); if the cache
    holds [Recursive] for it, the recurse policy [error_on_recurse] returns an
    error; if it holds [Computed v], the cache-hit policy
    [compute_another_example] returns [None], so the transformer *continues*:
    it overwrites the entry with [Recursive], runs the policy [ty_example]
    (consuming fresh randomness) and stores [Computed] again.  Every error is
    propagated with [?] up to the caller of [example_from_seed].

    Panic sites of the Rust code and why each is an explicit outcome here:
    - [name.unwrap()] in the all-named branch of [fields_type_example]
      -> [XPanic] if a name is missing (proved unreachable: C12_total);
    - [choose(..).unwrap()] on the constant 7- and 4-element slices
      -> [XPanic] if [choose] returns [None] (proved unreachable);
    - slice indexing inside [choose] -> [XPanic] if the index is out of bounds
      (proved unreachable).
    Unbounded recursion (what the in-progress marker prevents) would be
    [XOutOfFuel] -- a value distinct from every real outcome. *)
From Coq Require Import List NArith ZArith Bool String Ascii.
From V Require Import Base.Util Model.Registry Model.RngWords.
Import ListNotations.
Open Scope N_scope.

(** ** scale_value::Value<()> *)
Inductive vprim :=
| VBool (b : bool)
| VChar (c : N)                 (* code point *)
| VString (s : string)
| VU128 (n : N)
| VI128 (z : Z)
| VU256 (bytes : list N)        (* [u8; 32] *)
| VI256 (bytes : list N).

Inductive composite (V : Type) :=
| CNamed (fs : list (string * V))
| CUnnamed (vs : list V).
Arguments CNamed {V} fs.
Arguments CUnnamed {V} vs.

Inductive value :=
| VComposite (c : composite value)
| VVariant (name : string) (c : composite value)
| VPrim (p : vprim)
| VBits (bits : list bool).

(** [PortableRegistry::resolve]: equal to [Registry.resolve] (lemma [lookup_resolve]);
    the bound test keeps evaluation from converting an out-of-range id
    (e.g. u32::MAX) to a unary number. *)
Definition lookup (r : registry) (id : N) : option ty :=
  if id <? N.of_nat (List.length r) then resolve r id else None.

(** ** outcomes *)
Inductive xerr :=
| XRecursive (id : N)      (* "Cannot generate scale value example for recursive type: .." *)
| XEmptyEnum               (* "Variant type should have at least one variant" *)
| XMixedFields             (* "Composite should not have unnamed and named fields" *)
| XNotFound (id : N)       (* "Type with id {} not found in registry" *)
| XOutOfWords              (* the supplied word stream was too short (harness supplies more) *)
| XOutOfFuel.              (* unbounded recursion in the code; distinct from every real outcome *)

Inductive xres (A : Type) :=
| XOk (a : A)
| XErr (e : xerr)
| XPanic (msg : string).
Arguments XOk {A} a.
Arguments XErr {A} e.
Arguments XPanic {A} msg.

(** ** the transformer's cache: HashMap<u32, Cached<Value>> (only get/insert are used,
    so iteration order never matters) *)
Inductive cached :=
| CRecursive
| CComputed (v : value).

Definition cache := list (N * cached).

Fixpoint cache_get (c : cache) (id : N) : option cached :=
  match c with
  | [] => None
  | (k, e) :: c' => if k =? id then Some e else cache_get c' id
  end.

(** [HashMap::insert]: replace or add *)
Fixpoint cache_set (id : N) (e : cached) (c : cache) : cache :=
  match c with
  | [] => [(id, e)]
  | (k, e') :: c' => if k =? id then (k, e) :: c' else (k, e') :: cache_set id e c'
  end.

(** ** state monad over (cache, remaining words) with the three outcomes *)
Definition st := (cache * words)%type.
Definition M (A : Type) := st -> xres (A * st).

Definition mret {A} (a : A) : M A := fun s => XOk (a, s).
Definition mfail {A} (e : xerr) : M A := fun _ => XErr e.
Definition mpanic {A} (m : string) : M A := fun _ => XPanic m.
Definition mbind {A B} (x : M A) (f : A -> M B) : M B :=
  fun s => match x s with
           | XOk (a, s') => f a s'
           | XErr e => XErr e
           | XPanic m => XPanic m
           end.

Declare Scope m_scope.
Notation "'let!' x ':=' c1 'in' c2" := (mbind c1 (fun x => c2))
  (at level 61, x pattern, c1 at next level, right associativity) : m_scope.
Open Scope m_scope.

(** a draw from [transformer.state().borrow_mut()] *)
Definition mdraw {A} (d : rng A) : M A :=
  fun s => match d (snd s) with
           | Drawn a ws' => XOk (a, (fst s, ws'))
           | NoWords => XErr XOutOfWords
           end.

(** left-to-right loop with early exit (a [for] loop with [?]) *)
Fixpoint mmapM {A B} (f : A -> M B) (l : list A) : M (list B) :=
  match l with
  | [] => mret []
  | x :: l' => let! y := f x in let! ys := mmapM f l' in mret (y :: ys)
  end.

(** [(0..len).map(|_| f()).collect::<Result<Vec<_>>>()]: [len] iterations
    (binary iteration on [N]; the accumulator is reversed at the end) *)
Definition mrepeat_step {A} (f : M A) (acc : xres (list A * st)) : xres (list A * st) :=
  match acc with
  | XOk (xs, s) =>
      match f s with
      | XOk (x, s') => XOk (x :: xs, s')
      | XErr e => XErr e
      | XPanic m => XPanic m
      end
  | XErr e => XErr e
  | XPanic m => XPanic m
  end.

Definition mrepeatN {A} (len : N) (f : M A) : M (list A) :=
  fun s => match N.iter len (mrepeat_step f) (XOk ([], s)) with
           | XOk (xs, s') => XOk (rev xs, s')
           | XErr e => XErr e
           | XPanic m => XPanic m
           end.

(** ** primitive examples ([primitive_type_def_example]) *)
Definition example_chars : list N := [97; 98; 99; 100; 101; 102; 103].   (* 'a' .. 'g' *)
Definition example_strings : list string := ["Foo"; "Bar"; "Fizz"; "Buzz"]%string.

Definition choose_unwrap {A} (l : list A) : M A :=
  let! o := mdraw (choose l) in
  match o with
  | Some a => mret a
  | None => mpanic "called `Option::unwrap()` on a `None` value"
  end.

Definition prim_example (p : prim) : M vprim :=
  match p with
  | PBool => let! b := mdraw gen_bool in mret (VBool b)
  | PChar => let! c := choose_unwrap example_chars in mret (VChar c)
  | PStr => let! s := choose_unwrap example_strings in mret (VString s)
  | PU8 => let! n := mdraw gen_u8 in mret (VU128 n)
  | PU16 => let! n := mdraw gen_u16 in mret (VU128 n)
  | PU32 => let! n := mdraw gen_u32 in mret (VU128 n)
  | PU64 => let! n := mdraw gen_u64 in mret (VU128 n)
  | PU128 => let! n := mdraw gen_u128 in mret (VU128 n)
  | PU256 => let! b := mdraw gen_bytes32 in mret (VU256 b)
  | PI8 => let! z := mdraw gen_i8 in mret (VI128 z)
  | PI16 => let! z := mdraw gen_i16 in mret (VI128 z)
  | PI32 => let! z := mdraw gen_i32 in mret (VI128 z)
  | PI64 => let! z := mdraw gen_i64 in mret (VI128 z)
  | PI128 => let! z := mdraw gen_i128 in mret (VI128 z)
  | PI256 => let! b := mdraw gen_bytes32 in mret (VI256 b)
  end.

(** ** [fields_type_example] over (name, id) pairs; [rec] is [transformer.resolve] *)
Definition is_some {A} (o : option A) : bool := match o with Some _ => true | None => false end.
Definition is_none {A} (o : option A) : bool := match o with Some _ => false | None => true end.

Definition named_field (rec : N -> M value) (f : option string * N) : M (string * value) :=
  let! v := rec (snd f) in
  match fst f with
  | Some n => mret (n, v)
  | None => mpanic "called `Option::unwrap()` on a `None` value"
  end.

Definition fields_example (rec : N -> M value) (fs : list (option string * N)) : M (composite value) :=
  let all_named := forallb (fun f => is_some (fst f)) fs in
  let all_unnamed := forallb (fun f => is_none (fst f)) fs in
  match all_named, all_unnamed with
  | true, true => mret (CUnnamed [])
  | true, false => let! l := mmapM (named_field rec) fs in mret (CNamed l)
  | false, true => let! l := mmapM (fun f => rec (snd f)) fs in mret (CUnnamed l)
  | false, false => mfail XMixedFields
  end.

Definition field_pairs (fs : list field) : list (option string * N) :=
  map (fun f => (f_name f, f_ty f)) fs.

(** ** [ty_example], parameterised by the recursive call *)
Definition ty_example (rec : N -> M value) (t : ty) : M value :=
  match t_def t with
  | TDComposite fs =>
      let! c := fields_example rec (field_pairs fs) in mret (VComposite c)
  | TDVariant vs =>
      let! o := mdraw (choose vs) in
      match o with
      | None => mfail XEmptyEnum
      | Some var =>
          let! c := fields_example rec (field_pairs (v_fields var)) in
          mret (VVariant (v_name var) c)
      end
  | TDSequence e =>
      let! v1 := rec e in let! v2 := rec e in mret (VComposite (CUnnamed [v1; v2]))
  | TDArray len e =>
      let! vs := mrepeatN len (rec e) in mret (VComposite (CUnnamed vs))
  | TDTuple ts =>
      let! c := fields_example rec (map (fun i => (None, i)) ts) in mret (VComposite c)
  | TDPrimitive p =>
      let! pv := prim_example p in mret (VPrim pv)
  | TDCompact e => rec e
  | TDBitSeq _ _ =>
      let! n := mdraw (gen_range_i32 3 7) in
      let! bits := mdraw (gen_repeat (Z.to_nat n) gen_bool) in
      mret (VBits bits)
  end.

(** ** [Transformer::resolve] *)
Fixpoint resolve_go (fuel : nat) (r : registry) (id : N) : M value :=
  fun s =>
    match fuel with
    | O => XErr XOutOfFuel
    | S fuel' =>
        match lookup r id with
        | None => XErr (XNotFound id)
        | Some t =>
            match cache_get (fst s) id with
            | Some CRecursive => XErr (XRecursive id)
            | _ =>
                (* absent, or [Computed]: the cache-hit policy returns None, the value is recomputed *)
                match ty_example (resolve_go fuel' r) t (cache_set id CRecursive (fst s), snd s) with
                | XOk (v, s') => XOk (v, (cache_set id (CComputed v) (fst s'), snd s'))
                | XErr e => XErr e
                | XPanic m => XPanic m
                end
            end
        end
    end.

(** Fuel: a nested [resolve] of an in-progress id is an error, so the nesting
    depth never exceeds the number of registry entries (C12_total). *)
Definition example_fuel (r : registry) : nat := S (List.length r).

(** [example_from_seed(id, types, seed)] with [ws] = the word stream of [seed] *)
Definition example_run (r : registry) (id : N) (ws : words) : xres (value * st) :=
  resolve_go (example_fuel r) r id ([], ws).

Definition example_value (r : registry) (id : N) (ws : words) : xres value :=
  match example_run r id ws with
  | XOk (v, _) => XOk v
  | XErr e => XErr e
  | XPanic m => XPanic m
  end.

(** words consumed by a successful run *)
Definition example_consumed (r : registry) (id : N) (ws : words) : option N :=
  match example_run r id ws with
  | XOk (_, (_, rest)) => Some (N.of_nat (List.length ws - List.length rest))
  | _ => None
  end.

(** ** The typing relation: what it means for a value to be an instance of a type id *)

Definition in_signed (bits : N) (z : Z) : bool :=
  ((- Z.of_N (2 ^ (bits - 1)) <=? z) && (z <? Z.of_N (2 ^ (bits - 1))))%Z.

Definition bytes32b (l : list N) : bool :=
  (N.of_nat (List.length l) =? 32) && forallb (fun b => b <? 256) l.

Definition prim_typedb (p : prim) (v : vprim) : bool :=
  match p, v with
  | PBool, VBool _ => true
  | PChar, VChar c => existsb (N.eqb c) example_chars
  | PStr, VString _ => true
  | PU8, VU128 n => n <? 2 ^ 8
  | PU16, VU128 n => n <? 2 ^ 16
  | PU32, VU128 n => n <? 2 ^ 32
  | PU64, VU128 n => n <? 2 ^ 64
  | PU128, VU128 n => n <? 2 ^ 128
  | PU256, VU256 b => bytes32b b
  | PI8, VI128 z => in_signed 8 z
  | PI16, VI128 z => in_signed 16 z
  | PI32, VI128 z => in_signed 32 z
  | PI64, VI128 z => in_signed 64 z
  | PI128, VI128 z => in_signed 128 z
  | PI256, VI256 b => bytes32b b
  | _, _ => false
  end.

Inductive has_type (r : registry) : N -> value -> Prop :=
| HT_comp_named id t fs l :
    lookup r id = Some t -> t_def t = TDComposite fs ->
    Forall2 (fun f nv => f_name f = Some (fst nv) /\ has_type r (f_ty f) (snd nv)) fs l ->
    has_type r id (VComposite (CNamed l))
| HT_comp_unnamed id t fs l :
    lookup r id = Some t -> t_def t = TDComposite fs ->
    Forall2 (fun f v => f_name f = None /\ has_type r (f_ty f) v) fs l ->
    has_type r id (VComposite (CUnnamed l))
| HT_var_named id t vs var l :
    lookup r id = Some t -> t_def t = TDVariant vs -> In var vs ->
    Forall2 (fun f nv => f_name f = Some (fst nv) /\ has_type r (f_ty f) (snd nv)) (v_fields var) l ->
    has_type r id (VVariant (v_name var) (CNamed l))
| HT_var_unnamed id t vs var l :
    lookup r id = Some t -> t_def t = TDVariant vs -> In var vs ->
    Forall2 (fun f v => f_name f = None /\ has_type r (f_ty f) v) (v_fields var) l ->
    has_type r id (VVariant (v_name var) (CUnnamed l))
| HT_seq id t e l :
    lookup r id = Some t -> t_def t = TDSequence e ->
    Forall (has_type r e) l ->
    has_type r id (VComposite (CUnnamed l))
| HT_array id t len e l :
    lookup r id = Some t -> t_def t = TDArray len e ->
    N.of_nat (List.length l) = len ->
    Forall (has_type r e) l ->
    has_type r id (VComposite (CUnnamed l))
| HT_tuple id t ts l :
    lookup r id = Some t -> t_def t = TDTuple ts ->
    Forall2 (has_type r) ts l ->
    has_type r id (VComposite (CUnnamed l))
| HT_prim id t p pv :
    lookup r id = Some t -> t_def t = TDPrimitive p ->
    prim_typedb p pv = true ->
    has_type r id (VPrim pv)
| HT_compact id t e v :
    lookup r id = Some t -> t_def t = TDCompact e ->
    has_type r e v ->
    has_type r id v
| HT_bits id t s o bits :
    lookup r id = Some t -> t_def t = TDBitSeq s o ->
    has_type r id (VBits bits).

(** *** the boolean checker (fuel: one unit per value level or compact step) *)
Fixpoint forallb2 {A B} (p : A -> B -> bool) (la : list A) (lb : list B) : bool :=
  match la, lb with
  | [], [] => true
  | a :: la', b :: lb' => p a b && forallb2 p la' lb'
  | _, _ => false
  end.

Definition fields_typedb (T : N -> value -> bool) (fs : list field) (c : composite value) : bool :=
  match c with
  | CNamed l =>
      forallb2 (fun f (nv : string * value) =>
                  match f_name f with
                  | Some n => String.eqb n (fst nv) && T (f_ty f) (snd nv)
                  | None => false
                  end) fs l
  | CUnnamed l =>
      forallb2 (fun f v => is_none (f_name f) && T (f_ty f) v) fs l
  end.

Definition ty_typedb (T : N -> value -> bool) (t : ty) (v : value) : bool :=
  match t_def t with
  | TDComposite fs =>
      match v with VComposite c => fields_typedb T fs c | _ => false end
  | TDVariant vs =>
      match v with
      | VVariant name c =>
          existsb (fun var => String.eqb (v_name var) name && fields_typedb T (v_fields var) c) vs
      | _ => false
      end
  | TDSequence e =>
      match v with VComposite (CUnnamed l) => forallb (T e) l | _ => false end
  | TDArray len e =>
      match v with
      | VComposite (CUnnamed l) => (N.of_nat (List.length l) =? len) && forallb (T e) l
      | _ => false
      end
  | TDTuple ts =>
      match v with VComposite (CUnnamed l) => forallb2 T ts l | _ => false end
  | TDPrimitive p =>
      match v with VPrim pv => prim_typedb p pv | _ => false end
  | TDCompact e => T e v
  | TDBitSeq _ _ =>
      match v with VBits _ => true | _ => false end
  end.

Fixpoint has_type_fuel (fuel : nat) (r : registry) (id : N) (v : value) : bool :=
  match fuel with
  | O => false
  | S fuel' =>
      match lookup r id with
      | None => false
      | Some t => ty_typedb (has_type_fuel fuel' r) t v
      end
  end.

(** nesting depth of a value *)
Fixpoint value_depth (v : value) : nat :=
  let comp (c : composite value) : nat :=
    match c with
    | CNamed l => (fix go (l : list (string * value)) : nat :=
                     match l with [] => O | (_, x) :: l' => Nat.max (value_depth x) (go l') end) l
    | CUnnamed l => (fix go (l : list value) : nat :=
                       match l with [] => O | x :: l' => Nat.max (value_depth x) (go l') end) l
    end in
  match v with
  | VComposite c => S (comp c)
  | VVariant _ c => S (comp c)
  | VPrim _ => 1%nat
  | VBits _ => 1%nat
  end.

(** between two value levels at most [length r] compact steps can occur (a
    longer compact chain is cyclic and has no instance at all) *)
Definition has_typeb (r : registry) (id : N) (v : value) : bool :=
  has_type_fuel (value_depth v * S (List.length r)) r id v.

(** ** value equality (for the correspondence check) *)
Definition vprim_eqb (a b : vprim) : bool :=
  match a, b with
  | VBool x, VBool y => Bool.eqb x y
  | VChar x, VChar y => x =? y
  | VString x, VString y => String.eqb x y
  | VU128 x, VU128 y => x =? y
  | VI128 x, VI128 y => (x =? y)%Z
  | VU256 x, VU256 y => list_eqb N.eqb x y
  | VI256 x, VI256 y => list_eqb N.eqb x y
  | _, _ => false
  end.

Fixpoint value_eqb (a b : value) : bool :=
  let comp (ca cb : composite value) : bool :=
    match ca, cb with
    | CNamed la, CNamed lb =>
        (fix go (la lb : list (string * value)) : bool :=
           match la, lb with
           | [], [] => true
           | (n, x) :: la', (m, y) :: lb' => String.eqb n m && value_eqb x y && go la' lb'
           | _, _ => false
           end) la lb
    | CUnnamed la, CUnnamed lb =>
        (fix go (la lb : list value) : bool :=
           match la, lb with
           | [], [] => true
           | x :: la', y :: lb' => value_eqb x y && go la' lb'
           | _, _ => false
           end) la lb
    | _, _ => false
    end in
  match a, b with
  | VComposite ca, VComposite cb => comp ca cb
  | VVariant n ca, VVariant m cb => String.eqb n m && comp ca cb
  | VPrim p, VPrim q => vprim_eqb p q
  | VBits x, VBits y => list_eqb Bool.eqb x y
  | _, _ => false
  end.

(** ** The hypothesis of C12_returns, written independently of the example
    model: exploring from [id] along the edges the property calls "reachable"
    (fields of a composite, fields of EVERY variant, sequence / array / tuple
    elements, compact inner) never meets an id that is already on the current
    path (no cycle), never meets an enum without variants and never meets a
    field list that mixes named and unnamed fields; every id met resolves.
    (Bit-store/order ids and type parameters are not followed: the claim is
    the stronger one that an example exists whatever they refer to.  An array
    of length 0 still counts its element type as reachable.) *)
Definition fields_uniform (fs : list field) : bool := all_named fs || all_unnamed fs.

Fixpoint safe_path (fuel : nat) (r : registry) (path : list N) (id : N) : bool :=
  match fuel with
  | O => false
  | S fuel' =>
      match lookup r id with
      | None => false
      | Some t =>
          if existsb (N.eqb id) path then false   (* a cycle; [if], not [&&]: evaluation must stop here *)
          else
          let rec := safe_path fuel' r (id :: path) in
          match t_def t with
          | TDComposite fs => fields_uniform fs && forallb rec (map f_ty fs)
          | TDVariant vs =>
              negb (match vs with [] => true | _ => false end) &&
              forallb (fun v => fields_uniform (v_fields v) && forallb rec (map f_ty (v_fields v))) vs
          | TDSequence e => rec e
          | TDArray _ e => rec e
          | TDTuple ts => forallb rec ts
          | TDPrimitive _ => true
          | TDCompact e => rec e
          | TDBitSeq _ _ => true
          end
      end
  end.

Definition safeb (r : registry) (id : N) : bool := safe_path (example_fuel r) r [] id.
