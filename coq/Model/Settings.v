(** Settings of the generator as data (DESIGN.md 2.1): token lists for user
    supplied [syn] values, derive / attribute sets, substitution rules. *)
From Coq Require Import List NArith String Bool.
From V Require Import Base.Strings.
Import ListNotations.
Open Scope string_scope. Open Scope list_scope.

Definition tokens := list string.

Inductive alloc_path := AStd | ACustom (t : tokens).
Definition alloc_tokens (a : alloc_path) : tokens :=
  match a with AStd => [":"; ":"; "std"] | ACustom t => t end.

(** a derive path or an attribute: (sort key = set identity = [quote!(#x).to_string()], tokens) *)
Definition kt := (string * tokens)%type.

(** [Derives]: two hash sets.  Modelled as lists read as sets: union is [++],
    emission sorts by key and removes duplicates. *)
Record derives := mk_derives { d_derives : list kt; d_attrs : list kt }.
Definition derives_empty : derives := mk_derives [] [].
Definition derives_union (a b : derives) : derives :=
  mk_derives (d_derives a ++ d_derives b) (d_attrs a ++ d_attrs b).

(** a user supplied [syn::TypePath] used as a map key *)
Record tykey := mk_tykey {
  k_key : string;          (* token string: identity of the key *)
  k_segs : list string;    (* [path_segments]: idents only *)
  k_toks : tokens }.

Definition kmap := list (tykey * derives).

(** [map.entry(k).or_default()] followed by an extension *)
Fixpoint kmap_extend (m : kmap) (k : tykey) (d : derives) : kmap :=
  match m with
  | [] => [(k, derives_union derives_empty d)]
  | (k', d') :: m' =>
      if String.eqb (k_key k') (k_key k) then (k', derives_union d' d) :: m'
      else (k', d') :: kmap_extend m' k d
  end.

Fixpoint kmap_get (m : kmap) (key : string) : option derives :=
  match m with
  | [] => None
  | (k', d') :: m' => if String.eqb (k_key k') key then Some d' else kmap_get m' key
  end.

Fixpoint kmap_remove (m : kmap) (key : string) : kmap :=
  match m with
  | [] => []
  | (k', d') :: m' => if String.eqb (k_key k') key then m' else (k', d') :: kmap_remove m' key
  end.

Record derives_registry := mk_dreg {
  dr_default : derives;
  dr_specific : kmap;
  dr_recursive : kmap }.
Definition dreg_empty : derives_registry := mk_dreg derives_empty [] [].

(** ** user supplied paths whose generic arguments the code inspects *)
Inductive gtype :=
| GTPath (qself : bool) (leading : bool) (segs : list (string * pargs))
| GTOther (toks : tokens)
with pargs :=
| ANone
| AAngle (args : list garg)
| AParen (toks : tokens)
with garg :=
| GType (t : gtype)
| GOther (toks : tokens).

Record spath := mk_spath { sp_leading : bool; sp_segs : list (string * pargs) }.

Inductive mapping := PassThrough | Specified (m : list (string * nat)).
Record substitute := mk_subst { su_path : spath; su_map : mapping }.
Definition substitutes := list (list string * substitute).

Fixpoint subs_get (s : substitutes) (p : list string) : option substitute :=
  match s with
  | [] => None
  | (k, v) :: s' => if path_eqb k p then Some v else subs_get s' p
  end.

Fixpoint subs_insert (s : substitutes) (p : list string) (v : substitute) : substitutes :=
  match s with
  | [] => [(p, v)]
  | (k, v') :: s' => if path_eqb k p then (k, v) :: s' else (k, v') :: subs_insert s' p v
  end.

Definition subs_contains (s : substitutes) (p : list string) : bool :=
  match p with [] => false | _ => match subs_get s p with Some _ => true | None => false end end.

Record settings := mk_settings {
  s_root : string;
  s_docs : bool;
  s_dreg : derives_registry;
  s_subs : substitutes;
  s_bits : option tokens;
  s_compact_as : option kt;
  s_compact : option tokens;
  s_codec : bool;
  s_alloc : alloc_path }.
