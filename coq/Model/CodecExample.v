(** A small registry on which the codec of Model/Codec.v is run on real bytes with the
    concrete instance of Model/CodecInstance.v: a struct with a [u8], a compact [u32], a
    [Vec<u16>], an enum field and an [Option<u16>] (prelude type, read as an external
    type).  Definitions only; the Examples are in Proofs/CodecExamples.v. *)
From Coq Require Import List NArith String Bool.
From V Require Import Base.Util Base.Strings Base.Result Model.Registry Model.Settings Model.Subst
  Model.TypePath Model.Derives Model.Generate Model.Equal Model.Shape Model.Codec
  Model.CodecInstance.
Import ListNotations.
Open Scope string_scope. Open Scope list_scope. Open Scope N_scope.

Definition cfld (n : string) (ty : N) (tn : string) : field := mk_field (Some n) ty (Some tn) [].
Definition cufld (ty : N) : field := mk_field None ty None [].
Definition cplain (d : typedef) : ty := mk_ty [] [] d [].

Definition cx_variants : list variant :=
  [ mk_variant "A" [] 0 [];
    mk_variant "B" [cufld 0] 2 [];
    mk_variant "C" [cfld "x" 2 "Compact<u32>"; cfld "y" 6 "bool"] 5 [] ].

Definition cx_reg : registry :=
  [ (0, cplain (TDPrimitive PU8));
    (1, cplain (TDPrimitive PU32));
    (2, cplain (TDCompact 1));
    (3, cplain (TDPrimitive PU16));
    (4, cplain (TDSequence 3));
    (5, mk_ty ["a"; "E"] [] (TDVariant cx_variants) []);
    (6, cplain (TDPrimitive PBool));
    (7, mk_ty ["a"; "S"] []
          (TDComposite [cfld "a" 0 "u8"; cfld "b" 2 "Compact<u32>"; cfld "c" 4 "Vec<u16>";
                        cfld "d" 5 "E"; cfld "o" 8 "Option<u16>"]) []);
    (8, mk_ty ["Option"] [mk_tparam "T" (Some 3)]
          (TDVariant [mk_variant "None" [] 0 []; mk_variant "Some" [cufld 3] 1 []]) []) ].

Definition cx_settings : settings :=
  mk_settings "types" true dreg_empty []
    (Some (abs_path ["ext"; "DecodedBits"])) None (Some (abs_path ["codec"; "Compact"]))
    true AStd.

Definition cx_items : items :=
  match generate cx_reg cx_settings (types_equal cx_reg) with
  | Ok m => m
  | _ => []
  end.

(** the type expression the generator names for the struct (id 7) and the enum (id 5) *)
Definition cx_path (id : N) : tpath :=
  match resolve_type_path cx_reg cx_settings id with
  | Ok t => t
  | _ => TTuple []
  end.

(** a = 7; b = 300 (compact, two-byte mode: 0xB1 0x04); c = [1; 258] (length 2 = compact
    byte 8, then 01 00, 02 01); d = C { x: 70000 (compact, four-byte mode), y: true };
    o = Some(513) *)
Definition cx_bytes : bytes :=
  [7; 177; 4; 8; 1; 0; 2; 1; 5; 194; 69; 4; 0; 1; 1; 1; 2].

Definition cx_value : ival :=
  VStruct [VPrim 7; VPrim 300; VSeq [VPrim 1; VPrim 258];
           VEnum 5 [VPrim 70000; VPrim 1]; VEnum 1 [VPrim 513]].

(** the payload of variant C on its own, and the standalone struct built from C's fields *)
Definition cx_payload : bytes := [194; 69; 4; 0; 1].

Definition cx_standalone : type_ir :=
  match create_composite_ir_kind cx_reg cx_settings
          [cfld "x" 2 "Compact<u32>"; cfld "y" 6 "bool"] [] [] with
  | Ok (k, _) => upcast_composite cx_settings (mk_ci "C" k [])
  | _ => upcast_composite cx_settings (mk_ci "C" CNoFields [])
  end.
