(** C02, indirection clause ("every cycle between generated types passes through heap
    indirection"): the by-value containment graph of the generated items and the rank condition
    on the registry it is derived from.  New definitions only.

    By-value sub-paths of a field type: a [Path] node is one; the arguments of a path are
    traversed only below the four transparent prelude types ([Option], [Result], [Range],
    [RangeInclusive], recognised by their tokens); tuples, arrays and compact wrappers are
    transparent; [Vec], bit vectors (heap) and generic parameters (opaque) cut. *)
From Coq Require Import List NArith String Bool.
From V Require Import Base.Util Base.Strings Base.Result Model.Registry Model.Settings Model.Subst
  Model.TypePath Model.Derives Model.Generate Model.WellFormed.
Import ListNotations.
Open Scope string_scope. Open Scope list_scope. Open Scope nat_scope.

Definition transparent_paths : list tokens :=
  [ abs_path ["core"; "option"; "Option"]; abs_path ["core"; "result"; "Result"];
    abs_path ["core"; "ops"; "Range"]; abs_path ["core"; "ops"; "RangeInclusive"] ].
Definition transparent_toksb (toks : tokens) : bool :=
  existsb (list_eqb String.eqb toks) transparent_paths.

Fixpoint bv_subpaths (t : tpath) : list tpath :=
  match t with
  | TParam _ | TPrim _ | TVec _ | TBitVec _ _ _ => []
  | TPath toks ps => t :: (if transparent_toksb toks then flat_map bv_subpaths ps else [])
  | TArray _ o => bv_subpaths o
  | TTuple es => flat_map bv_subpaths es
  | TCompact i _ _ => bv_subpaths i
  end.

(** edge  A -> B : a field of the item at path [pa] that is not wrapped in [Box] mentions the
    item path [pb] by value *)
Definition item_edge (s : settings) (m : items) (pa pb : list string) : Prop :=
  exists id ir f params,
    items_get m pa = Some (id, ir) /\ In f (kind_fields (ti_kind ir)) /\ fi_boxed f = false /\
    In (TPath (rel_path (s_root s :: pb)) params) (bv_subpaths (fi_path f)).

(** a walk of [n + 1] edges *)
Fixpoint walk {A} (E : A -> A -> Prop) (n : nat) (a b : A) : Prop :=
  match n with
  | O => E a b
  | S n' => exists c, E a c /\ walk E n' c b
  end.

(** ** the registry side *)
Definition def_fields (d : typedef) : list field :=
  match d with
  | TDComposite fs => fs
  | TDVariant vs => flat_map v_fields vs
  | _ => []
  end.

(** the printed path of a struct / enum entry is one whose arguments are contained by value:
    a transparent prelude type, or - conservatively, its layout is not known - a substituted
    type *)
Definition path_transparent (s : settings) (p : list string) : bool :=
  match subs_get (s_subs s) p with
  | Some _ => true
  | None =>
      match from_type_def_path p (s_root s) (alloc_tokens (s_alloc s)) with
      | Ok toks => transparent_toksb toks
      | _ => false
      end
  end.

Definition is_cow_name (o : option string) : bool :=
  match o with Some nm => String.eqb nm "Cow" | None => false end.

(** [rank] on ids decreases (weakly through the transparent constructors, strictly through a
    non-boxed field) along every by-value step of the registry's type graph; sequences, bit
    sequences, [Box]-named fields and the arguments of non-transparent types are not
    constrained.  Every clause is decidable for a tabulated [rank]. *)
Definition bv_ranked (r : registry) (s : settings) (rank : N -> nat) : Prop :=
  (* the resolver's look-through of [Cow] *)
  (forall id t0 p0 ps inner, resolve r id = Some t0 -> is_cow_name (path_ident (t_path t0)) = true ->
     t_params t0 = p0 :: ps -> tp_ty p0 = Some inner -> rank inner <= rank id) /\
  (* tuples, arrays, compact wrappers *)
  (forall id t c, resolve r id = Some t ->
     In c (match t_def t with TDArray _ e => [e] | TDCompact e => [e] | TDTuple es => es | _ => [] end) ->
     rank c <= rank id) /\
  (* arguments of transparent types *)
  (forall id t c, resolve r id = Some t -> is_composite_or_variant (t_def t) = true ->
     path_transparent s (t_path t) = true -> In c (param_ids t) -> rank c <= rank id) /\
  (* fields not named [Box<..>] *)
  (forall id t f, resolve r id = Some t -> In f (def_fields (t_def t)) -> is_boxed_gen f = false ->
     rank (f_ty f) < rank id) /\
  (* the rank of a struct / enum entry is a function of its path *)
  (forall id1 t1 id2 t2, resolve r id1 = Some t1 -> resolve r id2 = Some t2 ->
     is_composite_or_variant (t_def t1) = true -> is_composite_or_variant (t_def t2) = true ->
     t_path t1 = t_path t2 -> rank id1 = rank id2).
