(** Model of description/src/description.rs ([type_description]) on top of
    description/src/transformer.rs ([Transformer::resolve]).

    The transformer cache is threaded as state: an id is absent, [CRec]
    ("Recursive": computation started, not finished) or [CDone text]
    ("Computed").  The two policies of the description:
      - recurse policy   (entry is [CRec])  : named type -> its name with type
        parameters, unnamed type -> [None] = carry on and expand again;
      - cache-hit policy (entry is [CDone]) : named type -> its name, unnamed
        type -> the cached text (replayed verbatim).
    "named" is [ty.path.ident().is_some()], i.e. a non-empty path, whatever the
    type definition is.

    Outcomes: [Ok text]; [Err (ETypeNotFound id)] (anyhow error of
    [Transformer::resolve]); [Err EInvalidFields] (named and unnamed fields
    mixed); [Panic] ([unwrap] of a missing id in [type_name_with_type_params]);
    [Err EOutOfFuel] = unbounded recursion of the code (stack overflow), a
    value distinct from every real outcome.  No proofs in this file. *)
From Coq Require Import List NArith String Bool Ascii.
From V Require Import Base.Util Base.Result Base.Strings Model.Registry Model.Format.
Import ListNotations.
Open Scope string_scope.

(** ** the cache *)
Inductive centry := CRec | CDone (s : string).
Definition cache := list (N * centry).

(** [HashMap::get]: the latest insertion for a key wins *)
Fixpoint cache_get (c : cache) (id : N) : option centry :=
  match c with
  | [] => None
  | (k, v) :: c' => if N.eqb k id then Some v else cache_get c' id
  end.
Definition cache_put (c : cache) (id : N) (v : centry) : cache := (id, v) :: c.
Definition cache_mem (c : cache) (id : N) : bool :=
  match cache_get c id with Some _ => true | None => false end.

(** ** literals of description.rs *)
Definition prim_name (p : prim) : string :=
  match p with
  | PBool => "bool" | PChar => "char" | PStr => "String"
  | PU8 => "u8" | PU16 => "u16" | PU32 => "u32" | PU64 => "u64" | PU128 => "u128" | PU256 => "u256"
  | PI8 => "i8" | PI16 => "i16" | PI32 => "i32" | PI64 => "i64" | PI128 => "i128" | PI256 => "i256"
  end.

Definition is_named (t : ty) : bool :=
  match path_ident (t_path t) with Some _ => true | None => false end.

(** the tuple loop: every element is followed by ',' unless it is the last
    one of a tuple that has not exactly one element *)
Definition tuple_text (ds : list string) : string :=
  match ds with
  | [d] => "(" ++ d ++ ",)"
  | _ => "(" ++ join "," ds ++ ")"
  end.

Definition unwrap_none : string := "called `Option::unwrap()` on a `None` value".

(** state-threading left-to-right map that stops at the first failure *)
Fixpoint mapS {A} (f : cache -> A -> result (string * cache)) (c : cache) (l : list A)
  : result (list string * cache) :=
  match l with
  | [] => Ok ([], c)
  | x :: l' =>
      let* (d, c1) := f c x in
      let* (ds, c2) := mapS f c1 l' in
      Ok (d :: ds, c2)
  end.

Section WithRegistry.
  Variable r : registry.

  (** ** [type_name_with_type_params] (description.rs:78-135); recursion
      through [types.resolve(id).unwrap()] *)
  Fixpoint tname (fuel : nat) (t : ty) : result string :=
    match fuel with
    | O => Err EOutOfFuel
    | S f =>
      let of_id (i : N) : result string :=
        match resolve r i with
        | None => Panic unwrap_none
        | Some t' => tname f t'
        end in
      match t_def t with
      | TDSequence e => let* i := of_id e in Ok ("Vec<" ++ i ++ ">")
      | TDArray len e => let* i := of_id e in Ok ("[" ++ i ++ ";" ++ N_to_string len ++ "]")
      | TDTuple ts => let* ds := mapM of_id ts in Ok (tuple_text ds)
      | TDPrimitive p => Ok (prim_name p)
      | TDCompact e => let* i := of_id e in Ok ("Compact<" ++ i ++ ">")
      | TDBitSeq _ _ => Ok "BitSequence"
      | TDComposite _ | TDVariant _ =>
        match path_ident (t_path t) with
        | None => Ok "_"
        | Some ident =>
          let* ps := mapM (fun p => match tp_ty p with
                                    | None => Ok "_"
                                    | Some i => of_id i
                                    end) (t_params t) in
          let s := join "," ps in
          if String.eqb s "" then Ok ident else Ok (ident ++ "<" ++ s ++ ">")
        end
      end
    end.

  (** ** the policy [ty_description] over an abstract [transformer.resolve] *)
  Section Policy.
    Variable name_of : ty -> result string.
    Variable rec : cache -> N -> result (string * cache).

    Definition field_desc (c : cache) (f : field) : result (string * cache) :=
      let* (d, c') := rec c (f_ty f) in
      let d := if is_boxed f then "Box<" ++ d ++ ">" else d in
      Ok (match f_name f with Some n => n ++ ": " ++ d | None => d end, c').

    Definition fields_desc (c : cache) (fs : list field) : result (string * cache) :=
      match fs with
      | [] => Ok ("()", c)
      | _ =>
        let an := all_named fs in
        let au := all_unnamed fs in
        if an && negb au then
          let* (ds, c') := mapS field_desc c fs in Ok ("{" ++ join "," ds ++ "}", c')
        else if negb an && au then
          let* (ds, c') := mapS field_desc c fs in Ok ("(" ++ join "," ds ++ ")", c')
        else Err EInvalidFields
      end.

    Definition variant_desc (c : cache) (v : variant) : result (string * cache) :=
      let* (fsd, c') := fields_desc c (v_fields v) in
      Ok (if String.eqb fsd "()" then v_name v else v_name v ++ fsd, c').

    Definition typedef_desc (c : cache) (d : typedef) : result (string * cache) :=
      match d with
      | TDComposite fs => fields_desc c fs
      | TDVariant vs =>
          let* (ds, c') := mapS variant_desc c vs in Ok ("{" ++ join "," ds ++ "}", c')
      | TDSequence e => let* (d, c') := rec c e in Ok ("Vec<" ++ d ++ ">", c')
      | TDArray len e =>
          let* (d, c') := rec c e in Ok ("[" ++ d ++ "; " ++ N_to_string len ++ "]", c')
      | TDTuple ts => let* (ds, c') := mapS rec c ts in Ok (tuple_text ds, c')
      | TDPrimitive p => Ok (prim_name p, c)
      | TDCompact e => let* (d, c') := rec c e in Ok ("Compact<" ++ d ++ ">", c')
      | TDBitSeq store order =>
          let* (o, c1) := rec c order in
          let* (s, c2) := rec c1 store in
          Ok ("BitSequence(" ++ o ++ ", " ++ s ++ ")", c2)
      end.

    Definition def_prefix (d : typedef) : string :=
      match d with TDVariant _ => "enum " | TDComposite _ => "struct " | _ => "" end.

    Definition ty_desc (c : cache) (t : ty) : result (string * cache) :=
      let* nm := (if is_named t then name_of t else Ok "") in
      let* (d, c') := typedef_desc c (t_def t) in
      Ok (def_prefix (t_def t) ++ nm ++ d, c').
  End Policy.

  (** ** [Transformer::resolve] (transformer.rs:77-98) with the two policies.
      [nfuel] is the fuel handed to [tname], [fuel] bounds the nesting depth
      of [resolve] calls. *)
  Fixpoint dresolve (nfuel fuel : nat) (c : cache) (id : N) : result (string * cache) :=
    match fuel with
    | O => Err EOutOfFuel
    | S f =>
      match resolve r id with
      | None => Err (ETypeNotFound id)
      | Some t =>
        let by_name := let* n := tname nfuel t in Ok (n, c) in
        let expand :=
          let* (d, c') := ty_desc (tname nfuel) (dresolve nfuel f) (cache_put c id CRec) t in
          Ok (d, cache_put c' id (CDone d)) in
        match cache_get c id with
        | Some CRec => if is_named t then by_name else expand
        | Some (CDone s) => if is_named t then by_name else Ok (s, c)
        | None => expand
        end
      end
    end.

  (** fuel: [tname] descends along edges of the acyclic non-field graph, at
      most [length r] of them; a [resolve] nest has at most [length r] named
      expansions (each named id is marked before its body is visited) with at
      most [length r] anonymous steps before each and after the last
      (Proofs/DescribeProofs.v, [dresolve_total]). *)
  Definition name_fuel : nat := S (List.length r).
  Definition desc_fuel : nat := S (List.length r * S (List.length r)).

  Definition describe_with (nf f : nat) (id : N) : result string :=
    let* (d, _) := dresolve nf f [] id in Ok d.

  Definition describe (id : N) : result string := describe_with name_fuel desc_fuel id.

  (** [type_description(id, registry, true)], as code points *)
  Definition format_text (s : string) : list N := format_impl (utf8_decode s).
  Definition describe_fmt (id : N) : result (list N) :=
    let* d := describe id in Ok (format_text d).

  (** ** input class (DESIGN 3.1, clauses 2, 5, 6 as the description needs them)
      Edges that are followed WITHOUT the protection of the in-progress
      marker: those of [tname] (element types; generic arguments of a named
      composite/variant) and the children of a type with an empty path. *)
  Definition name_edges (t : ty) : list N :=
    match t_def t with
    | TDSequence e => [e]
    | TDArray _ e => [e]
    | TDTuple ts => ts
    | TDCompact e => [e]
    | TDPrimitive _ => []
    | TDBitSeq _ _ => []
    | TDComposite _ => if is_named t then param_ids t else []
    | TDVariant _ => if is_named t then param_ids t else []
    end.

  Definition anon_edges (t : ty) : list N :=
    name_edges t ++ (if is_named t then [] else def_ids (t_def t)).

  Definition fields_okb (fs : list field) : bool := all_named fs || all_unnamed fs.
  Definition def_fields_okb (d : typedef) : bool :=
    match d with
    | TDComposite fs => fields_okb fs
    | TDVariant vs => forallb (fun v => fields_okb (v_fields v)) vs
    | _ => true
    end.

  (** [rk] is a rank function: below [length r] and strictly decreasing
      along every unprotected edge *)
  Fixpoint rank_ok_from (rk : N -> N) (n : N) (i : N) (l : registry) : bool :=
    match l with
    | [] => true
    | e :: l' =>
        (rk i <? n)%N
        && forallb (fun c => (rk c <? rk i)%N) (anon_edges (snd e))
        && rank_ok_from rk n (i + 1)%N l'
    end.
  Definition rank_okb (rk : N -> N) : bool :=
    rank_ok_from rk (N.of_nat (List.length r)) 0%N r.

  (** candidate rank: height in the unprotected graph (fuel-bounded; on a
      cyclic graph the result fails [rank_okb]) *)
  Fixpoint height (fuel : nat) (id : N) : N :=
    match fuel with
    | O => 0%N
    | S f =>
      match resolve r id with
      | None => 0%N
      | Some t => fold_right (fun c acc => N.max (1 + height f c)%N acc) 0%N (anon_edges t)
      end
    end.
  Definition heights : list N :=
    map (fun i => height (S (List.length r)) (N.of_nat i)) (seq 0 (List.length r)).
  Definition height_rank (c : N) : N := nth (N.to_nat c) heights 0%N.

  Definition fields_all_okb : bool := forallb (fun e => def_fields_okb (t_def (snd e))) r.

  (** [heights] is computed once ([let]) and shared by all look-ups *)
  Definition wf_descb : bool :=
    closed_reg r && fields_all_okb &&
    (let hs := heights in rank_okb (fun c => nth (N.to_nat c) hs 0%N)).
End WithRegistry.
