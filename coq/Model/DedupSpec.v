(** Specification vocabulary for the groups map of [ensure_unique_type_paths]
    (utils.rs:29-90).  Definitions only; the proofs are in Proofs/DedupGroups.v. *)
From Coq Require Import List NArith String Bool.
From V Require Import Base.Strings Base.Result Model.Registry Model.Derives Model.Equal.
Import ListNotations.
Open Scope list_scope.

(** the member every later candidate is compared with ([group[0]] in the code) *)
Definition group_first (g : list N) : N := hd 0%N g.

(** the first index entered under a path: first member of its first group *)
Definition entry_first (e : list string * list (list N)) : N := group_first (hd [] (snd e)).

(** all indices listed anywhere in the groups map, in map order *)
Definition all_members (m : groups) : list N := List.concat (map (fun e => List.concat (snd e)) m).

(** the registry entry at POSITION [i] has path [p] (the pass enumerates positions) *)
Definition entry_at (r : registry) (i : N) (p : list string) : Prop :=
  exists e, nth_error r (N.to_nat i) = Some e /\ t_path (snd e) = p.

(** invariant of the groups of ONE path while positions [< bound] have been processed *)
Definition groups_ok (r : registry) (bound : N) (gs : list (list N)) : Prop :=
  gs <> [] /\ Forall (fun g => g <> []) gs /\
  (forall g i, In g gs -> In i g -> (i < bound)%N) /\
  (forall g i, In g gs -> In i (tl g) -> types_equal_res r i (group_first g) = Ok true) /\
  ForallOrdPairs (fun g0 g => forall i, In i g -> types_equal_res r i (group_first g0) = Ok false) gs /\
  Forall (ForallOrdPairs N.lt) gs /\
  ForallOrdPairs (fun g0 g => (group_first g0 < group_first g)%N) gs.

(** invariant of the whole map *)
Definition map_ok (r : registry) (bound : N) (m : groups) : Prop :=
  NoDup (map fst m) /\
  Forall (fun e => groups_ok r bound (snd e)) m /\
  NoDup (all_members m) /\
  (forall i, In i (all_members m) <->
             (i < bound)%N /\ exists p, entry_at r i p /\ namespace p <> []) /\
  (forall p gs g i, In (p, gs) m -> In g gs -> In i g -> entry_at r i p) /\
  ForallOrdPairs (fun e0 e => (entry_first e0 < entry_first e)%N) m.

(** a small registry for non-vacuity examples: a::Foo(u8), b::Bar(u8), a::Foo(u16), a::Foo(u8),
    Foo(u8) without namespace, u8, u16 *)
Definition dedup_example_reg : registry :=
  [ (0%N, mk_ty ["a"; "Foo"]%string [] (TDComposite [mk_field None 5%N None []]) []);
    (1%N, mk_ty ["b"; "Bar"]%string [] (TDComposite [mk_field None 5%N None []]) []);
    (2%N, mk_ty ["a"; "Foo"]%string [] (TDComposite [mk_field None 6%N None []]) []);
    (3%N, mk_ty ["a"; "Foo"]%string [] (TDComposite [mk_field None 5%N None []]) []);
    (4%N, mk_ty ["Foo"]%string [] (TDComposite [mk_field None 5%N None []]) []);
    (5%N, mk_ty [] [] (TDPrimitive PU8) []);
    (6%N, mk_ty [] [] (TDPrimitive PU16) []) ].
