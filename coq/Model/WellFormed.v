(** Input classes of DESIGN.md 3.1 / 3.2 as decidable predicates (evaluated on
    every generated case by [Corr/CheckTG.v]) together with the Prop readings
    the universal theorems of C10 / C02 are stated on.  No proofs here. *)
From Coq Require Import List NArith String Bool.
From V Require Import Base.Strings Base.Result Model.Registry Model.Settings Model.Subst
  Model.TypePath Model.Derives Model.Generate.
Import ListNotations.
Open Scope string_scope. Open Scope list_scope.

(** ** the non-field graph and its rank check (3.1 clause 6) *)
Definition nonfield_ids (t : ty) : list N :=
  param_ids t ++ match t_def t with
                 | TDComposite _ | TDVariant _ => []
                 | d => def_ids d
                 end.

Definition reg_ids (r : registry) : list N := map N.of_nat (seq 0 (List.length r)).

(** one sweep over the registry: an entry is ranked once all its non-field children are *)
Definition rank_step (acc : list N) (ie : N * (N * ty)) : list N :=
  let '(i, e) := ie in
  if mem_N i acc then acc
  else if forallb (fun c => mem_N c acc) (nonfield_ids (snd e)) then i :: acc else acc.

Definition rank_round (r : registry) (done : list N) : list N :=
  fold_left rank_step (combine (reg_ids r) r) done.

Fixpoint rank_iter (r : registry) (k : nat) (done : list N) : list N :=
  match k with
  | O => done
  | S k' => rank_iter r k' (rank_round r done)
  end.

Definition rank_ok (r : registry) : bool :=
  Nat.eqb (List.length (rank_iter r (List.length r) [])) (List.length r).

(** ** per entry clauses *)
Definition prelude_names : list string := map fst (prelude_table []).

Definition first_param_typed (t : ty) : bool :=
  match t_params t with
  | p0 :: _ => match tp_ty p0 with Some _ => true | None => false end
  | [] => false
  end.

Definition field_names_okb (fs : list field) : bool :=
  forallb (fun f => match f_name f with Some n => ident_okb n | None => true end) fs.

Definition fields_okb (fs : list field) : bool :=
  (all_named fs || all_unnamed fs) && field_names_okb fs.

Definition def_fields_okb (d : typedef) : bool :=
  match d with
  | TDComposite fs => fields_okb fs
  | TDVariant vs => forallb (fun v => ident_okb (v_name v) && fields_okb (v_fields v)) vs
  | _ => true
  end.

(** clauses 3, 4, 5, 7 of 3.1 for one entry *)
Definition entry_wfb (t : ty) : bool :=
  match t_def t with
  | TDComposite _ | TDVariant _ =>
      match t_path t with
      | [] => false
      | [i] => existsb (String.eqb i) prelude_names &&
               (negb (String.eqb i "Cow") || first_param_typed t)
      | p => forallb ident_okb p && negb (String.eqb (last p "") "Cow")
      end && def_fields_okb (t_def t)
  | TDPrimitive (PU256 | PI256) => false
  | _ => match t_path t with [] => true | _ => false end
  end.

(** clause 8 of 3.1 in weakened form: the inner type of a Compact entry - after the one-level
    [Cow] look-through of the resolver - is neither a tuple nor an array.  (A compact FIELD
    renders its inner type with [parse_quote!( #inner )] into a [syn::TypePath], which panics
    on [(..)] and [[..; n]].) *)
Definition cow_target (r : registry) (t0 : ty) : option ty :=
  match path_ident (t_path t0) with
  | Some "Cow" =>
      match t_params t0 with
      | [] => None
      | p0 :: _ =>
          match tp_ty p0 with
          | None => None
          | Some inner => resolve r inner
          end
      end
  | _ => Some t0
  end.

Definition tuple_or_array_def (d : typedef) : bool :=
  match d with TDTuple _ | TDArray _ _ => true | _ => false end.

Definition compact_inner_ok_at (r : registry) (t : ty) : bool :=
  match t_def t with
  | TDCompact e =>
      match resolve r e with
      | Some t0 =>
          match cow_target r t0 with
          | Some t' => negb (tuple_or_array_def (t_def t'))
          | None => true
          end
      | None => true
      end
  | _ => true
  end.

Definition compact_inner_okb (r : registry) : bool :=
  forallb (fun e => compact_inner_ok_at r (snd e)) r.

Definition wf_regb (r : registry) : bool :=
  ids_consistent r && closed_reg r && rank_ok r && forallb (fun e => entry_wfb (snd e)) r &&
  compact_inner_okb r.

(** ** settings (3.2, the clauses generation depends on) *)
Definition has_compact (r : registry) : bool :=
  existsb (fun e => match t_def (snd e) with TDCompact _ => true | _ => false end) r.
Definition has_bitseq (r : registry) : bool :=
  existsb (fun e => match t_def (snd e) with TDBitSeq _ _ => true | _ => false end) r.

Definition compact_okb (r : registry) (s : settings) : bool :=
  match s_compact s with Some _ => true | None => negb (has_compact r) end.
Definition bits_okb (r : registry) (s : settings) : bool :=
  match s_bits s with Some _ => true | None => negb (has_bitseq r) end.

Definition supportedb (r : registry) (s : settings) : bool :=
  compact_okb r s && bits_okb r s && ident_okb (s_root s).

(** ** the weaker clauses path resolution alone depends on *)
Definition cow_okb (t : ty) : bool :=
  match path_ident (t_path t) with
  | Some "Cow" => first_param_typed t
  | _ => true
  end.

Definition path_okb (t : ty) : bool :=
  match t_def t with
  | TDComposite _ | TDVariant _ =>
      match t_path t with
      | [] => false
      | [i] => existsb (String.eqb i) prelude_names
      | p => forallb path_seg_okb p
      end
  | _ => true
  end.

Definition is256 (p : prim) : bool := match p with PU256 | PI256 => true | _ => false end.

Definition no256_defb (t : ty) : bool :=
  match t_def t with TDPrimitive p => negb (is256 p) | _ => true end.

Definition resolvable_entryb (t : ty) : bool := cow_okb t && path_okb t && no256_defb t.

(** what [create_type_ir] needs of an entry it is applied to *)
Definition item_entryb (t : ty) : bool :=
  match t_def t with
  | TDComposite _ | TDVariant _ =>
      match t_path t with [] => false | p => forallb ident_okb p end && def_fields_okb (t_def t)
  | _ => true
  end.

(** what [flatten_recursive_derives] needs of an entry *)
Definition flat_entryb (t : ty) : bool := forallb ident_okb (t_path t).

(** ** Prop readings *)
Definition in_reg (r : registry) (id : N) : Prop := (id < N.of_nat (List.length r))%N.

Definition closed (r : registry) : Prop :=
  forall id t c, resolve r id = Some t -> In c (param_ids t ++ def_ids (t_def t)) -> in_reg r c.

(** [rank] strictly decreases along non-field edges and is bounded by the size *)
Definition ranked (r : registry) (rank : N -> nat) : Prop :=
  (forall id t c, resolve r id = Some t -> In c (nonfield_ids t) -> rank c < rank id) /\
  (forall id, in_reg r id -> rank id < List.length r).

Definition entries_ok (P : ty -> bool) (r : registry) : Prop :=
  forall id t, resolve r id = Some t -> P t = true.

Definition settings_ok (r : registry) (s : settings) : Prop :=
  (forall id t e, resolve r id = Some t -> t_def t = TDCompact e -> s_compact s <> None) /\
  (forall id t a b, resolve r id = Some t -> t_def t = TDBitSeq a b -> s_bits s <> None).

(** the class [C10_resolve_total] is stated on *)
Definition resolvable (r : registry) (s : settings) (rank : N -> nat) : Prop :=
  closed r /\ ranked r rank /\ entries_ok resolvable_entryb r /\ settings_ok r s /\
  entries_ok (compact_inner_ok_at r) r.

(** the class [C10_total] is stated on: ids = positions in addition, and the
    identifier / field-list clauses on every entry *)
Definition generable (r : registry) (s : settings) (rank : N -> nat) : Prop :=
  ids_consistent r = true /\ resolvable r s rank /\
  entries_ok item_entryb r /\ entries_ok flat_entryb r.

(** ** accessors of the IR used by the statements *)
Definition ckind_fields (k : ckind) : list field_ir :=
  match k with
  | CNoFields => []
  | CNamed fs => map snd fs
  | CUnnamed fs => fs
  end.

Definition kind_fields (k : kind_ir) : list field_ir :=
  match k with
  | KStruct c => ckind_fields (ci_kind c)
  | KEnum _ _ vs => flat_map (fun v => ckind_fields (ci_kind (snd v))) vs
  end.

(** no 256-bit primitive anywhere in a path: exactly when [tp_tokens] cannot hit
    [unimplemented!] *)
Fixpoint no256 (t : tpath) : bool :=
  match t with
  | TParam _ => true
  | TPath _ ps => forallb no256 ps
  | TVec o => no256 o
  | TArray _ o => no256 o
  | TTuple es => forallb no256 es
  | TPrim p => negb (is256 p)
  | TCompact i _ _ => no256 i
  | TBitVec o st _ => no256 o && no256 st
  end.

Definition ir_no256 (ir : type_ir) : Prop :=
  forall f, In f (kind_fields (ti_kind ir)) -> no256 (fi_path f) = true.

(** no 256-bit primitive and no compact field whose inner path is a tuple / an array:
    exactly when [tp_tokens] is [Ok] (neither [unimplemented!] nor the [parse_quote!] panic) *)
Definition tuple_or_array (t : tpath) : bool :=
  match t with TTuple _ | TArray _ _ => true | _ => false end.

Fixpoint tokenizable (t : tpath) : bool :=
  match t with
  | TParam _ => true
  | TPath _ ps => forallb tokenizable ps
  | TVec o => tokenizable o
  | TArray _ o => tokenizable o
  | TTuple es => forallb tokenizable es
  | TPrim p => negb (is256 p)
  | TCompact i f _ => tokenizable i && negb (f && tuple_or_array i)
  | TBitVec o st _ => tokenizable o && tokenizable st
  end.

Definition ir_tokenizable (ir : type_ir) : Prop :=
  forall f, In f (kind_fields (ti_kind ir)) -> tokenizable (fi_path f) = true.

(** sub-paths of a path (reflexive) *)
Fixpoint subpaths (t : tpath) : list tpath :=
  t :: match t with
       | TParam _ | TPrim _ => []
       | TPath _ ps => flat_map subpaths ps
       | TVec o => subpaths o
       | TArray _ o => subpaths o
       | TTuple es => flat_map subpaths es
       | TCompact i _ _ => subpaths i
       | TBitVec o st _ => subpaths o ++ subpaths st
       end.
