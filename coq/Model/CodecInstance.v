(** A concrete instance of the abstract primitive codecs of Model/Codec.v, to show that
    the hypotheses [prims_ok] / [prims_mono] are satisfiable and to run [decode] /
    [encode] on real bytes ([Eval vm_compute], Examples in Proofs/CodecExamples.v):
    - fixed-width little-endian integers of every width (signed ones as their
      two's-complement bit pattern), [bool] as the byte 0 / 1; [str] is not covered (None);
    - SCALE compact integers in the single-byte, two-byte and four-byte modes with the
      canonical-range checks (the big-integer mode is not covered: None);
    - the sequence length prefix = compact u32;
    - bit sequences with store [u8]: compact bit length, then ceil(len / 8) raw bytes;
    - the one external type this instance knows, [Option<T>] (any path whose last token
      before the generic arguments is [Option]): byte 0, or byte 1 followed by a [T].
    Definitions only; the proofs that this instance satisfies the hypotheses are in
    Proofs/CodecInstanceProofs.v. *)
From Coq Require Import List NArith String Bool.
From V Require Import Base.Strings Model.Registry Model.Settings Model.Shape Model.Codec.
Import ListNotations.
Open Scope list_scope. Open Scope N_scope.

(** [k] bytes, least significant first *)
Fixpoint le_dec (k : nat) (b : bytes) : option (N * bytes) :=
  match k with
  | O => Some (0, b)
  | S k' =>
      match b with
      | [] => None
      | x :: b' =>
          if x <? 256 then
            match le_dec k' b' with
            | Some (v, r) => Some (x + 256 * v, r)
            | None => None
            end
          else None
      end
  end.

Fixpoint le_enc (k : nat) (v : N) : option bytes :=
  match k with
  | O => if v =? 0 then Some [] else None          (* does not fit *)
  | S k' =>
      match le_enc k' (v / 256) with
      | Some bs => Some (v mod 256 :: bs)
      | None => None
      end
  end.

Definition prim_width (p : prim) : option nat :=
  match p with
  | PBool | PU8 | PI8 => Some 1%nat
  | PU16 | PI16 => Some 2%nat
  | PU32 | PI32 | PChar => Some 4%nat
  | PU64 | PI64 => Some 8%nat
  | PU128 | PI128 => Some 16%nat
  | PU256 | PI256 => Some 32%nat
  | PStr => None
  end.

Definition i_pdec (p : prim) : dec N :=
  fun b =>
    match prim_width p with
    | None => None
    | Some k =>
        match le_dec k b with
        | Some (v, r) =>
            match p with
            | PBool => if v <? 2 then Some (v, r) else None
            | _ => Some (v, r)
            end
        | None => None
        end
    end.

Definition i_penc (p : prim) : enc N :=
  fun v =>
    match prim_width p with
    | None => None
    | Some k =>
        match p with
        | PBool => if v <? 2 then le_enc k v else None
        | _ => le_enc k v
        end
    end.

(** SCALE compact, modes 0b00 / 0b01 / 0b10 *)
Definition compact_dec : dec N :=
  fun b =>
    match le_dec 1 b with
    | None => None
    | Some (w1, r1) =>
        if w1 mod 4 =? 0 then Some (w1 / 4, r1)
        else if w1 mod 4 =? 1 then
          match le_dec 2 b with
          | Some (w2, r2) =>
              if (w2 mod 4 =? 1) && (64 <=? w2 / 4) then Some (w2 / 4, r2) else None
          | None => None
          end
        else if w1 mod 4 =? 2 then
          match le_dec 4 b with
          | Some (w4, r4) =>
              if (w4 mod 4 =? 2) && (16384 <=? w4 / 4) then Some (w4 / 4, r4) else None
          | None => None
          end
        else None
    end.

Definition compact_enc : enc N :=
  fun v =>
    if v <? 64 then le_enc 1 (4 * v)
    else if v <? 16384 then le_enc 2 (4 * v + 1)
    else if v <? 1073741824 then le_enc 4 (4 * v + 2)
    else None.

(** the unsigned integer types that have a compact encoding, with their bound *)
Definition compact_bound (p : prim) : option N :=
  match p with
  | PU8 => Some 256
  | PU16 => Some 65536
  | PU32 => Some 4294967296
  | PU64 => Some 18446744073709551616
  | PU128 => Some 340282366920938463463374607431768211456
  | _ => None
  end.

Definition i_cdec (p : prim) : dec N :=
  fun b =>
    match compact_bound p with
    | None => None
    | Some bound =>
        match compact_dec b with
        | Some (v, r) => if v <? bound then Some (v, r) else None
        | None => None
        end
    end.

Definition i_cenc (p : prim) : enc N :=
  fun v =>
    match compact_bound p with
    | None => None
    | Some bound => if v <? bound then compact_enc v else None
    end.

(** bit sequences over a [u8] store: (bit length, raw bytes) *)
Fixpoint take_bytes (k : nat) (b : bytes) : option (bytes * bytes) :=
  match k with
  | O => Some ([], b)
  | S k' =>
      match b with
      | [] => None
      | x :: b' =>
          match take_bytes k' b' with
          | Some (l, r) => Some (x :: l, r)
          | None => None
          end
      end
  end.

Definition i_bdec (store order : shape) : dec (N * bytes) :=
  fun b =>
    match store with
    | SPrim PU8 =>
        match i_cdec PU32 b with
        | Some (n, r) =>
            match take_bytes (N.to_nat ((n + 7) / 8)) r with
            | Some (l, r') => Some ((n, l), r')
            | None => None
            end
        | None => None
        end
    | _ => None
    end.

Definition i_benc (store order : shape) : enc (N * bytes) :=
  fun x =>
    match store with
    | SPrim PU8 =>
        if N.of_nat (List.length (snd x)) =? (fst x + 7) / 8 then
          match i_cenc PU32 (fst x) with
          | Some bs => Some (bs ++ snd x)
          | None => None
          end
        else None
    | _ => None
    end.

Definition ival := val N (N * bytes) unit.

Definition is_option (head : tokens) : bool :=
  match rev head with
  | x :: _ => String.eqb x "Option"
  | [] => false
  end.

Definition i_odec (c : bool) (head : tokens) (ds : list (dec ival)) : dec ival :=
  fun b =>
    if negb c && is_option head then
      match ds, b with
      | [d], 0 :: r => Some (VEnum 0 [], r)
      | [d], 1 :: r => match d r with Some (v, r') => Some (VEnum 1 [v], r') | None => None end
      | _, _ => None
      end
    else None.

Definition i_oenc (c : bool) (head : tokens) (es : list (enc ival)) : enc ival :=
  fun v =>
    if negb c && is_option head then
      match es, v with
      | [e], VEnum 0 [] => Some [0]
      | [e], VEnum 1 [x] => match e x with Some bs => Some (1 :: bs) | None => None end
      | _, _ => None
      end
    else None.

Definition iprims : prims N (N * bytes) unit :=
  mk_prims i_pdec i_penc i_cdec i_cenc (i_cdec PU32) (i_cenc PU32) i_bdec i_benc i_odec i_oenc.
