(** The parse tree the independent reader [Checkers/Parse.v] is expected to
    produce for the tokens printed by [Model/Emit.v], as a function of the IR
    (C02 "the emitted token stream parses as a Rust module tree").
    No proofs here: see [Proofs/ParseTy.v], [Proofs/ParseItem.v], [Proofs/ParseMod.v]. *)
From Coq Require Import List NArith String Bool.
From V Require Import Base.Util Base.Strings Base.Result Model.Registry Model.Settings Model.Subst
  Model.TypePath Model.Derives Model.Generate Model.Emit Checkers.Parse.
Import ListNotations.
Open Scope string_scope. Open Scope list_scope.

(** a token that can stand where an identifier is expected: not one of the punctuation /
    delimiter tokens and not the keyword [pub] (a keyword is never a path segment or a name) *)
Definition ident_tok (x : string) : bool := negb (is_punct x) && negb (teq x "pub").

(** the first token is the literal [lit] *)
Definition hd_is (lit : string) (l : tokens) : bool :=
  match l with t :: _ => teq t lit | [] => false end.

(** what may follow a printed type expression for the reader to stop there: the end of the
    stream or any token but [<] and [:] (so in particular [,] [>] [)] [\]] [;] [}] [=]) *)
Definition ty_stop (rest : tokens) : bool :=
  match rest with [] => true | t :: _ => negb (teq t "<") && negb (teq t ":") end.

(** ** plain paths: [::a::b] / [a::b] with identifier segments, no generic arguments *)
Fixpoint abs_segs (t : tokens) : option (list string) :=
  match t with
  | [] => Some []
  | a :: b :: x :: r =>
      if teq a ":" && teq b ":" && ident_tok x then
        match abs_segs r with Some l => Some (x :: l) | None => None end
      else None
  | _ => None
  end.

Definition path_segs (t : tokens) : option (bool * list string) :=
  match t with
  | [] => None
  | x :: r =>
      if teq x ":" then match abs_segs t with Some l => Some (true, l) | None => None end
      else if ident_tok x then
        match abs_segs r with Some l => Some (false, x :: l) | None => None end
      else None
  end.

(** the alloc crate path is a prefix of printed paths; it may be empty *)
Definition alloc_segs (a : tokens) : option (bool * list string) :=
  match a with [] => Some (true, []) | _ => path_segs a end.

Definition is_some {A} (o : option A) : bool := match o with Some _ => true | None => false end.
Definition plain_path (t : tokens) : bool := is_some (path_segs t).
Definition alloc_okb (a : tokens) : bool := is_some (alloc_segs a).

(** [segs ++ tail] with generic arguments [args] on the last segment *)
Definition mk_ppath (ls : option (bool * list string)) (tail : list string) (args : list pty) : pty :=
  match ls with
  | None => PBad
  | Some (l, segs) =>
      match rev (segs ++ tail) with
      | [] => PBad
      | x :: pre => PPath l (map (fun y => (y, [])) (rev pre) ++ [(x, args)])
      end
  end.

Definition prim_ident (p : prim) : option string :=
  match p with
  | PBool => Some "bool" | PChar => Some "char" | PStr => None
  | PU8 => Some "u8" | PU16 => Some "u16" | PU32 => Some "u32" | PU64 => Some "u64"
  | PU128 => Some "u128" | PU256 => None
  | PI8 => Some "i8" | PI16 => Some "i16" | PI32 => Some "i32" | PI64 => Some "i64"
  | PI128 => Some "i128" | PI256 => None
  end.

Definition param_pty (p : tparam_ir) : pty := PPath false [(tpi_name p, [])].

(** ** the parsed form of a type path *)
Fixpoint ir_pty (alloc : tokens) (t : tpath) : pty :=
  match t with
  | TParam p => param_pty p
  | TPath ptoks params => mk_ppath (path_segs ptoks) [] (map (ir_pty alloc) params)
  | TVec o => mk_ppath (alloc_segs alloc) ["vec"; "Vec"] [ir_pty alloc o]
  | TArray len o => PArray (ir_pty alloc o) (String.append (N_to_string len) "usize")
  | TTuple els => PTuple (map (ir_pty alloc) els)
  | TPrim p =>
      match p with
      | PStr => mk_ppath (alloc_segs alloc) ["string"; "String"] []
      | _ => match prim_ident p with
             | Some n => PPath true [("core", []); ("primitive", []); (n, [])]
             | None => PBad
             end
      end
  | TCompact i f c => if f then ir_pty alloc i else mk_ppath (path_segs c) [] [ir_pty alloc i]
  | TBitVec o st b => mk_ppath (path_segs b) [] [ir_pty alloc st; ir_pty alloc o]
  end.

(** every path the printer does not build itself is plain *)
Fixpoint tp_plain (t : tpath) : bool :=
  match t with
  | TParam _ => true
  | TPath ptoks params => plain_path ptoks && forallb tp_plain params
  | TVec o => tp_plain o
  | TArray _ o => tp_plain o
  | TTuple els => forallb tp_plain els
  | TPrim _ => true
  | TCompact i f c => (f || plain_path c) && tp_plain i
  | TBitVec o st b => plain_path b && tp_plain o && tp_plain st
  end.

(** ** bracket balance (the reader skips groups by counting delimiters) *)
Fixpoint bal (d : nat) (t : tokens) : bool :=
  match t with
  | [] => Nat.eqb d 0
  | x :: r =>
      if is_close x then match d with O => false | S d' => bal d' r end
      else if is_open x then bal (S d) r
      else bal d r
  end.
Definition balanced (t : tokens) : bool := bal 0 t.

(** ** attributes *)
(** an attribute [# [ inner ]] with balanced [inner] *)
Definition attr_inner (a : tokens) : tokens :=
  match a with _ :: _ :: r => removelast r | _ => [] end.
Definition attr_okb (a : tokens) : bool :=
  match a with
  | h :: b :: r =>
      teq h "#" && teq b "[" &&
      match rev r with l :: _ => teq l "]" | [] => false end &&
      balanced (removelast r)
  | _ => false
  end.

Fixpoint derive_list_tokens (l : list kt) : tokens :=
  match l with
  | [] => []
  | [x] => snd x
  | x :: l' => snd x ++ [","] ++ derive_list_tokens l'
  end.

Definition derives_attrs (d : derives) : list tokens :=
  (match sort_dedup (d_derives d) with
   | [] => []
   | ds => [["derive"; "("] ++ derive_list_tokens ds ++ [")"]]
   end) ++ map (fun x => attr_inner (snd x)) (sort_dedup (d_attrs d)).

(** user derive paths balanced, user attributes of the form [# [ balanced ]] *)
Definition derives_okb (d : derives) : bool :=
  forallb (fun x => balanced (snd x)) (sort_dedup (d_derives d)) &&
  forallb (fun x => attr_okb (snd x)) (sort_dedup (d_attrs d)).

Definition doc_attrs (docs : list string) : list tokens :=
  map (fun d => ["doc"; "="; lit_string d]) docs.

Definition phantom_pty (unused : list tparam_ir) : option pty :=
  let ph args := PPath true [("core", []); ("marker", []); ("PhantomData", args)] in
  match unused with
  | [] => None
  | [p] => Some (ph [param_pty p])
  | _ => Some (ph [PTuple (map param_pty unused)])
  end.

Section Unparse.
  Variable s : settings.
  Let alloc := alloc_tokens (s_alloc s).

  Definition field_pty (f : field_ir) : pty :=
    if fi_emit_boxed f then mk_ppath (alloc_segs alloc) ["boxed"; "Box"] [ir_pty alloc (fi_path f)]
    else ir_pty alloc (fi_path f).

  Definition compact_attrs (codec : bool) (f : field_ir) : list tokens :=
    if fi_compact f && codec then [["codec"; "("; "compact"; ")"]] else [].
  Definition skip_attrs (codec : bool) : list tokens :=
    if codec then [["codec"; "("; "skip"; ")"]] else [].

  Definition marker_fields (codec : bool) (name : option string) (unused : list tparam_ir)
    : list pfield :=
    match phantom_pty unused with
    | Some ph => [mk_pfield (skip_attrs codec) true name ph]
    | None => []
    end.

  Definition struct_body (k : ckind) (unused : list tparam_ir) (codec : bool) : pbody :=
    match k with
    | CNoFields =>
        match phantom_pty unused with
        | Some ph => BTuple [mk_pfield [] true None ph]
        | None => BUnit
        end
    | CNamed fs =>
        BNamed (map (fun nf => mk_pfield (compact_attrs codec (snd nf)) true (Some (fst nf))
                                         (field_pty (snd nf))) fs ++
                marker_fields codec (Some "__ignore") unused)
    | CUnnamed fs =>
        BTuple (map (fun f => mk_pfield (compact_attrs codec f) true None (field_pty f)) fs ++
                marker_fields codec None unused)
    end.

  Definition variant_body (k : ckind) (codec : bool) : pbody :=
    match k with
    | CNoFields => BUnit
    | CNamed fs =>
        BNamed (map (fun nf => mk_pfield (compact_attrs codec (snd nf)) false (Some (fst nf))
                                         (field_pty (snd nf))) fs)
    | CUnnamed fs =>
        BTuple (map (fun f => mk_pfield (compact_attrs codec f) false None (field_pty f)) fs)
    end.

  Definition index_attrs (codec : bool) (i : N) : list tokens :=
    if codec then [["codec"; "("; "index"; "="; N_to_string i; ")"]] else [].

  Definition variant_of (codec : bool) (ic : N * composite_ir) : pvariant :=
    mk_pvariant (index_attrs codec (fst ic) ++ doc_attrs (ci_docs (snd ic)))
                (ci_name (snd ic)) (variant_body (ci_kind (snd ic)) codec).

  Definition ignore_variants (unused : list tparam_ir) : list pvariant :=
    match phantom_pty unused with
    | Some ph => [mk_pvariant [] "__Ignore" (BTuple [mk_pfield [] false None ph])]
    | None => []
    end.

  Definition item_of_ir (ir : type_ir) : pitem :=
    let gs := map tpi_name (ti_params ir) in
    match ti_kind ir with
    | KStruct c =>
        mk_pitem (derives_attrs (ti_derives ir) ++ doc_attrs (ci_docs c)) false (ci_name c) gs
                 (struct_body (ci_kind c) (ti_unused ir) (ti_codec ir)) []
                 (match ci_kind c with CNamed _ => false | _ => true end)
    | KEnum name docs vs =>
        mk_pitem (derives_attrs (ti_derives ir) ++ doc_attrs docs) true name gs BUnit
                 (map (variant_of (ti_codec ir)) vs ++ ignore_variants (ti_unused ir)) false
    end.

  (** ** plainness of an item: what the round trip assumes about user supplied tokens and names *)
  Definition field_plain (f : field_ir) : bool := tp_plain (fi_path f).
  Definition ckind_plain (k : ckind) : bool :=
    match k with
    | CNoFields => true
    | CNamed fs => forallb (fun nf => ident_tok (fst nf) && field_plain (snd nf)) fs
    | CUnnamed fs => forallb field_plain fs
    end.
  Definition composite_plain (c : composite_ir) : bool :=
    ident_tok (ci_name c) && ckind_plain (ci_kind c).

  Definition ir_plain (ir : type_ir) : bool :=
    alloc_okb alloc && derives_okb (ti_derives ir) &&
    match ti_kind ir with
    | KStruct c => composite_plain c
    | KEnum name _ vs => ident_tok name && forallb (fun ic => composite_plain (snd ic)) vs
    end.

  Definition items_plain (m : items) : bool := forallb (fun e => ir_plain (snd (snd e))) m.

  (** ** the module tree, mirroring [module_tokens] *)
  Fixpoint pmod_of (fuel : nat) (name : string) (es : list entry) : pmod :=
    match fuel with
    | O => PMod name (s_root s) [] []
    | S fuel' =>
        PMod name (s_root s)
             (map (fun h => pmod_of fuel' h (under h es)) (child_names es))
             (map (fun e => item_of_ir (snd (snd e))) (here es))
    end.

  Definition pmod_of_items (m : items) : pmod :=
    pmod_of (S (max_depth m)) (s_root s) (map (fun e => (fst e, (fst e, snd (snd e)))) m).
End Unparse.
