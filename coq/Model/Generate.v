(** typegen/src/typegen/mod.rs:70-300, type_params.rs, ir/type_ir.rs (data):
    IR construction and the generation loop.  The module tree is represented
    by the ordered map  path -> (id, item)  (see [Emit.v] for the tree). *)
From Coq Require Import List NArith String Bool.
From V Require Import Base.Strings Base.Result Model.Registry Model.Settings Model.Subst
  Model.TypePath Model.Derives.
Import ListNotations.
Open Scope string_scope. Open Scope list_scope.

Record field_ir := mk_fi { fi_path : tpath; fi_compact : bool; fi_boxed : bool }.

(** the Box wrapper is printed only for a boxed field that is NOT compact (F21 repair,
    type_ir.rs [CompositeFieldIR::to_tokens]: a compact field is its inner type plus
    [#[codec(compact)]], and [Box<T>] is not [HasCompact]) *)
Definition fi_emit_boxed (f : field_ir) : bool := fi_boxed f && negb (fi_compact f).

Inductive ckind :=
| CNoFields
| CNamed (fs : list (string * field_ir))
| CUnnamed (fs : list field_ir).

Record composite_ir := mk_ci { ci_name : string; ci_kind : ckind; ci_docs : list string }.

Inductive kind_ir :=
| KStruct (c : composite_ir)
| KEnum (name : string) (docs : list string) (vs : list (N * composite_ir)).

(** [TypeParameters]: declared params and the still-unused ones.  After the
    F9 repair the marker lists unused params in declaration order, so
    [unused] is kept as the sub-list of [params] not yet marked. *)
Record type_ir := mk_ti {
  ti_params : list tparam_ir;
  ti_unused : list tparam_ir;
  ti_derives : derives;
  ti_codec : bool;
  ti_kind : kind_ir }.

(** [TypeParameters::from_scale_info] *)
Definition params_from_scale_info (ps : list tparam) : list tparam_ir :=
  (fix go (i : N) (l : list tparam) : list tparam_ir :=
     match l with
     | [] => []
     | p :: l' =>
         match tp_ty p with
         | Some id => mk_tpi id (tp_name p) i :: go (i + 1)%N l'
         | None => go (i + 1)%N l'
         end
     end) 0%N ps.

Definition mark_used (unused : list tparam_ir) (used : list tparam_ir) : list tparam_ir :=
  filter (fun p => negb (existsb (tpi_eqb p) used)) unused.

Definition could_derive_as_compact (k : ckind) : bool :=
  match k with
  | CNamed [(_, f)] => is_uint_up_to_u128 (fi_path f)
  | CUnnamed [f] => is_uint_up_to_u128 (fi_path f)
  | _ => false
  end.

Section Gen.
  Variable r : registry.
  Variable s : settings.

  Definition docs_from_scale_info (docs : list string) : list string :=
    if s_docs s then docs else [].

  Definition parse_ident (x : string) : result string :=
    if ident_okb x then Ok x else Err ESynParse.

  (** one field: ident (named), path, flags, mark used *)
  Definition field_ir_of (params : list tparam_ir) (f : field) : result field_ir :=
    let* p := resolve_field_type_path r s (f_ty f) params (f_type_name f) in
    Ok (mk_fi p (is_compact p) (is_boxed_gen f)).

  (** [create_composite_ir_kind]; threads the unused set *)
  Definition create_composite_ir_kind (fs : list field) (params unused : list tparam_ir)
    : result (ckind * list tparam_ir) :=
    match fs with
    | [] => Ok (CNoFields, unused)
    | _ =>
      if negb (all_named fs || all_unnamed fs) then Err EInvalidFields
      else if all_named fs then
        let* l := mapM (fun f =>
                          let* id := parse_ident (match f_name f with Some n => n | None => "" end) in
                          let* fi := field_ir_of params f in Ok (id, fi)) fs in
        Ok (CNamed l, mark_used unused (flat_map (fun x => parent_params (fi_path (snd x))) l))
      else
        let* l := mapM (field_ir_of params) fs in
        Ok (CUnnamed l, mark_used unused (flat_map (fun x => parent_params (fi_path x)) l))
    end.

  Definition add_as_compact (d : derives) : derives :=
    match s_compact_as s with
    | Some k => mk_derives (d_derives d ++ [k]) (d_attrs d)
    | None => d
    end.

  (** [create_type_ir] *)
  Definition create_type_ir (t : ty) (flat : flat_registry) : result (option type_ir) :=
    if negb (is_composite_or_variant (t_def t)) then Ok None
    else
      let params := params_from_scale_info (t_params t) in
      match path_ident (t_path t) with
      | None => Panic "Structs and enums should have a name"
      | Some nm =>
        let* name := parse_ident nm in
        let docs := docs_from_scale_info (t_docs t) in
        let* kcu :=
          match t_def t with
          | TDComposite fs =>
              let* ku := create_composite_ir_kind fs params params in
              Ok (KStruct (mk_ci name (fst ku) docs), could_derive_as_compact (fst ku), snd ku)
          | TDVariant vs =>
              let* vu :=
                (fix go (l : list variant) (unused : list tparam_ir)
                   : result (list (N * composite_ir) * list tparam_ir) :=
                   match l with
                   | [] => Ok ([], unused)
                   | v :: l' =>
                       let* vn := parse_ident (v_name v) in
                       let* ku := create_composite_ir_kind (v_fields v) params unused in
                       let* rest := go l' (snd ku) in
                       Ok ((v_index v, mk_ci vn (fst ku) (docs_from_scale_info (v_docs v))) :: fst rest,
                           snd rest)
                   end) vs params in
              Ok (KEnum name docs (fst vu), false, snd vu)
          | _ => Panic "unreachable"
          end in
        let '(kind, cdac, unused) := kcu in
        let* d := resolve_derives_for_type flat t in
        let d := if cdac then add_as_compact d else d in
        Ok (Some (mk_ti params unused d (s_codec s) kind))
      end.

  (** the ordered map path -> (id, item), kept sorted by [path_compare] *)
  Definition items := list (list string * (N * type_ir)).

  Fixpoint items_get (m : items) (p : list string) : option (N * type_ir) :=
    match m with
    | [] => None
    | (k, v) :: m' => if path_eqb k p then Some v else items_get m' p
    end.

  Fixpoint items_insert (m : items) (p : list string) (v : N * type_ir) : items :=
    match m with
    | [] => [(p, v)]
    | (k, v') :: m' =>
        match path_compare p k with
        | Lt => (p, v) :: m
        | Eq => m
        | Gt => (k, v') :: items_insert m' p v
        end
    end.

  (** [types_equal] can hit the [expect] panic when an id is missing *)
  Variable types_equal : N -> N -> result bool.

  (** [generate_types_mod] after the sanity pass and the flattening *)
  Fixpoint gen_loop (flat : flat_registry) (l : registry) (acc : items) : result items :=
    match l with
    | [] => Ok acc
    | (id, t) :: l' =>
        if subs_contains (s_subs s) (t_path t) then gen_loop flat l' acc
        else match namespace (t_path t) with
             | [] => gen_loop flat l' acc
             | ns =>
                 let* o := create_type_ir t flat in
                 match o with
                 | None => gen_loop flat l' acc
                 | Some ir =>
                     if forallb ident_lexb ns then
                       match items_get acc (t_path t) with
                       | None => gen_loop flat l' (items_insert acc (t_path t) (id, ir))
                       | Some (other, _) =>
                           let* eq := types_equal id other in
                           if eq then gen_loop flat l' acc
                           else Err (EDuplicatePath (join "::" (t_path t)))
                       end
                     else Panic "Ident::new: not an identifier"
                 end
             end
    end.

  Definition sanity_pass : result unit :=
    (fix go (i : N) (l : registry) : result unit :=
       match l with
       | [] => Ok tt
       | (id, _) :: l' => if N.eqb id i then go (i + 1)%N l' else Err (EIdsInvalid id i)
       end) 0%N r.

  Definition generate : result items :=
    let* _ := sanity_pass in
    let* flat := flatten (s_dreg s) r in
    gen_loop flat r [].

  (** [upcast_composite] *)
  Definition upcast_composite (c : composite_ir) : type_ir :=
    let d := dr_default (s_dreg s) in
    let d := if could_derive_as_compact (ci_kind c) then add_as_compact d else d in
    mk_ti [] [] d (s_codec s) (KStruct c).
End Gen.
