(** Well-formed UTF-8 texts as the model's decoder reads them (C13 bridge beyond ASCII).
    Definitions only; proofs in Proofs/DescribeUtf8.v. *)
From Coq Require Import List NArith String Bool Ascii.
From V Require Import Base.Util Base.Strings Model.Registry Model.DescribeSpec Model.AsciiSpec.
Import ListNotations.
Open Scope N_scope.

(** every multi-byte sequence consists of bytes >= 128 and decodes to a code point >= 128
    (true of all valid UTF-8: lead and continuation bytes are >= 128, and encodings of ASCII
    code points by longer sequences are invalid) *)
Fixpoint utf8_wfb (l : list N) : bool :=
  match l with
  | [] => true
  | b0 :: r0 =>
    if b0 <? 128 then utf8_wfb r0
    else if b0 <? 224 then
      match r0 with
      | b1 :: r1 => (128 <=? b1) && (128 <=? (b0 - 192) * 64 + (b1 - 128)) && utf8_wfb r1
      | _ => false
      end
    else if b0 <? 240 then
      match r0 with
      | b1 :: b2 :: r2 =>
          (128 <=? b1) && (128 <=? b2)
          && (128 <=? (b0 - 224) * 4096 + (b1 - 128) * 64 + (b2 - 128)) && utf8_wfb r2
      | _ => false
      end
    else
      match r0 with
      | b1 :: b2 :: b3 :: r3 =>
          (128 <=? b1) && (128 <=? b2) && (128 <=? b3)
          && (128 <=? (b0 - 240) * 262144 + (b1 - 128) * 4096 + (b2 - 128) * 64 + (b3 - 128))
          && utf8_wfb r3
      | _ => false
      end
  end.

Definition utf8_okb (s : string) : bool := utf8_wfb (bytes_of_string s).

(** the names a description prints -- path segments, field names, variant names -- satisfy [Q] *)
Definition fields_namesb (Q : string -> bool) (fs : list field) : bool :=
  forallb (fun f => match f_name f with Some n => Q n | None => true end) fs.

Definition names_okb (Q : string -> bool) (r : registry) : bool :=
  forallb (fun e : N * ty =>
    let t := snd e in
    forallb Q (t_path t) &&
    match t_def t with
    | TDComposite fs => fields_namesb Q fs
    | TDVariant vs => forallb (fun v => Q (v_name v) && fields_namesb Q (v_fields v)) vs
    | _ => true
    end) r.

(** ... are well-formed UTF-8 *)
Definition utf8_regb (r : registry) : bool := names_okb utf8_okb r.

(** a byte token read as a code-point token: the word is decoded *)
Definition dtok_of_tok (t : tok) : ctok :=
  match t with
  | W s => CW (utf8_decode s)
  | P c => CP (N_of_ascii c)
  end.

(** example: a::Café { naïve: u8 } *)
Definition utf8_example_reg : registry :=
  [ (0%N, mk_ty ["a"; String "C" (String "a" (String "f" (String "195" (String "169" ""))))]%string []
              (TDComposite [mk_field (Some (String "n" (String "a" (String "195" (String "175" (String "v" (String "e" "")))))))
                                     1%N None []]) []);
    (1%N, mk_ty [] [] (TDPrimitive PU8) []) ].
