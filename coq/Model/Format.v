(** Model of description/src/formatting.rs : format_type_description.

    Characters are Unicode code points ([N]); the input string is the list of
    its [chars()].  The small/big decision taken at every '(' and '<' is a
    parameter (an oracle with its own state [O]); [decide_impl] is the exact
    32-character look-ahead of [scope_is_small].  The indent level is the
    [i32] of the implementation, modelled as an unbounded [Z] (the theorem
    [C15_no_overflow] bounds it by the input length). *)
From Coq Require Import List NArith ZArith Bool.
Import ListNotations.
Open Scope N_scope.

Inductive scope := Big | Small.

Definition c_space : N := 32.
Definition c_nl : N := 10.
Definition c_lbrace : N := 123.
Definition c_rbrace : N := 125.
Definition c_comma : N := 44.
Definition c_lparen : N := 40.
Definition c_rparen : N := 41.
Definition c_langle : N := 60.
Definition c_rangle : N := 62.

(** [add_indentation]: [for _ in 0..indent_level] pushes four spaces; a
    negative level gives the empty range. *)
Definition indentation (indent : Z) : list N :=
  repeat c_space (4 * Z.to_nat indent).

Record fstate := mk_fstate {
  indent : Z;
  tuples : list scope;   (* top of the SmallVec = head of the list *)
  angles : list scope }.

Definition init_fstate : fstate := mk_fstate 0%Z [] [].

Definition nl_indent (i : Z) : list N := c_nl :: indentation i.

Section WithOracle.
  Variable O : Type.
  (** [decide o open close rest] : is the scope opened by [open] small?  *)
  Variable decide : O -> N -> N -> list N -> bool * O.

  (** One iteration of the [while let Some(ch) = chars.next()] loop:
      the characters appended to [output], and the new state. *)
  Definition step (st : fstate) (o : O) (ch : N) (rest : list N)
    : list N * fstate * O :=
    if ch =? c_lbrace then
      let i := (indent st + 1)%Z in
      (c_space :: ch :: nl_indent i, mk_fstate i (tuples st) (angles st), o)
    else if ch =? c_rbrace then
      let i := (indent st - 1)%Z in
      (nl_indent i ++ [ch], mk_fstate i (tuples st) (angles st), o)
    else if ch =? c_comma then
      match tuples st with
      | Small :: _ => ([ch; c_space], st, o)
      | _ => (ch :: nl_indent (indent st), st, o)
      end
    else if ch =? c_lparen then
      let '(small, o') := decide o c_lparen c_rparen rest in
      if small then ([ch], mk_fstate (indent st) (Small :: tuples st) (angles st), o')
      else let i := (indent st + 1)%Z in
           (ch :: nl_indent i, mk_fstate i (Big :: tuples st) (angles st), o')
    else if ch =? c_rparen then
      match tuples st with
      | Big :: t => let i := (indent st - 1)%Z in
                    (nl_indent i ++ [ch], mk_fstate i t (angles st), o)
      | Small :: t => ([ch], mk_fstate (indent st) t (angles st), o)
      | [] => ([ch], st, o)
      end
    else if ch =? c_langle then
      let '(small, o') := decide o c_langle c_rangle rest in
      if small then ([ch], mk_fstate (indent st) (tuples st) (Small :: angles st), o')
      else let i := (indent st + 1)%Z in
           (ch :: nl_indent i, mk_fstate i (tuples st) (Big :: angles st), o')
    else if ch =? c_rangle then
      match angles st with
      | Big :: t => let i := (indent st - 1)%Z in
                    (nl_indent i ++ [ch], mk_fstate i (tuples st) t, o)
      | Small :: t => ([ch], mk_fstate (indent st) (tuples st) t, o)
      | [] => ([ch], st, o)
      end
    else ([ch], st, o).

  Fixpoint format_from (st : fstate) (o : O) (input : list N) : list N :=
    match input with
    | [] => []
    | ch :: rest =>
        let '(chunk, st', o') := step st o ch rest in
        chunk ++ format_from st' o' rest
    end.

  (** final state (used by the indent-discipline theorems) *)
  Fixpoint final_state (st : fstate) (o : O) (input : list N) : fstate :=
    match input with
    | [] => st
    | ch :: rest =>
        let '(_, st', o') := step st o ch rest in final_state st' o' rest
    end.

  Definition format_with (o : O) (input : list N) : list N :=
    format_from init_fstate o input.
End WithOracle.

(** [scope_is_small]: look at most at the next 32 characters
    ([peek_amount(32)], [None]-padded = stop at the end of input). *)
Fixpoint scope_scan (open close : N) (balance : Z) (l : list N) : bool :=
  match l with
  | [] => false
  | ch :: l' =>
      let balance := if ch =? open then (balance + 1)%Z else balance in
      if ch =? close then
        let balance := (balance - 1)%Z in
        if (balance =? 0)%Z then true
        else if ch =? c_lbrace then false else scope_scan open close balance l'
      else if ch =? c_lbrace then false else scope_scan open close balance l'
  end.

Definition small_scope_max_tokens : nat := 32.

Definition decide_impl (_ : unit) (open close : N) (rest : list N) : bool * unit :=
  (scope_scan open close 1%Z (firstn small_scope_max_tokens rest), tt).

(** The implementation: *)
Definition format_impl (input : list N) : list N :=
  format_with unit decide_impl tt input.

(** A decision stream oracle: used to re-establish the correspondence when
    only the heuristic was changed (the theorems hold for every oracle). *)
Definition decide_stream (ds : list bool) (_ _ : N) (_ : list N) : bool * list bool :=
  match ds with
  | [] => (true, [])
  | d :: ds' => (d, ds')
  end.

Definition format_stream (ds : list bool) (input : list N) : list N :=
  format_with (list bool) decide_stream ds input.
