(** Definitions used by the C09 theorems (Proofs/Frames.v, Proofs/EmitMap.v):
    switch setters on [settings], the governed-token erasers on the IR,
    a token renaming [phi] lifted through the IR, the generator's literal
    tokens, and the list of input tokens stored inside an IR.
    Nothing here changes a definition of the validated model. *)
From Coq Require Import List NArith String Bool.
From V Require Import Base.Strings Base.Result Model.Registry Model.Settings Model.Subst
  Model.TypePath Model.Derives Model.Generate Model.Emit.
Import ListNotations.
Open Scope string_scope. Open Scope list_scope.

(** ** switch setters: the settings differ in exactly one field *)
Definition set_docs (b : bool) (s : settings) : settings :=
  mk_settings (s_root s) b (s_dreg s) (s_subs s) (s_bits s) (s_compact_as s) (s_compact s)
              (s_codec s) (s_alloc s).
Definition set_codec (b : bool) (s : settings) : settings :=
  mk_settings (s_root s) (s_docs s) (s_dreg s) (s_subs s) (s_bits s) (s_compact_as s) (s_compact s)
              b (s_alloc s).
Definition set_root (root : string) (s : settings) : settings :=
  mk_settings root (s_docs s) (s_dreg s) (s_subs s) (s_bits s) (s_compact_as s) (s_compact s)
              (s_codec s) (s_alloc s).

(** ** what the two boolean switches govern in the IR *)
Definition strip_docs_ci (c : composite_ir) : composite_ir := mk_ci (ci_name c) (ci_kind c) [].
Definition strip_docs_kind (k : kind_ir) : kind_ir :=
  match k with
  | KStruct c => KStruct (strip_docs_ci c)
  | KEnum name _ vs => KEnum name [] (map (fun x => (fst x, strip_docs_ci (snd x))) vs)
  end.
Definition strip_docs_ir (ir : type_ir) : type_ir :=
  mk_ti (ti_params ir) (ti_unused ir) (ti_derives ir) (ti_codec ir) (strip_docs_kind (ti_kind ir)).
Definition set_codec_ir (b : bool) (ir : type_ir) : type_ir :=
  mk_ti (ti_params ir) (ti_unused ir) (ti_derives ir) b (ti_kind ir).

(** no doc line anywhere in the item *)
Definition kind_docs_empty (k : kind_ir) : bool :=
  match k with
  | KStruct c => match ci_docs c with [] => true | _ => false end
  | KEnum _ docs vs =>
      match docs with [] => true | _ => false end &&
      forallb (fun x => match ci_docs (snd x) with [] => true | _ => false end) vs
  end.
Definition ir_docs_empty (ir : type_ir) : bool := kind_docs_empty (ti_kind ir).

(** apply [f] to every item of the ordered map (keys and ids untouched) *)
Definition map_items (f : type_ir -> type_ir) (m : items) : items :=
  map (fun e => (fst e, (fst (snd e), f (snd (snd e))))) m.

(** the variant loop of [create_type_ir] as a named function (equal to the
    local fixpoint there by [reflexivity]; see [create_type_ir_eq]) *)
Fixpoint variants_ir (r : registry) (s : settings) (params : list tparam_ir)
         (l : list variant) (unused : list tparam_ir)
  : result (list (N * composite_ir) * list tparam_ir) :=
  match l with
  | [] => Ok ([], unused)
  | v :: l' =>
      let* vn := parse_ident (v_name v) in
      let* ku := create_composite_ir_kind r s (v_fields v) params unused in
      let* rest := variants_ir r s params l' (snd ku) in
      Ok ((v_index v, mk_ci vn (fst ku) (docs_from_scale_info s (v_docs v))) :: fst rest,
          snd rest)
  end.

(** ** a renaming of tokens lifted through the IR.
    Derive / attribute keys are the hash-set identity and the sort key: they are
    not tokens of the output and are left alone. *)
Section TokMap.
  Variable phi : string -> string.

  Fixpoint map_tpath (t : tpath) : tpath :=
    match t with
    | TParam p => TParam p
    | TPath ptoks params => TPath (map phi ptoks) (map map_tpath params)
    | TVec o => TVec (map_tpath o)
    | TArray len o => TArray len (map_tpath o)
    | TTuple els => TTuple (map map_tpath els)
    | TPrim p => TPrim p
    | TCompact i f c => TCompact (map_tpath i) f (map phi c)
    | TBitVec o st b => TBitVec (map_tpath o) (map_tpath st) (map phi b)
    end.

  Definition map_fi (f : field_ir) : field_ir :=
    mk_fi (map_tpath (fi_path f)) (fi_compact f) (fi_boxed f).
  Definition map_ckind (k : ckind) : ckind :=
    match k with
    | CNoFields => CNoFields
    | CNamed fs => CNamed (map (fun x => (phi (fst x), map_fi (snd x))) fs)
    | CUnnamed fs => CUnnamed (map map_fi fs)
    end.
  Definition map_ci (c : composite_ir) : composite_ir :=
    mk_ci (phi (ci_name c)) (map_ckind (ci_kind c)) (ci_docs c).
  Definition map_kind (k : kind_ir) : kind_ir :=
    match k with
    | KStruct c => KStruct (map_ci c)
    | KEnum name docs vs => KEnum (phi name) docs (map (fun x => (fst x, map_ci (snd x))) vs)
    end.
  Definition map_kt (x : kt) : kt := (fst x, map phi (snd x)).
  Definition map_derives (d : derives) : derives :=
    mk_derives (map map_kt (d_derives d)) (map map_kt (d_attrs d)).
  Definition map_ir (ir : type_ir) : type_ir :=
    mk_ti (ti_params ir) (ti_unused ir) (map_derives (ti_derives ir)) (ti_codec ir)
          (map_kind (ti_kind ir)).
End TokMap.

(** ** the input tokens stored in an IR: type / variant / field names, the
    token lists inside resolved paths, the derive and attribute tokens *)
Fixpoint tpath_inputs (t : tpath) : tokens :=
  match t with
  | TParam _ => []
  | TPath ptoks params => ptoks ++ flat_map tpath_inputs params
  | TVec o => tpath_inputs o
  | TArray _ o => tpath_inputs o
  | TTuple els => flat_map tpath_inputs els
  | TPrim _ => []
  | TCompact i _ c => tpath_inputs i ++ c
  | TBitVec o st b => tpath_inputs o ++ tpath_inputs st ++ b
  end.
Definition ckind_inputs (k : ckind) : tokens :=
  match k with
  | CNoFields => []
  | CNamed fs => flat_map (fun x => fst x :: tpath_inputs (fi_path (snd x))) fs
  | CUnnamed fs => flat_map (fun f => tpath_inputs (fi_path f)) fs
  end.
Definition ci_inputs (c : composite_ir) : tokens := ci_name c :: ckind_inputs (ci_kind c).
Definition kind_inputs (k : kind_ir) : tokens :=
  match k with
  | KStruct c => ci_inputs c
  | KEnum name _ vs => name :: flat_map (fun x => ci_inputs (snd x)) vs
  end.
Definition derives_inputs (d : derives) : tokens :=
  flat_map snd (d_derives d) ++ flat_map snd (d_attrs d).
Definition ir_inputs (ir : type_ir) : tokens :=
  derives_inputs (ti_derives ir) ++ kind_inputs (ti_kind ir).
(** inputs of a whole items map: the path segments (module and type names) and the items *)
Definition items_inputs (m : items) : tokens :=
  flat_map (fun e => fst e ++ ir_inputs (snd (snd e))) m.

(** ** the generator's own tokens.
    [base_lits]: fixed tokens every arm may produce (punctuation, keywords,
    [::core::..] paths, the alloc-relative tails, prelude table, markers).
    ["std"] is NOT among them: it is produced only by [alloc_tokens AStd].
    ["doc"] is produced only for a non-empty doc list, the codec words only
    with [ti_codec = true]. *)
Definition base_lits : list string :=
  ["<"; ">"; ","; "["; "]"; "("; ")"; "{"; "}"; ";"; ":"; "#"; "=";
   "pub"; "struct"; "enum"; "mod"; "use"; "super"; "derive";
   "core"; "primitive"; "bool"; "char"; "u8"; "u16"; "u32"; "u64"; "u128";
   "i8"; "i16"; "i32"; "i64"; "i128";
   "vec"; "Vec"; "string"; "String"; "boxed"; "Box";
   "marker"; "PhantomData"; "__ignore"; "__Ignore";
   "option"; "Option"; "result"; "Result"; "borrow"; "Cow"; "collections";
   "BTreeMap"; "BTreeSet"; "BinaryHeap"; "VecDeque"; "LinkedList";
   "ops"; "Range"; "RangeInclusive"; "num";
   "NonZeroI8"; "NonZeroU8"; "NonZeroI16"; "NonZeroU16"; "NonZeroI32"; "NonZeroU32";
   "NonZeroI64"; "NonZeroU64"; "NonZeroI128"; "NonZeroU128"; "NonZeroIsize"; "NonZeroUsize"].
Definition doc_lits : list string := ["doc"].
Definition codec_lits : list string := ["codec"; "compact"; "skip"; "index"].
Definition lits_of (docs codec : bool) : list string :=
  base_lits ++ (if docs then doc_lits else []) ++ (if codec then codec_lits else []).

(** a token the generator makes up itself, given which switches are on *)
Definition gen_lit (docs codec : bool) (w : string) : Prop :=
  In w (lits_of docs codec) \/
  (exists n, w = String.append "_" (N_to_string n)) \/          (* parameter names _i *)
  (exists n, w = N_to_string n) \/                              (* variant index *)
  (exists n, w = String.append (N_to_string n) "usize") \/      (* array length *)
  (exists d, w = lit_string d).                                 (* doc string literal *)

(** [phi] leaves the generator's own tokens alone *)
Definition phi_ok (phi : string -> string) (docs codec : bool) : Prop :=
  forall w, gen_lit docs codec w -> phi w = w.

(** the switches an item was produced under: docs off => no doc line;
    codec off => [ti_codec = false] *)
Definition item_ok (docs codec : bool) (ir : type_ir) : Prop :=
  (docs = false -> ir_docs_empty ir = true) /\ (codec = false -> ti_codec ir = false).

(** the one-token renaming used for "w does not occur" and for the root frame *)
Definition rename_tok (a b : string) (t : string) : string := if String.eqb t a then b else t.

(** ** the switches that replace one token LIST by another (alloc path, compact path, bits path) *)
Definition set_alloc (a : alloc_path) (s : settings) : settings :=
  mk_settings (s_root s) (s_docs s) (s_dreg s) (s_subs s) (s_bits s) (s_compact_as s) (s_compact s)
              (s_codec s) a.
Definition set_compact (c : option tokens) (s : settings) : settings :=
  mk_settings (s_root s) (s_docs s) (s_dreg s) (s_subs s) (s_bits s) (s_compact_as s) c
              (s_codec s) (s_alloc s).
Definition set_bits (b : option tokens) (s : settings) : settings :=
  mk_settings (s_root s) (s_docs s) (s_dreg s) (s_subs s) b (s_compact_as s) (s_compact s)
              (s_codec s) (s_alloc s).

(** the frame relation of such a switch: an alignment of two token lists in which equal
    tokens align, the list [a1] aligns with the list [a2], and alignments concatenate *)
Inductive frame_rel (a1 a2 : tokens) : tokens -> tokens -> Prop :=
| fr_same l : frame_rel a1 a2 l l
| fr_switch : frame_rel a1 a2 a1 a2
| fr_app x1 x2 y1 y2 :
    frame_rel a1 a2 x1 x2 -> frame_rel a1 a2 y1 y2 -> frame_rel a1 a2 (x1 ++ y1) (x2 ++ y2).

(** all three switches at once *)
Inductive frame_rel3 (a1 a2 c1 c2 b1 b2 : tokens) : tokens -> tokens -> Prop :=
| fr3_same l : frame_rel3 a1 a2 c1 c2 b1 b2 l l
| fr3_alloc : frame_rel3 a1 a2 c1 c2 b1 b2 a1 a2
| fr3_compact : frame_rel3 a1 a2 c1 c2 b1 b2 c1 c2
| fr3_bits : frame_rel3 a1 a2 c1 c2 b1 b2 b1 b2
| fr3_app x1 x2 y1 y2 :
    frame_rel3 a1 a2 c1 c2 b1 b2 x1 x2 -> frame_rel3 a1 a2 c1 c2 b1 b2 y1 y2 ->
    frame_rel3 a1 a2 c1 c2 b1 b2 (x1 ++ y1) (x2 ++ y2).

(** two outcomes are related: both [Ok] with related values, or the same error / panic *)
Definition res_rel {A B} (R : A -> B -> Prop) (x : result A) (y : result B) : Prop :=
  match x, y with
  | Ok a, Ok b => R a b
  | Err e1, Err e2 => e1 = e2
  | Panic m1, Panic m2 => m1 = m2
  | _, _ => False
  end.

Definition opt_rel {A B} (R : A -> B -> Prop) (x : option A) (y : option B) : Prop :=
  match x, y with
  | Some a, Some b => R a b
  | None, None => True
  | _, _ => False
  end.

(** a relation on token lists lifted through paths, IRs, item maps and settings: everything
    equal except the token lists, which are related *)
Section TokRel.
  Variable R : tokens -> tokens -> Prop.

  Inductive tpath_rel : tpath -> tpath -> Prop :=
  | tr_param p : tpath_rel (TParam p) (TParam p)
  | tr_path t1 t2 ps1 ps2 : R t1 t2 -> Forall2 tpath_rel ps1 ps2 -> tpath_rel (TPath t1 ps1) (TPath t2 ps2)
  | tr_vec o1 o2 : tpath_rel o1 o2 -> tpath_rel (TVec o1) (TVec o2)
  | tr_array len o1 o2 : tpath_rel o1 o2 -> tpath_rel (TArray len o1) (TArray len o2)
  | tr_tuple es1 es2 : Forall2 tpath_rel es1 es2 -> tpath_rel (TTuple es1) (TTuple es2)
  | tr_prim p : tpath_rel (TPrim p) (TPrim p)
  | tr_compact i1 i2 f c1 c2 : tpath_rel i1 i2 -> R c1 c2 -> tpath_rel (TCompact i1 f c1) (TCompact i2 f c2)
  | tr_bitvec o1 o2 st1 st2 b1 b2 :
      tpath_rel o1 o2 -> tpath_rel st1 st2 -> R b1 b2 -> tpath_rel (TBitVec o1 st1 b1) (TBitVec o2 st2 b2).

  Definition fi_rel (f1 f2 : field_ir) : Prop :=
    tpath_rel (fi_path f1) (fi_path f2) /\ fi_compact f1 = fi_compact f2 /\ fi_boxed f1 = fi_boxed f2.

  Inductive ckind_rel : ckind -> ckind -> Prop :=
  | ck_none : ckind_rel CNoFields CNoFields
  | ck_named fs1 fs2 :
      Forall2 (fun x y : string * field_ir => fst x = fst y /\ fi_rel (snd x) (snd y)) fs1 fs2 ->
      ckind_rel (CNamed fs1) (CNamed fs2)
  | ck_unnamed fs1 fs2 : Forall2 fi_rel fs1 fs2 -> ckind_rel (CUnnamed fs1) (CUnnamed fs2).

  Definition ci_rel (c1 c2 : composite_ir) : Prop :=
    ci_name c1 = ci_name c2 /\ ckind_rel (ci_kind c1) (ci_kind c2) /\ ci_docs c1 = ci_docs c2.

  Inductive kind_rel : kind_ir -> kind_ir -> Prop :=
  | k_struct c1 c2 : ci_rel c1 c2 -> kind_rel (KStruct c1) (KStruct c2)
  | k_enum n d vs1 vs2 :
      Forall2 (fun x y : N * composite_ir => fst x = fst y /\ ci_rel (snd x) (snd y)) vs1 vs2 ->
      kind_rel (KEnum n d vs1) (KEnum n d vs2).

  Definition ir_rel (a b : type_ir) : Prop :=
    ti_params a = ti_params b /\ ti_unused a = ti_unused b /\ ti_derives a = ti_derives b /\
    ti_codec a = ti_codec b /\ kind_rel (ti_kind a) (ti_kind b).

  Definition items_rel (m1 m2 : items) : Prop :=
    Forall2 (fun e1 e2 : list string * (N * type_ir) =>
               fst e1 = fst e2 /\ fst (snd e1) = fst (snd e2) /\ ir_rel (snd (snd e1)) (snd (snd e2)))
            m1 m2.

  (** the settings agree except for related alloc / compact / bits paths (an absent path is
      absent on both sides) *)
  Definition settings_rel (s1 s2 : settings) : Prop :=
    s_root s1 = s_root s2 /\ s_docs s1 = s_docs s2 /\ s_dreg s1 = s_dreg s2 /\
    s_subs s1 = s_subs s2 /\ s_compact_as s1 = s_compact_as s2 /\ s_codec s1 = s_codec s2 /\
    R (alloc_tokens (s_alloc s1)) (alloc_tokens (s_alloc s2)) /\
    opt_rel R (s_compact s1) (s_compact s2) /\ opt_rel R (s_bits s1) (s_bits s2).
End TokRel.
