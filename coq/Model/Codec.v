(** A SCALE codec defined by recursion on [shape] (DESIGN.md section 4, "Codec").

    [decode] / [encode] look at NOTHING but the shape: neither the registry nor the generated
    items occur in this file.  Two types with the same shape therefore have the same
    decoder and the same encoder by construction, which is what turns the shape equality
    of C01 / C18 into the byte-level sentences of those properties.

    The primitive codecs (fixed-width primitives, compact integers, the compact length
    prefix of sequences, bit sequences, external types) are ABSTRACT: a record [prims] of
    functions, and predicates [prims_ok] / [prims_mono] stating the hypotheses the theorems
    of Proofs/CodecProofs.v need (round trip; external codecs use the codecs of their
    arguments monotonically).  Every theorem quantifies over all such records;
    Model/CodecInstance.v gives a concrete little-endian instance that satisfies them.

    Definitions only; proofs in Proofs/CodecProofs.v. *)
From Coq Require Import List NArith String Bool.
From V Require Import Base.Strings Model.Registry Model.Settings Model.Shape.
Import ListNotations.
Open Scope list_scope.

(** bytes are numbers; a decoder consumes a prefix of the input and returns the rest *)
Definition bytes := list N.
Definition dec (A : Type) := bytes -> option (A * bytes).
Definition enc (A : Type) := A -> option bytes.

(** round trip, in the direction the properties speak about: whatever the decoder accepts
    re-encodes to exactly the bytes it consumed *)
Definition rt {A} (d : dec A) (e : enc A) : Prop :=
  forall b v rest, d b = Some (v, rest) -> exists bs, e v = Some bs /\ bs ++ rest = b.

(** the other direction: what the encoder produces, followed by anything, decodes to the
    value encoded and hands the rest back (the encoding is self-delimiting) *)
Definition tr {A} (e : enc A) (d : dec A) : Prop :=
  forall v bs rest, e v = Some bs -> d (bs ++ rest) = Some (v, rest).

(** [d'] accepts everything [d] accepts, with the same result *)
Definition dec_le {A} (d d' : dec A) : Prop := forall b x, d b = Some x -> d' b = Some x.

(** first entry carrying index [i] *)
Fixpoint assoc_idx {A} (i : N) (l : list (N * A)) : option A :=
  match l with
  | [] => None
  | (j, a) :: l' => if N.eqb j i then Some a else assoc_idx i l'
  end.

(** no [SCut] anywhere: the shape was unfolded completely *)
Fixpoint cutfree (sh : shape) : bool :=
  match sh with
  | SPrim _ => true
  | SCompact a => cutfree a
  | SSeq a => cutfree a
  | SArr _ a => cutfree a
  | STuple l => forallb cutfree l
  | SBits a b => cutfree a && cutfree b
  | SStruct fs => forallb (fun f => cutfree (snd f)) fs
  | SEnum vs => forallb (fun v => forallb (fun f => cutfree (snd f)) (snd v)) vs
  | SOpaque _ l => forallb cutfree l
  | SCut => false
  end.

Section Values.
  Variables pv bv ov : Type.   (* primitive values, bit-sequence values, opaque leaf values *)

  Inductive val :=
  | VPrim (x : pv)
  | VSeq (l : list val)                 (* sequences and arrays *)
  | VTuple (l : list val)
  | VStruct (l : list val)              (* field values in order *)
  | VEnum (idx : N) (l : list val)      (* variant index, field values in order *)
  | VBits (x : bv)
  | VOpaque (x : ov).

  (** the abstract primitive codecs *)
  Record prims := mk_prims {
    pdec : prim -> dec pv;                    penc : prim -> enc pv;
    cdec : prim -> dec pv;                    cenc : prim -> enc pv;     (* Compact<prim> *)
    ldec : dec N;                             lenc : enc N;              (* length prefix *)
    bdec : shape -> shape -> dec bv;          benc : shape -> shape -> enc bv; (* store, order *)
    (* an external type (substituted / prelude): inside [Compact<..>]?, head tokens, codecs
       of its arguments *)
    odec : bool -> tokens -> list (dec val) -> dec val;
    oenc : bool -> tokens -> list (enc val) -> enc val }.

  Record prims_ok (P : prims) : Prop := mk_prims_ok {
    ok_prim : forall p, rt (pdec P p) (penc P p);
    ok_compact : forall p, rt (cdec P p) (cenc P p);
    ok_len : rt (ldec P) (lenc P);
    ok_bits : forall st or, rt (bdec P st or) (benc P st or);
    (* an external type round-trips whenever its arguments do *)
    ok_opaque : forall c head (ds : list (dec val)) (es : list (enc val)),
        Forall2 rt ds es -> rt (odec P c head ds) (oenc P c head es) }.

  (** for the converse direction (the encoder's output decodes) *)
  Record prims_rev (P : prims) : Prop := mk_prims_rev {
    rev_prim : forall p, tr (penc P p) (pdec P p);
    rev_compact : forall p, tr (cenc P p) (cdec P p);
    rev_len : tr (lenc P) (ldec P);
    rev_bits : forall st or, tr (benc P st or) (bdec P st or);
    rev_opaque : forall c head (es : list (enc val)) (ds : list (dec val)),
        Forall2 tr es ds -> tr (oenc P c head es) (odec P c head ds) }.

  (** only for the depth-monotonicity lemma: an external decoder uses the decoders of its
      arguments as black boxes, so it accepts more when they do *)
  Definition prims_mono (P : prims) : Prop :=
    forall c head ds ds', Forall2 dec_le ds ds' -> dec_le (odec P c head ds) (odec P c head ds').

  (** ** generic combinators *)
  Definition dmap {A B} (f : A -> B) (d : dec A) : dec B :=
    fun b => match d b with Some (x, rest) => Some (f x, rest) | None => None end.

  (** one decoder per component, in order *)
  Fixpoint dec_all (ds : list (dec val)) : dec (list val) :=
    fun b =>
      match ds with
      | [] => Some ([], b)
      | d :: ds' =>
          match d b with
          | Some (v, r) =>
              match dec_all ds' r with Some (vs, r') => Some (v :: vs, r') | None => None end
          | None => None
          end
      end.

  Fixpoint enc_all (es : list (enc val)) : enc (list val) :=
    fun vs =>
      match es, vs with
      | [], [] => Some []
      | e :: es', v :: vs' =>
          match e v, enc_all es' vs' with
          | Some x, Some y => Some (x ++ y)
          | _, _ => None
          end
      | _, _ => None
      end.

  (** [n] elements with the same decoder *)
  Fixpoint dec_rep (d : dec val) (n : nat) : dec (list val) :=
    fun b =>
      match n with
      | O => Some ([], b)
      | S n' =>
          match d b with
          | Some (v, r) =>
              match dec_rep d n' r with Some (vs, r') => Some (v :: vs, r') | None => None end
          | None => None
          end
      end.

  Fixpoint enc_rep (e : enc val) (vs : list val) : option bytes :=
    match vs with
    | [] => Some []
    | v :: vs' =>
        match e v, enc_rep e vs' with
        | Some x, Some y => Some (x ++ y)
        | _, _ => None
        end
    end.

  Section Codec.
    Variable P : prims.

    (** ** the decoder.  [c] = "inside [Compact<..>]": a primitive is read with the compact
        codec, a single-field struct wrapper (CompactAs) is looked through, the unit tuple
        takes no bytes, an external type uses its own compact codec, anything else has no
        compact encoding.
        - [SStruct]: the fields in order (names and the [boxed] flag are not on the wire);
        - [SEnum]: one index byte, then the fields of the first variant with that index;
        - [SSeq]: length prefix, then that many elements; [SArr n]: [n] elements;
        - [SBits]: the bit-sequence codec of the (completely unfolded) store / order;
        - [SOpaque]: the external codec (told whether it sits inside [Compact<..>]) applied to
          the decoders of the arguments;
        - [SCut]: the unfolding depth is exhausted - nothing decodes. *)
    Fixpoint decode_c (c : bool) (sh : shape) {struct sh} : dec val :=
      match sh with
      | SPrim p => if c then dmap VPrim (cdec P p) else dmap VPrim (pdec P p)
      | SCompact a => if c then fun _ => None else decode_c true a
      | SSeq a =>
          if c then fun _ => None
          else fun b =>
                 match ldec P b with
                 | Some (n, r) => dmap VSeq (dec_rep (decode_c false a) (N.to_nat n)) r
                 | None => None
                 end
      | SArr n a =>
          if c then fun _ => None else dmap VSeq (dec_rep (decode_c false a) (N.to_nat n))
      | STuple l =>
          if c then
            match l with
            | [] => fun b => Some (VTuple [], b)           (* Compact<()>: nothing on the wire *)
            | _ => fun _ => None
            end
          else dmap VTuple (dec_all (map (decode_c false) l))
      | SBits st or =>
          if c then fun _ => None
          else if cutfree st && cutfree or then dmap VBits (bdec P st or) else fun _ => None
      | SStruct fs =>
          if c then
            match fs with
            | [(_, _, a)] => dmap (fun v => VStruct [v]) (decode_c true a)
            | _ => fun _ => None
            end
          else dmap VStruct (dec_all (map (fun f => decode_c false (snd f)) fs))
      | SEnum vs =>
          if c then fun _ => None
          else fun b =>
                 match b with
                 | [] => None
                 | i :: r =>
                     match assoc_idx i
                             (map (fun v => (snd (fst v),
                                             dec_all (map (fun f => decode_c false (snd f)) (snd v))))
                                  vs) with
                     | Some d => dmap (VEnum i) d r
                     | None => None                       (* unknown variant index *)
                     end
                 end
      | SOpaque head args => odec P c head (map (decode_c false) args)
      | SCut => fun _ => None
      end.

    Fixpoint encode_c (c : bool) (sh : shape) {struct sh} : enc val :=
      match sh with
      | SPrim p =>
          fun v => match v with
                   | VPrim x => if c then cenc P p x else penc P p x
                   | _ => None
                   end
      | SCompact a => if c then fun _ => None else encode_c true a
      | SSeq a =>
          if c then fun _ => None
          else fun v =>
                 match v with
                 | VSeq l =>
                     match lenc P (N.of_nat (List.length l)), enc_rep (encode_c false a) l with
                     | Some x, Some y => Some (x ++ y)
                     | _, _ => None
                     end
                 | _ => None
                 end
      | SArr n a =>
          if c then fun _ => None
          else fun v =>
                 match v with
                 | VSeq l =>
                     if N.eqb (N.of_nat (List.length l)) n then enc_rep (encode_c false a) l
                     else None
                 | _ => None
                 end
      | STuple l =>
          if c then
            match l with
            | [] => fun v => match v with VTuple [] => Some [] | _ => None end
            | _ => fun _ => None
            end
          else fun v => match v with
                        | VTuple vs => enc_all (map (encode_c false) l) vs
                        | _ => None
                        end
      | SBits st or =>
          if c then fun _ => None
          else if cutfree st && cutfree or
               then fun v => match v with VBits x => benc P st or x | _ => None end
               else fun _ => None
      | SStruct fs =>
          if c then
            match fs with
            | [(_, _, a)] =>
                fun v => match v with VStruct [x] => encode_c true a x | _ => None end
            | _ => fun _ => None
            end
          else fun v => match v with
                        | VStruct vs => enc_all (map (fun f => encode_c false (snd f)) fs) vs
                        | _ => None
                        end
      | SEnum vs =>
          if c then fun _ => None
          else fun v =>
                 match v with
                 | VEnum i xs =>
                     match assoc_idx i
                             (map (fun v => (snd (fst v),
                                             enc_all (map (fun f => encode_c false (snd f)) (snd v))))
                                  vs) with
                     | Some e => match e xs with Some y => Some (i :: y) | None => None end
                     | None => None
                     end
                 | _ => None
                 end
      | SOpaque head args => oenc P c head (map (encode_c false) args)
      | SCut => fun _ => None
      end.

    Definition decode : shape -> dec val := decode_c false.
    Definition encode : shape -> enc val := encode_c false.

    (** the codec of a field list on its own (what [SStruct] / a variant body reads) *)
    Definition decode_fields (fs : list fshape) : dec (list val) :=
      dec_all (map (fun f => decode (snd f)) fs).
    Definition encode_fields (fs : list fshape) : enc (list val) :=
      enc_all (map (fun f => encode (snd f)) fs).
  End Codec.
End Values.

Arguments VPrim {pv bv ov}. Arguments VSeq {pv bv ov}. Arguments VTuple {pv bv ov}.
Arguments VStruct {pv bv ov}. Arguments VEnum {pv bv ov}. Arguments VBits {pv bv ov}.
Arguments VOpaque {pv bv ov}.
Arguments pdec {pv bv ov}. Arguments penc {pv bv ov}. Arguments cdec {pv bv ov}.
Arguments cenc {pv bv ov}. Arguments ldec {pv bv ov}. Arguments lenc {pv bv ov}.
Arguments bdec {pv bv ov}. Arguments benc {pv bv ov}. Arguments odec {pv bv ov}.
Arguments oenc {pv bv ov}. Arguments mk_prims {pv bv ov}.
Arguments prims_ok {pv bv ov}. Arguments prims_mono {pv bv ov}. Arguments prims_rev {pv bv ov}.
Arguments dec_all {pv bv ov}. Arguments enc_all {pv bv ov}.
Arguments dec_rep {pv bv ov}. Arguments enc_rep {pv bv ov}.
Arguments decode_c {pv bv ov}. Arguments encode_c {pv bv ov}.
Arguments decode {pv bv ov}. Arguments encode {pv bv ov}.
Arguments decode_fields {pv bv ov}. Arguments encode_fields {pv bv ov}.

(** ** refinement: [refines a a'] iff [a'] is [a] with some [SCut] leaves unfolded further.
    The depth-[n] reading of a type refines to its depth-[n + k] reading. *)
Inductive refines : shape -> shape -> Prop :=
| R_cut a' : refines SCut a'
| R_prim p : refines (SPrim p) (SPrim p)
| R_compact a a' : refines a a' -> refines (SCompact a) (SCompact a')
| R_seq a a' : refines a a' -> refines (SSeq a) (SSeq a')
| R_arr n a a' : refines a a' -> refines (SArr n a) (SArr n a')
| R_tuple l l' : Forall2 refines l l' -> refines (STuple l) (STuple l')
| R_bits a a' b b' : refines a a' -> refines b b' -> refines (SBits a b) (SBits a' b')
| R_struct fs fs' :
    Forall2 (fun f f' : fshape => fst f = fst f' /\ refines (snd f) (snd f')) fs fs' ->
    refines (SStruct fs) (SStruct fs')
| R_enum vs vs' :
    Forall2 (fun v v' : string * N * list fshape =>
               fst v = fst v' /\
               Forall2 (fun f f' : fshape => fst f = fst f' /\ refines (snd f) (snd f'))
                       (snd v) (snd v')) vs vs' ->
    refines (SEnum vs) (SEnum vs')
| R_opaque h l l' : Forall2 refines l l' -> refines (SOpaque h l) (SOpaque h l').
