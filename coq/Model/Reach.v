(** Specification vocabulary for C08 / C06 (definitions only, no proofs):
    the edge relation of the registry graph that [collect_type_ids] follows,
    its reflexive-transitive closure, and the "recursive registration reaches
    this path" predicate that [flatten_recursive_derives] is proved against. *)
From Coq Require Import List NArith String Bool.
From V Require Import Base.Strings Base.Result Model.Registry Model.Settings Model.Derives
  Model.TypePath Model.Generate.
Import ListNotations.
Open Scope string_scope. Open Scope list_scope.

(** [a -> b]: [b] is a non-skipped type parameter, a struct field, a variant
    field, a sequence / array element, a tuple element or the inner type of a
    compact of the type registered at position [a].  Bit-sequence store and
    order types are NOT edges ([collect_children] drops them). *)
Definition edge (r : registry) (a b : N) : Prop :=
  exists t, resolve r a = Some t /\ In b (collect_children t).

Inductive reach (r : registry) : N -> N -> Prop :=
| reach_refl : forall a, reach r a a
| reach_step : forall a b c, edge r a b -> reach r b c -> reach r a c.

(** the edge relation spelled out per kind of type, independently of
    [collect_children] (proved equivalent in Proofs/CollectProofs.v) *)
Definition edge_spec (r : registry) (a b : N) : Prop :=
  exists t, resolve r a = Some t /\
    ((exists p, In p (t_params t) /\ tp_ty p = Some b) \/
     match t_def t with
     | TDComposite fs => exists f, In f fs /\ f_ty f = b
     | TDVariant vs => exists v f, In v vs /\ In f (v_fields v) /\ f_ty f = b
     | TDSequence e => e = b
     | TDArray _ e => e = b
     | TDTuple es => In b es
     | TDPrimitive _ => False
     | TDCompact e => e = b
     | TDBitSeq _ _ => False
     end).

(** lookups that read an absent key as the empty set *)
Definition smap_get_or_empty (m : list (string * derives)) (k : string) : derives :=
  match smap_get m k with Some d => d | None => derives_empty end.
Definition kmap_or_empty (m : kmap) (k : string) : derives :=
  match kmap_get m k with Some d => d | None => derives_empty end.

(** [x] (a derive if [sel = d_derives], an attribute if [sel = d_attrs]) comes
    from a recursive registration that reaches the path key [k]:
    some registry entry [root] has a non-empty path whose key has the recursive
    registration [d] with [x] in it, and some entry reachable from [root] has a
    (non-empty) path with key [k].  Keys are compared exactly as the code does:
    by the token string of the path ([path_key]). *)
Definition rec_reaches (r : registry) (rc : kmap) (sel : derives -> list kt)
           (k : string) (x : kt) : Prop :=
  exists root troot d i t,
    resolve r root = Some troot /\ t_path troot <> [] /\
    kmap_get rc (path_key (t_path troot)) = Some d /\ In x (sel d) /\
    reach r root i /\
    resolve r i = Some t /\ t_path t <> [] /\ path_key (t_path t) = k.

(** the CompactAs eligibility of a generated item, read off the item *)
Definition item_compactable (ir : type_ir) : bool :=
  match ti_kind ir with
  | KStruct c => could_derive_as_compact (ci_kind c)
  | KEnum _ _ _ => false
  end.

Definition is_uint_prim (p : prim) : bool :=
  match p with PU8 | PU16 | PU32 | PU64 | PU128 => true | _ => false end.

(** ** C06 vocabulary *)
Definition same_set {A} (a b : list A) : Prop := forall x, In x a <-> In x b.

(** derive registries equal as finite maps of finite sets (keys = token strings) *)
Definition dreg_same (a b : derives_registry) : Prop :=
  same_set (d_derives (dr_default a)) (d_derives (dr_default b)) /\
  same_set (d_attrs (dr_default a)) (d_attrs (dr_default b)) /\
  forall key,
    (kmap_get (dr_recursive a) key = None <-> kmap_get (dr_recursive b) key = None) /\
    same_set (d_derives (kmap_or_empty (dr_specific a) key)) (d_derives (kmap_or_empty (dr_specific b) key)) /\
    same_set (d_attrs (kmap_or_empty (dr_specific a) key)) (d_attrs (kmap_or_empty (dr_specific b) key)) /\
    same_set (d_derives (kmap_or_empty (dr_recursive a) key)) (d_derives (kmap_or_empty (dr_recursive b) key)) /\
    same_set (d_attrs (kmap_or_empty (dr_recursive a) key)) (d_attrs (kmap_or_empty (dr_recursive b) key)).

(** two key-maps that are reorderings of each other: pairwise distinct keys,
    the same keys, and set-equal values under equal keys *)
Definition kmap_perm (a b : kmap) : Prop :=
  NoDup (map (fun kd => k_key (fst kd)) a) /\ NoDup (map (fun kd => k_key (fst kd)) b) /\
  (forall key, In key (map (fun kd => k_key (fst kd)) a) <-> In key (map (fun kd => k_key (fst kd)) b)) /\
  (forall ka da kb db, In (ka, da) a -> In (kb, db) b -> k_key ka = k_key kb ->
                       same_set (d_derives da) (d_derives db) /\ same_set (d_attrs da) (d_attrs db)).

(** every derive (or attribute) mentioned anywhere in a derive registry *)
Definition dreg_all (sel : derives -> list kt) (dr : derives_registry) : list kt :=
  sel (dr_default dr) ++ flat_map (fun kd => sel (snd kd)) (dr_specific dr ++ dr_recursive dr).

(** settings that may differ only in the derive registry and in the
    representation of the substitute map (same lookups) *)
Definition settings_same (s1 s2 : settings) : Prop :=
  s_root s1 = s_root s2 /\ s_docs s1 = s_docs s2 /\
  (forall p, subs_get (s_subs s1) p = subs_get (s_subs s2) p) /\
  s_bits s1 = s_bits s2 /\ s_compact_as s1 = s_compact_as s2 /\ s_compact s1 = s_compact s2 /\
  s_codec s1 = s_codec s2 /\ s_alloc s1 = s_alloc s2.
