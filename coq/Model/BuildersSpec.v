(** Specifications for the settings builders and the settings validation
    (C11, C16), written directly from the property texts and INDEPENDENTLY of
    [apply_op] / [parse_mapping] / [validate] of Model/Builders.v.  No proofs
    here; the theorems relating them to the model are in Proofs/BuildersProofs.v,
    the boolean checkers that evaluate them on observed outputs in Corr/RunC11.v
    and Corr/RunC16.v. *)
From Coq Require Import List NArith String Bool.
From V Require Import Base.Strings Base.Result Model.Registry Model.Settings Model.Subst
  Model.Builders.
Import ListNotations.
Open Scope string_scope. Open Scope list_scope.

Definition is_some {A} (o : option A) : bool := match o with Some _ => true | None => false end.
Definition is_none {A} (o : option A) : bool := match o with Some _ => false | None => true end.
Definition or_else {A} (a b : option A) : option A := match a with Some _ => a | None => b end.

(** ** classification of the argument forms of one substitution (documented error kinds) *)
Definition absolute (p : spath) : bool :=
  sp_leading p || match sp_segs p with (h, _) :: _ => String.eqb h "crate" | [] => false end.

Definition final_args (p : spath) : pargs := snd (last (sp_segs p) ("", ANone)).
Definition parenthesised (a : pargs) : bool := match a with AParen _ => true | _ => false end.
Definition angle_args (a : pargs) : list garg := match a with AAngle l => l | _ => [] end.
Definition no_args (a : pargs) : bool := match a with ANone | AAngle [] => true | _ => false end.

(** an argument that is just an identifier [A] (no [::], no qself, no own arguments) *)
Definition bare_ident (g : garg) : option string :=
  match g with
  | GType (GTPath false false [(id, a)]) => if no_args a then Some id else None
  | _ => None
  end.
Definition is_type_path (g : garg) : bool :=
  match g with GType (GTPath _ _ _) => true | _ => false end.

Definition no_segments (p : spath) : bool := match sp_segs p with [] => true | _ => false end.

Definition classify (s t : spath) : option suberr :=
  if negb (absolute t) then Some SExpectedAbsolutePath
  else if no_segments s || no_segments t then Some SEmptySubstitutePath
  else if parenthesised (final_args s) then Some SExpectedAngleBracketGenerics
  else if negb (forallb (fun g => is_some (bare_ident g)) (angle_args (final_args s))) then Some SInvalidFromType
  else if parenthesised (final_args t) then Some SExpectedAngleBracketGenerics
  else if negb (forallb is_type_path (angle_args (final_args t))) then Some SInvalidToType
  else None.

(** the rule an accepted pair stands for: key = identifiers of the source
    (generic arguments ignored), value = target + positions of the source's parameter names *)
Definition idents (p : spath) : list string := map fst (sp_segs p).
Definition source_names (s : spath) : list string :=
  flat_map (fun g => match bare_ident g with Some i => [i] | None => [] end) (angle_args (final_args s)).
Definition spec_value (s t : spath) : substitute :=
  let names := source_names s in
  mk_subst t match names, angle_args (final_args t) with
             | [], [] => PassThrough
             | _, _ => Specified (combine names (seq 0 (List.length names)))
             end.

(** ** the rule stored for a key after a history: per key, a register *)
Definition writes (s t : spath) (k : list string) : option substitute :=
  if is_none (classify s t) && path_eqb (idents s) k then Some (spec_value s t) else None.

(** the elements of an [extend] call that take effect: none if some target is
    relative (the conversion of the targets precedes the call), else those
    before the first rejected element *)
Fixpoint ok_prefix (l : list (spath * spath)) : list (spath * spath) :=
  match l with
  | [] => []
  | (s, t) :: l' => if is_none (classify s t) then (s, t) :: ok_prefix l' else []
  end.
Definition ext_elems (l : list (spath * spath)) : list (spath * spath) :=
  if forallb (fun p => absolute (snd p)) l then ok_prefix l else [].

(** the three lines: insert / extend element overwrite, insert-if-absent only fills *)
Definition rule_step (k : list string) (cur : option substitute) (o : op) : option substitute :=
  match o with
  | OpSubInsert s t => or_else (writes s t k) cur
  | OpSubInsertIfAbsent s t => or_else cur (writes s t k)
  | OpSubExtend l => fold_left (fun c '(s, t) => or_else (writes s t k) c) (ext_elems l) cur
  | _ => cur
  end.
Definition spec_rule (ops : list op) (k : list string) : option substitute :=
  fold_left (rule_step k) ops None.

(** outcome of every call *)
Fixpoint first_some {A} (l : list (option A)) : option A :=
  match l with [] => None | Some x :: _ => Some x | None :: l' => first_some l' end.
Definition spec_outcome (o : op) : option suberr :=
  match o with
  | OpSubInsert s t | OpSubInsertIfAbsent s t => classify s t
  | OpSubExtend l =>
      if forallb (fun p => absolute (snd p)) l then first_some (map (fun '(s, t) => classify s t) l)
      else Some SExpectedAbsolutePath
  | _ => None
  end.

(** ** derive / attribute registrations: unions over the history *)
Definition spec_default_derives (ops : list op) : list kt :=
  flat_map (fun o => match o with OpDerivesAll ds => ds | _ => [] end) ops.
Definition spec_default_attrs (ops : list op) : list kt :=
  flat_map (fun o => match o with OpAttrsAll a => a | _ => [] end) ops.
(** [rec] selects the recursive (true) or the type-specific (false) registrations for the key *)
Definition spec_key_derives (rec : bool) (key : string) (ops : list op) : list kt :=
  flat_map (fun o => match o with
                     | OpDerivesFor k ds r => if Bool.eqb r rec && String.eqb (k_key k) key then ds else []
                     | _ => []
                     end) ops.
Definition spec_key_attrs (rec : bool) (key : string) (ops : list op) : list kt :=
  flat_map (fun o => match o with
                     | OpAttrsFor k a r => if Bool.eqb r rec && String.eqb (k_key k) key then a else []
                     | _ => []
                     end) ops.
Definition spec_key_registered (rec : bool) (key : string) (ops : list op) : bool :=
  existsb (fun o => match o with
                    | OpDerivesFor k _ r | OpAttrsFor k _ r => Bool.eqb r rec && String.eqb (k_key k) key
                    | _ => false
                    end) ops.
Definition is_derive_op (o : op) : bool :=
  match o with OpDerivesAll _ | OpAttrsAll _ | OpDerivesFor _ _ _ | OpAttrsFor _ _ _ => true | _ => false end.

(** the type-specific (false) or recursive (true) map of a derive registry *)
Definition side (dr : derives_registry) (rc : bool) : kmap :=
  if rc then dr_recursive dr else dr_specific dr.

(** all derives / attributes that occur as arguments of the history's calls *)
Definition history_args (ops : list op) : list kt :=
  flat_map (fun o => match o with
                     | OpDerivesAll l | OpAttrsAll l | OpDerivesFor _ l _ | OpAttrsFor _ l _ => l
                     | _ => []
                     end) ops.

(** two lists read as sets *)
Definition set_eq {A} (a b : list A) : Prop := forall x, In x a <-> In x b.
Definition kmap_get_or_empty (m : kmap) (key : string) : derives :=
  match kmap_get m key with Some d => d | None => derives_empty end.
(** derive registries equal as finite maps of finite sets *)
Definition dreg_equiv (a b : derives_registry) : Prop :=
  set_eq (d_derives (dr_default a)) (d_derives (dr_default b)) /\
  set_eq (d_attrs (dr_default a)) (d_attrs (dr_default b)) /\
  forall key,
    (is_some (kmap_get (dr_specific a) key) = is_some (kmap_get (dr_specific b) key)) /\
    (is_some (kmap_get (dr_recursive a) key) = is_some (kmap_get (dr_recursive b) key)) /\
    set_eq (d_derives (kmap_get_or_empty (dr_specific a) key)) (d_derives (kmap_get_or_empty (dr_specific b) key)) /\
    set_eq (d_attrs (kmap_get_or_empty (dr_specific a) key)) (d_attrs (kmap_get_or_empty (dr_specific b) key)) /\
    set_eq (d_derives (kmap_get_or_empty (dr_recursive a) key)) (d_derives (kmap_get_or_empty (dr_recursive b) key)) /\
    set_eq (d_attrs (kmap_get_or_empty (dr_recursive a) key)) (d_attrs (kmap_get_or_empty (dr_recursive b) key)).

(** ** validation (C11), from the property text *)
Definition nonempty {A} (l : list A) : bool := match l with [] => false | _ => true end.
(** every key with a non-empty derive or attribute set, and every substitute source, is a registry path *)
Definition settings_known (subs : substitutes) (dr : derives_registry) (r : registry) : Prop :=
  (forall k d, In (k, d) (dr_specific dr ++ dr_recursive dr) ->
               nonempty (d_derives d) || nonempty (d_attrs d) = true ->
               exists e, In e r /\ t_path (snd e) = k_segs k) /\
  (forall p sub, In (p, sub) subs -> exists e, In e r /\ t_path (snd e) = p).

Definition unknown (r : registry) (p : list string) : bool :=
  negb (existsb (fun e => path_eqb (t_path (snd e)) p) r).

(** [ve_derives]/[ve_attrs] looked up by key *)
Fixpoint ve_get (m : list (string * list kt)) (k : string) : option (list kt) :=
  match m with
  | [] => None
  | (k', d) :: m' => if String.eqb k' k then Some d else ve_get m' k
  end.

(** what the error must list under key [K], for the projection [sel] (derives or attributes) *)
Definition spec_unknown_entries (sel : derives -> list kt) (r : registry) (l : kmap) (K : string)
  : list kt :=
  flat_map (fun '(k, d) => if unknown r (k_segs k) && String.eqb (k_key k) K then sel d else []) l.
Definition spec_unknown_listed (sel : derives -> list kt) (r : registry) (l : kmap) (K : string) : bool :=
  existsb (fun '(k, d) => unknown r (k_segs k) && String.eqb (k_key k) K && nonempty (sel d)) l.
Definition spec_unknown_subs (r : registry) (subs : substitutes) : list (list string * tokens) :=
  map (fun '(p, sub) => (p, print_spath (su_path sub))) (filter (fun '(p, _) => unknown r p) subs).

(** the similar-path query *)
Definition spec_similar (r : registry) (q : list string) : list (list string) :=
  match q with
  | [] => []
  | _ => filter (fun p => match p with [] => false | _ => String.eqb (last p "") (last q "") end)
                (map (fun e => t_path (snd e)) r)
  end.
