(** IR-level closedness of an item map: the conditions under which the tree
    [pmod_of_items] (Model/Unparse.v) passes the checker [closedb] (Checkers/Sem.v).
    Definitions only; the theorem is in [Proofs/ParseClosed.v]. *)
From Coq Require Import List NArith String Bool.
From V Require Import Base.Util Base.Strings Base.Result Model.Registry Model.Settings Model.Subst
  Model.TypePath Model.Derives Model.Generate Model.Emit Model.WellFormed Checkers.Parse Model.Unparse.
Import ListNotations.
Open Scope string_scope. Open Scope list_scope.

Section Closed.
  Variable s : settings.
  Variable m : items.

  (** one node of a field's type path: a path rooted at the types module names an emitted item
      and carries as many arguments as that item declares parameters; no other printed path
      (parameter name, compact / bits wrapper) starts with the root ident *)
  Definition node_closed (x : tpath) : Prop :=
    match x with
    | TPath ptoks params =>
        hd_is (s_root s) ptoks = true ->
        exists p id ir, ptoks = rel_path (s_root s :: p) /\ items_get m p = Some (id, ir) /\
                        List.length params = List.length (ti_params ir)
    | TCompact _ false c => hd_is (s_root s) c = false
    | TBitVec _ _ b => hd_is (s_root s) b = false
    | _ => True
    end.

  Definition item_closed (ir : type_ir) : Prop :=
    (forall f, In f (kind_fields (ti_kind ir)) ->
               tokenizable (fi_path f) = true /\
               forall x, In x (subpaths (fi_path f)) -> node_closed x) /\
    (forall p, In p (ti_params ir) ->
               In p (ti_unused ir) \/
               exists f, In f (kind_fields (ti_kind ir)) /\ In p (parent_params (fi_path f))) /\
    NoDup (map tpi_idx (ti_params ir)).

  Definition ir_closed : Prop :=
    starts_with "_" (s_root s) = false /\
    hd_is (s_root s) (alloc_tokens (s_alloc s)) = false /\
    NoDup (map fst m) /\
    (forall p q x l, In p (map fst m) -> In q (map fst m) -> q <> p ++ x :: l) /\
    forall p id ir, In (p, (id, ir)) m ->
                    p <> [] /\ last p "" = pi_name (item_of_ir s ir) /\ item_closed ir.
End Closed.

(** what [Proofs/ParseClosed.v] does not derive from [generate] (see [closedb_emitted_partial]) *)
Definition keys_prefix_free (m : items) : Prop :=
  forall p q x l, In p (map fst m) -> In q (map fst m) -> q <> p ++ x :: l.

Definition nodes_extra (s : settings) (m : items) : Prop :=
  forall p id ir, In (p, (id, ir)) m ->
  forall f, In f (kind_fields (ti_kind ir)) ->
  tokenizable (fi_path f) = true /\
  forall x, In x (subpaths (fi_path f)) ->
  match x with
  | TPath ptoks params =>
      forall q id' ir', ptoks = rel_path (s_root s :: q) -> items_get m q = Some (id', ir') ->
                        List.length params = List.length (ti_params ir')
  | TCompact _ false c => hd_is (s_root s) c = false
  | TBitVec _ _ b => hd_is (s_root s) b = false
  | _ => True
  end.

(** the compact / bits wrapper paths do not start with the root ident *)
Definition wrappers_fresh (s : settings) : Prop :=
  (forall c, s_compact s = Some c -> hd_is (s_root s) c = false) /\
  (forall b, s_bits s = Some b -> hd_is (s_root s) b = false).

(** unit and tuple structs: the forms printed with a trailing semicolon *)
Definition semi_struct (ir : type_ir) : Prop :=
  exists c, ti_kind ir = KStruct c /\ (ci_kind c = CNoFields \/ exists fs, ci_kind c = CUnnamed fs).

(** decidable prefix-freeness of a list of paths *)
Definition is_proper_prefix (p q : list string) : bool :=
  Nat.ltb (List.length p) (List.length q) && list_eqb String.eqb p (firstn (List.length p) q).
Definition prefix_freeb (keys : list (list string)) : bool :=
  forallb (fun p => forallb (fun q => negb (is_proper_prefix p q)) keys) keys.
