(** The public settings builders as operations over a state
    (derives.rs:25-68, substitutes.rs:70-102, 353-408) and settings validation
    (validation.rs). *)
From Coq Require Import List NArith String Bool.
From V Require Import Base.Strings Base.Result Model.Registry Model.Settings Model.Subst.
Import ListNotations.
Open Scope string_scope. Open Scope list_scope.

Inductive op :=
| OpDerivesAll (ds : list kt)
| OpAttrsAll (ats : list kt)
| OpDerivesFor (k : tykey) (ds : list kt) (recursive : bool)
| OpAttrsFor (k : tykey) (ats : list kt) (recursive : bool)
| OpSubInsert (src tgt : spath)
| OpSubInsertIfAbsent (src tgt : spath)
| OpSubExtend (l : list (spath * spath)).

Record bstate := mk_bstate { b_dreg : derives_registry; b_subs : substitutes }.
Definition bstate_empty : bstate := mk_bstate dreg_empty [].

(** [parse_path_substitution] after [absolute_path] *)
Definition parse_substitution (src tgt : spath) : sum suberr (list string * substitute) :=
  if negb (is_absolute tgt) then inl SExpectedAbsolutePath
  else match parse_mapping src tgt with
       | inl e => inl e
       | inr m => inr (path_segments src, mk_subst tgt m)
       end.

(** [TypeSubstitutes::extend]: element by element, stops at the first rejected one *)
Fixpoint extend_go (dr : derives_registry) (l : list (spath * spath)) (subs : substitutes)
  : bstate * option suberr :=
  match l with
  | [] => (mk_bstate dr subs, None)
  | (src, tgt) :: l' =>
      match parse_substitution src tgt with
      | inl e => (mk_bstate dr subs, Some e)
      | inr (k, v) => extend_go dr l' (subs_insert subs k v)
      end
  end.

Definition apply_op (st : bstate) (o : op) : bstate * option suberr :=
  let dr := b_dreg st in
  match o with
  | OpDerivesAll ds =>
      (mk_bstate (mk_dreg (derives_union (dr_default dr) (mk_derives ds [])) (dr_specific dr) (dr_recursive dr))
                 (b_subs st), None)
  | OpAttrsAll ats =>
      (mk_bstate (mk_dreg (derives_union (dr_default dr) (mk_derives [] ats)) (dr_specific dr) (dr_recursive dr))
                 (b_subs st), None)
  | OpDerivesFor k ds rec =>
      (mk_bstate (if rec then mk_dreg (dr_default dr) (dr_specific dr) (kmap_extend (dr_recursive dr) k (mk_derives ds []))
                  else mk_dreg (dr_default dr) (kmap_extend (dr_specific dr) k (mk_derives ds [])) (dr_recursive dr))
                 (b_subs st), None)
  | OpAttrsFor k ats rec =>
      (mk_bstate (if rec then mk_dreg (dr_default dr) (dr_specific dr) (kmap_extend (dr_recursive dr) k (mk_derives [] ats))
                  else mk_dreg (dr_default dr) (kmap_extend (dr_specific dr) k (mk_derives [] ats)) (dr_recursive dr))
                 (b_subs st), None)
  | OpSubInsert src tgt =>
      match parse_substitution src tgt with
      | inl e => (st, Some e)
      | inr (k, v) => (mk_bstate dr (subs_insert (b_subs st) k v), None)
      end
  | OpSubInsertIfAbsent src tgt =>
      match parse_substitution src tgt with
      | inl e => (st, Some e)
      | inr (k, v) =>
          match subs_get (b_subs st) k with
          | Some _ => (st, None)
          | None => (mk_bstate dr (subs_insert (b_subs st) k v), None)
          end
      end
  | OpSubExtend l =>
      (* the caller converts every target with [absolute_path] before the call *)
      if negb (forallb (fun p => is_absolute (snd p)) l) then (st, Some SExpectedAbsolutePath)
      else extend_go dr l (b_subs st)
  end.

Definition run_ops (ops : list op) : bstate * list (option suberr) :=
  fold_left (fun '(st, outs) o => let '(st', e) := apply_op st o in (st', outs ++ [e])) ops
            (bstate_empty, []).

(** ** validation.rs *)
Definition registry_contains_path (r : registry) (p : list string) : bool :=
  existsb (fun e => path_eqb (t_path (snd e)) p) r.

(** entries of the error, keyed by the token string of the offending path *)
Record verror := mk_verror {
  ve_derives : list (string * list kt);
  ve_attrs : list (string * list kt);
  ve_subs : list (list string * tokens) }.

Fixpoint ve_extend (m : list (string * list kt)) (k : string) (d : list kt) :=
  match m with
  | [] => [(k, d)]
  | (k', d') :: m' => if String.eqb k' k then (k', d' ++ d) :: m' else (k', d') :: ve_extend m' k d
  end.

(** [path.path] of the key: the error lists are keyed by [syn::Path]; a
    [syn::TypePath] key without qself is identified with its path *)
Definition validate (subs : substitutes) (dr : derives_registry) (r : registry) : verror :=
  let step (e : verror) (kd : tykey * derives) : verror :=
    let '(k, d) := kd in
    if registry_contains_path r (k_segs k) then e
    else
      let e1 := match d_attrs d with
                | [] => e
                | ats => mk_verror (ve_derives e) (ve_extend (ve_attrs e) (k_key k) ats) (ve_subs e)
                end in
      match d_derives d with
      | [] => e1
      | ds => mk_verror (ve_extend (ve_derives e1) (k_key k) ds) (ve_attrs e1) (ve_subs e1)
      end in
  let e := fold_left step (dr_specific dr ++ dr_recursive dr) (mk_verror [] [] []) in
  fold_left (fun e '(p, sub) =>
               if registry_contains_path r p then e
               else mk_verror (ve_derives e) (ve_attrs e) (ve_subs e ++ [(p, print_spath (su_path sub))]))
            subs e.

Definition verror_is_empty (e : verror) : bool :=
  match ve_derives e, ve_attrs e, ve_subs e with [], [], [] => true | _, _, _ => false end.

(** [similar_type_paths_in_registry]: registry paths with the same last ident *)
Definition similar_type_paths (r : registry) (q : list string) : list (list string) :=
  match path_ident q with
  | None => []
  | Some qi =>
      flat_map (fun e => match path_ident (t_path (snd e)) with
                         | Some i => if String.eqb i qi then [t_path (snd e)] else []
                         | None => []
                         end) r
  end.
