(** typegen/src/utils.rs:14-373: sanity pass, [types_equal] with its
    [GenericsList], and [ensure_unique_type_paths].  The visited sets are
    threaded explicitly so that the left-to-right short-circuit order of the
    Rust closures ([all], [&&]) is part of the model. *)
From Coq Require Import List NArith String Bool.
From V Require Import Base.Strings Base.Result Model.Registry Model.Derives.
Import ListNotations.
Open Scope string_scope. Open Scope list_scope.

(** [GenericsList]: frames, newest first; each frame = (start index, (id, name) list) *)
Definition frame := (nat * list (N * string))%type.
Definition glist := list frame.

Fixpoint position {A} (f : A -> bool) (l : list A) : option nat :=
  match l with
  | [] => None
  | x :: l' => if f x then Some O else option_map S (position f l')
  end.

Fixpoint index_for_type_id (g : glist) (id : N) : option nat :=
  match g with
  | [] => None
  | (start, entries) :: prev =>
      match position (fun e => N.eqb (fst e) id) entries with
      | Some i => Some (start + i)%nat
      | None => index_for_type_id prev id
      end
  end.

Fixpoint index_for_type_name (g : glist) (name : string) : option nat :=
  match g with
  | [] => None
  | (start, entries) :: prev =>
      match position (fun e => String.eqb (snd e) name) entries with
      | Some i => Some (start + i)%nat
      | None => index_for_type_name prev name
      end
  end.

Definition glist_empty : glist := [(O, [])].

Definition glist_extend (g : glist) (ps : list tparam) : glist :=
  let entries := flat_map (fun p => match tp_ty p with Some i => [(i, tp_name p)] | None => [] end) ps in
  let start := match g with
               | (st, en) :: _ => (st + List.length en)%nat
               | [] => O
               end in
  (start, entries) :: g.

Definition opt_nat_eqb (a b : option nat) : bool :=
  match a, b with Some x, Some y => Nat.eqb x y | _, _ => false end.

Definition opt_str_eqb (a b : option string) : bool :=
  match a, b with
  | Some x, Some y => String.eqb x y
  | None, None => true
  | _, _ => false
  end.

Definition vstate := (list N * list N)%type.

Section Equal.
  Variable r : registry.

  (** short-circuit [all] over a zipped pair of lists with state threading *)
  Fixpoint all2 {A} (f : A -> A -> vstate -> result (bool * vstate))
           (la lb : list A) (st : vstate) : result (bool * vstate) :=
    match la, lb with
    | x :: la', y :: lb' =>
        let* res := f x y st in
        if fst res then all2 f la' lb' (snd res) else Ok (false, snd res)
    | _, _ => Ok (true, st)
    end.

  Fixpoint teq (fuel : nat) (a : N) (ap : glist) (b : N) (bp : glist) (st : vstate)
    : result (bool * vstate) :=
    match fuel with
    | O => Err EOutOfFuel
    | S fuel' =>
      if N.eqb a b then Ok (true, st)
      else
        let seen_a := mem_N a (fst st) in
        let seen_b := mem_N b (snd st) in
        let st := ((if seen_a then fst st else a :: fst st),
                   (if seen_b then snd st else b :: snd st)) in
        if negb (Bool.eqb seen_a seen_b) then Ok (false, st)
        else if seen_a && seen_b then Ok (true, st)
        else
          let a_idx := index_for_type_id ap a in
          let b_idx := index_for_type_id bp b in
          match resolve r a, resolve r b with
          | None, _ => Panic "type a should exist in registry"
          | _, None => Panic "type b should exist in registry"
          | Some ta, Some tb =>
            if opt_nat_eqb a_idx b_idx then Ok (true, st)
            else if negb (path_eqb (t_path ta) (t_path tb)) then Ok (false, st)
            (* F2 repair: different numbers of non-skipped parameters are never equal *)
            else if negb (Nat.eqb (List.length (param_ids ta)) (List.length (param_ids tb))) then Ok (false, st)
            else
              let ap' := glist_extend ap (t_params ta) in
              let bp' := glist_extend bp (t_params tb) in
              let recurse x y st := teq fuel' x ap' y bp' st in
              let compare_fields (fa fb : field) (st : vstate) : result (bool * vstate) :=
                if negb (opt_str_eqb (f_name fa) (f_name fb)) then Ok (false, st)
                else
                  let skipped_or_wrapped :=
                    match index_for_type_id ap' (f_ty fa), index_for_type_id bp' (f_ty fb) with
                    | Some _, Some _ => false
                    | _, _ => true
                    end in
                  match f_type_name fa, f_type_name fb with
                  | Some na, Some nb =>
                      if skipped_or_wrapped then recurse (f_ty fa) (f_ty fb) st
                      else Ok (opt_nat_eqb (index_for_type_name ap' na) (index_for_type_name bp' nb), st)
                  | _, _ => recurse (f_ty fa) (f_ty fb) st
                  end in
              let fields_equal (fa fb : list field) (st : vstate) : result (bool * vstate) :=
                if negb (Nat.eqb (List.length fa) (List.length fb)) then Ok (false, st)
                else all2 compare_fields fa fb st in
              match t_def ta, t_def tb with
              | TDComposite fa, TDComposite fb => fields_equal fa fb st
              | TDVariant va, TDVariant vb =>
                  if negb (Nat.eqb (List.length va) (List.length vb)) then Ok (false, st)
                  else all2 (fun x y st =>
                               (* F19 repair: the variant index is compared as well *)
                               if String.eqb (v_name x) (v_name y) && N.eqb (v_index x) (v_index y)
                               then fields_equal (v_fields x) (v_fields y) st
                               else Ok (false, st)) va vb st
              | TDSequence x, TDSequence y => recurse x y st
              | TDArray la x, TDArray lb y =>
                  if N.eqb la lb then recurse x y st else Ok (false, st)
              | TDTuple xs, TDTuple ys =>
                  if negb (Nat.eqb (List.length xs) (List.length ys)) then Ok (false, st)
                  else all2 recurse xs ys st
              | TDPrimitive p, TDPrimitive q => Ok (prim_eqb p q, st)
              | TDCompact x, TDCompact y => recurse x y st
              | TDBitSeq sa oa, TDBitSeq sb ob =>
                  let* o := recurse oa ob st in
                  let* s' := recurse sa sb (snd o) in
                  Ok (fst o && fst s', snd s')
              | _, _ => Ok (false, st)
              end
          end
    end.

  Definition types_equal_res (a b : N) : result bool :=
    let* x := teq (S (S (List.length r))) a glist_empty b glist_empty ([], []) in Ok (fst x).

  Definition types_equal (a b : N) : result bool := types_equal_res a b.
End Equal.

(** ** [ensure_unique_type_paths] *)
Definition groups := list (list string * list (list N)).

Section Dedup.
  Variable r : registry.

  (** add index [i] to the first group of [gs] whose first member is equal to it *)
  Fixpoint add_to_groups (i : N) (gs : list (list N)) : result (list (list N)) :=
    match gs with
    | [] => Ok [[i]]
    | g :: gs' =>
        match g with
        | [] => Panic "empty group"
        | other :: _ =>
            let* e := types_equal_res r i other in
            if e then Ok ((g ++ [i]) :: gs')
            else let* gs'' := add_to_groups i gs' in Ok (g :: gs'')
        end
    end.

  Fixpoint groups_add (m : groups) (p : list string) (i : N) : result groups :=
    match m with
    | [] => Ok [(p, [[i]])]
    | (k, gs) :: m' =>
        if path_eqb k p then let* gs' := add_to_groups i gs in Ok ((k, gs') :: m')
        else let* m'' := groups_add m' p i in Ok ((k, gs) :: m'')
    end.

  Definition build_groups : result groups :=
    (fix go (idx : N) (l : registry) (m : groups) : result groups :=
       match l with
       | [] => Ok m
       | (_, t) :: l' =>
           match namespace (t_path t) with
           | [] => go (idx + 1)%N l' m
           | _ => let* m' := groups_add m (t_path t) idx in go (idx + 1)%N l' m'
           end
       end) 0%N r [].

  Definition rename_last (p : list string) (n : N) : list string :=
    removelast p ++ [String.append (last p "") (N_to_string n)].

  (** new name for index [i] according to the groups of its path *)
  Definition suffix_for (m : groups) (i : N) : option N :=
    (fix go (m : groups) : option N :=
       match m with
       | [] => None
       | (_, gs) :: m' =>
           match gs with
           | _ :: _ :: _ =>
               match (fix find_g (gs : list (list N)) (n : N) : option N :=
                        match gs with
                        | [] => None
                        | g :: gs' => if mem_N i g then Some n else find_g gs' (n + 1)%N
                        end) gs 1%N with
               | Some n => Some n
               | None => go m'
               end
           | _ => go m'
           end
       end) m.

  Definition sanity : result unit :=
    (fix go (i : N) (l : registry) : result unit :=
       match l with
       | [] => Ok tt
       | (id, _) :: l' => if N.eqb id i then go (i + 1)%N l' else Err (EIdsInvalid id i)
       end) 0%N r.

  Definition ensure_unique : result registry :=
    let* _ := sanity in
    let* m := build_groups in
    Ok ((fix go (idx : N) (l : registry) : registry :=
           match l with
           | [] => []
           | (id, t) :: l' =>
               (id, match suffix_for m idx with
                    | Some n => mk_ty (rename_last (t_path t) n) (t_params t) (t_def t) (t_docs t)
                    | None => t
                    end) :: go (idx + 1)%N l'
           end) 0%N r).
End Dedup.
