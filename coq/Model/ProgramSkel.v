(** C05 (continued): the IR skeleton a SOURCE definition determines ([ir_of_source]), the class of
    source types covered by [C05_skeleton_is_source] (everything except a Cow directly inside a
    Cow, finding F16) and the settings-side conditions on the prelude types.  Definitions only;
    proofs in Proofs/SourceRoundTrip.v, Proofs/SourceSkeleton.v. *)
From Coq Require Import List NArith String Bool.
From V Require Import Base.Util Base.Strings Base.Result Model.Registry Model.Settings Model.Subst
  Model.TypePath Model.Derives Model.Generate Model.Program Checkers.Parse Checkers.Sem.
Import ListNotations.
Open Scope string_scope. Open Scope list_scope.

(** ** no Cow directly inside a Cow (Box in between is erased by scale-info, so it does not
    help): F16 - the generator looks through ONE Cow only *)
Fixpoint no_cow_cow (t : src) : bool :=
  match t with
  | SCow x => match unbox x with SCow _ => false | _ => true end && no_cow_cow x
  | SApp _ args => forallb no_cow_cow args
  | STup ts => forallb no_cow_cow ts
  | SVec x | SVecDeque x | SArray _ x | SCompactT x | SBox x | SOpt x | SBTreeSet x | SRange x => no_cow_cow x
  | SRes a b | SBTreeMap a b => no_cow_cow a && no_cow_cow b
  | SParam _ | SPrimT _ | SBitVec _ _ => true
  end.

(** the prelude names the round trip goes through are not substituted by the settings *)
Definition prelude_names : list string := ["Option"; "Result"; "BTreeMap"; "BTreeSet"; "Range"].
Definition prelude_okb (s : settings) : bool :=
  forallb (fun n => match subs_get (s_subs s) [n] with Some _ => false | None => true end) prelude_names.

(** the registry path of a bit-order marker, and what the settings turn it into (in every real
    configuration: a substitute; otherwise the generated item's path) *)
Definition order_path_of (lsb : bool) : list string := ["bitvec"; "order"; if lsb then "Lsb0" else "Msb0"].
Definition order_resolves (s : settings) (order_tp : bool -> tpath) : Prop :=
  forall lsb, type_path_maybe_with_substitutes s (order_path_of lsb) [] = Ok (order_tp lsb).
Definition order_tp_of (s : settings) (lsb : bool) : tpath :=
  match type_path_maybe_with_substitutes s (order_path_of lsb) [] with Ok t => t | _ => TPrim PBool end.
Definition order_resolvesb (s : settings) : bool :=
  is_ok (type_path_maybe_with_substitutes s (order_path_of true) []) &&
  is_ok (type_path_maybe_with_substitutes s (order_path_of false) []).

(** ** the skeleton of a source definition *)
Section Skel.
  Variable defs : list sdef.
  Variable s : settings.
  Variable order_tp : bool -> tpath.

  Definition sf_named (f : sfield) : bool := match sf_name f with Some _ => true | None => false end.
  Definition sf_ident (f : sfield) : string := match sf_name f with Some n => n | None => "" end.

  (** named / unnamed / no fields, each field = [normal_field] of the source field *)
  Definition src_ckind (fs : list sfield) : ckind :=
    match fs with
    | [] => CNoFields
    | _ => if forallb sf_named fs
           then CNamed (map (fun f => (sf_ident f, normal_field defs s order_tp f)) fs)
           else CUnnamed (map (normal_field defs s order_tp) fs)
    end.

  Definition pos_tpi (i : nat) : tparam_ir := mk_tpi 0 "" (N.of_nat i).

  Definition unused_generics (d : sdef) : list nat :=
    filter (fun i => negb (existsb (Nat.eqb i) (body_params defs (sd_body d)))) (generics_of d).

  (** the whole erased IR ([erase_ids], Model/Shape.v) as a function of the source definition:
      parameters = declared positions of the non-skipped generics; unused = those not in
      [body_params]; item / variant / field names, variant indices; fields = [normal_field] *)
  Definition ir_of_source (d : sdef) : type_ir :=
    let name := last (sd_path d) "" in
    mk_ti (map pos_tpi (generics_of d)) (map pos_tpi (unused_generics d)) derives_empty (s_codec s)
          match sd_body d with
          | SBStruct fs => KStruct (mk_ci name (src_ckind fs) [])
          | SBEnum vs =>
              KEnum name [] (map (fun v : string * N * list sfield =>
                                    (snd (fst v), mk_ci (fst (fst v)) (src_ckind (snd v)) [])) vs)
          end.
End Skel.

(** ** the conventions of [field_pty] / [expected_item] on field types: a compact reached through
    transparent wrappers is written [Compact<T>] or [Cow<Compact<T>>] (not under Box, not under
    two wrappers), and a [#[codec(compact)]] field is not itself a [Compact<..>] *)
Fixpoint peel (t : src) : src :=
  match t with SBox x | SCow x => peel x | _ => t end.

Definition field_conv_core (f : sfield) : bool :=
  match sf_ty f with
  | SCompactT _ | SCow (SCompactT _) => negb (sf_compact_attr f)
  | t => match peel t with SCompactT _ => false | _ => true end
  end.

(** ... and a compact field does not mention [Box] ([#[codec(compact)] x: Box<u32>] does not compile in
    the source either: [Box<u32>] is not [HasCompact]); since the F21 repair the generator prints a
    compact field without the [Box] wrapper, which [expected_item] does not describe *)
Definition field_conv_okb (f : sfield) : bool :=
  field_conv_core f &&
  negb ((sf_compact_attr f || match sf_ty f with SCompactT _ | SCow (SCompactT _) => true | _ => false end)
        && has_box (sf_ty f) && sf_type_name f).

(** every application names a definition with a non-empty path *)
Fixpoint apps_okb (defs : list sdef) (t : src) : bool :=
  match t with
  | SApp d args =>
      match nth_error defs d with
      | Some sd => match sd_path sd with [] => false | _ => true end
      | None => false
      end && forallb (apps_okb defs) args
  | STup ts => forallb (apps_okb defs) ts
  | SVec x | SVecDeque x | SArray _ x | SCompactT x | SBox x | SOpt x | SBTreeSet x | SCow x | SRange x => apps_okb defs x
  | SRes a b | SBTreeMap a b => apps_okb defs a && apps_okb defs b
  | SParam _ | SPrimT _ | SBitVec _ _ => true
  end.

(** a field of the IR read as a parsed type (what [Checkers/Parse.v] reads back from the tokens
    of the field: a boxed field is wrapped at field level) *)
Definition fi_pty (alloc : list string) (fi : field_ir) : pty :=
  let p := tpath_pty alloc (fi_path fi) in
  if fi_boxed fi then abs_p (alloc ++ ["boxed"; "Box"]) [p] else p.

(** the token-level parameters of [expected_item] / [src_pty] that correspond to the settings:
    segments and leading [::] of the alloc / compact / bits paths as the parser reads them *)
Definition segs_ok (segs : list string) : bool :=
  forallb (fun x => negb (String.eqb x ":")) segs.

Definition segs_lead_of (t : tokens) : list string * bool := (toks_to_segs t, toks_leading t).

Definition alloc_segs (s : settings) : list string := toks_to_segs (alloc_tokens (s_alloc s)).

(** the alloc path is [::seg::..::seg]; the root and the definitions' path segments are not the
    token [:] *)
Definition render_okb (s : settings) (defs : list sdef) : bool :=
  list_eqb String.eqb (alloc_tokens (s_alloc s)) (abs_path (alloc_segs s)) && segs_ok (alloc_segs s) &&
  negb (String.eqb (s_root s) ":") && forallb (fun d => segs_ok (sd_path d)) defs.
