(** typegen/src/typegen/type_path.rs and mod.rs:327-485:
    [TypePath], [to_syn_type] as tokens, [resolve_type_path_recurse]. *)
From Coq Require Import List NArith String Bool.
From V Require Import Base.Strings Base.Result Model.Registry Model.Settings Model.Subst.
Import ListNotations.
Open Scope string_scope. Open Scope list_scope.

(** [TypeParameter]: concrete id, original name, position ([name] = "_<idx>") *)
Record tparam_ir := mk_tpi { tpi_id : N; tpi_orig : string; tpi_idx : N }.
Definition tpi_name (p : tparam_ir) : string := String.append "_" (N_to_string (tpi_idx p)).
Definition tpi_eqb (a b : tparam_ir) : bool :=
  N.eqb (tpi_id a) (tpi_id b) && String.eqb (tpi_orig a) (tpi_orig b) && N.eqb (tpi_idx a) (tpi_idx b).

Inductive tpath :=
| TParam (p : tparam_ir)
| TPath (ptoks : tokens) (params : list tpath)
| TVec (of : tpath)
| TArray (len : N) (of : tpath)
| TTuple (els : list tpath)
| TPrim (p : prim)
| TCompact (inner : tpath) (is_field : bool) (cpath : tokens)
| TBitVec (order store : tpath) (bpath : tokens).

Definition abs_path (segs : list string) : tokens :=
  flat_map (fun s => [":"; ":"; s]) segs.
Definition rel_path (segs : list string) : tokens :=
  match segs with [] => [] | s :: l => s :: flat_map (fun s => [":"; ":"; s]) l end.

Definition prim_tokens (alloc : tokens) (p : prim) : result tokens :=
  let core n := Ok (abs_path ["core"; "primitive"; n]) in
  match p with
  | PBool => core "bool" | PChar => core "char"
  | PStr => Ok (alloc ++ abs_path ["string"; "String"])
  | PU8 => core "u8" | PU16 => core "u16" | PU32 => core "u32" | PU64 => core "u64"
  | PU128 => core "u128"
  | PU256 => Panic "not a rust primitive"
  | PI8 => core "i8" | PI16 => core "i16" | PI32 => core "i32" | PI64 => core "i64"
  | PI128 => core "i128"
  | PI256 => Panic "not a rust primitive"
  end.

Fixpoint sep_by (sep : tokens) (l : list tokens) : tokens :=
  match l with
  | [] => []
  | [x] => x
  | x :: l' => x ++ sep ++ sep_by sep l'
  end.

(** [to_syn_type(..).to_token_stream()], flattened *)
Fixpoint tp_tokens (alloc : tokens) (t : tpath) : result tokens :=
  match t with
  | TParam p => Ok [tpi_name p]
  | TPath ptoks params =>
      let* ps := (fix go (l : list tpath) : result (list tokens) :=
                    match l with
                    | [] => Ok []
                    | x :: l' => let* y := tp_tokens alloc x in let* ys := go l' in Ok (y :: ys)
                    end) params in
      match ps with
      | [] => Ok ptoks
      | _ => Ok (ptoks ++ ["<"] ++ sep_by [","] ps ++ [">"])
      end
  | TVec of => let* o := tp_tokens alloc of in
               Ok (alloc ++ abs_path ["vec"; "Vec"] ++ ["<"] ++ o ++ [">"])
  | TArray len of => let* o := tp_tokens alloc of in
                     Ok (["["] ++ o ++ [";"; String.append (N_to_string len) "usize"; "]"])
  | TTuple els =>
      let* es := (fix go (l : list tpath) : result (list tokens) :=
                    match l with
                    | [] => Ok []
                    | x :: l' => let* y := tp_tokens alloc x in let* ys := go l' in Ok (y :: ys)
                    end) els in
      Ok (["("] ++ flat_map (fun e => e ++ [","]) es ++ [")"])
  | TPrim p => prim_tokens alloc p
  | TCompact inner is_field cpath =>
      let* i := tp_tokens alloc inner in
      (* [parse_quote!( #inner )] into a [syn::TypePath] panics on a tuple / array *)
      if is_field then
        match inner with
        | TTuple _ | TArray _ _ => Panic "compact field: inner type is not a type path"
        | _ => Ok i
        end
      else Ok (cpath ++ ["<"] ++ i ++ [">"])
  | TBitVec order store bpath =>
      let* o := tp_tokens alloc order in
      let* s := tp_tokens alloc store in
      Ok (bpath ++ ["<"] ++ s ++ [","] ++ o ++ [">"])
  end.

Definition is_compact (t : tpath) : bool := match t with TCompact _ _ _ => true | _ => false end.
Definition is_uint_up_to_u128 (t : tpath) : bool :=
  match t with TPrim (PU8 | PU16 | PU32 | PU64 | PU128) => true | _ => false end.

(** [parent_type_params]: the parameters occurring in a path (as a list; the
    code collects them into a set and only uses it to [mark_used]) *)
Fixpoint parent_params (t : tpath) : list tparam_ir :=
  match t with
  | TParam p => [p]
  | TPath _ params => (fix go (l : list tpath) := match l with [] => [] | x :: l' => parent_params x ++ go l' end) params
  | TVec of => parent_params of
  | TArray _ of => parent_params of
  | TTuple els => (fix go (l : list tpath) := match l with [] => [] | x :: l' => parent_params x ++ go l' end) els
  | TPrim _ => []
  | TCompact inner _ _ => parent_params inner
  | TBitVec order store _ => parent_params order ++ parent_params store
  end.

(** [TypePathType::from_type_def_path] *)
Definition prelude_table (alloc : tokens) : list (string * tokens) :=
  [ ("Option", abs_path ["core"; "option"; "Option"]);
    ("Result", abs_path ["core"; "result"; "Result"]);
    ("Cow", alloc ++ abs_path ["borrow"; "Cow"]);
    ("BTreeMap", alloc ++ abs_path ["collections"; "BTreeMap"]);
    ("BTreeSet", alloc ++ abs_path ["collections"; "BTreeSet"]);
    ("BinaryHeap", alloc ++ abs_path ["collections"; "BinaryHeap"]);
    ("VecDeque", alloc ++ abs_path ["collections"; "VecDeque"]);
    ("LinkedList", alloc ++ abs_path ["collections"; "LinkedList"]);
    ("Range", abs_path ["core"; "ops"; "Range"]);
    ("RangeInclusive", abs_path ["core"; "ops"; "RangeInclusive"]);
    ("NonZeroI8", abs_path ["core"; "num"; "NonZeroI8"]);
    ("NonZeroU8", abs_path ["core"; "num"; "NonZeroU8"]);
    ("NonZeroI16", abs_path ["core"; "num"; "NonZeroI16"]);
    ("NonZeroU16", abs_path ["core"; "num"; "NonZeroU16"]);
    ("NonZeroI32", abs_path ["core"; "num"; "NonZeroI32"]);
    ("NonZeroU32", abs_path ["core"; "num"; "NonZeroU32"]);
    ("NonZeroI64", abs_path ["core"; "num"; "NonZeroI64"]);
    ("NonZeroU64", abs_path ["core"; "num"; "NonZeroU64"]);
    ("NonZeroI128", abs_path ["core"; "num"; "NonZeroI128"]);
    ("NonZeroU128", abs_path ["core"; "num"; "NonZeroU128"]);
    ("NonZeroIsize", abs_path ["core"; "num"; "NonZeroIsize"]);
    ("NonZeroUsize", abs_path ["core"; "num"; "NonZeroUsize"]) ].

Definition from_type_def_path (path : list string) (root : string) (alloc : tokens)
  : result tokens :=
  match path with
  | [] => Panic "Type has no ident"
  | [ident] =>
      match assoc_str (prelude_table alloc) ident with
      | Some t => Ok t
      | None => Panic "Unknown prelude type"
      end
  | _ => if forallb path_seg_okb path then Ok (rel_path (root :: path))
         else Panic "format_ident / parse_quote: not a path segment"
  end.

Section Resolve.
  Variable r : registry.
  Variable s : settings.

  Definition resolve_type (id : N) : result ty :=
    match resolve r id with Some t => Ok t | None => Err (ETypeNotFound id) end.

  Fixpoint filter_map_idx {A B} (f : A -> nat -> option B) (i : nat) (l : list A) : list B :=
    match l with
    | [] => []
    | x :: l' => match f x i with Some y => y :: filter_map_idx f (S i) l' | None => filter_map_idx f (S i) l' end
    end.

  (** [TypeSubstitutes::for_path_with_params] *)
  Definition for_path_with_params (path : list string) (params : list tpath)
    : option (result tpath) :=
    match subs_get (s_subs s) path with
    | None => None
    | Some sub =>
        Some
          match su_map sub with
          | PassThrough => Ok (TPath (print_spath (su_path sub)) params)
          | Specified m =>
              let sel := flat_map (fun '(id, idx) =>
                                     match nth_error params idx with
                                     | Some p => [(id, p)] | None => [] end) m in
              match sel with
              | [] => Ok (TPath (print_spath (su_path sub)) [])
              | _ =>
                  let* repl := mapM (fun '(id, p) =>
                                       let* t := tp_tokens (alloc_tokens (s_alloc s)) p in Ok (id, t)) sel in
                  Ok (TPath (print_spath (replace_spath repl (su_path sub))) [])
              end
          end
    end.

  Definition type_path_maybe_with_substitutes (path : list string) (params : list tpath)
    : result tpath :=
    match for_path_with_params path params with
    | Some x => x
    | None =>
        let* p := from_type_def_path path (s_root s) (alloc_tokens (s_alloc s)) in
        Ok (TPath p params)
    end.

  Definition find_parent (parents : list tparam_ir) (id : N) (orig : option string)
    : option tparam_ir :=
    find (fun tp => N.eqb (tpi_id tp) id &&
                    match orig with None => true | Some o => String.eqb (tpi_orig tp) o end) parents.

  Fixpoint resolve_rec (fuel : nat) (id : N) (is_field : bool) (parents : list tparam_ir)
           (orig : option string) {struct fuel} : result tpath :=
    match fuel with
    | O => Err EOutOfFuel
    | S fuel' =>
      match find_parent parents id orig with
      | Some p => Ok (TParam p)
      | None =>
        let* t0 := resolve_type id in
        let* t :=
          match path_ident (t_path t0) with
          | Some "Cow" =>
              match t_params t0 with
              | [] => Panic "index out of bounds"
              | p0 :: _ =>
                  match tp_ty p0 with
                  | None => Err EInvalidType
                  | Some inner => resolve_type inner
                  end
              end
          | _ => Ok t0
          end in
        let* params := mapM (fun i => resolve_rec fuel' i false parents None) (param_ids t) in
        match t_def t with
        | TDComposite _ | TDVariant _ => type_path_maybe_with_substitutes (t_path t) params
        | TDPrimitive p => Ok (TPrim p)
        | TDArray len e => let* i := resolve_rec fuel' e false parents None in Ok (TArray len i)
        | TDSequence e => let* i := resolve_rec fuel' e false parents None in Ok (TVec i)
        | TDTuple es => let* l := mapM (fun i => resolve_rec fuel' i false parents None) es in
                        Ok (TTuple l)
        | TDCompact e =>
            let* i := resolve_rec fuel' e false parents None in
            match s_compact s with
            | None => Err ECompactPathNone
            | Some c => Ok (TCompact i is_field c)
            end
        | TDBitSeq store order =>
            match s_bits s with
            | None => Err EBitsPathNone
            | Some b =>
                let* o := resolve_rec fuel' order false parents None in
                let* st := resolve_rec fuel' store false parents None in
                Ok (TBitVec o st b)
            end
        end
      end
    end.

  Definition fuel0 : nat := S (S (List.length r)).

  Definition resolve_type_path (id : N) : result tpath := resolve_rec fuel0 id false [] None.
  Definition resolve_field_type_path (id : N) (parents : list tparam_ir) (orig : option string)
    : result tpath := resolve_rec fuel0 id true parents orig.
End Resolve.
