(** C07: the token-level specification of the parameter mapping of a substitute
    ([subst_spec]), written independently of [replace_spath] (Model/Subst.v), and the
    decidable side conditions under which the two coincide (Proofs/SubstSpec.v). *)
From Coq Require Import List NArith String Bool.
From V Require Import Base.Strings Base.Result Model.Settings Model.Subst Model.TypePath.
Import ListNotations.
Open Scope string_scope. Open Scope list_scope.

(** every token equal to a source parameter name that stands alone (not a segment of a longer
    path, no generic arguments of its own) is replaced by the corresponding resolved argument;
    every other token is unchanged *)
Fixpoint subst_spec (names : list (string * tokens)) (prev : string) (toks : tokens) : tokens :=
  match toks with
  | [] => []
  | t :: r =>
      let next := hd "" r in
      match assoc_str names t with
      | Some repl =>
          if String.eqb prev ":" || String.eqb next "<" || String.eqb next ":"
          then t :: subst_spec names t r
          else repl ++ subst_spec names t r
      | None => t :: subst_spec names t r
      end
  end.

(** some name occurs among the tokens *)
Definition mentions (names : list string) (toks : tokens) : bool :=
  existsb (fun n => existsb (String.eqb n) toks) names.

(** finding F5: a source parameter name inside a NON-path type argument of the target
    (tuple, array, reference ...) is not replaced (substitutes.rs:289-303) *)
Fixpoint nonpath_mentions (names : list string) (t : gtype) : bool :=
  match t with
  | GTPath _ _ segs =>
      (fix go (l : list (string * pargs)) : bool :=
         match l with
         | [] => false
         | (_, a) :: l' =>
             match a with
             | AAngle args =>
                 (fix go2 (gs : list garg) : bool :=
                    match gs with
                    | [] => false
                    | GType u :: gs' => nonpath_mentions names u || go2 gs'
                    | GOther toks :: gs' => existsb (fun n => existsb (String.eqb n) toks) names || go2 gs'
                    end) args
             | _ => false
             end || go l'
         end) segs
  | GTOther toks => existsb (fun n => existsb (String.eqb n) toks) names
  end.

(** (ii) the tokens the printer of a path emits by itself are not parameter names *)
Definition print_puncts : list string := [":"; "<"; ">"; ","].
Definition names_not_punct (names : list string) : bool :=
  forallb (fun n => negb (existsb (String.eqb n) print_puncts)) names.

(** (iii) a name inside the opaque tokens of parenthesised arguments ([Fn(A) -> B]), at any depth:
    the structural replacement never looks there *)
Fixpoint paren_mentions (names : list string) (t : gtype) : bool :=
  match t with
  | GTPath _ _ segs =>
      (fix go (l : list (string * pargs)) : bool :=
         match l with
         | [] => false
         | (_, a) :: l' =>
             match a with
             | AAngle args =>
                 (fix go2 (gs : list garg) : bool :=
                    match gs with
                    | [] => false
                    | GType u :: gs' => paren_mentions names u || go2 gs'
                    | GOther _ :: gs' => go2 gs'
                    end) args
             | AParen toks => mentions names toks
             | ANone => false
             end || go l'
         end) segs
  | GTOther _ => false
  end.

(** (iv) a name used as the FIRST segment of a path without leading [::] (every other segment
    is preceded by [::], which the token-level specification respects).  Such an ident is
    followed by [<] or [::] ("guarded": both readings leave it alone) unless the path is a
    generic argument that is exactly the bare ident (both readings replace it).  Excluded:
    [T] as the whole target, [T<>] and [<T>]-qualified or [T(..)] forms as arguments. *)
Definition guarded (a : pargs) (more : bool) : bool :=
  match a with
  | ANone => more
  | AAngle _ => true
  | AParen [] => more
  | AParen (t :: _) => String.eqb t "<" || String.eqb t ":"
  end.

Definition head_ok (names : list string) (in_arg : bool) (t : gtype) : bool :=
  match t with
  | GTPath _ lead segs =>
      lead ||
      match segs with
      | [] => true
      | (id, a) :: rest =>
          negb (existsb (String.eqb id) names) ||
          if in_arg && match get_ident t with Some _ => true | None => false end
          then match a with ANone => true | _ => false end
          else guarded a (match rest with [] => false | _ => true end)
      end
  | GTOther _ => true
  end.

Fixpoint heads_ok (names : list string) (in_arg : bool) (t : gtype) : bool :=
  head_ok names in_arg t &&
  match t with
  | GTPath _ _ segs =>
      (fix go (l : list (string * pargs)) : bool :=
         match l with
         | [] => true
         | (_, a) :: l' =>
             match a with
             | AAngle args =>
                 (fix go2 (gs : list garg) : bool :=
                    match gs with
                    | [] => true
                    | GType u :: gs' => heads_ok names true u && go2 gs'
                    | GOther _ :: gs' => go2 gs'
                    end) args
             | _ => true
             end && go l'
         end) segs
  | GTOther _ => true
  end.

Definition spath_gtype (p : spath) : gtype := GTPath false (sp_leading p) (sp_segs p).

(** the side conditions of [C07_specified], as one decidable predicate *)
Definition spec_applicable (names : list string) (p : spath) : bool :=
  negb (nonpath_mentions names (spath_gtype p)) &&
  names_not_punct names &&
  negb (paren_mentions names (spath_gtype p)) &&
  heads_ok names false (spath_gtype p).

(** the (name, argument) pairs a [Specified] mapping selects from the resolved arguments *)
Definition selected {A} (m : list (string * nat)) (params : list A) : list (string * A) :=
  flat_map (fun '(id, idx) => match nth_error params idx with
                              | Some p => [(id, p)] | None => [] end) m.

(** the mapping entries whose index is below the number of resolved arguments *)
Definition applicable {A} (m : list (string * nat)) (params : list A) : list (string * nat) :=
  filter (fun ni => Nat.ltb (snd ni) (List.length params)) m.
