(** C14, lockstep half: what it means for a token list to be an INSTANCE of the type the
    generator emits for a registry id.

    [conforms r s m id ts rest] (an inductive relation, reader style): [ts = e ++ rest] where the
    expression [e] is an instance of type [id], read in lockstep with the registry [r] and with
    the GENERATED ITEMS [m] (the ordered map path -> (id, IR) returned by [Model.Generate.generate],
    i.e. what [generate_types_mod] emits; [Model/Emit.v] prints exactly these items):

    - struct / variant literals start with the generated path of [id] WITHOUT generics
      ([resolve_type_path] + printing, cut before the first top-level '<');
    - when the entry is turned into an item ([item_eligible]: struct / enum, path not substituted,
      at least two segments) the item is looked up in [m] at the entry's path -- this is the item
      of the FIRST entry with that path, which is where F15 lives -- and the field names / the
      arity are those of the ITEM ([sig_of_ir]: named fields with the item's idents in the item's
      order, unnamed fields with the item's arity, no fields), plus the [__ignore] /
      positional [PhantomData] marker EXACTLY when the item has unused type parameters;
      a variant literal names one of the registry entry's variants, the item must have a variant of
      that name and the fields follow THAT item variant; no marker in variants;
    - without a generated item (prelude types Option / Result / BTreeMap / Range ...; substituted
      paths) the form the registry definition dictates is demanded, a marker may or may not be
      written; [Option::None] may be written [None] when the printed path is the bare [Option];
    - [Cow<T>] (no generated item, the resolver collapses it to [T]) is an instance of [T];
    - literals carry the primitive's suffix and are in range; [bool], [char] ('c'), strings
      ("..." . into ( )); 256-bit integers are 32 [u8] literals in brackets;
    - tuples [( e1 , e2 , )] with exactly the tuple's arity, every element followed by a comma
      (so a 1-tuple is [( e , )]); arrays [[ e , .. , e ]] with exactly [len] elements, or the
      REPEAT form [[ e ; <len>usize ]] -- the latter only when [len <= 1] or the element type is
      [Copy] ([copy_ty], below: Rust demands [Copy] of the operand of a repeat expression of
      length >= 2; [copy_ty] is defined on the REGISTRY, independently of the implementation's
      heuristic [type_def_is_copy]); sequences [vec ! [ e , .. , e ]] of any length;
    - a field value is wrapped [Compact ( e )] exactly when the field is explicitly
      Compact-typed (its recorded type name starts with "Compact<"), as the implementation prints
      it.  (REMARK: the generated field has type [T] with [#[codec(compact)]]; the property as
      posed accepts the wrapper.)
    - compact entries are transparent; the bit-sequence expression is the implementation's constant.

    [conf_ir] / [conforms_irb] is a fuelled boolean reader for the same relation
    (soundness: Proofs/ConformsProofs.v).  No proofs in this file. *)
From Coq Require Import List NArith ZArith Bool String Ascii.
From V Require Import Base.Util Base.Strings Base.Result Model.Registry Model.Settings Model.Subst
  Model.TypePath Model.Derives Model.Generate Model.Shape Model.RngWords Model.ExampleRust.
Import ListNotations.
Open Scope string_scope. Open Scope list_scope. Open Scope N_scope.

(** ** what a literal has to know about a generated item *)
Inductive layout :=
| LUnit
| LNamed (names : list string)
| LUnnamed (arity : nat).

Definition layout_of_ckind (k : ckind) : layout :=
  match k with
  | CNoFields => LUnit
  | CNamed l => LNamed (map fst l)
  | CUnnamed l => LUnnamed (List.length l)
  end.

Inductive item_sig :=
| ISStruct (L : layout) (marker : bool)
| ISEnum (vs : list (string * layout)).

Definition has_marker (ir : type_ir) : bool :=
  match ti_unused ir with [] => false | _ => true end.

Definition sig_of_ir (ir : type_ir) : item_sig :=
  match ti_kind ir with
  | KStruct c => ISStruct (layout_of_ckind (ci_kind c)) (has_marker ir)
  | KEnum _ _ vs => ISEnum (map (fun x => (ci_name (snd x), layout_of_ckind (ci_kind (snd x)))) vs)
  end.

(** without a generated item: the layout the registry definition dictates *)
Definition field_label (f : field) : string := match f_name f with Some n => n | None => "" end.

Definition layout_of_fields (fs : list field) : option layout :=
  match fs with
  | [] => Some LUnit
  | _ => if all_named fs then Some (LNamed (map field_label fs))
         else if all_unnamed fs then Some (LUnnamed (List.length fs))
         else None
  end.

(** the [Cow<T>] arm *)
Definition cow_inner (t : ty) : option N :=
  match path_ident (t_path t), t_params t with
  | Some "Cow", p0 :: _ => tp_ty p0
  | _, _ => None
  end.

(** ** literals *)
Definition alnum (c : ascii) : bool := is_alpha c || is_digit c.

Definition unsigned_lit (suffix : string) (bits : N) (ts rest : tokens) : Prop :=
  exists n : N, n < 2 ^ bits /\ ts = lit_u suffix n :: rest.

Definition signed_lit (suffix : string) (bits : N) (ts rest : tokens) : Prop :=
  exists z : Z, (- Z.of_N (2 ^ (bits - 1)) <= z < Z.of_N (2 ^ (bits - 1)))%Z /\ ts = lit_i suffix z ++ rest.

Definition bytes32_lit (ts rest : tokens) : Prop :=
  exists b : list N, List.length b = 32%nat /\ Forall (fun n => n < 256) b /\ ts = u256_tokens b ++ rest.

Definition prim_lit (p : prim) (ts rest : tokens) : Prop :=
  match p with
  | PBool => ts = "true" :: rest \/ ts = "false" :: rest
  | PChar => exists c : ascii, alnum c = true /\ ts = quote_with "'" (String c "") :: rest
  | PStr => exists x : string, all_chars alnum x = true /\
                               ts = quote_with """" x :: "." :: "into" :: "(" :: ")" :: rest
  | PU8 => unsigned_lit "u8" 8 ts rest
  | PU16 => unsigned_lit "u16" 16 ts rest
  | PU32 => unsigned_lit "u32" 32 ts rest
  | PU64 => unsigned_lit "u64" 64 ts rest
  | PU128 => unsigned_lit "u128" 128 ts rest
  | PI8 => signed_lit "i8" 8 ts rest
  | PI16 => signed_lit "i16" 16 ts rest
  | PI32 => signed_lit "i32" 32 ts rest
  | PI64 => signed_lit "i64" 64 ts rest
  | PI128 => signed_lit "i128" 128 ts rest
  | PU256 | PI256 => bytes32_lit ts rest
  end.

(** ** field lists, tuples, element lists -- generic in the relation [C] on ids *)
Section Shapes.
  Variable C : N -> tokens -> tokens -> Prop.

  Inductive conf_value (f : field) : tokens -> tokens -> Prop :=
  | cv_plain ts rest :
      explicit_compact f = false -> C (f_ty f) ts rest -> conf_value f ts rest
  | cv_compact ts rest :
      explicit_compact f = true -> C (f_ty f) ts (")" :: rest) ->
      conf_value f ("Compact" :: "(" :: ts) rest.

  (** [n1 : v1 , n2 : v2 ,] -- the names are the ITEM's, the types the registry fields' *)
  Inductive conf_named : list string -> list field -> tokens -> tokens -> Prop :=
  | cn_nil rest : conf_named [] [] rest rest
  | cn_cons n ns f fs ts mid rest :
      conf_value f ts ("," :: mid) -> conf_named ns fs mid rest ->
      conf_named (n :: ns) (f :: fs) (n :: ":" :: ts) rest.

  (** [v1 , v2 ,] with exactly the item's arity *)
  Inductive conf_unnamed : nat -> list field -> tokens -> tokens -> Prop :=
  | cu_nil rest : conf_unnamed 0 [] rest rest
  | cu_cons k f fs ts mid rest :
      conf_value f ts ("," :: mid) -> conf_unnamed k fs mid rest ->
      conf_unnamed (S k) (f :: fs) ts rest.

  Definition named_marker (mk : bool) : tokens := if mk then "__ignore" :: ":" :: marker_path else [].
  Definition unnamed_marker (mk : bool) : tokens := if mk then marker_path else [].

  Inductive conf_shape : layout -> bool -> list field -> tokens -> tokens -> Prop :=
  | cs_unit rest : conf_shape LUnit false [] rest rest
  | cs_unit_marker rest : conf_shape LUnit true [] ("(" :: marker_path ++ ")" :: rest) rest
  | cs_named ns mk fs ts rest :
      conf_named ns fs ts (named_marker mk ++ "}" :: rest) ->
      conf_shape (LNamed ns) mk fs ("{" :: ts) rest
  | cs_unnamed k mk fs ts rest :
      conf_unnamed k fs ts (unnamed_marker mk ++ ")" :: rest) ->
      conf_shape (LUnnamed k) mk fs ("(" :: ts) rest.

  (** [e , e , e] : exactly [n] instances of [e], commas between them *)
  Inductive conf_sep (e : N) : N -> tokens -> tokens -> Prop :=
  | sep_0 rest : conf_sep e 0 rest rest
  | sep_1 ts rest : C e ts rest -> conf_sep e 1 ts rest
  | sep_S n ts mid rest :
      0 < n -> C e ts ("," :: mid) -> conf_sep e n mid rest -> conf_sep e (N.succ n) ts rest.

  (** [e1 , e2 ,] : every element followed by a comma *)
  Inductive conf_tuple : list N -> tokens -> tokens -> Prop :=
  | ct_nil rest : conf_tuple [] rest rest
  | ct_cons i l ts mid rest :
      C i ts ("," :: mid) -> conf_tuple l mid rest -> conf_tuple (i :: l) ts rest.
End Shapes.

(** ** which generated types are [Copy]
    A repeat expression [[ e ; n ]] with [n >= 2] is a value of [[T; n]] only if [T : Copy].
    [copy_ty r fuel id]: the type generated for [id] is [Copy] --
    - a primitive other than [str] (printed [String]);
    - an array (of ANY length: [[T; N] : Copy] whenever [T : Copy]) of a copy type;
    - a tuple of copy types (the empty tuple included);
    - a Compact entry of a copy type (transparent in expressions);
    - Composite / Variant / Sequence / BitSequence: NO.  Generated structs and enums do not derive
      [Copy] by default (user-configured derives are ignored: conservative, the explicit list is
      always a value); [Vec] and [DecodedBits] are not [Copy].
    A definition on the registry only; it does NOT mention the implementation's heuristic
    ([type_def_is_copy], modelled by [Model.ExampleRust.is_copy], which additionally refuses arrays
    longer than 32 -- a subset, see [Proofs.ConformsProofs.is_copy_copy_ty]).
    [fuel] bounds the descent; out of fuel = [false].  [copy_tyb] uses the number of entries + 1
    (a chain of distinct ids is at most that long; a cycle is not a type). *)
Fixpoint copy_ty (r : registry) (fuel : nat) (id : N) : bool :=
  match fuel with
  | O => false
  | S fuel' =>
      match lookup r id with
      | None => false
      | Some t =>
          match t_def t with
          | TDPrimitive p => match p with PStr => false | _ => true end
          | TDArray _ e => copy_ty r fuel' e
          | TDTuple l => forallb (copy_ty r fuel') l
          | TDCompact e => copy_ty r fuel' e
          | TDComposite _ | TDVariant _ | TDSequence _ | TDBitSeq _ _ => false
          end
      end
  end.

Definition copy_tyb (r : registry) (id : N) : bool := copy_ty r (S (List.length r)) id.

(** the repeat form [[ e ; <len>usize ]] is admissible for an array of [len] elements of type [e] *)
Definition repeat_ok (r : registry) (len e : N) : Prop := len <= 1 \/ copy_tyb r e = true.
Definition repeat_okb (r : registry) (len e : N) : bool := (len <=? 1) || copy_tyb r e.

Section Conforms.
  Variable r : registry.
  Variable s : settings.
  Variable m : items.     (* the generated items: [generate r s _ = Ok m] *)

  Inductive conforms : N -> tokens -> tokens -> Prop :=
  | c_prim id t p ts rest :
      lookup r id = Some t -> t_def t = TDPrimitive p -> prim_lit p ts rest -> conforms id ts rest
  | c_compact id t e ts rest :
      lookup r id = Some t -> t_def t = TDCompact e -> conforms e ts rest -> conforms id ts rest
  | c_bits id t st o rest :
      lookup r id = Some t -> t_def t = TDBitSeq st o -> conforms id (bits_example ++ rest) rest
  | c_seq id t e n ts rest :
      lookup r id = Some t -> t_def t = TDSequence e ->
      conf_sep conforms e n ts ("]" :: rest) ->
      conforms id ("vec" :: "!" :: "[" :: ts) rest
  | c_array_repeat id t len e ts rest :
      lookup r id = Some t -> t_def t = TDArray len e ->
      repeat_ok r len e ->      (* [len <= 1] or the element type is [Copy] *)
      conforms e ts (";" :: lit_u "usize" len :: "]" :: rest) ->
      conforms id ("[" :: ts) rest
  | c_array_list id t len e ts rest :
      lookup r id = Some t -> t_def t = TDArray len e ->
      conf_sep conforms e len ts ("]" :: rest) ->
      conforms id ("[" :: ts) rest
  | c_tuple id t l ts rest :
      lookup r id = Some t -> t_def t = TDTuple l ->
      conf_tuple conforms l ts (")" :: rest) ->
      conforms id ("(" :: ts) rest
  | c_cow id t fs inner ts rest :
      lookup r id = Some t -> t_def t = TDComposite fs -> cow_inner t = Some inner ->
      conforms inner ts rest -> conforms id ts rest
  | c_struct_item id t fs p id0 ir L mk ts rest :
      lookup r id = Some t -> t_def t = TDComposite fs -> cow_inner t = None ->
      item_eligible s t = true ->
      path_omit_generics r s id = Ok p ->
      items_get m (t_path t) = Some (id0, ir) -> sig_of_ir ir = ISStruct L mk ->
      conf_shape conforms L mk fs ts rest ->
      conforms id (p ++ ts) rest
  | c_struct_foreign id t fs p L mk ts rest :
      lookup r id = Some t -> t_def t = TDComposite fs -> cow_inner t = None ->
      item_eligible s t = false ->
      path_omit_generics r s id = Ok p ->
      layout_of_fields fs = Some L ->
      conf_shape conforms L mk fs ts rest ->
      conforms id (p ++ ts) rest
  | c_variant_item id t vs v p id0 ir sigs L ts rest :
      lookup r id = Some t -> t_def t = TDVariant vs -> In v vs ->
      item_eligible s t = true ->
      path_omit_generics r s id = Ok p ->
      items_get m (t_path t) = Some (id0, ir) -> sig_of_ir ir = ISEnum sigs ->
      In (v_name v, L) sigs ->
      conf_shape conforms L false (v_fields v) ts rest ->
      conforms id (p ++ ":" :: ":" :: v_name v :: ts) rest
  | c_variant_foreign id t vs v p L ts rest :
      lookup r id = Some t -> t_def t = TDVariant vs -> In v vs ->
      item_eligible s t = false ->
      path_omit_generics r s id = Ok p ->
      layout_of_fields (v_fields v) = Some L ->
      conf_shape conforms L false (v_fields v) ts rest ->
      conforms id (p ++ ":" :: ":" :: v_name v :: ts) rest
  | c_none id t vs v rest :
      lookup r id = Some t -> t_def t = TDVariant vs -> In v vs ->
      v_name v = "None" -> v_fields v = [] ->
      path_omit_generics r s id = Ok ["Option"] ->
      conforms id ("None" :: rest) rest.

  (** ** a boolean reader for the relation *)
  Definition expect (x : string) (ts : tokens) : option tokens :=
    match ts with t :: rest => if String.eqb t x then Some rest else None | [] => None end.

  Fixpoint expects (xs : list string) (ts : tokens) : option tokens :=
    match xs with
    | [] => Some ts
    | x :: xs' => match expect x ts with Some rest => expects xs' rest | None => None end
    end.

  (** the value of the leading decimal digits *)
  Fixpoint digits_value (x : string) (acc : N) : N :=
    match x with
    | EmptyString => acc
    | String c x' => if is_digit c then digits_value x' (acc * 10 + (N_of_ascii c - 48)) else acc
    end.

  Definition read_unsigned (suffix : string) (bits : N) (ts : tokens) : option tokens :=
    match ts with
    | t :: rest =>
        let n := digits_value t 0 in
        if String.eqb t (lit_u suffix n) && (n <? 2 ^ bits) then Some rest else None
    | [] => None
    end.

  Definition read_signed (suffix : string) (bits : N) (ts : tokens) : option tokens :=
    let z := match ts with
             | t :: rest =>
                 if String.eqb t "-"
                 then match rest with t' :: _ => (- Z.of_N (digits_value t' 0))%Z | [] => 0%Z end
                 else Z.of_N (digits_value t 0)
             | [] => 0%Z
             end in
    if (- Z.of_N (2 ^ (bits - 1)) <=? z)%Z && (z <? Z.of_N (2 ^ (bits - 1)))%Z
    then expects (lit_i suffix z) ts else None.

  Fixpoint string_removelast (x : string) : string :=
    match x with
    | EmptyString => EmptyString
    | String c EmptyString => EmptyString
    | String c x' => String c (string_removelast x')
    end.

  Fixpoint every_other (l : tokens) : tokens :=
    match l with
    | a :: _ :: l' => a :: every_other l'
    | [a] => [a]
    | [] => []
    end.

  Definition read_bytes32 (ts : tokens) : option tokens :=
    let b := map (fun t => digits_value t 0) (every_other (firstn 63 (tl ts))) in
    if Nat.eqb (List.length b) 32 && forallb (fun n => n <? 256) b
    then expects (u256_tokens b) ts else None.

  Definition read_prim (p : prim) (ts : tokens) : option tokens :=
    match p with
    | PBool => match expect "true" ts with Some rest => Some rest | None => expect "false" ts end
    | PChar =>
        match ts with
        | t :: rest =>
            match t with
            | String _ (String c _) =>
                if alnum c && String.eqb t (quote_with "'" (String c "")) then Some rest else None
            | _ => None
            end
        | [] => None
        end
    | PStr =>
        match ts with
        | t :: rest =>
            let x := match t with String _ x' => string_removelast x' | EmptyString => EmptyString end in
            if all_chars alnum x && String.eqb t (quote_with """" x)
            then expects ["."; "into"; "("; ")"] rest else None
        | [] => None
        end
    | PU8 => read_unsigned "u8" 8 ts
    | PU16 => read_unsigned "u16" 16 ts
    | PU32 => read_unsigned "u32" 32 ts
    | PU64 => read_unsigned "u64" 64 ts
    | PU128 => read_unsigned "u128" 128 ts
    | PI8 => read_signed "i8" 8 ts
    | PI16 => read_signed "i16" 16 ts
    | PI32 => read_signed "i32" 32 ts
    | PI64 => read_signed "i64" 64 ts
    | PI128 => read_signed "i128" 128 ts
    | PU256 | PI256 => read_bytes32 ts
    end.

  Section Readers.
    Variable C : N -> tokens -> option tokens.

    Definition read_value (f : field) (ts : tokens) : option tokens :=
      if explicit_compact f
      then match expects ["Compact"; "("] ts with
           | Some t1 => match C (f_ty f) t1 with Some t2 => expect ")" t2 | None => None end
           | None => None
           end
      else C (f_ty f) ts.

    Fixpoint read_named (ns : list string) (fs : list field) (ts : tokens) : option tokens :=
      match ns, fs with
      | [], [] => Some ts
      | n :: ns', f :: fs' =>
          match expects [n; ":"] ts with
          | Some t1 =>
              match read_value f t1 with
              | Some t2 => match expect "," t2 with Some t3 => read_named ns' fs' t3 | None => None end
              | None => None
              end
          | None => None
          end
      | _, _ => None
      end.

    Fixpoint read_unnamed (k : nat) (fs : list field) (ts : tokens) : option tokens :=
      match k, fs with
      | O, [] => Some ts
      | S k', f :: fs' =>
          match read_value f ts with
          | Some t2 => match expect "," t2 with Some t3 => read_unnamed k' fs' t3 | None => None end
          | None => None
          end
      | _, _ => None
      end.

    (** [mk = None]: the marker is optional (no generated item) *)
    Definition read_close (with_marker : tokens) (close : string) (mk : option bool) (ts : tokens)
      : option tokens :=
      match mk with
      | Some true => expects (with_marker ++ [close]) ts
      | Some false => expect close ts
      | None => match expects (with_marker ++ [close]) ts with
                | Some rest => Some rest
                | None => expect close ts
                end
      end.

    Definition read_shape (L : layout) (mk : option bool) (fs : list field) (ts : tokens)
      : option tokens :=
      match L with
      | LUnit =>
          match fs with
          | [] =>
              match mk with
              | Some true => expects ("(" :: marker_path ++ [")"]) ts
              | Some false => Some ts
              | None => match expects ("(" :: marker_path ++ [")"]) ts with
                        | Some rest => Some rest
                        | None => Some ts
                        end
              end
          | _ => None
          end
      | LNamed ns =>
          match expect "{" ts with
          | Some t1 => match read_named ns fs t1 with
                       | Some t2 => read_close ("__ignore" :: ":" :: marker_path) "}" mk t2
                       | None => None
                       end
          | None => None
          end
      | LUnnamed k =>
          match expect "(" ts with
          | Some t1 => match read_unnamed k fs t1 with
                       | Some t2 => read_close marker_path ")" mk t2
                       | None => None
                       end
          | None => None
          end
      end.

    (** [e (, e)*]: returns the number of elements added to [n] and the rest *)
    Fixpoint read_sep (fuel : nat) (e : N) (ts : tokens) (n : N) : option (N * tokens) :=
      match fuel with
      | O => None
      | S fuel' =>
          match C e ts with
          | Some t1 => match expect "," t1 with
                       | Some t2 => read_sep fuel' e t2 (n + 1)
                       | None => Some (n + 1, t1)
                       end
          | None => None
          end
      end.

    Fixpoint read_tuple (l : list N) (ts : tokens) : option tokens :=
      match l with
      | [] => Some ts
      | i :: l' =>
          match C i ts with
          | Some t1 => match expect "," t1 with Some t2 => read_tuple l' t2 | None => None end
          | None => None
          end
      end.
  End Readers.

  Definition is_none_variant (v : variant) : bool :=
    String.eqb (v_name v) "None" && match v_fields v with [] => true | _ => false end.

  Fixpoint conf_ir (fuel : nat) (id : N) (ts : tokens) : option tokens :=
    match fuel with
    | O => None
    | S fuel' =>
        let C := conf_ir fuel' in
        match lookup r id with
        | None => None
        | Some t =>
            match t_def t with
            | TDPrimitive p => read_prim p ts
            | TDCompact e => C e ts
            | TDBitSeq _ _ => expects bits_example ts
            | TDSequence e =>
                match expects ["vec"; "!"; "["] ts with
                | Some t1 =>
                    match expect "]" t1 with
                    | Some rest => Some rest
                    | None =>
                        match read_sep C (S (List.length t1)) e t1 0 with
                        | Some (_, t2) => expect "]" t2
                        | None => None
                        end
                    end
                | None => None
                end
            | TDArray len e =>
                match expect "[" ts with
                | Some t1 =>
                    match expect "]" t1 with
                    | Some rest => if len =? 0 then Some rest else None
                    | None =>
                        match C e t1 with
                        | Some t2 =>
                            match expect ";" t2 with
                            | Some t3 =>
                                if repeat_okb r len e then expects [lit_u "usize" len; "]"] t3 else None
                            | None =>
                                match expect "," t2 with
                                | Some t3 =>
                                    match read_sep C (S (List.length t3)) e t3 0 with
                                    | Some (k, t4) => if N.succ k =? len then expect "]" t4 else None
                                    | None => None
                                    end
                                | None => if len =? 1 then expect "]" t2 else None
                                end
                            end
                        | None => None
                        end
                    end
                | None => None
                end
            | TDTuple l =>
                match expect "(" ts with
                | Some t1 => match read_tuple C l t1 with Some t2 => expect ")" t2 | None => None end
                | None => None
                end
            | TDComposite fs =>
                match cow_inner t with
                | Some inner => C inner ts
                | None =>
                    match path_omit_generics r s id with
                    | Ok p =>
                        match expects p ts with
                        | Some t1 =>
                            if item_eligible s t then
                              match items_get m (t_path t) with
                              | Some (_, ir) =>
                                  match sig_of_ir ir with
                                  | ISStruct L mk => read_shape C L (Some mk) fs t1
                                  | ISEnum _ => None
                                  end
                              | None => None
                              end
                            else
                              match layout_of_fields fs with
                              | Some L => read_shape C L None fs t1
                              | None => None
                              end
                        | None => None
                        end
                    | _ => None
                    end
                end
            | TDVariant vs =>
                match path_omit_generics r s id with
                | Ok p =>
                    let general :=
                      match expects p ts with
                      | Some t1 =>
                          match expects [":"; ":"] t1 with
                          | Some (vn :: t2) =>
                              match find (fun v => String.eqb (v_name v) vn) vs with
                              | Some v =>
                                  if item_eligible s t then
                                    match items_get m (t_path t) with
                                    | Some (_, ir) =>
                                        match sig_of_ir ir with
                                        | ISEnum sigs =>
                                            match find (fun x => String.eqb (fst x) vn) sigs with
                                            | Some (_, L) => read_shape C L (Some false) (v_fields v) t2
                                            | None => None
                                            end
                                        | ISStruct _ _ => None
                                        end
                                    | None => None
                                    end
                                  else
                                    match layout_of_fields (v_fields v) with
                                    | Some L => read_shape C L (Some false) (v_fields v) t2
                                    | None => None
                                    end
                              | None => None
                              end
                          | _ => None
                          end
                      | None => None
                      end in
                    if list_eqb String.eqb p ["Option"] && existsb is_none_variant vs
                    then match expect "None" ts with Some rest => Some rest | None => general end
                    else general
                | _ => None
                end
            end
        end
    end.

  Definition conf_fuel (ts : tokens) : nat := S (List.length ts + 2 * List.length r).

  (** the whole token list is one instance of [id] *)
  Definition conforms_irb (id : N) (ts : tokens) : bool :=
    match conf_ir (conf_fuel ts) id ts with
    | Some [] => true
    | _ => false
    end.
End Conforms.
