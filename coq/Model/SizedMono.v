(** DESIGN 3.1 clause 9 ("sized": every cycle of the FULL type graph passes through a Sequence, a
    field whose recorded type name the generator boxes, or a heap prelude collection) as a
    decidable check: the MONOMORPHIC by-value graph on registry ids, without the cut at generic
    parameters of Model/SizedReg.v.

    Edges  id -> id' :
    - an item-eligible struct / enum entry: the types of its fields with [is_boxed_gen f = false];
    - any other struct / enum entry (prelude, substituted): an entry named [Cow] its first
      parameter; otherwise its parameters when the printed path holds them by value
      ([args_by_value]: [Option], [Result], [Range], [RangeInclusive] and pass-through substitutes
      by one of these), none otherwise (heap collections, [NonZero*], other substitutes);
    - tuple, array, compact: the components;
    - sequence, bit sequence, primitive: none.

    This graph sees the cycle of  Holder<T> { v: T },  B { a: Holder<B> }  (entry [Holder<B>] has
    the field type [B]); [by_value_acyclicb] (generic parameters opaque) does not.  Definitions and
    the decision theorem (Proofs/RankGraph.v) only: no theorem relates [mono_acyclicb] to the
    generated code (that needs the instantiation semantics of generated generic items). *)
From Coq Require Import List NArith String Bool.
From V Require Import Base.Util Base.Strings Base.Result Model.Registry Model.Settings Model.Subst
  Model.TypePath Model.Derives Model.Generate Model.WellFormed Model.Shape Model.Sized Model.SizedReg.
Import ListNotations.
Open Scope string_scope. Open Scope list_scope. Open Scope nat_scope.

Definition mono_succs (r : registry) (s : settings) (t : ty) : list N :=
  match t_def t with
  | TDComposite _ | TDVariant _ =>
      if item_eligible s t
      then flat_map (fun f => if is_boxed_gen f then [] else [f_ty f]) (def_fields (t_def t))
      else if is_cow_name (path_ident (t_path t))
           then match t_params t with
                | p0 :: _ => match tp_ty p0 with Some i => [i] | None => [] end
                | [] => []
                end
           else if args_by_value s (t_path t) then param_ids t else []
  | TDArray _ e => [e]
  | TDCompact e => [e]
  | TDTuple es => es
  | TDSequence _ | TDPrimitive _ | TDBitSeq _ _ => []
  end.

(** node keys of Proofs/RankGraph.v are lists of strings: an id is the one-element list of its
    decimal digits *)
Definition id_key (i : N) : list string := [N_to_string i].

Definition mono_graph (r : registry) (s : settings) : list (list string * list (list string)) :=
  map (fun e => (id_key (fst e), map id_key (mono_succs r s (snd e)))) r.

Definition mono_edge (r : registry) (s : settings) (a b : N) : Prop :=
  exists t, In (a, t) r /\ In b (mono_succs r s t).

Definition mono_acyclicb (r : registry) (s : settings) : bool :=
  let g := mono_graph r s in
  let tab := rank_iter (List.length g) g [] in
  rank_okb g (tab_get tab).
