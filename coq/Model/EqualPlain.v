(** [types_equal] on the class where it is plain structural recursion (C03
    [equal_sound_partial]): no type parameter in scope on either side and no id reached twice
    on either side.  [teq_plain] is [teq] (Model/Equal.v) with the [GenericsList] removed and
    the two visited-set shortcuts turned into a marker outcome: it answers [Panic "revisit"]
    when either id was already visited and [Panic "type parameter in scope"] when either type
    has a non-skipped type parameter, so that "[types_equal_plain r a b = Ok v]" is a decidable
    description of the class.  Also: the part of a shape that [types_equal] looks at
    ([shape_core]) and the witnesses of the refutations.  Definitions only; proofs in
    Proofs/EqualSound.v. *)
From Coq Require Import List NArith String Bool.
From V Require Import Base.Strings Base.Result Model.Registry Model.Settings Model.Subst
  Model.Derives Model.Equal Model.Shape.
Import ListNotations.
Open Scope string_scope. Open Scope list_scope.

Definition no_params (t : ty) : bool := match param_ids t with [] => true | _ => false end.

Definition plain_compare_fields (recurse : N -> N -> vstate -> result (bool * vstate))
  (fa fb : field) (st : vstate) : result (bool * vstate) :=
  if negb (opt_str_eqb (f_name fa) (f_name fb)) then Ok (false, st)
  else recurse (f_ty fa) (f_ty fb) st.

Definition plain_fields_equal (recurse : N -> N -> vstate -> result (bool * vstate))
  (fa fb : list field) (st : vstate) : result (bool * vstate) :=
  if negb (Nat.eqb (List.length fa) (List.length fb)) then Ok (false, st)
  else all2 (plain_compare_fields recurse) fa fb st.

Definition plain_def (recurse : N -> N -> vstate -> result (bool * vstate))
  (ta tb : ty) (st : vstate) : result (bool * vstate) :=
  match t_def ta, t_def tb with
  | TDComposite fa, TDComposite fb => plain_fields_equal recurse fa fb st
  | TDVariant va, TDVariant vb =>
      if negb (Nat.eqb (List.length va) (List.length vb)) then Ok (false, st)
      else all2 (fun x y st =>
                   if String.eqb (v_name x) (v_name y) && N.eqb (v_index x) (v_index y)
                   then plain_fields_equal recurse (v_fields x) (v_fields y) st
                   else Ok (false, st)) va vb st
  | TDSequence x, TDSequence y => recurse x y st
  | TDArray la x, TDArray lb y => if N.eqb la lb then recurse x y st else Ok (false, st)
  | TDTuple xs, TDTuple ys =>
      if negb (Nat.eqb (List.length xs) (List.length ys)) then Ok (false, st)
      else all2 recurse xs ys st
  | TDPrimitive p, TDPrimitive q => Ok (prim_eqb p q, st)
  | TDCompact x, TDCompact y => recurse x y st
  | TDBitSeq sa oa, TDBitSeq sb ob =>
      let* o := recurse oa ob st in
      let* s' := recurse sa sb (snd o) in
      Ok (fst o && fst s', snd s')
  | _, _ => Ok (false, st)
  end.

Section Plain.
  Variable r : registry.

  Fixpoint teq_plain (fuel : nat) (a b : N) (st : vstate) : result (bool * vstate) :=
    match fuel with
    | O => Err EOutOfFuel
    | S fuel' =>
      if N.eqb a b then Ok (true, st)
      else if mem_N a (fst st) || mem_N b (snd st) then Panic "revisit"
      else
        let st := (a :: fst st, b :: snd st) in
        match resolve r a, resolve r b with
        | None, _ => Panic "type a should exist in registry"
        | _, None => Panic "type b should exist in registry"
        | Some ta, Some tb =>
          if negb (no_params ta && no_params tb) then Panic "type parameter in scope"
          else if negb (path_eqb (t_path ta) (t_path tb)) then Ok (false, st)
          else plain_def (teq_plain fuel') ta tb st
        end
    end.

  Definition types_equal_plain (a b : N) : result bool :=
    let* x := teq_plain (S (S (List.length r))) a b ([], []) in Ok (fst x).
End Plain.

(** ** the class, declaratively.  [unfold_ids r fuel a]: the ids met when the definition of [a]
    is unfolded along struct / variant fields, element types, tuple members, compact inner types
    and bit-sequence store / order, in depth-first order, WITH repetitions *)
Definition teq_children (r : registry) (a : N) : list N :=
  match resolve r a with Some t => def_ids (t_def t) | None => [] end.

Fixpoint unfold_ids (r : registry) (fuel : nat) (a : N) : list N :=
  match fuel with
  | O => [a]
  | S f => a :: flat_map (unfold_ids r f) (teq_children r a)
  end.

Definition plain_fuel (r : registry) : nat := S (S (List.length r)).

(** no id is reached twice from [a] (no sharing, no recursion) *)
Definition tree_like (r : registry) (a : N) : Prop := NoDup (unfold_ids r (plain_fuel r) a).

(** every type reached from [a] has no non-skipped type parameter *)
Definition no_params_reachable (r : registry) (a : N) : Prop :=
  forall x t, In x (unfold_ids r (plain_fuel r) a) -> resolve r x = Some t -> param_ids t = [].

(** the part of a shape that [types_equal] compares: the [Box] flag of a field (read off the
    recorded type name, which the comparison ignores outside generics) is forgotten.  Variant
    indices are kept: since the F19 repair they are compared. *)
Fixpoint shape_core (x : shape) : shape :=
  match x with
  | SPrim p => SPrim p
  | SCompact y => SCompact (shape_core y)
  | SSeq y => SSeq (shape_core y)
  | SArr n y => SArr n (shape_core y)
  | STuple l => STuple (map shape_core l)
  | SBits a b => SBits (shape_core a) (shape_core b)
  | SStruct fs => SStruct (map (fun f : fshape => let '(n, _, y) := f in (n, false, shape_core y)) fs)
  | SEnum vs =>
      SEnum (map (fun v : string * N * list fshape =>
                    let '(n, i, fs) := v in
                    (n, i, map (fun f : fshape => let '(m, _, y) := f in (m, false, shape_core y)) fs)) vs)
  | SOpaque h args => SOpaque h (map shape_core args)
  | SCut => SCut
  end.

(** ** witnesses *)
Definition plain_settings : settings :=
  mk_settings "root" false dreg_empty [] None None None false AStd.

Definition fld (t : N) : field := mk_field None t None [].
Definition fldn (n : string) (t : N) (tn : option string) : field := mk_field (Some n) t tn [].
Definition prim_ty (p : prim) : ty := mk_ty [] [] (TDPrimitive p) [].
Definition option_ty (inner : N) : ty :=
  mk_ty ["Option"] [mk_tparam "T" (Some inner)]
        (TDVariant [mk_variant "None" [] 0 []; mk_variant "Some" [fld inner] 1 []]) [].

(** corpus/families/F03_same_id_coincidence.json: Header<T = u8, U = u16> and
    Header<T = u8, U = i64>, both with the fields [String; 2] and Option<(u16, bool)> *)
Definition f03_reg : registry :=
  [ (0%N, mk_ty ["a"; "Header"] [mk_tparam "T" (Some 1%N); mk_tparam "U" (Some 2%N)]
              (TDComposite [mk_field None 3%N (Some "[String; 2]") [];
                            mk_field None 5%N (Some "Option<(u16, bool)>") []]) []);
    (1%N, prim_ty PU8); (2%N, prim_ty PU16);
    (3%N, mk_ty [] [] (TDArray 2 4%N) []); (4%N, prim_ty PStr);
    (5%N, option_ty 6%N);
    (6%N, mk_ty [] [] (TDTuple [2%N; 7%N]) []); (7%N, prim_ty PBool);
    (8%N, mk_ty ["a"; "Header"] [mk_tparam "T" (Some 1%N); mk_tparam "U" (Some 9%N)]
              (TDComposite [mk_field None 3%N (Some "[String; 2]") [];
                            mk_field None 5%N (Some "Option<(u16, bool)>") []]) []);
    (9%N, prim_ty PI64) ].

(** corpus/families/F14_nested_generic_explains.json: Header<char, Vec<u8>> { Option<i32> } and
    Header<i64, u8> { Option<u8> } *)
Definition f14_reg : registry :=
  [ (0%N, mk_ty ["a"; "Header"] [mk_tparam "T" (Some 1%N); mk_tparam "U" (Some 2%N)]
              (TDComposite [fld 4%N]) []);
    (1%N, prim_ty PChar); (2%N, mk_ty [] [] (TDSequence 3%N) []); (3%N, prim_ty PU8);
    (4%N, option_ty 5%N); (5%N, prim_ty PI32);
    (6%N, mk_ty ["a"; "Header"] [mk_tparam "T" (Some 7%N); mk_tparam "U" (Some 3%N)]
              (TDComposite [fld 8%N]) []);
    (7%N, prim_ty PI64); (8%N, option_ty 3%N);
    (9%N, mk_ty ["a"; "Header"] [mk_tparam "T" (Some 3%N); mk_tparam "U" (Some 3%N)]
              (TDComposite [fld 8%N]) []);
    (10%N, mk_ty ["a"; "Header"] [mk_tparam "T" (Some 7%N); mk_tparam "U" (Some 3%N)]
               (TDComposite [fld 8%N]) []) ].

(** both-visited shortcut, no generics at all: Foo { x: X, y: Y, z: X } and
    Foo { x: X', y: Y', z: Y' } with X = X' = struct(u8), Y = Y' = struct(u16) *)
Definition revisit_reg : registry :=
  [ (0%N, mk_ty ["a"; "Foo"] [] (TDComposite [fldn "x" 2%N None; fldn "y" 3%N None; fldn "z" 2%N None]) []);
    (1%N, mk_ty ["a"; "Foo"] [] (TDComposite [fldn "x" 4%N None; fldn "y" 5%N None; fldn "z" 5%N None]) []);
    (2%N, mk_ty ["b"; "X"] [] (TDComposite [fld 6%N]) []);
    (3%N, mk_ty ["b"; "Y"] [] (TDComposite [fld 7%N]) []);
    (4%N, mk_ty ["b"; "X"] [] (TDComposite [fld 6%N]) []);
    (5%N, mk_ty ["b"; "Y"] [] (TDComposite [fld 7%N]) []);
    (6%N, prim_ty PU8); (7%N, prim_ty PU16) ].

(** regression witness of finding F19 (repaired): before the repair variant indices were never
    compared and E { A = 0, B = 1 } was judged equal to E { A = 1, B = 0 } *)
Definition index_reg : registry :=
  [ (0%N, mk_ty ["a"; "E"] [] (TDVariant [mk_variant "A" [] 0 []; mk_variant "B" [fld 2%N] 1 []]) []);
    (1%N, mk_ty ["a"; "E"] [] (TDVariant [mk_variant "A" [] 1 []; mk_variant "B" [fld 2%N] 0 []]) []);
    (2%N, prim_ty PU8) ].

(** inside the plain class recorded type names are ignored (S { x: Box<u8> } against S { x: u8 }) *)
Definition boxed_reg : registry :=
  [ (0%N, mk_ty ["a"; "S"] [] (TDComposite [fldn "x" 2%N (Some "Box<u8>")]) []);
    (1%N, mk_ty ["a"; "S"] [] (TDComposite [fldn "x" 3%N (Some "u8")]) []);
    (2%N, prim_ty PU8); (3%N, prim_ty PU8) ].

(** a member of the plain class on which the answer is [true]: two versions of a crate *)
Definition plain_example_reg : registry :=
  [ (0%N, mk_ty ["a"; "Foo"] [] (TDComposite [fldn "x" 2%N None; fldn "y" 3%N None]) []);
    (1%N, mk_ty ["a"; "Foo"] [] (TDComposite [fldn "x" 4%N None; fldn "y" 5%N None]) []);
    (2%N, mk_ty ["b"; "X"] [] (TDVariant [mk_variant "A" [fld 6%N] 0 []]) []);
    (3%N, mk_ty [] [] (TDSequence 7%N) []);
    (4%N, mk_ty ["b"; "X"] [] (TDVariant [mk_variant "A" [fld 8%N] 0 []]) []);
    (5%N, mk_ty [] [] (TDSequence 9%N) []);
    (6%N, prim_ty PU8); (7%N, prim_ty PU16); (8%N, prim_ty PU8); (9%N, prim_ty PU16) ].
